import sys, json, importlib
sys.path.insert(0,'/verif')
from sa import core
repo = sys.argv[1]; mod, fn = sys.argv[2].rsplit('.',1)
prog, cleanup = core.build_program(repo=repo)
try:
    m = importlib.import_module('sa.rules.'+mod)
    r = getattr(m, fn)(prog)
    print(json.dumps(r.counts)[:1500])
    print(r.obligations, 'obligations', r.nontrivial, 'nontrivial', 'floors', r.floors)
    for s in r.samples: print('  ', s)
    for v in r.violations: print('VIOL', v.line())
finally:
    cleanup()
