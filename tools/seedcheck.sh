#!/bin/bash
# usage: seedcheck.sh <patch.diff> <prop> [<prop> ...]   -- run checks with the patch applied to /repo, then undo
P=$(readlink -f "$1"); shift
cd /repo && git diff --quiet || { echo "/repo has uncommitted tracked changes"; exit 2; }
git -C /repo apply "$P" || exit 2
for p in "$@"; do (cd /verif && ./check $p; echo "exit=$? ($p)"); done
git -C /repo checkout -q -- .
