#!/usr/bin/env python3
"""keepseed.py <prop> <k> <newid> <caught_by> -- copy a confirmed seeded change into /verif/seeded/<newid>/ with meta.json
(the 'needs' text is taken from the agent's README first paragraph unless given as 5th argument)"""
import json, os, shutil, sys, re, subprocess
prop, k, newid, caught = sys.argv[1:5]
needs = sys.argv[5] if len(sys.argv) > 5 else ""
src = "/tmp/seedout/%s/%s" % (prop, k)
if "_" in prop:
    prop = prop.split("_", 1)[1]          # wave directories are named w4_C01 ...
dst = "/verif/seeded/%s" % newid
os.makedirs(dst, exist_ok=True)
for fn in os.listdir(src):
    p = os.path.join(src, fn)
    if os.path.isfile(p) and os.path.getsize(p) < 200000 and not os.access(p, os.X_OK) or fn == "run.sh":
        shutil.copy(p, os.path.join(dst, fn))
head = subprocess.run(["git", "-C", "/repo", "rev-parse", "--short", "HEAD"], capture_output=True, text=True).stdout.strip()
meta = {"id": newid, "property": prop, "origin": "independent sub-agent given only the property text and a scratch worktree",
        "needs_to_manifest": needs,
        "confirmed": {"by": "tools/confirm_seed.sh in a fresh scratch worktree of /repo HEAD " + head,
                      "results": "demo passes on clean tree; with patch: make ok, make check 20/20 PASS, demo fails"},
        "checks_run": "tools/seedcheck.sh patch.diff " + prop, "caught_by": caught}
json.dump(meta, open(os.path.join(dst, "meta.json"), "w"), indent=1)
print("kept", dst)
