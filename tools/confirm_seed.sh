#!/bin/bash
# usage: confirm_seed.sh <seed dir with patch.diff + run.sh> <scratch worktree (built, clean)>
# Confirms: demo passes without the change; with it: compiles, make check 20/20, demo fails.
S=$(readlink -f "$1"); W=$(readlink -f "$2")
cd "$W" || exit 2
git checkout -q -- . && make -j16 >/dev/null 2>&1 || { echo "clean build failed"; exit 2; }
( cd "$S" && bash ./run.sh "$W" ) >/tmp/confirm.$$.clean 2>&1; c0=$?
git apply "$S/patch.diff" || { echo "patch does not apply"; exit 2; }
make -j16 >/tmp/confirm.$$.make 2>&1; mk=$?
np=$(make check 2>&1 | grep -c '^PASS:')
( cd "$S" && bash ./run.sh "$W" ) >/tmp/confirm.$$.mut 2>&1; c1=$?
git checkout -q -- . && make -j16 >/dev/null 2>&1
echo "demo_clean_exit=$c0 make_exit=$mk tests_pass=$np demo_mutant_exit=$c1"
rm -f /tmp/confirm.$$.*
[ $c0 -eq 0 ] && [ $mk -eq 0 ] && [ "$np" -eq 20 ] && [ $c1 -ne 0 ] && { echo CONFIRMED; exit 0; }
echo NOT-CONFIRMED; exit 1
