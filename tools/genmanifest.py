#!/usr/bin/env python3
"""Regenerate /verif/MANIFEST.json from sa/props.py (claimed) and the NA table below."""
import json, os, sys, subprocess
sys.path.insert(0, "/verif")
from sa import props
NA = {
 "C03": "truth of 'the LP has a finite optimum / is empty / is unbounded' is a fact about the input's mathematics and needs an independent exact solver as oracle; no shape of the code implies it (static analysis cannot bound the runtime values involved)",
 "C04": "equality of answers across solver configurations is a relation between runs over runtime values; the only structural mechanism (parameter transfer) is not a necessary condition of C04 and is claimed under C16 instead",
 "C06": "model conformance of the sparse column store over unbounded edit histories is functional correctness over runtime heap contents; the shape-level clauses that exist (index guards, growth bookkeeping) are necessary conditions of C07/C17 and are claimed there",
 "C15": "metamorphic relation between the answers to two different inputs; depends on numerical results, nothing in the code's shape decides it",
}
PENDING = "static check not built yet (planned in DESIGN.md section 5); not claimed until it exists"
ids = [json.loads(l)["id"] for l in open("/verif/properties.jsonl")]
fixes = subprocess.run(["git", "-C", "/repo", "log", "--format=%h %s", "c02ca17..HEAD"], capture_output=True, text=True).stdout.strip().splitlines()
m = {"version": 1, "setup_cmd": "make -C sa",
     "hooks": {"guard": "JONLS_QSOPT_EX_VERIF", "enable": "none needed: the analysis parses /repo's sources (shadow instantiation of the templates from Makefile.am) and compiles nothing into the library",
               "baseline_off_cmd": "cd /repo && make -j16 >/dev/null 2>&1 && make check", "source_commits": [], "add_only": True},
     "engines": [{"name": "qsa", "path": "sa/", "serves_properties": sorted(props.PROPS),
                  "kind_free_text": "clang-14 libTooling exporter (type-resolved AST + clang::CFG per function, one JSON per unit) + Python rules: path-sensitive set-of-tuples dataflow, dominance/guard analysis, call-graph effects, table agreement"}],
     "checks": [], "not_applicable": [],
     "notes": "Static analysis only; every check rebuilds a shadow tree from /repo's current working tree. Exit 2 = analysis broken (anchor vanished, floor not met, fixture misbehaved). Unguarded fix commits in /repo: " + "; ".join(f for f in fixes if " fix:" in f)}
for pid in ids:
    if pid in props.PROPS:
        sp = props.PROPS[pid]
        m["checks"].append({"property_id": pid, "quick_cmd": "./check %s --tier quick" % pid, "thorough_cmd": "./check %s --tier thorough" % pid,
                            "evidence_file": "evidence/%s.json" % pid, "replay_cmd_template": "./check --replay {path}", "engine": "qsa",
                            "level_claimed": {"category": "other", "text": sp["level_text"], "design_ref": sp.get("design_ref", "DESIGN.md section 5 (%s)" % pid)},
                            "level_note": sp["level_note"], "technique": sp["technique"]})
    else:
        m["not_applicable"].append({"property_id": pid, "reason": NA.get(pid, PENDING)})
json.dump(m, open("/verif/MANIFEST.json", "w"), indent=1)
print(len(m["checks"]), "claimed;", len(m["not_applicable"]), "not applicable/pending")
