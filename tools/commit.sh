#!/bin/bash
# usage: commit.sh <message>   -- run every quick check (in parallel); commit /verif only if all of them exit 0
cd /verif || exit 2
PROPS="C01 C02 C05 C07 C08 C09 C10 C11 C12 C13 C14 C16 C17 C18 C19 C20"
T=$(mktemp -d /var/tmp/qsa-ci-XXXX)
for p in $PROPS; do ( ./check $p > $T/$p.log 2>&1; echo $? > $T/$p.rc ) & 
  while [ $(jobs -r | wc -l) -ge 6 ]; do sleep 0.5; done
done
wait
bad=""
for p in $PROPS; do [ "$(cat $T/$p.rc)" = 0 ] || bad="$bad $p"; done
if [ -n "$bad" ]; then echo "NOT COMMITTED: failing checks:$bad"; for p in $bad; do grep -v "^KNOWN\|^R-[A-Z()a-z-]*: " $T/$p.log | head -5 | cut -c1-300; done; rm -rf $T; exit 1; fi
rm -rf $T
git add -A && git commit -qm "$1" && echo "committed: $1"
