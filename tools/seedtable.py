#!/usr/bin/env python3
"""seedtable.py -- regenerate the table of seeded changes in DESIGN.md (between the SEEDTABLE markers) from seeded/*/meta.json"""
import json, glob, os, re
rows = []
caught = missed = 0
for mp in sorted(glob.glob('/verif/seeded/*/meta.json')):
    m = json.load(open(mp))
    cb = m.get('caught_by', '')
    if cb.startswith('MISSED'):
        missed += 1
        cb = 'missed' + (cb[6:] if len(cb) > 6 else ' (value-dependent behaviour, see not_decided of the property)')
    else:
        caught += 1
    if m.get('superseded'):
        cb += ' — superseded by a /repo fix (control skipped)'
    rows.append('| %s | %s |' % (m['id'], cb.replace('|', '/')))
head = ('%d changes are kept; %d are reported by a check, %d are not.\n\n| seeded change | reported by |\n|---|---|\n' % (len(rows), caught, missed))
table = head + '\n'.join(rows) + '\n'
p = '/verif/DESIGN.md'
s = open(p).read()
a, b = '<!-- SEEDTABLE-BEGIN -->', '<!-- SEEDTABLE-END -->'
if a in s:
    s = s[:s.index(a) + len(a)] + '\n' + table + s[s.index(b):]
    open(p, 'w').write(s)
print(head.split('\n')[0])
