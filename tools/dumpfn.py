#!/usr/bin/env python3
"""dumpfn.py <function> [repo]  -- print the exported CFG of one function (debug aid)"""
import sys, json
sys.path.insert(0, '/verif')
from sa import core
prog, cleanup = core.build_program(repo=sys.argv[2] if len(sys.argv) > 2 else '/repo')
try:
    for f in prog.funcs.values():
        if f.name == sys.argv[1]:
            print(f.key, f.loc, 'entry', f.entry, 'exit', f.exit, 'params', f.params)
            print('locals', f.locals)
            for bid in sorted(f.blocks, reverse=True):
                b = f.blocks[bid]
                print('B%d' % bid, {k: v for k, v in b.items() if k not in ('e', 'id')}, 'LIVE' if bid in (f.live or ()) else 'dead')
                for e in b['e']:
                    print('    ', e[0], core.show(e[1]) if e[0] != 'D' else e[1], core.short_loc(e[2]) if len(e) > 2 else '')
finally:
    cleanup()
