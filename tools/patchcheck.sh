#!/bin/bash
# usage: patchcheck.sh <patch.diff> [prop ...]   -- run the checks (default: all claimed) on a scratch copy of /repo's
# working tree with the patch applied; /repo and /verif/evidence are not touched.  Prints one line per property.
P=$(readlink -f "$1"); shift
PROPS=${@:-C01 C02 C05 C07 C08 C09 C10 C11 C12 C13 C14 C16 C17 C18 C19 C20}
T=$(mktemp -d /var/tmp/qsa-pc-XXXXXX)
trap 'rm -rf "$T"' EXIT
mkdir -p "$T/repo" "$T/log"
( cd /repo && git ls-files -z | grep -zE '\.(c|h|am|ac|in)$|^[^/]*$' | xargs -0 cp --parents -t "$T/repo" 2>/dev/null )
( cd "$T/repo" && patch -p1 --batch --silent -i "$P" ) || { echo "PATCH-DOES-NOT-APPLY $P"; exit 3; }
cd /verif
for p in $PROPS; do
  ( VERIF_REPO="$T/repo" VERIF_NO_EVIDENCE=1 VERIF_OUT="$T/out" ./check $p --tier quick > "$T/log/$p" 2>&1; echo $? > "$T/log/$p.exit" ) &
done
wait
rc=0
for p in $PROPS; do
  e=$(cat "$T/log/$p.exit")
  if [ "$e" != 0 ]; then rc=1; echo "== $p exit=$e"; grep -vE '^(R-[A-Z0-9]+: |KNOWN-FINDING|OK )' "$T/log/$p" | grep -v '^VIOLATION' | cut -c1-400 | head -${PC_LINES:-12}; fi
done
[ $rc = 0 ] && echo "ALL-SILENT ($PROPS)"
exit $rc
