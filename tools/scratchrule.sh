#!/bin/bash
# usage: scratchrule.sh <patch.diff> <module.function>  -- run one rule on a scratch copy of /repo with the patch applied
P=$(readlink -f "$1"); R=$2
T=$(mktemp -d /var/tmp/qsa-sr-XXXXXX)
trap 'rm -rf "$T"' EXIT
mkdir -p "$T/repo"
( cd /repo && git ls-files -z | grep -zE '\.(c|h|am|ac|in)$|^[^/]*$' | xargs -0 cp --parents -t "$T/repo" 2>/dev/null )
( cd "$T/repo" && patch -p1 --batch --silent -i "$P" ) || { echo "PATCH-DOES-NOT-APPLY"; exit 3; }
cd /verif && python3 tools/runrule.py "$T/repo" "$R"
