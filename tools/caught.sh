#!/bin/bash
# usage: caught.sh <patch.diff>  -- one line: which properties' checks report the change, and through which rules
out=$(PC_LINES=40 /verif/tools/patchcheck.sh "$1" 2>&1)
echo "$out" | awk '/^== C[0-9]+ exit=/{p=$2} /^R-[A-Z0-9]+ /{r[p]=r[p] " " $1} /^ALL-SILENT/{print "none"} END{for(p in r){n=split(r[p],a," "); delete s; o=""; for(i=1;i<=n;i++) if(!(a[i] in s)){s[a[i]]=1;o=o (o?",":"") a[i]}; printf "%s(%s) ", p, o}; print ""}'
