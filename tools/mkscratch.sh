#!/bin/bash
# usage: mkscratch.sh <dir>   -- scratch git worktree of /repo HEAD, configured and built (outside /repo and /verif)
set -e
D=$1
[ -n "$D" ] || { echo "usage: $0 <dir>"; exit 2; }
git -C /repo worktree add --detach "$D" HEAD >/dev/null 2>&1
cd "$D"
( ./bootstrap || autoreconf -fi ) >/dev/null 2>&1
./configure -q >/dev/null 2>&1
make -j16 >/dev/null 2>&1
echo "built $D"
