#include <stdio.h>
#include "QSopt_ex.h"
int main(){ QSexactStart(); int bad=0;
 mpq_QSprob p=mpq_QScreate_prob("t",QS_MAX); mpq_t one,z,h,v; mpq_init(one);mpq_init(z);mpq_init(h);mpq_init(v); mpq_set_ui(one,1,1); mpq_set_ui(h,100,1);
 mpq_QSnew_col(p,one,z,h,"x"); mpq_QSnew_col(p,one,z,h,"y"); int ind[2]={0,1}; mpq_t val[2]; mpq_init(val[0]);mpq_init(val[1]); mpq_set_ui(val[0],1,1);mpq_set_ui(val[1],1,1);
 mpq_set_ui(v,4,1); mpq_QSadd_row(p,2,ind,val,&v,'L',"r0"); mpq_set_ui(v,3,1); mpq_QSadd_row(p,1,ind,val,&v,'L',"r1");
 mpq_QSset_param(p,QS_PARAM_SIMPLEX_MAX_ITERATIONS,7); mpq_set_ui(v,77,1); mpq_QSset_param_EGlpNum(p,QS_PARAM_OBJULIM,v);
 int st; mpq_QSopt_dual(p,&st);
 mpq_QSprob q=mpq_QScopy_prob(p,"copy"); int it=-1; mpq_QSget_param(q,QS_PARAM_SIMPLEX_MAX_ITERATIONS,&it); mpq_t u; mpq_init(u); mpq_QSget_param_EGlpNum(q,QS_PARAM_OBJULIM,&u);
 gmp_printf("copy: MAX_ITERATIONS=%d (original 7) OBJULIM=%Qd (original 77)\n",it,u); if(it!=7||mpq_cmp_ui(u,77,1)) bad|=1;
 mpq_QSfree_prob(q);                       /* releases the norm arrays it shares with p */
 mpq_set_ui(v,2,1); mpq_QSchange_objcoef(p,0,v); mpq_QSopt_dual(p,&st); mpq_t o; mpq_init(o); mpq_QSget_objval(p,&o); gmp_printf("original re-solved after freeing the copy: status=%d obj=%Qd\n",st,o);
 mpq_QSfree_prob(p); printf("bad=%d\n",bad); return bad; }
