/* replay of R-NEVERSET finding: ILLlp_basis::rownorms_size is read by ILLlib_addrows (twice) and never written anywhere.
 * After a dual simplex solve with steepest-edge pricing (default) the basis carries row norms; QSadd_row then branches on
 * the uninitialised field: valgrind "Conditional jump or move depends on uninitialised value(s)"; with a large garbage
 * value the norms array is not grown and ILLprice_get_new_rownorms writes past it. */
#include <stdio.h>
#include <stdlib.h>
#include <gmp.h>
#include "QSopt_ex.h"
int main(void)
{
	int rval, status, k;
	QSexactStart();
	mpq_QSprob p = mpq_QScreate_prob("t", QS_MAX);
	mpq_t one, four, three, zero, hund;
	mpq_init(one); mpq_init(four); mpq_init(three); mpq_init(zero); mpq_init(hund);
	mpq_set_ui(one,1,1); mpq_set_ui(four,4,1); mpq_set_ui(three,3,1); mpq_set_ui(hund,100,1);
	mpq_QSnew_col(p, one, zero, hund, "x");
	mpq_QSnew_col(p, one, zero, hund, "y");
	int ind[2] = {0,1}; mpq_t val[2]; mpq_init(val[0]); mpq_init(val[1]); mpq_set_ui(val[0],1,1); mpq_set_ui(val[1],1,1);
	mpq_QSadd_row(p, 2, ind, val, four, 'L', "c1");
	mpq_QSadd_row(p, 1, ind, val, three, 'L', "c2");
	rval = mpq_QSopt_dual(p, &status);
	printf("solve rval=%d status=%d\n", rval, status);
	for (k = 0; k < 3; k++) {
		mpq_set_ui(val[1], 2 + k, 1);
		rval = mpq_QSadd_row(p, 2, ind, val, hund, 'L', NULL);
		printf("add_row rval=%d\n", rval);
		rval = mpq_QSopt_dual(p, &status);
		printf("solve rval=%d status=%d\n", rval, status);
	}
	mpq_QSfree_prob(p);
	QSexactClear();
	return 0;
}
