/* Pre-existing defect (unchanged tree): multiple partial pricing on a problem
 * whose pricing set is empty (primal: no non-basic variable, i.e. no structural
 * column).  Public API calls only.
 *   ./repro      primal case: out-of-bounds reads and an integer division by zero
 *   ./repro d    dual analogue with no row: does NOT reproduce (the solve returns
 *                before the pricing is initialised); kept for reference */
#include <stdio.h>
#include <stdlib.h>
#include <gmp.h>
#include "QSopt_ex.h"

int main (int argc, char **argv)
{
	int dual = (argc > 1 && argv[1][0] == 'd');
	int rval, status = 0;
	mpq_t v, lo, up;
	mpq_QSprob p;

	QSexactStart ();
	mpq_init (v); mpq_init (lo); mpq_init (up);
	p = mpq_QScreate_prob ("empty", QS_MIN);
	if (!dual)
	{
		/* one row 0 >= 1, no column: primal phase I with nnbasic == 0 */
		mpq_set_si (v, 1, 1);
		rval = mpq_QSnew_row (p, v, 'G', "r0");
		printf ("new_row %d\n", rval);
		rval = mpq_QSset_param (p, QS_PARAM_PRIMAL_PRICING, QS_PRICE_PMULTPARTIAL);
		printf ("set_param %d\n", rval);
		rval = mpq_QSopt_primal (p, &status);
		printf ("opt_primal rval %d status %d\n", rval, status);
	}
	else
	{
		/* one column with a negative cost and an upper bound, no row: nrows == 0 */
		mpq_set_si (v, -1, 1); mpq_set_si (lo, 0, 1); mpq_set_si (up, 5, 1);
		rval = mpq_QSnew_col (p, v, lo, up, "x0");
		printf ("new_col %d\n", rval);
		rval = mpq_QSset_param (p, QS_PARAM_DUAL_PRICING, QS_PRICE_DMULTPARTIAL);
		printf ("set_param %d\n", rval);
		rval = mpq_QSopt_dual (p, &status);
		printf ("opt_dual rval %d status %d\n", rval, status);
	}
	mpq_QSfree_prob (p);
	mpq_clear (v); mpq_clear (lo); mpq_clear (up);
	QSexactClear ();
	return 0;
}
