/* replay of R-NODEFREE finding: QSerror_memory_free releases the recorded error nodes but not the description and the copy of the
 * offending line hanging off each node.  valgrind --leak-check=full: "definitely lost", allocated in ILLformat_error_create from
 * ILLadd_error_to_memory. */
#include <stdio.h>
#include <stdlib.h>
#include <string.h>
#include <gmp.h>
#include "QSopt_ex.h"
static const char *text = "Minimize\n obj: x + y\nSubject To\n c1: x + + y >= 2\n c2: x - y <= ]\nEnd\n";
static const char *cur;
static char *rd(char *s, int size, void *src) { (void) src; int n = 0; if (!*cur) return NULL; while (*cur && n < size - 1) { s[n++] = *cur; if (*cur++ == '\n') break; } s[n] = 0; return s; }
int main(void)
{
	QSexactStart();
	mpq_QSerror_memory mem = mpq_QSerror_memory_create(1);
	mpq_QSerror_collector col = mpq_QSerror_memory_collector_new(mem);
	cur = text;
	mpq_QSline_reader r = mpq_QSline_reader_new((void *) rd, NULL);
	mpq_QSline_reader_set_error_collector(r, col);
	mpq_QSprob p = mpq_QSget_prob(r, "bad", "LP");
	printf("problem %s, %d errors recorded\n", p ? "read" : "rejected", mpq_QSerror_memory_get_nerrors(mem));
	if (p) mpq_QSfree_prob(p);
	mpq_QSline_reader_free(r);
	mpq_QSerror_collector_free(col);
	mpq_QSerror_memory_free(mem);
	QSexactClear();
	return 0;
}
