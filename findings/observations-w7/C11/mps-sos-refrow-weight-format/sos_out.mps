NAME    sos1
OBJSENSE
  MIN
OBJNAME
  obj
REFROW
 ref
ROWS
 N  obj
 N  ref
 G  c1
COLUMNS
 S1 SOS0qs    'MARKER'    'SOSORG'
  x    obj    1
  x    c1    1
  x    ref    5
  y    obj    2
  y    c1    1
  y    ref    7
 SOS1qs       'MARKER'    'SOSEND'
  z    obj    1
  z    c1    1
RHS
 RHS    c1    1
ENDATA
