/* Pre-existing defect (unchanged tree): an MPS file with an SOS set whose
 * weights come from a REFROW that is an unused N row is read fine, but the MPS
 * writer prints the weights with "%g" and an mpq_t argument
 * (qsopt_ex/mps.c:1201-1202).  The written file carries garbage weights
 * (here "0"), and reading it back fails.
 *
 * build: gcc -g -I$W -I$W/qsopt_ex repro.c $W/.libs/libqsopt_ex.a \
 *            -lgmp -lz -lbz2 -lm -lpthread -o repro
 * run:   ./repro      (exit 0 = round trip ok, exit 1 = defect)
 *        valgrind ./repro   additionally reports "Conditional jump or move
 *        depends on uninitialised value(s)" inside vsnprintf called from
 *        mpq_ILLwrite_mps (mps_mpq.c:1202)
 */
#include <stdio.h>
#include <stdlib.h>
#include <string.h>
#include "QSopt_ex.h"

int main (void)
{
	mpq_QSprob p, q;
	FILE *o;
	char line[256];
	int rval, bad = 0;

	QSexactStart ();
	p = mpq_QSread_prob ("sos.mps", "MPS");
	if (!p) { printf ("first read failed\n"); return 2; }
	o = fopen ("sos_out.mps", "w");
	rval = mpq_QSwrite_prob_file (p, o, "MPS");
	fclose (o);
	printf ("write rval=%d\n", rval);
	mpq_QSfree_prob (p);

	o = fopen ("sos_out.mps", "r");
	while (fgets (line, sizeof (line), o))
		if (strstr (line, " ref "))
			printf ("written: %s", line);	/* expected "x ref 5" / "y ref 7" */
	fclose (o);

	q = mpq_QSread_prob ("sos_out.mps", "MPS");
	printf ("re-read: %s\n", q ? "ok" : "NULL");
	if (!q) bad = 1;
	else mpq_QSfree_prob (q);
	QSexactClear ();
	return bad;
}
