NAME sos1
REFROW
 ref
ROWS
 N obj
 N ref
 G c1
COLUMNS
 S1 SOS1 'MARKER' 'SOSORG'
 x obj 1 c1 1
 x ref 5
 y obj 2 c1 1
 y ref 7
 SOS2 'MARKER' 'SOSEND'
 z obj 1 c1 1
RHS
 RHS c1 1
ENDATA
