/* Pre-existing behaviour (unchanged tree): in an LP file a second sign (or a
 * lone '.') in front of a variable is taken for the number 0, silently.
 *   c1: x + + y >= 1      is read as   c1: x + 0 y >= 1
 *   c2: x - - y <= 3      is read as   c2: x + 0 y <= 3
 *   c3: x + . y >= 0      is read as   c3: x + 0 y >= 0
 * No error, no warning; the returned problem is not the one in the file.
 *
 * build: gcc -g -I$W -I$W/qsopt_ex repro.c $W/.libs/libqsopt_ex.a \
 *            -lgmp -lz -lbz2 -lm -lpthread -o repro
 * run:   ./repro     exit 0 = y kept its coefficients, exit 1 = defect
 */
#include <stdio.h>
#include <stdlib.h>
#include <string.h>
#include "QSopt_ex.h"

int main (void)
{
	const char *text =
		"Minimize\n obj: x + y\nSubject To\n"
		" c1: x + + y >= 1\n c2: x - - y <= 3\n c3: x + . y >= 0\nEnd\n";
	FILE *f = fopen ("signs.lp", "w");
	mpq_QSprob p;
	int *cnt = 0, *ind = 0, ycol = -1, bad = 0, k;
	mpq_t *val = 0;
	int collist[1];

	fputs (text, f);
	fclose (f);
	QSexactStart ();
	p = mpq_QSread_prob ("signs.lp", "LP");
	if (!p) { printf ("rejected (clean failure)\n"); return 0; }
	mpq_QSget_column_index (p, "y", &ycol);
	collist[0] = ycol;
	mpq_QSget_columns_list (p, 1, collist, &cnt, NULL, &ind, &val, NULL, NULL, NULL, NULL);
	printf ("y has %d entries:", cnt[0]);
	for (k = 0; k < cnt[0]; k++)
	{
		printf (" row%d=%g", ind[k], mpq_get_d (val[k]));
		if (mpq_sgn (val[k]) == 0) bad = 1;
	}
	printf ("\n");
	if (cnt[0] != 3) bad = 1;
	mpq_QSfree_prob (p);
	QSexactClear ();
	return bad;
}
