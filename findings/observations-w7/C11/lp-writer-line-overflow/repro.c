/* Pre-existing defect (unchanged tree): writing a problem in LP format
 * overflows the fixed 128 KiB line buffer of the LP writer.
 *
 * The input below is a 65 111 byte LP file (< 64 KiB): four objective terms,
 * each with the coefficient "1e9999/1e-9999" (= 10^19998, a 19 999 digit
 * integer; both exponents have 4 digits) and a 13 000 character variable name.
 * The reader accepts it.  write_objective() (qsopt_ex/lp.c:314-352) puts at
 * least four terms on one line before it looks at the line length, so the
 * line becomes 4 * (19 999 + 13 000) + ... > 131 072 characters, and
 * ILLwrite_lp_state_append*() (qsopt_ex/write_lp.c:69-82, 150-161) sprintf()
 * them into  char buf[ILL_namebufsize]  (qsopt_ex/write_lp.h:44) on the stack
 * without any bound.
 *
 * build:  gcc -g -I$W -I$W/qsopt_ex repro.c $W/.libs/libqsopt_ex.a \
 *             -lgmp -lz -lbz2 -lm -lpthread -o repro
 * run:    ./repro            (expected: "written, rval=0"; observed: SIGSEGV)
 */
#include <stdio.h>
#include <stdlib.h>
#include <string.h>
#include "QSopt_ex.h"

int main (void)
{
	const char *fname = "overflow.lp";
	const int NAMELEN = 13000;
	FILE *f = fopen (fname, "w"), *o;
	mpq_QSprob p;
	int i, k, rval;

	fprintf (f, "Minimize\n obj: ");
	for (i = 0; i < 4; i++)
	{
		fprintf (f, "%s1e9999/1e-9999 ", i ? " + " : "");
		for (k = 0; k < NAMELEN; k++)
			fputc ('a' + i, f);
	}
	fprintf (f, "\nSubject To\n c1: ");
	for (k = 0; k < NAMELEN; k++)
		fputc ('a', f);
	fprintf (f, " >= 1\nEnd\n");
	printf ("input size: %ld bytes\n", ftell (f));
	fclose (f);

	QSexactStart ();
	p = mpq_QSread_prob (fname, "LP");
	if (!p)
	{
		printf ("reader rejected the file (clean failure)\n");
		QSexactClear ();
		return 0;
	}
	printf ("read ok: %d rows, %d cols\n", mpq_QSget_rowcount (p), mpq_QSget_colcount (p));
	fflush (stdout);
	o = fopen ("/dev/null", "w");
	rval = mpq_QSwrite_prob_file (p, o, "LP");	/* crashes here */
	printf ("written, rval=%d\n", rval);
	fclose (o);
	mpq_QSfree_prob (p);
	QSexactClear ();
	return 0;
}
