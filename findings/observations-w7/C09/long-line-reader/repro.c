/* The writers put a number of any length on one line, but the MPS reader
 * takes a line in pieces of ILL_namebufsize-2 = 131070 characters: a
 * coefficient with 140000 digits is written and cannot be read back.
 * Public API only.
 *   exit 0: MPS output read back;  exit 1: MPS output rejected. */
#include <stdio.h>
#include <stdlib.h>
#include <string.h>
#include "qsopt_ex/QSopt_ex.h"

int main (void)
{
	mpq_QSprob p, q;
	mpq_t obj, lo, big, rhs;
	int ind[1] = { 0 };
	char *digits = malloc (140001);

	QSexactStart ();
	memset (digits, '7', 140000);
	digits[140000] = 0;
	mpq_init (obj);
	mpq_init (lo);
	mpq_init (big);
	mpq_init (rhs);
	mpq_set_str (big, digits, 10);
	mpq_set_si (obj, 1, 1);
	mpq_set_si (rhs, 5, 1);
	p = mpq_QScreate_prob ("big", QS_MIN);
	mpq_QSnew_col (p, obj, lo, mpq_ILL_MAXDOUBLE, "x");
	mpq_QSadd_row (p, 1, ind, (const mpq_t *) &big, (const mpq_t *) &rhs, 'G',
								 "r1");
	if (mpq_QSwrite_prob (p, "out.mps", "MPS"))
		return 2;
	q = mpq_QSread_prob ("out.mps", "MPS");
	printf ("MPS output %s\n", q ? "read back" : "REJECTED by the reader");
	return q ? 0 : 1;
}
