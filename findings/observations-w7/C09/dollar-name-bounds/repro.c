/* A column whose name starts with '$' (a legal LP-format name character) and
 * that has a non-default bound: the MPS text written for it is rejected by
 * the MPS reader.  Public API only.
 *   exit 0: MPS output read back;  exit 1: MPS output rejected. */
#include <stdio.h>
#include "qsopt_ex/QSopt_ex.h"

static const char *lp_text =
	"Minimize\n obj: $x + y\nSubject To\n c1: $x + y >= 2\nBounds\n $x <= 4\nEnd\n";

int main (void)
{
	FILE *f = fopen ("in.lp", "w");
	mpq_QSprob p, q;

	fputs (lp_text, f);
	fclose (f);
	QSexactStart ();
	p = mpq_QSread_prob ("in.lp", "LP");
	if (!p)
		return 2;
	if (mpq_QSwrite_prob (p, "out.mps", "MPS"))
		return 2;
	q = mpq_QSread_prob ("out.mps", "MPS");
	printf ("MPS output %s\n", q ? "read back" : "REJECTED by the reader");
	return q ? 0 : 1;
}
