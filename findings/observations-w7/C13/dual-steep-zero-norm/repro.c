/* mpq_QSopt_dual (default dual steepest-edge pricing) divides by zero on this LP.
 * Public API only.  Build:
 *   cc -o repro repro.c -I<tree> -I<tree>/qsopt_ex <tree>/.libs/libqsopt_ex.a -lgmp -lz -lbz2 -lm -lpthread
 * usage: ./repro [iteration-limit [dual-pricing [scaling]]]
 */
#include <stdio.h>
#include <stdlib.h>
#include <gmp.h>
#include "QSopt_ex.h"
#include "inst.h"

int main (int argc, char **argv)
{
	mpq_QSprob p;
	mpq_t v, lo, up, val[NC];
	int i, j, ind[NC], status = 0, rval;

	QSexactStart ();
	p = mpq_QScreate_prob ("t", QS_MIN);
	mpq_init (v); mpq_init (lo); mpq_init (up);
	for (j = 0; j < NC; j++) mpq_init (val[j]);
	for (j = 0; j < NC; j++)
	{
		mpq_set_si (v, obj[j], 1);
		mpq_set_si (lo, 0, 1);
		mpq_set_si (up, upper[j], 1);
		mpq_QSnew_col (p, v, lo, upper[j] < 0 ? mpq_ILL_MAXDOUBLE : up, NULL);
	}
	for (i = 0; i < NR; i++)
	{
		int cnt = 0;

		for (j = 0; j < NC; j++)
			if (A[i][j]) { ind[cnt] = j; mpq_set_si (val[cnt], A[i][j], 1); cnt++; }
		mpq_set_si (v, rhs[i], 1);
		mpq_QSadd_row (p, cnt, ind, val, &v, sense[i], NULL);
	}
	if (argc > 1) mpq_QSset_param (p, QS_PARAM_SIMPLEX_MAX_ITERATIONS, atoi (argv[1]));
	if (argc > 2) mpq_QSset_param (p, QS_PARAM_DUAL_PRICING, atoi (argv[2]));
	if (argc > 3) mpq_QSset_param (p, QS_PARAM_SIMPLEX_SCALING, atoi (argv[3]));
	rval = mpq_QSopt_dual (p, &status);
	printf ("mpq_QSopt_dual: rval %d status %d\n", rval, status);
	mpq_QSfree_prob (p);
	QSexactClear ();
	return 0;
}
