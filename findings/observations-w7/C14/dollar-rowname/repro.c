/* A row whose name starts with '$' (a legal LP-format name, kept unchanged by
 * the LP writer and reader) makes the basis file unreadable: the writer emits
 * " XL x $cap", the reader takes "$cap" for an MPS comment.
 * exit 0: round trip worked; exit 1: defect observed. */
#include <stdio.h>
#include <stdlib.h>
#include <string.h>
#include <gmp.h>
#include "qsopt_ex/QSopt_ex.h"

int main (int argc, char **argv)
{
	const char *dir = argc > 1 ? argv[1] : ".";
	char lpf[512], bas[512], line[256];
	FILE *f;
	mpq_QSprob p, q;
	QSbasis *B = 0, *B2 = 0;
	int status = 0, rval = 0, i;
	char **rn;

	snprintf (lpf, sizeof lpf, "%s/dollar.lp", dir);
	snprintf (bas, sizeof bas, "%s/dollar.bas", dir);
	f = fopen (lpf, "w");
	fprintf (f, "Maximize\n obj: x + y\nSubject To\n $cap: x + 2 y <= 4\n"
					 " lim: x - y <= 1\nEnd\n");
	fclose (f);

	QSexactStart ();
	p = mpq_QSread_prob (lpf, "LP");
	if (!p) { printf ("LP with a $-name rejected: the name needs repair, no defect\n"); return 0; }
	rn = malloc (2 * sizeof (char *));
	mpq_QSget_rownames (p, rn);
	printf ("row names as read from the LP file: %s %s\n", rn[0], rn[1]);
	if (mpq_QSopt_primal (p, &status) || status != QS_LP_OPTIMAL) { printf ("solve failed\n"); return 2; }
	B = mpq_QSget_basis (p);
	printf ("optimal basis: cstat=%.2s rstat=%.2s\n", B->cstat, B->rstat);
	if (mpq_QSwrite_basis (p, 0, bas)) { printf ("write failed\n"); return 2; }
	f = fopen (bas, "r");
	while (fgets (line, sizeof line, f)) printf ("  | %s", line);
	fclose (f);
	B2 = mpq_QSread_basis (p, bas);
	if (!B2) { printf ("DEFECT: QSread_basis cannot read the file QSwrite_basis just wrote\n"); rval = 1; }
	else
	{
		printf ("read back: cstat=%.2s rstat=%.2s\n", B2->cstat, B2->rstat);
		if (memcmp (B->cstat, B2->cstat, 2) || memcmp (B->rstat, B2->rstat, 2)) { printf ("DEFECT: another basis\n"); rval = 1; }
	}
	/* the name itself survives an LP write/read, i.e. it needs no repair */
	snprintf (lpf, sizeof lpf, "%s/dollar2.lp", dir);
	mpq_QSwrite_prob (p, lpf, "LP");
	q = mpq_QSread_prob (lpf, "LP");
	if (q) { mpq_QSget_row_index (q, "$cap", &i); printf ("after LP write/read the row \"$cap\" has index %d\n", i); mpq_QSfree_prob (q); }
	return rval;
}
