#!/bin/sh
# sh repro.sh <worktree>     (unchanged tree)
# the same LP, objective written on one physical line (about 220 kB) or wrapped
W=${1:?worktree}
D=$(cd "$(dirname "$0")" && pwd)
E=$W/esolver/esolver
cd "$D" || exit 2
python3 - <<'EOP'
n = 16000
terms = [f"{1000+i} x{i}" for i in range(n)]
tail = "\nSubject To\n c1: x0 + x1 >= 2\nBounds\n" + "".join(f" 1 <= x{i}\n" for i in range(n)) + "End\n"
open("oneline.lp", "w").write("Minimize\n obj: " + " + ".join(terms) + tail)
open("wrapped.lp", "w").write("Minimize\n obj: " + "\n + ".join(terms) + tail)
print("expected optimum", sum(1000 + i for i in range(n)))
EOP
for f in wrapped oneline; do
	rm -f $f.sol
	"$E" -O $f.sol $f.lp > $f.log 2>&1
	echo "$f.lp: exit $?  $(sed -n 3p $f.sol 2>/dev/null)"
done
grep -B1 -A12 'LP Error' oneline.log | tr -d '\n' | cut -c1-200; echo
