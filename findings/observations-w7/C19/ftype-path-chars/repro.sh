#!/bin/sh
# sh repro.sh <worktree>     (unchanged tree)
# esolver on a readable LP file whose path contains a space or a byte >= 0x80
W=${1:?worktree}
D=$(cd "$(dirname "$0")" && pwd)
E=$W/esolver/esolver
cd "$D" || exit 2
cp prob.lp plain.lp
cp prob.lp "with space.lp"
cp prob.lp "$(printf 'caf\303\251.lp')"
mkdir -p "a dir"; cp prob.lp "a dir/p.lp"
for f in plain.lp "with space.lp" "a dir/p.lp" "$(printf 'caf\303\251.lp')"; do
	rm -f out.sol
	"$E" -O out.sol "$f" > run.log 2>&1
	echo "'$f': exit $?  $(head -1 out.sol 2>/dev/null)  $(grep -h 'EXIT:\|Could not read' run.log | head -1)"
done
"$E" -L -O out.sol "with space.lp" > run.log 2>&1; echo "'with space.lp' with -L: exit $?"
# upper-case compression suffix: known to get_ftype, unknown to EGioOpen
gzip -c prob.lp > up.lp.GZ; gzip -c prob.lp > low.lp.gz
for f in low.lp.gz up.lp.GZ; do
	rm -f out.sol
	"$E" -O out.sol "$f" > run.log 2>&1
	echo "'$f': exit $?  $(head -1 out.sol 2>/dev/null)"
done
# the helper itself, public in eg_io.h
cat > np.c <<'EOC'
#include <stdio.h>
#include <string.h>
#include "QSopt_ex.h"
int main (void)
{
	char buf[64], *argv[8]; int argc = 0, i;
	strcpy (buf, "my model.lp");
	EGioNParse (buf, 8, ".", " ", &argc, argv);
	printf ("\"my model.lp\": %d token(s):", argc);
	for (i = 0; i < argc; i++) printf (" [%s]", argv[i]);
	printf ("\n");
	strcpy (buf, "caf\303\251.lp");
	EGioNParse (buf, 8, ".", " ", &argc, argv);   /* exits the process */
	printf ("not reached on x86-64/gcc: %d tokens\n", argc);
	return 0;
}
EOC
gcc -I"$W" -I"$W/qsopt_ex" np.c "$W/.libs/libqsopt_ex.a" -lgmp -lz -lbz2 -lm -lpthread -o np && ./np; echo "np exit $?"
