#include <stdio.h>
#include <string.h>
#include "QSopt_ex.h"
int main (void)
{
	char buf[64], *argv[8]; int argc = 0, i;
	strcpy (buf, "my model.lp");
	EGioNParse (buf, 8, ".", " ", &argc, argv);
	printf ("\"my model.lp\": %d token(s):", argc);
	for (i = 0; i < argc; i++) printf (" [%s]", argv[i]);
	printf ("\n");
	strcpy (buf, "caf\303\251.lp");
	EGioNParse (buf, 8, ".", " ", &argc, argv);   /* exits the process */
	printf ("not reached on x86-64/gcc: %d tokens\n", argc);
	return 0;
}
