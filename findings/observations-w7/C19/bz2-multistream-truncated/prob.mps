NAME          RNG1
ROWS
 N  COST
 L  R1
 G  R2
 E  R3
 G  R4
COLUMNS
    X         COST         1.0   R1           1.0
    X         R2           1.0   R3           1.0
    Y         COST         2.0   R1           1.0
    Y         R2          -1.0   R4           1.0
    Z         COST        -1.0   R1           1.0
    Z         R3           1.0   R4           1.0
    W         R3           1.0
    V         R3           1.0
RHS
    RHS       R1          10.0   R2          -4.0
    RHS       R3           3.0   R4           1.0
RANGES
    RNG       R1           6.0   R2           5.0
    RNG       R4           4.0
BOUNDS
 UP BND       X            4.0
 LO BND       Y           -1.0
 UP BND       Y            1.0
 FR BND       W
 FR BND       V
 UP BND       Z            5.0
ENDATA
