#include <stdio.h>
#include "QSopt_ex.h"
int main (int ac, char **av)
{
	int i, st = 0; mpq_QSdata *p; mpq_t v;
	QSexactStart (); QSexact_set_precision (128); mpq_init (v);
	for (i = 1; i < ac; i++) {
		p = mpq_QSread_prob (av[i], "MPS");
		if (!p) { printf ("%s: not read\n", av[i]); continue; }
		mpq_QSset_param (p, QS_PARAM_SIMPLEX_DISPLAY, 0);
		QSexact_solver (p, 0, 0, 0, DUAL_SIMPLEX, &st);
		mpq_QSget_objval (p, &v);
		gmp_printf ("%s: status %d value %Qd\n", av[i], st, v);
		mpq_QSfree_prob (p);
	}
	QSexactClear ();
	return 0;
}
