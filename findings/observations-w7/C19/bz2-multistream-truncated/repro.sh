#!/bin/sh
# sh repro.sh <worktree>     (unchanged tree)
# A .bz2 file made of two bzip2 streams (what pbzip2 writes, or `cat a.bz2 b.bz2`)
# decodes with bzcat to exactly prob.mps, but esolver reads only the first
# stream: it solves a truncated problem, exits 0 and reports another optimum.
W=${1:?worktree}
D=$(cd "$(dirname "$0")" && pwd)
E=$W/esolver/esolver
cd "$D" || exit 2
n=$(grep -n '^BOUNDS' prob.mps | cut -d: -f1)
head -$((n-1)) prob.mps | bzip2 -c  > multi.mps.bz2
tail -n +$n    prob.mps | bzip2 -c >> multi.mps.bz2
bzip2 -c prob.mps > single.mps.bz2
bzcat multi.mps.bz2 | cmp - prob.mps || { echo "setup error"; exit 2; }
"$E" -O single.sol single.mps.bz2 > single.log 2>&1; echo "single stream: exit $?  $(sed -n 3p single.sol)"
"$E" -O multi.sol  multi.mps.bz2  > multi.log  2>&1; echo "two streams  : exit $?  $(sed -n 3p multi.sol)"
grep -i 'warning' multi.log
# same thing through the public API
cat > rd.c <<'EOC'
#include <stdio.h>
#include "QSopt_ex.h"
int main (int ac, char **av)
{
	int i, st = 0; mpq_QSdata *p; mpq_t v;
	QSexactStart (); QSexact_set_precision (128); mpq_init (v);
	for (i = 1; i < ac; i++) {
		p = mpq_QSread_prob (av[i], "MPS");
		if (!p) { printf ("%s: not read\n", av[i]); continue; }
		mpq_QSset_param (p, QS_PARAM_SIMPLEX_DISPLAY, 0);
		QSexact_solver (p, 0, 0, 0, DUAL_SIMPLEX, &st);
		mpq_QSget_objval (p, &v);
		gmp_printf ("%s: status %d value %Qd\n", av[i], st, v);
		mpq_QSfree_prob (p);
	}
	QSexactClear ();
	return 0;
}
EOC
gcc -I"$W" -I"$W/qsopt_ex" rd.c "$W/.libs/libqsopt_ex.a" -lgmp -lz -lbz2 -lm -lpthread -o rd && ./rd prob.mps single.mps.bz2 multi.mps.bz2 2>/dev/null
cmp -s single.sol multi.sol
