/* build: cc -g -I$W -I$W/qsopt_ex repro.c $W/.libs/libqsopt_ex.a -lgmp -lz -lbz2 -lm -lpthread -o repro   (W = worktree) */
#include <stdio.h>
#include <stdlib.h>
#include <string.h>
#include <gmp.h>
#include "QSopt_ex.h"

static mpq_QSprob load_small(void)
{
    int i;
    int cmatcnt[3] = { 2, 2, 1 };
    int cmatbeg[3] = { 0, 2, 4 };
    int cmatind[5] = { 0, 1, 0, 1, 0 };
    char sense[2] = { 'L', 'E' };
    const char *colnames[3] = { "x", "y", "z" };
    const char *rownames[2] = { "c1", "c2"};
    mpq_t cmatval[5], obj[3], rhs[2], lower[3], upper[3];
    mpq_QSprob p;
    for (i = 0; i < 5; i++) mpq_init (cmatval[i]);
    mpq_set_d (cmatval[0], 3.0); mpq_set_d (cmatval[1], 5.0); mpq_set_d (cmatval[2], 2.0);
    mpq_set_d (cmatval[3], 1.0); mpq_set_d (cmatval[4], 1.0);
    for (i = 0; i < 3; i++) mpq_init (obj[i]);
    mpq_set_d (obj[0], 3.0); mpq_set_d (obj[1], 2.0); mpq_set_d (obj[2], 4.0);
    for (i = 0; i < 2; i++) mpq_init (rhs[i]);
    mpq_set_d (rhs[0], 12.0); mpq_set_d (rhs[1], 10.0);
    for (i = 0; i < 3; i++) mpq_init (lower[i]);
    mpq_set_d (lower[0], 2.0); mpq_set (lower[1], mpq_ILL_MINDOUBLE); mpq_set_d (lower[2], 1.0);
    for (i = 0; i < 3; i++) mpq_init (upper[i]);
    mpq_set (upper[0], mpq_ILL_MAXDOUBLE); mpq_set (upper[1], mpq_ILL_MAXDOUBLE); mpq_set_d (upper[2], 10.0);
    p = mpq_QSload_prob ("small", 3, 2, cmatcnt, cmatbeg, cmatind, cmatval,
                      QS_MAX, obj, rhs, sense, lower, upper, colnames, rownames);
    for (i = 0; i < 5; i++) mpq_clear (cmatval[i]);
    for (i = 0; i < 3; i++) mpq_clear (obj[i]);
    for (i = 0; i < 2; i++) mpq_clear (rhs[i]);
    for (i = 0; i < 3; i++) mpq_clear (lower[i]);
    for (i = 0; i < 3; i++) mpq_clear (upper[i]);
    return p;
}

static void show_basis(mpq_QSprob p, const char *tag)
{
    char cs[8], rs[8]; int r;
    memset(cs,0,sizeof cs); memset(rs,0,sizeof rs);
    r = mpq_QSget_basis_array(p, cs, rs);
    printf("%-28s QSget_basis_array rval=%d cstat=\"%s\" rstat=\"%s\"\n", tag, r, cs, rs);
}
int main(void)
{
    int rval, status;
    FILE *f;
    mpq_QSprob p;
    QSexactStart();
    p = load_small();
    rval = QSexact_solver(p, NULL, NULL, NULL, DUAL_SIMPLEX, &status);
    show_basis(p, "after the solve:");

    /* (a) column x made basic twice, both rows non-basic, y and z non-basic:
     *     1 basic variable for 2 rows */
    f = fopen("dup.bas","w"); fprintf(f,"NAME small\n XL x c1\n XL x c2\nENDATA\n"); fclose(f);
    rval = mpq_QSread_and_load_basis(p, "dup.bas");
    printf("QSread_and_load_basis(dup.bas) rval=%d\n", rval);
    show_basis(p, "after dup.bas:");

    /* (b) unknown row name: rejected, but the basis the problem had is gone */
    f = fopen("unk.bas","w"); fprintf(f,"NAME small\n XL x no_such_row\nENDATA\n"); fclose(f);
    rval = mpq_QSread_and_load_basis(p, "unk.bas");
    printf("QSread_and_load_basis(unk.bas) rval=%d\n", rval);
    show_basis(p, "after unk.bas:");
    mpq_QSfree_prob(p);
    QSexactClear();
    return 0;
}
