/* build: cc -g -I$W -I$W/qsopt_ex repro.c $W/.libs/libqsopt_ex.a -lgmp -lz -lbz2 -lm -lpthread -o repro   (W = worktree) */
#include <stdio.h>
#include <stdlib.h>
#include <string.h>
#include <gmp.h>
#include "QSopt_ex.h"

static mpq_QSprob load_small(void)
{
    int i;
    int cmatcnt[3] = { 2, 2, 1 };
    int cmatbeg[3] = { 0, 2, 4 };
    int cmatind[5] = { 0, 1, 0, 1, 0 };
    char sense[2] = { 'L', 'E' };
    const char *colnames[3] = { "x", "y", "z" };
    const char *rownames[2] = { "c1", "c2"};
    mpq_t cmatval[5], obj[3], rhs[2], lower[3], upper[3];
    mpq_QSprob p;
    for (i = 0; i < 5; i++) mpq_init (cmatval[i]);
    mpq_set_d (cmatval[0], 3.0); mpq_set_d (cmatval[1], 5.0); mpq_set_d (cmatval[2], 2.0);
    mpq_set_d (cmatval[3], 1.0); mpq_set_d (cmatval[4], 1.0);
    for (i = 0; i < 3; i++) mpq_init (obj[i]);
    mpq_set_d (obj[0], 3.0); mpq_set_d (obj[1], 2.0); mpq_set_d (obj[2], 4.0);
    for (i = 0; i < 2; i++) mpq_init (rhs[i]);
    mpq_set_d (rhs[0], 12.0); mpq_set_d (rhs[1], 10.0);
    for (i = 0; i < 3; i++) mpq_init (lower[i]);
    mpq_set_d (lower[0], 2.0); mpq_set (lower[1], mpq_ILL_MINDOUBLE); mpq_set_d (lower[2], 1.0);
    for (i = 0; i < 3; i++) mpq_init (upper[i]);
    mpq_set (upper[0], mpq_ILL_MAXDOUBLE); mpq_set (upper[1], mpq_ILL_MAXDOUBLE); mpq_set_d (upper[2], 10.0);
    p = mpq_QSload_prob ("small", 3, 2, cmatcnt, cmatbeg, cmatind, cmatval,
                      QS_MAX, obj, rhs, sense, lower, upper, colnames, rownames);
    for (i = 0; i < 5; i++) mpq_clear (cmatval[i]);
    for (i = 0; i < 3; i++) mpq_clear (obj[i]);
    for (i = 0; i < 2; i++) mpq_clear (rhs[i]);
    for (i = 0; i < 3; i++) mpq_clear (lower[i]);
    for (i = 0; i < 3; i++) mpq_clear (upper[i]);
    return p;
}

int main(void)
{
    int rval, ind[1];
    mpq_t v[1], rhs;
    char s[4] = {0};
    mpq_QSprob p;
    QSexactStart();
    p = load_small();               /* senses L,E */
    mpq_init(v[0]); mpq_init(rhs); mpq_set_ui(v[0],1,1);
    rval = mpq_QSchange_sense(p, 0, 'E' + 256);      /* 325 is no sense letter */
    mpq_QSget_senses(p, s);
    printf("QSchange_sense(row 0, %d) rval=%d senses now \"%c%c\"\n", 'E' + 256, rval, s[0], s[1]);
    ind[0] = 0;
    rval = mpq_QSadd_row(p, 1, ind, v, &rhs, 'G' + 512, "rr");
    printf("QSadd_row(sense %d)       rval=%d nrows=%d\n", 'G' + 512, rval, mpq_QSget_rowcount(p));
    rval = mpq_QSnew_row(p, rhs, 'G' + 512, "rr2");
    printf("QSnew_row(sense %d)       rval=%d nrows=%d   (same value, rejected here)\n", 'G' + 512, rval, mpq_QSget_rowcount(p));
    mpq_QSfree_prob(p);
    mpq_clear(v[0]); mpq_clear(rhs);
    QSexactClear();
    return 0;
}
