/* build: cc -g -I$W -I$W/qsopt_ex repro.c $W/.libs/libqsopt_ex.a -lgmp -lz -lbz2 -lm -lpthread -o repro   (W = worktree) */
#include <stdio.h>
#include <stdlib.h>
#include <string.h>
#include <gmp.h>
#include "QSopt_ex.h"

static mpq_QSprob load_small(void)
{
    int i;
    int cmatcnt[3] = { 2, 2, 1 };
    int cmatbeg[3] = { 0, 2, 4 };
    int cmatind[5] = { 0, 1, 0, 1, 0 };
    char sense[2] = { 'L', 'E' };
    const char *colnames[3] = { "x", "y", "z" };
    const char *rownames[2] = { "c1", "c2"};
    mpq_t cmatval[5], obj[3], rhs[2], lower[3], upper[3];
    mpq_QSprob p;
    for (i = 0; i < 5; i++) mpq_init (cmatval[i]);
    mpq_set_d (cmatval[0], 3.0); mpq_set_d (cmatval[1], 5.0); mpq_set_d (cmatval[2], 2.0);
    mpq_set_d (cmatval[3], 1.0); mpq_set_d (cmatval[4], 1.0);
    for (i = 0; i < 3; i++) mpq_init (obj[i]);
    mpq_set_d (obj[0], 3.0); mpq_set_d (obj[1], 2.0); mpq_set_d (obj[2], 4.0);
    for (i = 0; i < 2; i++) mpq_init (rhs[i]);
    mpq_set_d (rhs[0], 12.0); mpq_set_d (rhs[1], 10.0);
    for (i = 0; i < 3; i++) mpq_init (lower[i]);
    mpq_set_d (lower[0], 2.0); mpq_set (lower[1], mpq_ILL_MINDOUBLE); mpq_set_d (lower[2], 1.0);
    for (i = 0; i < 3; i++) mpq_init (upper[i]);
    mpq_set (upper[0], mpq_ILL_MAXDOUBLE); mpq_set (upper[1], mpq_ILL_MAXDOUBLE); mpq_set_d (upper[2], 10.0);
    p = mpq_QSload_prob ("small", 3, 2, cmatcnt, cmatbeg, cmatind, cmatval,
                      QS_MAX, obj, rhs, sense, lower, upper, colnames, rownames);
    for (i = 0; i < 5; i++) mpq_clear (cmatval[i]);
    for (i = 0; i < 3; i++) mpq_clear (obj[i]);
    for (i = 0; i < 2; i++) mpq_clear (rhs[i]);
    for (i = 0; i < 3; i++) mpq_clear (lower[i]);
    for (i = 0; i < 3; i++) mpq_clear (upper[i]);
    return p;
}

int main(void)
{
    int rval, idx, ind[1];
    mpq_t v[1], o, l, u;
    mpq_QSprob p;
    QSexactStart();
    p = load_small();               /* 3 columns x,y,z ; 2 rows c1,c2 */
    mpq_init(v[0]); mpq_init(o); mpq_init(l); mpq_init(u);
    mpq_set_ui(v[0],1,1); mpq_set_ui(u,5,1);

    ind[0] = 7;                     /* no such row */
    rval = mpq_QSadd_col(p, 1, ind, v, o, l, u, "w");
    printf("QSadd_col(row index 7, name w)  rval=%d  ncols=%d\n", rval, mpq_QSget_colcount(p));

    rval = mpq_QSget_column_index(p, "w", &idx);
    printf("QSget_column_index(w)            rval=%d  index=%d   (w is not a column; 3 == colcount)\n", rval, idx);

    ind[0] = 1;                     /* now everything is valid */
    rval = mpq_QSadd_col(p, 1, ind, v, o, l, u, "w");
    printf("QSadd_col(valid, name w)         rval=%d  ncols=%d\n", rval, mpq_QSget_colcount(p));
    rval = mpq_QSadd_col(p, 1, ind, v, o, l, u, "fresh");
    printf("QSadd_col(valid, name fresh)     rval=%d  ncols=%d\n", rval, mpq_QSget_colcount(p));
    rval = mpq_QSnew_col(p, o, l, u, NULL);
    printf("QSnew_col(valid, generated name) rval=%d  ncols=%d\n", rval, mpq_QSget_colcount(p));

    mpq_QSfree_prob(p);
    mpq_clear(v[0]); mpq_clear(o); mpq_clear(l); mpq_clear(u);
    QSexactClear();
    return 0;
}
