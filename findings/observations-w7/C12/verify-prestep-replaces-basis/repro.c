/* QSexact_verify (useprestep = 1, no approximate solutions given) answers for
 * a different basis than the one supplied.
 *
 *   min x   s.t.  c0: x >= 1,   0 <= x <= 10
 *
 * supplied basis: x non-basic at its UPPER bound (x = 10), row c0 basic.
 * reduced cost of x is +1 with x at upper => the basis is dual INFEASIBLE.
 * QSexact_basis_dualstatus says so (result 0); QSexact_verify with the prestep
 * says result 1 and reports the optimal value 1 as "dual bound of the basis". */
#include <stdio.h>
#include <stdlib.h>
#include "QSopt_ex.h"

int main (void)
{
	mpq_QSprob p;
	mpq_t one, zero, ten, dobj;
	int ind[1] = { 0 }, rval;
	char cstat[1] = { QS_COL_BSTAT_UPPER }, rstat[1] = { QS_ROW_BSTAT_BASIC };
	QSbasis B = { 1, 1, cstat, rstat };
	char r_dual = 9, r_verify0 = 9, r_verify1 = 9;

	QSexactStart ();
	mpq_init (one); mpq_init (zero); mpq_init (ten); mpq_init (dobj);
	mpq_set_ui (one, 1, 1); mpq_set_ui (ten, 10, 1);
	p = mpq_QScreate_prob ("v", QS_MIN);
	mpq_QSnew_col (p, one, zero, ten, "x");
	mpq_QSadd_row (p, 1, ind, (const mpq_t *) &one, (const mpq_t *) &one, 'G', "c0");

	rval = QSexact_basis_dualstatus (p, &B, &r_dual, &dobj, 1);
	printf ("QSexact_basis_dualstatus      rval %d result %d\n", rval, r_dual);
	rval = QSexact_verify (p, &B, 0, NULL, NULL, &r_verify0, &dobj, 1);
	printf ("QSexact_verify(prestep=0)     rval %d result %d\n", rval, r_verify0);
	mpq_set_si (dobj, -777, 1);
	rval = QSexact_verify (p, &B, 1, NULL, NULL, &r_verify1, &dobj, 1);
	printf ("QSexact_verify(prestep=1)     rval %d result %d dobjval %g\n", rval,
					r_verify1, mpq_get_d (dobj));
	printf ("supplied basis afterwards: cstat %c rstat %c\n", cstat[0], rstat[0]);
	mpq_clear (one); mpq_clear (zero); mpq_clear (ten); mpq_clear (dobj);
	mpq_QSfree_prob (p);
	QSexactClear ();
	/* exit 1 when the verdicts on the same basis disagree */
	return (r_verify1 != r_dual);
}
