/*
 * mpq_QSadd_col accepts a column that names the same row twice; the problem is
 * then solved with a corrupted heap (unchanged tree).
 *
 *   maximize 6 x1 + 5/2 x2 + 5 x3 - x4 - 2/3 x5
 *   c1:  2 x1 - 1/3 x5 + x6          <= 12
 *   c2:  - x2 + 6 x3                 <= 8
 *   c3:  7/3 x1 - x2 - 3 x3 [x6: -2 and -1/3]  <= 7
 *   0 <= x1 <= 14, x2 = 0, 0 <= x3 <= 11, 0 <= x4 <= 12, 0 <= x5 <= U, x6 >= 0
 *
 * usage: ./repro [dup: 0|1]   1: column x6 is handed in as (c1: 1, c3: -2, c3: -1/3)
 *                             0: as (c1: 1, c3: -7/3)
 */
#include <stdio.h>
#include <stdlib.h>
#include <string.h>
#include <gmp.h>
#include "QSopt_ex.h"
#include "except.h"
#include "eg_macros.h"

static void q (mpq_t x, long n, unsigned long d)
{
	mpq_set_si (x, n, d);
	mpq_canonicalize (x);
}

int main (int ac, char **av)
{
	int dup = ac > 1 ? atoi (av[1]) : 1;
	int status = 0, rval, i;
	mpq_QSprob p;
	mpq_t obj, lo, up, rhs, val[4];
	int ind[4];
	mpq_t *y;
	QSbasis *B;

	QSexactStart ();
	mpq_init (obj); mpq_init (lo); mpq_init (up); mpq_init (rhs);
	for (i = 0; i < 4; i++) mpq_init (val[i]);

	p = mpq_QScreate_prob ("fz", QS_MAX);
	q (rhs, 12, 1); mpq_QSnew_row (p, rhs, 'L', "c1");
	q (rhs, 8, 1);  mpq_QSnew_row (p, rhs, 'L', "c2");
	q (rhs, 7, 1);  mpq_QSnew_row (p, rhs, 'L', "c3");

	q (obj, 6, 1); q (up, 14, 1);
	ind[0] = 0; q (val[0], 2, 1); ind[1] = 2; q (val[1], 7, 3);
	rval = mpq_QSadd_col (p, 2, ind, val, obj, lo, up, "x1");
	q (obj, 5, 2); q (up, 0, 1);
	ind[0] = 1; q (val[0], -1, 1); ind[1] = 2; q (val[1], -1, 1);
	rval |= mpq_QSadd_col (p, 2, ind, val, obj, lo, up, "x2");
	q (obj, 5, 1); q (up, 11, 1);
	ind[0] = 1; q (val[0], 6, 1); ind[1] = 2; q (val[1], -3, 1);
	rval |= mpq_QSadd_col (p, 2, ind, val, obj, lo, up, "x3");
	q (obj, -1, 1); q (up, 12, 1);
	rval |= mpq_QSadd_col (p, 0, ind, val, obj, lo, up, "x4");
	q (obj, -2, 3); q (up, -1, 3);
	ind[0] = 0; q (val[0], -1, 3);
	rval |= mpq_QSadd_col (p, 1, ind, val, obj, lo, up, "x5");
	q (obj, 0, 1);
	if (dup)
	{
		ind[0] = 0; q (val[0], 1, 1); ind[1] = 2; q (val[1], -2, 1); ind[2] = 2; q (val[2], -1, 3);
		rval |= mpq_QSadd_col (p, 3, ind, val, obj, lo, mpq_ILL_MAXDOUBLE, "x6");
	}
	else
	{
		ind[0] = 0; q (val[0], 1, 1); ind[1] = 2; q (val[1], -7, 3);
		rval |= mpq_QSadd_col (p, 2, ind, val, obj, lo, mpq_ILL_MAXDOUBLE, "x6");
	}
	printf ("all QSadd_col calls accepted: %s\n", rval ? "no" : "yes");

	y = mpq_EGlpNumAllocArray (3);
	B = (QSbasis *) malloc (sizeof (QSbasis));
	memset (B, 0, sizeof (QSbasis));
	rval = QSexact_solver (p, 0, y, B, PRIMAL_SIMPLEX, &status);
	printf ("QSexact_solver rval %d status %d\n", rval, status);

	mpq_QSfree_basis (B);
	mpq_EGlpNumFreeArray (y);
	mpq_QSfree_prob (p);
	mpq_clear (obj); mpq_clear (lo); mpq_clear (up); mpq_clear (rhs);
	for (i = 0; i < 4; i++) mpq_clear (val[i]);
	QSexactClear ();
	return 0;
}
