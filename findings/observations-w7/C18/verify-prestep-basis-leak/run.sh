#!/bin/sh
# usage: sh run.sh <worktree>     exit 0 iff no leak (i.e. non-zero on the unchanged tree)
W=${1:?usage: sh run.sh <worktree>}
cd "$(dirname "$0")" || exit 3
gcc -g -O0 -o repro repro.c -I"$W" -I"$W/qsopt_ex" "$W/.libs/libqsopt_ex.a" \
	-lgmp -lz -lbz2 -lm -lpthread 2> build.log || { cat build.log; exit 3; }
for args in "3 0 0" "3 1 0" "3 1 1"; do
	echo "== repro $args   (calls, useprestep, approximate solutions handed in)"
	valgrind -q --leak-check=full --show-leak-kinds=all --errors-for-leak-kinds=all \
		--error-exitcode=42 ./repro $args > out.txt 2> vg.txt
	rc=$?
	grep "QSexact_verify(" out.txt | head -n 1
	grep -E "definitely lost|QSexact_verify \(exact.c" vg.txt | sort | uniq -c
	echo "valgrind exit $rc"
	[ $rc -ne 0 ] && bad=1
done
[ -z "$bad" ]
