/*
 * QSexact_verify (exact.h) with useprestep != 0 leaks one QSbasis (struct +
 * cstat + rstat) per call in the UNCHANGED tree.
 *
 * Public API only: build a 3x2 LP, solve it with QSexact_solver to obtain an
 * optimal basis, call QSexact_verify with the prestep, free everything through
 * the documented free functions, shut the library down.
 */
#include <stdio.h>
#include <stdlib.h>
#include <string.h>
#include <gmp.h>
#include "QSopt_ex.h"
#include "except.h"
#include "eg_macros.h"

int main (int ac, char **av)
{
	int calls = ac > 1 ? atoi (av[1]) : 3;
	int prestep = ac > 2 ? atoi (av[2]) : 1;
	int given = ac > 3 ? atoi (av[3]) : 0;	/* hand in approximate solutions */
	double xd[5] = { 1.5, 0.5, 0.0, 0.0, 2.0 }, yd[3] = { 0.5, 0.5, 0.0 };
	int i, status = 0, rval;
	char result = 0;
	mpq_QSprob p;
	QSbasis *B;
	mpq_t v, z, dobj, val[2];
	int ind[2] = { 0, 1 };

	QSexactStart ();
	mpq_init (v);
	mpq_init (z);
	mpq_init (dobj);
	mpq_init (val[0]);
	mpq_init (val[1]);

	/* min x + 2y  s.t.  x + y >= 2,  x + 3y >= 3,  3x + y >= 3,  x,y >= 0 */
	p = mpq_QScreate_prob ("tiny", QS_MIN);
	mpq_set_ui (v, 1, 1);
	mpq_QSnew_col (p, v, z, mpq_ILL_MAXDOUBLE, "x");
	mpq_set_ui (v, 2, 1);
	mpq_QSnew_col (p, v, z, mpq_ILL_MAXDOUBLE, "y");
	mpq_set_ui (val[0], 1, 1); mpq_set_ui (val[1], 1, 1); mpq_set_ui (v, 2, 1);
	mpq_QSadd_row (p, 2, ind, val, &v, 'G', "r1");
	mpq_set_ui (val[0], 1, 1); mpq_set_ui (val[1], 3, 1); mpq_set_ui (v, 3, 1);
	mpq_QSadd_row (p, 2, ind, val, &v, 'G', "r2");
	mpq_set_ui (val[0], 3, 1); mpq_set_ui (val[1], 1, 1); mpq_set_ui (v, 3, 1);
	mpq_QSadd_row (p, 2, ind, val, &v, 'G', "r3");

	B = (QSbasis *) malloc (sizeof (QSbasis));
	memset (B, 0, sizeof (QSbasis));
	rval = QSexact_solver (p, 0, 0, B, DUAL_SIMPLEX, &status);
	printf ("QSexact_solver rval %d status %d, basis %d x %d\n", rval, status,
					B->nstruct, B->nrows);

	for (i = 0; i < calls; i++)
	{
		rval = QSexact_verify (p, B, prestep, given ? xd : 0, given ? yd : 0, &result,
													 &dobj, 1);
		gmp_printf ("QSexact_verify(useprestep=%d) rval %d result %d dobjval %Qd\n",
								prestep, rval, (int) result, dobj);
	}

	mpq_QSfree_basis (B);
	mpq_QSfree_prob (p);
	mpq_clear (v);
	mpq_clear (z);
	mpq_clear (dobj);
	mpq_clear (val[0]);
	mpq_clear (val[1]);
	QSexactClear ();
	return 0;
}
