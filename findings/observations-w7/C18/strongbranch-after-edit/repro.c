/*
 * mpq_QSopt_strongbranch on a problem that was edited after its last solve
 * reads the dual steepest edge norms of the previous solve with the indices of
 * the edited problem (unchanged tree).
 *
 *   ./repro 0   solve, strong-branch                     (fine)
 *   ./repro 1   solve, add three rows, strong-branch     (invalid reads / crash)
 */
#include <stdio.h>
#include <stdlib.h>
#include <string.h>
#include <gmp.h>
#include "QSopt_ex.h"
#include "except.h"
#include "eg_macros.h"

int main (int ac, char **av)
{
	int edit = ac > 1 ? atoi (av[1]) : 1;
	int i, k, status = 0, rval;
	mpq_QSprob p;
	mpq_t v, z, u, val[3];
	int ind[3] = { 0, 1, 2 };
	int cand[2] = { 0, 1 };
	mpq_t *xl, *dn, *up;

	QSexactStart ();
	mpq_init (v); mpq_init (z); mpq_init (u);
	for (k = 0; k < 3; k++) mpq_init (val[k]);

	/* max x0 + 2 x1 + 3 x2, 0 <= x <= 4, two knapsack rows */
	p = mpq_QScreate_prob ("sb", QS_MAX);
	mpq_set_ui (u, 4, 1);
	for (i = 0; i < 3; i++)
	{
		mpq_set_ui (v, (unsigned long) (i + 1), 1);
		mpq_QSnew_col (p, v, z, u, 0);
	}
	mpq_set_ui (val[0], 2, 1); mpq_set_ui (val[1], 3, 1); mpq_set_ui (val[2], 5, 1); mpq_set_ui (v, 11, 1);
	mpq_QSadd_row (p, 3, ind, val, &v, 'L', 0);
	mpq_set_ui (val[0], 4, 1); mpq_set_ui (val[1], 1, 1); mpq_set_ui (val[2], 2, 1); mpq_set_ui (v, 9, 1);
	mpq_QSadd_row (p, 3, ind, val, &v, 'L', 0);

	rval = mpq_QSopt_dual (p, &status);
	printf ("QSopt_dual rval %d status %d\n", rval, status);

	if (edit)
		for (i = 0; i < 3; i++)
		{
			mpq_set_ui (val[0], 1, 1); mpq_set_ui (val[1], (unsigned long) (i + 1), 1); mpq_set_ui (val[2], 1, 1);
			mpq_set_ui (v, (unsigned long) (6 + i), 1);
			rval = mpq_QSadd_row (p, 3, ind, val, &v, 'L', 0);
			printf ("QSadd_row rval %d\n", rval);
		}

	xl = mpq_EGlpNumAllocArray (2);
	dn = mpq_EGlpNumAllocArray (2);
	up = mpq_EGlpNumAllocArray (2);
	mpq_set_ui (xl[0], 1, 2);
	mpq_set_ui (xl[1], 3, 2);
	rval = mpq_QSopt_strongbranch (p, 2, cand, xl, dn, up, 5, mpq_ILL_MAXDOUBLE);
	gmp_printf ("QSopt_strongbranch rval %d down %Qd %Qd up %Qd %Qd\n", rval, dn[0], dn[1], up[0], up[1]);

	mpq_EGlpNumFreeArray (xl);
	mpq_EGlpNumFreeArray (dn);
	mpq_EGlpNumFreeArray (up);
	mpq_QSfree_prob (p);
	mpq_clear (v); mpq_clear (z); mpq_clear (u);
	for (k = 0; k < 3; k++) mpq_clear (val[k]);
	QSexactClear ();
	return 0;
}
