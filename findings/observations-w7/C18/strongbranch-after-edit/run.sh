#!/bin/sh
# usage: sh run.sh <worktree>     exit 0 iff valgrind is silent for both runs
W=${1:?usage: sh run.sh <worktree>}
cd "$(dirname "$0")" || exit 3
gcc -g -O0 -o repro repro.c -I"$W" -I"$W/qsopt_ex" "$W/.libs/libqsopt_ex.a" \
	-lgmp -lz -lbz2 -lm -lpthread 2> build.log || { cat build.log; exit 3; }
for a in 0 1; do
	echo "== repro $a"
	valgrind -q --error-exitcode=42 ./repro $a > out.txt 2> vg.txt
	rc=$?
	grep -E "QSopt_dual|QSopt_strongbranch" out.txt
	grep -E "Invalid|at 0x|by 0x" vg.txt | head -n 5
	echo "valgrind exit $rc"
	[ $rc -ne 0 ] && bad=1
done
[ -z "$bad" ]
