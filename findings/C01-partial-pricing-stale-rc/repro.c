/* mpq_QSopt_primal with QS_PRICE_PMULTPARTIAL (scaling off) reports OPTIMAL
 * with a reduced cost for a fixed non-basic column that is not c - A'pi.
 *
 *   min -x            x >= 0,  z fixed at 1 (cost 0)
 *   x + z <= 4
 *
 * optimum x = 3, pi = -1, so rc(z) = 0 - 1*(-1) = 1; the library returns 0
 * (the value computed for the initial slack basis).                        */
#include <stdio.h>
#include <gmp.h>
#include "QSopt_ex.h"

int main (void)
{
	mpq_QSprob p;
	mpq_t c, l, u, rhs, val[2], x[2], rc[2], pi[1], expect;
	int ind[2] = { 0, 1 }, status = 0, rv, bad = 0;
	QSexactStart ();
	mpq_init (c); mpq_init (l); mpq_init (u); mpq_init (rhs); mpq_init (expect);
	mpq_init (val[0]); mpq_init (val[1]); mpq_init (x[0]); mpq_init (x[1]);
	mpq_init (rc[0]); mpq_init (rc[1]); mpq_init (pi[0]);
	p = mpq_QScreate_prob ("stale", QS_MIN);
	mpq_set_si (c, -1, 1); mpq_set_si (l, 0, 1); mpq_set (u, mpq_ILL_MAXDOUBLE);
	mpq_QSnew_col (p, c, l, u, "x");
	mpq_set_si (c, 0, 1); mpq_set_si (l, 1, 1); mpq_set_si (u, 1, 1);
	mpq_QSnew_col (p, c, l, u, "z");
	mpq_set_si (val[0], 1, 1); mpq_set_si (val[1], 1, 1); mpq_set_si (rhs, 4, 1);
	mpq_QSadd_row (p, 2, ind, (const mpq_t *) val, (const mpq_t *) &rhs, 'L', "r");
	mpq_QSset_param (p, QS_PARAM_PRIMAL_PRICING, QS_PRICE_PMULTPARTIAL);
	mpq_QSset_param (p, QS_PARAM_SIMPLEX_SCALING, 0);
	rv = mpq_QSopt_primal (p, &status);
	printf ("rval %d status %d (OPTIMAL is %d)\n", rv, status, QS_LP_OPTIMAL);
	if (rv || status != QS_LP_OPTIMAL)
		return 2;
	mpq_QSget_x_array (p, x);
	mpq_QSget_pi_array (p, pi);
	mpq_QSget_rc_array (p, rc);
	gmp_printf ("x = %Qd  z = %Qd  pi = %Qd  rc(x) = %Qd  rc(z) = %Qd\n",
							x[0], x[1], pi[0], rc[0], rc[1]);
	/* rc(z) must be c_z - a_z * pi = 0 - pi */
	mpq_neg (expect, pi[0]);
	if (mpq_cmp (rc[1], expect) != 0)
	{
		gmp_printf ("WRONG: rc(z) = %Qd but c_z - a_z'pi = %Qd\n", rc[1], expect);
		bad = 1;
	}
	mpq_QSfree_prob (p);
	QSexactClear ();
	return bad;
}
