#!/bin/sh
# usage: sh run.sh <worktree>   (exit 0 = property held, 1 = defect shown)
W=${1:?usage: sh run.sh <worktree>}
D=$(cd "$(dirname "$0")" && pwd)
cc -O1 -g -I"$W" -I"$W/qsopt_ex" "$D/repro.c" -o "$D/repro" \
   "$W/.libs/libqsopt_ex.a" -lgmp -lz -lbz2 -lm -lpthread || exit 99
"$D/repro"
