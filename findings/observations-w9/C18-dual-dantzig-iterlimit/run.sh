#!/bin/sh
# sh run.sh <worktree> ; exit 0 iff every dual pricing rule solves the 4x4 LP
W=$(cd "${1:?worktree}" && pwd); D=$(cd "$(dirname "$0")" && pwd); cd "$D" || exit 99
gcc -g -O0 -o repro repro.c -I"$W" -I"$W/qsopt_ex" "$W/.libs/libqsopt_ex.a" -lgmp -lz -lbz2 -lm -lpthread || exit 98
timeout 120 ./repro 2>/dev/null
