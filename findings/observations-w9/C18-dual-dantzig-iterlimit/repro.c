/* mpq_QSopt_dual with Dantzig (or multiple partial) dual pricing does not
 * terminate properly on a 4x4 LP: it runs into the iteration limit.
 * Public API only.  Exit 0 iff every pricing rule reports OPTIMAL. */
#include <stdio.h>
#include <stdlib.h>
#include <time.h>
#include <gmp.h>
#include "QSopt_ex.h"

static const char *LP =
	"Maximize\n obj: 3 x + 2 y + 4 z + w\nSubject To\n"
	" c1: 3 x + 2 y + z + w <= 12\n c2: 5 x + y - w = 10\n"
	" c3: x + y + z >= 1\n c4: x - z + 2 w <= 7\n"
	"Bounds\n 2 <= x\n y free\n 1 <= z <= 10\n w <= 5\nEnd\n";

int main (void)
{
	static const int rule[4] = { QS_PRICE_DDANTZIG, QS_PRICE_DSTEEP, QS_PRICE_DMULTPARTIAL, QS_PRICE_DDEVEX };
	static const char *rname[4] = { "DDANTZIG", "DSTEEP", "DMULTPARTIAL", "DDEVEX" };
	FILE *f = fopen ("m.lp", "w");
	int k, bad = 0;

	fputs (LP, f);
	fclose (f);
	QSexactStart ();
	QSexact_set_precision (128);
	for (k = 0; k < 4; k++)
	{
		mpq_QSprob p = mpq_QSread_prob ("m.lp", "LP");
		int status = 0, rval, it = 0;
		clock_t t0 = clock ();

		mpq_QSset_param (p, QS_PARAM_DUAL_PRICING, rule[k]);
		rval = mpq_QSopt_dual (p, &status);
		{ int a,b,c,d; mpq_QSget_itcnt (p, &a, &b, &c, &d, &it); printf ("pI %d pII %d dI %d dII %d  ", a, b, c, d); }
		printf ("%-13s rval %d status %d iterations %d  (%.2f s)\n", rname[k], rval, status, it,
						(double) (clock () - t0) / CLOCKS_PER_SEC);
		if (rval || status != QS_LP_OPTIMAL)
			bad++;
		mpq_QSfree_prob (p);
	}
	QSexactClear ();
	return bad ? 1 : 0;
}
