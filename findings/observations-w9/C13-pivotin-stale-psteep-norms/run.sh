#!/bin/sh
# usage: sh run.sh <worktree>   (needs valgrind)
W=${1:?usage: sh run.sh <worktree>}
D=$(cd "$(dirname "$0")" && pwd)
cc -g -O0 -I"$W" -I"$W/qsopt_ex" "$D/repro.c" "$W/.libs/libqsopt_ex.a" -lgmp -lz -lbz2 -lm -lpthread -o "$D/repro" || exit 99
valgrind -q --error-exitcode=9 "$D/repro"
