/* QSopt_pivotin_col takes its list as INTERNAL column numbers: it is checked
 * against ncols (structurals + logicals), never mapped through structmap.
 * So index nstruct .. ncols-1 is accepted (it names a logical), and for a
 * problem whose columns and rows were added alternately the user's column j
 * is a different variable.  After the call QSget_objval no longer matches
 * the stored x. */
#include <stdio.h>
#include <gmp.h>
#include "qsopt_ex/QSopt_ex.h"
int main (void)
{
	mpq_QSprob p;
	mpq_t o, l, u, v[2], rhs, val;
	int ind[2] = { 0, 1 }, st = 0, rv, list[1], nc;
	QSexactStart ();
	mpq_init (o); mpq_init (l); mpq_init (u); mpq_init (v[0]); mpq_init (v[1]); mpq_init (rhs); mpq_init (val);
	p = mpq_QScreate_prob ("p", QS_MIN);
	mpq_set_si (o, 1, 1); mpq_set_si (l, 0, 1); mpq_set_si (u, 10, 1);
	mpq_QSnew_col (p, o, l, u, "x");
	mpq_set_si (o, 2, 1);
	mpq_QSnew_col (p, o, l, u, "y");
	mpq_set_si (v[0], 1, 1); mpq_set_si (v[1], 1, 1); mpq_set_si (rhs, 2, 1);
	mpq_QSadd_row (p, 2, ind, v, &rhs, 'G', "r1");
	mpq_set_si (v[1], -1, 1); mpq_set_si (rhs, 1, 1);
	mpq_QSadd_row (p, 2, ind, v, &rhs, 'L', "r2");
	rv = mpq_QSopt_dual (p, &st);
	mpq_QSget_objval (p, &val);
	gmp_printf ("solve rv=%d status=%d objval=%Qd\n", rv, st, val);
	nc = mpq_QSget_colcount (p);
	list[0] = nc + 1;							/* not a column of the problem */
	rv = mpq_QSopt_pivotin_col (p, 1, list);
	printf ("QSopt_pivotin_col(index %d, problem has %d columns): rv=%d\n", list[0], nc, rv);
	mpq_QSget_status (p, &st);
	mpq_QSget_objval (p, &val);
	gmp_printf ("afterwards: status=%d objval=%Qd\n", st, val);
	mpq_QSfree_prob (p);
	QSexactClear ();
	return rv == 0 ? 1 : 0;
}
