#!/bin/sh
# sh repro.sh <worktree>
# -O with a path of more than 1023 characters: esolver exits 0, but the solution
# is written to a file whose name is the first 1023 characters of the path.
WT=${1:?worktree}
cd "$(dirname "$0")" || exit 2
cc -O1 -w -DHAVE_CONFIG_H -I"$WT" -I"$WT/qsopt_ex" "$WT/esolver/esolver.c" \
   "$WT/.libs/libqsopt_ex.a" -lgmp -lz -lbz2 -lm -lpthread -o esolver_bin || exit 2
d=$(printf 'd%.0s' $(seq 1 200))
p=long; for i in 1 2 3 4 5; do p=$p/$d; done
rm -rf long; mkdir -p $p
f=$p/solution_file_name.sol.gz
echo "length of the -O argument: ${#f}"
./esolver_bin -O $f prob.lp >/dev/null 2>&1
echo "esolver exit status: $?"
echo "files in the target directory:"; ls $p
[ -f $f ] && echo "requested file exists" || echo "requested file does NOT exist"
