/* A ranged row of width 0 (lo == hi) is written to MPS as a plain G row:
 * the RANGES entry is suppressed because the range value is 0, so the
 * equality a.x = 4 is read back as a.x >= 4.
 * build: gcc -I$W -I$W/qsopt_ex repro.c $W/.libs/libqsopt_ex.a -lgmp -lz -lbz2 -lm -lpthread */
#include <stdio.h>
#include <string.h>
#include <gmp.h>
#include "qsopt_ex/QSopt_ex.h"

int main (void)
{
	mpq_QSprob p, q;
	mpq_t one, zero, big, v[2], rhs, range;
	int ind[2] = { 0, 1 }, bad = 0;
	char s0[2], s1[2];

	QSexactStart ();
	mpq_init (one); mpq_init (zero); mpq_init (big); mpq_init (v[0]);
	mpq_init (v[1]); mpq_init (rhs); mpq_init (range);
	mpq_set_si (one, 1, 1);
	mpq_set (big, mpq_ILL_MAXDOUBLE);
	p = mpq_QScreate_prob ("zr", QS_MIN);
	mpq_QSnew_col (p, one, zero, big, "x");
	mpq_QSnew_col (p, one, zero, big, "y");
	mpq_set_si (v[0], 1, 1);
	mpq_set_si (v[1], 1, 1);
	mpq_set_si (rhs, 4, 1);
	mpq_set_si (range, 0, 1);
	/* 4 <= x + y <= 4 + 0 */
	if (mpq_QSadd_ranged_row (p, 2, ind, (const mpq_t *) v, (const mpq_t *) &rhs,
														'R', (const mpq_t *) &range, "c1"))
		return 2;
	if (mpq_QSwrite_prob (p, "zero_range.mps", "MPS"))
		return 2;
	q = mpq_QSread_prob ("zero_range.mps", "MPS");
	if (!q)
		return 2;
	mpq_QSget_senses (p, s0);
	mpq_QSget_senses (q, s1);
	printf ("sense before write: %c   after read back: %c\n", s0[0], s1[0]);
	if (s0[0] != s1[0])
		bad = 1;
	mpq_QSfree_prob (p);
	mpq_QSfree_prob (q);
	QSexactClear ();
	printf (bad ? "DEFECT: x + y = 4 came back as x + y >= 4\n" : "ok\n");
	return bad;
}
