/* QSadd_rows / QSadd_cols with a batch whose SECOND entry is rejected
 * (duplicate name, or illegal sense) return an error but keep the first
 * entry: the call is not atomic. */
#include <stdio.h>
#include <gmp.h>
#include "qsopt_ex/QSopt_ex.h"
int main (void)
{
	mpq_QSprob p;
	mpq_t o, l, u, v[2], rhs[2], ob[2], lo[2], up[2];
	int cnt[2] = { 1, 1 }, beg[2] = { 0, 1 }, ind[2] = { 0, 0 }, rv1, rv2, rv3, nr0, nr1, nr2, nc0, nc1;
	char sense[2] = { 'L', 'L' }, sense2[2] = { 'L', 'X' };
	const char *rn[2] = { "fresh", "r1" };	/* r1 exists already */
	const char *rn2[2] = { "fresh2", "fresh3" };
	const char *cn[2] = { "fresh", "x" };	/* x exists already */
	int i;
	QSexactStart ();
	mpq_init (o); mpq_init (l); mpq_init (u);
	for (i = 0; i < 2; i++) { mpq_init (v[i]); mpq_init (rhs[i]); mpq_init (ob[i]); mpq_init (lo[i]); mpq_init (up[i]);
		mpq_set_si (v[i], 1, 1); mpq_set_si (rhs[i], 3, 1); mpq_set_si (up[i], 5, 1); }
	p = mpq_QScreate_prob ("p", QS_MIN);
	mpq_set_si (o, 1, 1); mpq_set_si (l, 0, 1); mpq_set_si (u, 10, 1);
	mpq_QSnew_col (p, o, l, u, "x");
	mpq_QSnew_row (p, rhs[0], 'G', "r1");
	nr0 = mpq_QSget_rowcount (p);
	rv1 = mpq_QSadd_rows (p, 2, cnt, beg, ind, v, rhs, sense, rn);
	nr1 = mpq_QSget_rowcount (p);
	printf ("QSadd_rows {fresh, r1(dup)}: rv=%d rows %d -> %d\n", rv1, nr0, nr1);
	rv2 = mpq_QSadd_rows (p, 2, cnt, beg, ind, v, rhs, sense2, rn2);
	nr2 = mpq_QSget_rowcount (p);
	printf ("QSadd_rows {'L', 'X'(illegal)}: rv=%d rows %d -> %d\n", rv2, nr1, nr2);
	nc0 = mpq_QSget_colcount (p);
	rv3 = mpq_QSadd_cols (p, 2, cnt, beg, ind, v, ob, lo, up, cn);
	nc1 = mpq_QSget_colcount (p);
	printf ("QSadd_cols {fresh, x(dup)}: rv=%d cols %d -> %d\n", rv3, nc0, nc1);
	mpq_QSfree_prob (p);
	QSexactClear ();
	return (rv1 && nr1 != nr0) || (rv2 && nr2 != nr1) || (rv3 && nc1 != nc0);
}
