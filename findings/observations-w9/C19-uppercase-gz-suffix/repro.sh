#!/bin/sh
# sh repro.sh <worktree>
WT=${1:?worktree}
cd "$(dirname "$0")" || exit 2
cc -O1 -w -DHAVE_CONFIG_H -I"$WT" -I"$WT/qsopt_ex" "$WT/esolver/esolver.c" \
   "$WT/.libs/libqsopt_ex.a" -lgmp -lz -lbz2 -lm -lpthread -o esolver_bin || exit 2
gzip -c prob.lp > PROB.LP.GZ
gzip -c prob.lp > prob.lp.gz
./esolver_bin -O a.sol prob.lp.gz >/dev/null 2>&1; echo "prob.lp.gz : exit $?"
./esolver_bin -O b.sol PROB.LP.GZ >b.log 2>&1;     echo "PROB.LP.GZ : exit $?"; tail -2 b.log
