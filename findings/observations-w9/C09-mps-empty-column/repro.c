/* A column without objective coefficient and without row entries:
 *  - with default bounds it silently disappears in the MPS (and LP) rendering;
 *  - with a non default bound the written BOUNDS record names a column that
 *    has no COLUMNS record, and the reader rejects the text.
 * build: gcc -I$W -I$W/qsopt_ex repro.c $W/.libs/libqsopt_ex.a -lgmp -lz -lbz2 -lm -lpthread
 * run:   ./a.out        (default bounds)      ./a.out b   (0 <= z <= 5) */
#include <stdio.h>
#include <string.h>
#include <gmp.h>
#include "qsopt_ex/QSopt_ex.h"

int main (int argc, char **argv)
{
	mpq_QSprob p, q;
	mpq_t one, zero, big, five, v[2], rhs;
	int ind[2] = { 0, 1 }, bad = 0;

	QSexactStart ();
	mpq_init (one); mpq_init (zero); mpq_init (big); mpq_init (v[0]);
	mpq_init (v[1]); mpq_init (rhs); mpq_init (five);
	mpq_set_si (one, 1, 1);
	mpq_set_si (five, 5, 1);
	mpq_set (big, mpq_ILL_MAXDOUBLE);
	p = mpq_QScreate_prob ("emptycol", QS_MIN);
	mpq_QSnew_col (p, one, zero, big, "x");
	mpq_QSnew_col (p, one, zero, big, "y");
	mpq_QSnew_col (p, zero, zero, argc > 1 ? five : big, "z");
	mpq_set_si (v[0], 1, 1);
	mpq_set_si (v[1], 2, 3);
	mpq_set_si (rhs, -4, 1);
	if (mpq_QSadd_row (p, 2, ind, (const mpq_t *) v, (const mpq_t *) &rhs, 'G', "c1"))
		return 2;
	if (mpq_QSwrite_prob (p, "emptycol.mps", "MPS"))
		return 2;
	q = mpq_QSread_prob ("emptycol.mps", "MPS");
	if (!q)
	{
		printf ("DEFECT: the MPS text written by the library is rejected by its reader\n");
		bad = 1;
	}
	else
	{
		printf ("columns before write: %d   after read back: %d\n",
						mpq_QSget_colcount (p), mpq_QSget_colcount (q));
		bad = mpq_QSget_colcount (p) != mpq_QSget_colcount (q);
		if (bad)
			printf ("DEFECT: column z is gone\n");
		mpq_QSfree_prob (q);
	}
	mpq_QSfree_prob (p);
	QSexactClear ();
	return bad;
}
