NAME    dollar
 XL x $cap
ENDATA
