#!/bin/sh
W=${1:?usage: sh run.sh <worktree>}
W=$(cd "$W" && pwd) || exit 2
cd "$(dirname "$0")" || exit 2
cc -g -O1 -I"$W" -I"$W/qsopt_ex" repro.c "$W/.libs/libqsopt_ex.a" -lgmp -lz -lbz2 -lm -lpthread -o repro || exit 2
./repro
