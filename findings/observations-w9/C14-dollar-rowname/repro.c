/* Pre-existing defect (unchanged tree): a basis file whose XL/XU line names a
 * row that begins with '$' cannot be read back.  '$' is a legal first
 * character of a name (ILLis_lp_name_char, no repair needed by the LP writer).
 *
 * exit 0: round trip worked; exit 1: defect reproduced.
 */
#include <stdio.h>
#include <stdlib.h>
#include <gmp.h>
#include "QSopt_ex.h"

int main (void)
{
	mpq_QSprob p;
	mpq_t obj, lo, up, rhs, one;
	int ind[1] = { 0 };
	char cstat[1] = { QS_COL_BSTAT_BASIC };
	char rstat[1] = { QS_ROW_BSTAT_LOWER };
	QSbasis B, *R;
	int rval;

	QSexactStart ();
	mpq_init (obj); mpq_init (lo); mpq_init (up); mpq_init (rhs); mpq_init (one);
	mpq_set_si (obj, 1, 1); mpq_set_si (lo, 0, 1); mpq_set_si (up, 10, 1);
	mpq_set_si (rhs, 4, 1); mpq_set_si (one, 1, 1);

	p = mpq_QScreate_prob ("dollar", QS_MAX);
	if (!p || mpq_QSnew_col (p, obj, lo, up, "x") ||
			mpq_QSadd_row (p, 1, ind, (const mpq_t *) &one, (const mpq_t *) &rhs, 'L', "$cap"))
		return 2;

	B.nstruct = 1; B.nrows = 1; B.cstat = cstat; B.rstat = rstat;	/* x basic, $cap tight */
	rval = mpq_QSwrite_basis (p, &B, "dollar.bas");
	printf ("QSwrite_basis -> %d\n", rval);
	R = mpq_QSread_basis (p, "dollar.bas");
	if (!R)
	{
		printf ("QSread_basis failed on the file QSwrite_basis has just written\n");
		return 1;
	}
	printf ("read back cstat=%c rstat=%c\n", R->cstat[0], R->rstat[0]);
	return !(R->cstat[0] == cstat[0] && R->rstat[0] == rstat[0]);
}
