/* A column whose name starts with '$' (a legal LP-format name character, and
 * accepted by QSnew_col) and that has a non-default bound: the MPS writer
 * emits " UP BOUND    $c    4", and the MPS reader takes "$c    4" for a
 * '$' comment because it stands in field 3 -> "Missing column field in
 * BOUNDS record", the writer's own output is rejected.
 * build: gcc -I$W -I$W/qsopt_ex repro.c $W/.libs/libqsopt_ex.a -lgmp -lz -lbz2 -lm -lpthread */
#include <stdio.h>
#include <string.h>
#include <gmp.h>
#include "qsopt_ex/QSopt_ex.h"

int main (void)
{
	mpq_QSprob p, q;
	mpq_t one, zero, four, big, v[2], rhs;
	int ind[2] = { 0, 1 }, bad = 0;

	QSexactStart ();
	mpq_init (one); mpq_init (zero); mpq_init (big); mpq_init (v[0]);
	mpq_init (v[1]); mpq_init (rhs); mpq_init (four);
	mpq_set_si (one, 1, 1);
	mpq_set_si (four, 4, 1);
	mpq_set (big, mpq_ILL_MAXDOUBLE);
	p = mpq_QScreate_prob ("dollar", QS_MIN);
	mpq_QSnew_col (p, one, zero, big, "x");
	mpq_QSnew_col (p, one, zero, four, "$c");	/* 0 <= $c <= 4 */
	mpq_set_si (v[0], 1, 1);
	mpq_set_si (v[1], 1, 1);
	mpq_set_si (rhs, 2, 1);
	if (mpq_QSadd_row (p, 2, ind, (const mpq_t *) v, (const mpq_t *) &rhs, 'G', "c1"))
		return 2;
	if (mpq_QSwrite_prob (p, "dollar.mps", "MPS"))
		return 2;
	q = mpq_QSread_prob ("dollar.mps", "MPS");
	if (!q)
	{
		printf ("DEFECT: the MPS text written by the library is rejected by its reader\n");
		bad = 1;
	}
	else
	{
		printf ("ok\n");
		mpq_QSfree_prob (q);
	}
	mpq_QSfree_prob (p);
	QSexactClear ();
	return bad;
}
