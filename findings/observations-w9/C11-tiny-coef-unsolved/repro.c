/* Borderline observation (unchanged tree): a 1x1 LP with a 4-digit negative
 * exponent is read, written, and "solved" with rval 0 but status
 * QS_LP_UNSOLVED (6), silently.  With 1e-3000 the same LP is OPTIMAL.
 *
 * build: cc -g -I<wt> -I<wt>/qsopt_ex repro.c <wt>/.libs/libqsopt_ex.a -lgmp -lz -lbz2 -lm -lpthread -o repro
 */
#include <stdio.h>
#include <gmp.h>
#include "QSopt_ex.h"

static int one (const char *coef)
{
	FILE *f = fopen ("tiny.lp", "w");
	mpq_QSprob p;
	int status = 0, rval;

	fprintf (f, "Minimize\n obj: x\nSubject To\n c1: %s x >= %s\nEnd\n", coef, coef);
	fclose (f);
	p = mpq_QSread_prob ("tiny.lp", "LP");
	if (!p)
		return 1;
	rval = QSexact_solver (p, NULL, NULL, NULL, DUAL_SIMPLEX, &status);
	printf ("coef %-8s QSexact_solver rval %d status %d\n", coef, rval, status);
	mpq_QSfree_prob (p);
	return 0;
}

int main (void)
{
	QSexactStart ();
	one ("1e-3000");	/* status 1 (optimal, x = 1) */
	one ("1e-5000");	/* status 6 */
	one ("1e-9999");	/* status 6 */
	QSexactClear ();
	return 0;
}
