/* public API only: the call sequence of esolver -b on an infeasible LP.
 * QSexact_solver proves infeasibility (status 2, rval 0), but the problem has
 * no basis afterwards, so QSwrite_basis(p, 0, file) fails and esolver turns
 * that into exit status 1.
 * build: cc -DHAVE_CONFIG_H -I$WT -I$WT/qsopt_ex repro.c $WT/.libs/libqsopt_ex.a \
 *           -lgmp -lz -lbz2 -lm -lpthread -o repro ; ./repro inf.lp  */
#include <stdio.h>
#include <string.h>
#include "QSopt_ex.h"
int main (int ac, char **av)
{
	int status = 0, rval, wval;
	mpq_QSdata *p;
	QSbasis B;
	memset (&B, 0, sizeof (B));
	QSexactStart ();
	p = mpq_QSread_prob (ac > 1 ? av[1] : "inf.lp", "LP");
	if (!p) return 2;
	rval = QSexact_solver (p, 0, 0, &B, PRIMAL_SIMPLEX, &status);
	wval = mpq_QSwrite_basis (p, 0, "out.bas");
	printf ("QSexact_solver rval=%d status=%d (2 = INFEASIBLE, 3 = UNBOUNDED); "
					"QSwrite_basis rval=%d\n", rval, status, wval);
	mpq_QSfree_prob (p);
	QSexactClear ();
	return (rval == 0 && wval != 0) ? 1 : 0;	/* 1 = defect reproduced */
}
