#!/bin/sh
# sh repro.sh <worktree> ; prints the exit status of esolver with and without -b
WT=${1:?worktree}
cd "$(dirname "$0")" || exit 2
cc -O1 -w -DHAVE_CONFIG_H -I"$WT" -I"$WT/qsopt_ex" "$WT/esolver/esolver.c" \
   "$WT/.libs/libqsopt_ex.a" -lgmp -lz -lbz2 -lm -lpthread -o esolver_bin || exit 2
for f in inf unb; do
	./esolver_bin -O $f.sol $f.lp >/dev/null 2>&1; echo "$f.lp without -b: exit $? : $(cat $f.sol)"
	rm -f $f.bas
	./esolver_bin -O $f.sol -b $f.bas $f.lp >$f.log 2>&1; echo "$f.lp with -b   : exit $? : $(cat $f.sol)"
	grep "no basis" $f.log
done
cc -O1 -w -DHAVE_CONFIG_H -I"$WT" -I"$WT/qsopt_ex" repro.c "$WT/.libs/libqsopt_ex.a" \
   -lgmp -lz -lbz2 -lm -lpthread -o repro && ./repro inf.lp 2>/dev/null | tail -1
