/* Pre-existing defect (unchanged tree): an LP file of 62 KB whose numbers have
 * long digit strings and 4-digit exponents is read fine, but writing the
 * returned problem in LP format overruns the 128 KiB line buffer of the LP
 * writer (a stack array) and the process dies.
 *
 * build: cc -g -I<wt> -I<wt>/qsopt_ex repro.c <wt>/.libs/libqsopt_ex.a -lgmp -lz -lbz2 -lm -lpthread -o repro
 * run:   ./repro [ndigits]      (default 31000; 26000 still fits the buffer)
 */
#include <stdio.h>
#include <stdlib.h>
#include <string.h>
#include <gmp.h>
#include "QSopt_ex.h"

int main (int ac, char **av)
{
	int n = (ac > 1) ? atoi (av[1]) : 31000, i, rval;
	FILE *f = fopen ("long.lp", "w");
	mpq_QSprob p;

	if (!f)
		return 2;
	/* c1: 0.777...7e-9999 x >= 0.777...7e-9999 */
	fprintf (f, "Minimize\n obj: x\nSubject To\n c1: 0.");
	for (i = 0; i < n; i++)
		fputc ('7', f);
	fprintf (f, "e-9999 x >= 0.");
	for (i = 0; i < n; i++)
		fputc ('7', f);
	fprintf (f, "e-9999\nEnd\n");
	printf ("input file: %ld bytes\n", ftell (f));
	fclose (f);

	QSexactStart ();
	p = mpq_QSread_prob ("long.lp", "LP");
	if (!p)
	{
		printf ("reader refused the file (clean)\n");
		QSexactClear ();
		return 0;
	}
	printf ("read ok: %d rows, %d cols\n", mpq_QSget_rowcount (p), mpq_QSget_colcount (p));
	fflush (stdout);
	rval = mpq_QSwrite_prob (p, "long.mps", "MPS");
	printf ("write MPS: %d\n", rval);
	fflush (stdout);
	rval = mpq_QSwrite_prob (p, "long.out.lp", "LP");	/* SIGSEGV / stack smash here */
	printf ("write LP: %d\n", rval);
	mpq_QSfree_prob (p);
	QSexactClear ();
	return 0;
}
