/* A QSadd_row that is rejected (duplicate name, or illegal sense) on a solved
 * problem whose stored basis has no row norms makes the tableau queries
 * unavailable: p->factorok is cleared before the row is validated. */
#include <stdio.h>
#include <gmp.h>
#include "qsopt_ex/QSopt_ex.h"
int main (void)
{
	mpq_QSprob p;
	mpq_t o, l, u, v[2], rhs;
	int ind[2] = { 0, 1 }, ord[2], st, rv, rv0, rv1, rv2;
	QSexactStart ();
	mpq_init (o); mpq_init (l); mpq_init (u); mpq_init (v[0]); mpq_init (v[1]); mpq_init (rhs);
	p = mpq_QScreate_prob ("p", QS_MIN);
	mpq_set_si (o, 1, 1); mpq_set_si (l, 0, 1); mpq_set_si (u, 10, 1);
	mpq_QSnew_col (p, o, l, u, "x");
	mpq_QSnew_col (p, o, l, u, "y");
	mpq_set_si (v[0], 1, 1); mpq_set_si (v[1], 1, 1); mpq_set_si (rhs, 2, 1);
	mpq_QSadd_row (p, 2, ind, v, &rhs, 'G', "r1");
	mpq_set_si (v[1], -1, 1);
	mpq_QSadd_row (p, 2, ind, v, &rhs, 'L', "r2");
	rv = mpq_QSopt_primal (p, &st);
	printf ("solve rv=%d status=%d\n", rv, st);
	rv0 = mpq_QSget_basis_order (p, ord);
	printf ("QSget_basis_order before: rv=%d\n", rv0);
	rv1 = mpq_QSadd_row (p, 2, ind, v, &rhs, 'L', "r1");	/* duplicate name */
	printf ("QSadd_row(duplicate name): rv=%d rows=%d\n", rv1, mpq_QSget_rowcount (p));
	rv2 = mpq_QSget_basis_order (p, ord);
	printf ("QSget_basis_order after : rv=%d\n", rv2);
	mpq_QSfree_prob (p);
	QSexactClear ();
	return (rv0 == 0 && rv1 != 0 && rv2 != 0) ? 1 : 0;
}
