/* QSload_basis_array (and QSload_basis) accept the status QS_ROW_BSTAT_UPPER
 * for a row that is not ranged; the basis is installed and every later solve
 * fails ("unknown row basis stat 3" in ILLbasis_load). */
#include <stdio.h>
#include <gmp.h>
#include "qsopt_ex/QSopt_ex.h"
int main (void)
{
	mpq_QSprob p;
	mpq_t o, l, u, v[2], rhs;
	int ind[2] = { 0, 1 }, st = 0, rv, rvl;
	char cs[2] = { QS_COL_BSTAT_BASIC, QS_COL_BSTAT_LOWER };
	char rs[2] = { QS_ROW_BSTAT_UPPER, QS_ROW_BSTAT_BASIC };	/* r1 is a '>=' row */
	QSexactStart ();
	mpq_init (o); mpq_init (l); mpq_init (u); mpq_init (v[0]); mpq_init (v[1]); mpq_init (rhs);
	p = mpq_QScreate_prob ("p", QS_MIN);
	mpq_set_si (o, 1, 1); mpq_set_si (l, 0, 1); mpq_set_si (u, 10, 1);
	mpq_QSnew_col (p, o, l, u, "x");
	mpq_QSnew_col (p, o, l, u, "y");
	mpq_set_si (v[0], 1, 1); mpq_set_si (v[1], 1, 1); mpq_set_si (rhs, 2, 1);
	mpq_QSadd_row (p, 2, ind, v, &rhs, 'G', "r1");
	mpq_set_si (v[1], -1, 1);
	mpq_QSadd_row (p, 2, ind, v, &rhs, 'L', "r2");
	rvl = mpq_QSload_basis_array (p, cs, rs);
	printf ("QSload_basis_array(row 0 'at upper', row 0 is not ranged): rv=%d\n", rvl);
	rv = mpq_QSopt_dual (p, &st);
	printf ("QSopt_dual: rv=%d status=%d\n", rv, st);
	mpq_QSfree_prob (p);
	QSexactClear ();
	return (rvl == 0 && rv != 0) ? 1 : 0;
}
