/* A coefficient whose decimal text is longer than the reader's line buffer
 * (ILL_namebufsize - 2 = 131070 characters): the MPS writer emits the whole
 * number on one line, the MPS reader gets the line in pieces and rejects it.
 * build: gcc -I$W -I$W/qsopt_ex repro.c $W/.libs/libqsopt_ex.a -lgmp -lz -lbz2 -lm -lpthread */
#include <stdio.h>
#include <string.h>
#include <gmp.h>
#include "qsopt_ex/QSopt_ex.h"

int main (int argc, char **argv)
{
	mpq_QSprob p, q;
	mpq_t one, zero, big, v[2], rhs, got;
	int ind[2] = { 0, 1 }, bad = 0;
	unsigned long digits = argc > 1 ? strtoul (argv[1], 0, 10) : 140000UL;

	QSexactStart ();
	mpq_init (one); mpq_init (zero); mpq_init (big); mpq_init (v[0]);
	mpq_init (v[1]); mpq_init (rhs); mpq_init (got);
	mpq_set_si (one, 1, 1);
	mpq_set (big, mpq_ILL_MAXDOUBLE);
	p = mpq_QScreate_prob ("longnum", QS_MIN);
	mpq_QSnew_col (p, one, zero, big, "x");
	mpq_QSnew_col (p, one, zero, big, "y");
	mpq_set_si (v[0], 1, 1);
	mpz_ui_pow_ui (mpq_numref (v[1]), 10UL, digits);	/* 1 followed by `digits` zeros */
	mpz_add_ui (mpq_numref (v[1]), mpq_numref (v[1]), 7UL);
	mpq_set_si (rhs, 2, 1);
	if (mpq_QSadd_row (p, 2, ind, (const mpq_t *) v, (const mpq_t *) &rhs, 'G', "c1"))
		return 2;
	if (mpq_QSwrite_prob (p, "longnum.mps", "MPS"))
		return 2;
	q = mpq_QSread_prob ("longnum.mps", "MPS");
	if (!q)
	{
		printf ("DEFECT: the MPS text written by the library is rejected by its reader\n");
		bad = 1;
	}
	else
	{
		mpq_QSget_coef (q, 0, 1, &got);
		bad = !mpq_equal (got, v[1]);
		printf (bad ? "DEFECT: coefficient changed\n" : "ok\n");
		mpq_QSfree_prob (q);
	}
	mpq_QSfree_prob (p);
	QSexactClear ();
	return bad;
}
