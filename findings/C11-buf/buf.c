#include <stdio.h>
#include "QSopt_ex.h"
int main(int argc,char**argv){ QSexactStart(); 
 if(argv[1][0]=='1'){ mpq_QSprob p=mpq_QSread_prob("/tmp/rp/long.mps","MPS"); printf("read returned %p\n",(void*)p); }
 else { mpq_QSprob p=mpq_QSread_prob("/tmp/rp/longname.lp","LP"); if(!p){printf("no read\n");return 0;} mpq_QSset_param(p,QS_PARAM_SIMPLEX_DISPLAY,1); int st; mpq_QSopt_dual(p,&st); printf("solved %d\n",st);} 
 return 0; }
