#include <stdio.h>
#include "QSopt_ex.h"
int main(){ QSexactStart();
 mpq_QSprob p=mpq_QScreate_prob("t",QS_MAX); mpq_t one,z,h,v; mpq_init(one);mpq_init(z);mpq_init(h);mpq_init(v); mpq_set_ui(one,1,1); mpq_set_ui(h,100,1);
 for(int j=0;j<40;j++) mpq_QSnew_col(p,one,z,h,NULL);
 int ind[1]={0}; mpq_t val[1]; mpq_init(val[0]); mpq_set_ui(val[0],1,1); mpq_set_ui(v,4,1); mpq_QSadd_row(p,1,ind,val,&v,'L',"r0");
 char cs[40], rs[1]; for(int j=0;j<40;j++) cs[j]=QS_COL_BSTAT_BASIC; rs[0]=QS_ROW_BSTAT_BASIC;   /* 41 basic variables for 1 row */
 int r=mpq_QSload_basis_array(p,cs,rs); printf("load_basis_array rval=%d\n",r);
 int st; r=mpq_QSopt_dual(p,&st); printf("opt rval=%d status=%d\n",r,st); return 0; }
