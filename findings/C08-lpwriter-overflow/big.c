#include <stdio.h>
#include "QSopt_ex.h"
int main(){ QSexactStart(); mpq_QSprob p=mpq_QScreate_prob("t",QS_MIN); mpq_t c,z,h; mpq_init(c);mpq_init(z);mpq_init(h);
 mpz_ui_pow_ui(mpq_numref(c),10,140000); mpq_set_ui(h,1,1); mpq_QSnew_col(p,c,z,h,"x");
 int ind[1]={0}; mpq_t val[1],v; mpq_init(val[0]); mpq_init(v); mpq_set_ui(val[0],1,1); mpq_QSadd_row(p,1,ind,val,&v,'G',"r");
 int r=mpq_QSwrite_prob(p,"/dev/null","LP"); printf("write LP rval=%d\n",r); r=mpq_QSwrite_prob(p,"/dev/null","MPS"); printf("write MPS rval=%d\n",r); return 0; }
