/* tiny problem used by all reproducers (public API only):
 *   max 3x + 2y + 4z
 *   c1: 3x + 2y + z <= 12,  c2: 5x + y = 10,  c3: x + z >= 1
 *   x >= 2, y free, 1 <= z <= 10                                   */
#include <stdio.h>
#include <stdlib.h>
#include <string.h>
#include <gmp.h>
#include "QSopt_ex.h"

static mpq_QSprob build (void)
{
	int i;
	int cmatcnt[3] = { 3, 2, 2 };
	int cmatbeg[3] = { 0, 3, 5 };
	int cmatind[7] = { 0, 1, 2, 0, 1, 0, 2 };
	double vals[7] = { 3, 5, 1, 2, 1, 1, 1 };
	char sense[3] = { 'L', 'E', 'G' };
	const char *colnames[3] = { "x", "y", "z" };
	const char *rownames[3] = { "c1", "c2", "c3" };
	mpq_t cmatval[7], obj[3], rhs[3], lower[3], upper[3];
	mpq_QSprob p;
	for (i = 0; i < 7; i++) { mpq_init (cmatval[i]); mpq_set_d (cmatval[i], vals[i]); }
	for (i = 0; i < 3; i++) { mpq_init (obj[i]); mpq_init (rhs[i]); mpq_init (lower[i]); mpq_init (upper[i]); }
	mpq_set_d (obj[0], 3); mpq_set_d (obj[1], 2); mpq_set_d (obj[2], 4);
	mpq_set_d (rhs[0], 12); mpq_set_d (rhs[1], 10); mpq_set_d (rhs[2], 1);
	mpq_set_d (lower[0], 2); mpq_set (lower[1], mpq_ILL_MINDOUBLE); mpq_set_d (lower[2], 1);
	mpq_set (upper[0], mpq_ILL_MAXDOUBLE); mpq_set (upper[1], mpq_ILL_MAXDOUBLE); mpq_set_d (upper[2], 10);
	p = mpq_QSload_prob ("small", 3, 3, cmatcnt, cmatbeg, cmatind, cmatval, QS_MAX, obj, rhs, sense, lower, upper, colnames, rownames);
	for (i = 0; i < 7; i++) mpq_clear (cmatval[i]);
	for (i = 0; i < 3; i++) { mpq_clear (obj[i]); mpq_clear (rhs[i]); mpq_clear (lower[i]); mpq_clear (upper[i]); }
	if (!p) { fprintf (stderr, "cannot build\n"); exit (2); }
	return p;
}
