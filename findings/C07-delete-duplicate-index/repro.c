/* run under valgrind */
#include "common.h"
int main (void)
{
	mpq_QSprob p; int rv, st = 0, d[2] = { 1, 1 }, bad = 0;
	int *rc = 0, *rb = 0, *ri = 0; mpq_t *rv_ = 0, *rh = 0; char *se = 0;
	QSexactStart ();
	p = build ();
	rv = mpq_QSdelete_cols (p, 2, d);
	printf ("QSdelete_cols {1,1}: rv=%d cols=%d nz=%d (3 columns before; one distinct column named)\n", rv, mpq_QSget_colcount (p), mpq_QSget_nzcount (p));
	if (rv == 0 && mpq_QSget_colcount (p) != 2) bad = 1;
	mpq_QSfree_prob (p);
	p = build ();
	rv = mpq_QSdelete_rows (p, 2, d);
	printf ("QSdelete_rows {1,1}: rv=%d rows=%d (3 rows before; one distinct row named)\n", rv, mpq_QSget_rowcount (p));
	if (rv == 0 && mpq_QSget_rowcount (p) != 2) bad = 1;
	rv = mpq_QSget_rows (p, &rc, &rb, &ri, &rv_, &rh, &se, 0);	/* heap overrun in ILLlp_rows_init */
	printf ("QSget_rows afterwards: rv=%d\n", rv);
	rv = mpq_QSopt_dual (p, &st); printf ("solve afterwards: rv=%d status=%d\n", rv, st);
	QSexactClear ();
	return bad;
}
