/* Pre-existing (unchanged tree): the status mpq_QSopt_dual gives for an UNBOUNDED
 * (feasible) LP depends on the basis it happens to start from: QS_LP_UNBOUNDED (3),
 * QS_LP_INFEASIBLE (2) or QS_LP_UNSOLVED (6, with rval 0).
 *
 *   max 2a - 4b + 4c ;  c <= 2 ; -3b + 2c <= 0 ;  a >= 0, b >= 0, c >= -2
 *   (a is unconstrained above: unbounded; (0,0,0) is feasible)
 *
 * exit 0: all four solves say "unbounded"; exit 1 otherwise. */
#include <stdio.h>
#include <stdlib.h>
#include <gmp.h>
#include "QSopt_ex.h"

static mpq_QSprob mk (void)
{
	int j;
	mpq_QSprob p = mpq_QScreate_prob ("t", QS_MAX);
	mpq_t o, l, u, r, v[2];
	int ind[2];
	int obj[3] = { 2, -4, 4 }, lo[3] = { 0, 0, -2 };
	mpq_init (o); mpq_init (l); mpq_init (u); mpq_init (r); mpq_init (v[0]); mpq_init (v[1]);
	for (j = 0; j < 3; j++)
	{
		mpq_set_si (o, obj[j], 1); mpq_set_si (l, lo[j], 1); mpq_set (u, mpq_ILL_MAXDOUBLE);
		mpq_QSnew_col (p, o, l, u, 0);
	}
	ind[0] = 2; mpq_set_si (v[0], 1, 1); mpq_set_si (r, 2, 1);
	mpq_QSadd_row (p, 1, ind, (const mpq_t *) v, (const mpq_t *) &r, 'L', 0);
	ind[0] = 1; ind[1] = 2; mpq_set_si (v[0], -3, 1); mpq_set_si (v[1], 2, 1); mpq_set_si (r, 0, 1);
	mpq_QSadd_row (p, 2, ind, (const mpq_t *) v, (const mpq_t *) &r, 'L', 0);
	return p;
}

int main (void)
{
	int scaling, algo, st, rv, bad = 0;
	QSexactStart ();
	for (scaling = 0; scaling < 2; scaling++)
		for (algo = 0; algo < 2; algo++)
		{
			mpq_QSprob p = mk ();
			mpq_QSset_param (p, QS_PARAM_SIMPLEX_SCALING, scaling);
			rv = algo ? mpq_QSopt_dual (p, &st) : mpq_QSopt_primal (p, &st);
			printf ("scaling %d, %s: rval %d status %d\n", scaling, algo ? "dual  " : "primal", rv, st);
			if (rv || st != QS_LP_UNBOUNDED) bad = 1;
			mpq_QSfree_prob (p);
		}
	QSexactClear ();
	return bad;
}
