/* sibling disagreement on the logical column of a ranged row: ILLlib_addrow and ILLlp_add_logicals give it the coefficient -1
 * (b <= a.x <= b + r), ILLlib_chgsense gives it +1 (b - r <= a.x <= b).  A row turned into a range row through the API is
 * reported by the query API / the writers as [b, b + r] and solved as [b - r, b]. */
#include <stdio.h>
#include <stdlib.h>
#include <gmp.h>
#include "QSopt_ex.h"
static void solve(mpq_QSprob p, const char *what)
{
	int status = 0; mpq_t v; mpq_init(v);
	int rval = getenv("DIRECT") ? mpq_QSopt_dual(p, &status) : QSexact_solver(p, NULL, NULL, NULL, DUAL_SIMPLEX, &status);
	if (!rval && status == QS_LP_OPTIMAL) { mpq_QSget_objval(p, v); gmp_printf("%s: OPTIMAL %Qd\n", what, v); }
	else printf("%s: rval=%d status=%d\n", what, rval, status);
	mpq_clear(v);
}
int main(void)
{
	QSexactStart();
	mpq_t one, zero, hund, five, three; mpq_init(one); mpq_init(zero); mpq_init(hund); mpq_init(five); mpq_init(three);
	mpq_set_ui(one,1,1); mpq_set_ui(hund,100,1); mpq_set_ui(five,5,1); mpq_set_ui(three,3,1);
	int ind[1] = {0}; mpq_t val[1]; mpq_init(val[0]); mpq_set_ui(val[0],1,1);
	/* A: row created as a range row: 5 <= x <= 8, min x */
	mpq_QSprob a = mpq_QScreate_prob("a", QS_MIN);
	mpq_QSnew_col(a, one, zero, hund, "x");
	mpq_QSadd_ranged_row(a, 1, ind, val, &five, (int) 0x52, &three, "r");
	solve(a, "A (created as R, rhs 5, range 3) min x");
	/* B: row created as G then changed to R with range 3 */
	mpq_QSprob b = mpq_QScreate_prob("b", QS_MIN);
	mpq_QSnew_col(b, one, zero, hund, "x");
	mpq_QSadd_row(b, 1, ind, val, five, 'G', "r");
	mpq_QSchange_sense(b, 0, 'R');
	mpq_QSchange_range(b, 0, three);
	solve(b, "B (G changed to R, rhs 5, range 3) min x");
	mpq_QSwrite_prob(b, "/dev/stdout", "LP");
	mpq_QSfree_prob(a); mpq_QSfree_prob(b);
	QSexactClear();
	return 0;
}
