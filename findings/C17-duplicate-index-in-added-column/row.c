/* mpq_QSadd_row with the same column index twice: accepted; the solve then works on a column with two entries of one row */
#include <stdio.h>
#include <stdlib.h>
#include <string.h>
#include <gmp.h>
#include "QSopt_ex.h"
#include "except.h"
#include "eg_macros.h"
static void q (mpq_t x, long n, unsigned long d) { mpq_set_si (x, n, d); mpq_canonicalize (x); }
int main (int ac, char **av)
{
	int dup = ac > 1 ? atoi (av[1]) : 1, status = 0, rval = 0, i;
	mpq_QSprob p;
	mpq_t obj, lo, up, rhs, val[4];
	int ind[4];
	mpq_t *y; QSbasis *B;
	QSexactStart ();
	mpq_init (obj); mpq_init (lo); mpq_init (up); mpq_init (rhs);
	for (i = 0; i < 4; i++) mpq_init (val[i]);
	p = mpq_QScreate_prob ("fz", QS_MAX);
	q (obj, 6, 1); q (up, 14, 1); rval |= mpq_QSnew_col (p, obj, lo, up, "x1");
	q (obj, 5, 1); q (up, 11, 1); rval |= mpq_QSnew_col (p, obj, lo, up, "x2");
	q (obj, 1, 1); q (up, 9, 1); rval |= mpq_QSnew_col (p, obj, lo, up, "x3");
	q (rhs, 12, 1); ind[0] = 0; q (val[0], 2, 1); ind[1] = 2; q (val[1], 1, 1);
	rval |= mpq_QSadd_row (p, 2, ind, val, (const mpq_t *) &rhs, 'L', "c1");
	q (rhs, 8, 1); ind[0] = 1; q (val[0], 6, 1); ind[1] = 2; q (val[1], -1, 1);
	rval |= mpq_QSadd_row (p, 2, ind, val, (const mpq_t *) &rhs, 'L', "c2");
	q (rhs, 7, 1);
	if (dup) { ind[0] = 0; q (val[0], 7, 3); ind[1] = 2; q (val[1], -2, 1); ind[2] = 2; q (val[2], -1, 3); rval |= mpq_QSadd_row (p, 3, ind, val, (const mpq_t *) &rhs, 'L', "c3"); }
	else { ind[0] = 0; q (val[0], 7, 3); ind[1] = 2; q (val[1], -7, 3); rval |= mpq_QSadd_row (p, 2, ind, val, (const mpq_t *) &rhs, 'L', "c3"); }
	printf ("all calls accepted: %s\n", rval ? "no" : "yes");
	y = mpq_EGlpNumAllocArray (3);
	B = (QSbasis *) calloc (1, sizeof (QSbasis));
	rval = QSexact_solver (p, 0, y, B, PRIMAL_SIMPLEX, &status);
	printf ("QSexact_solver rval %d status %d\n", rval, status);
	mpq_QSfree_basis (B); mpq_EGlpNumFreeArray (y); mpq_QSfree_prob (p);
	QSexactClear ();
	return 0;
}
