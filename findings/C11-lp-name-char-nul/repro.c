/* usage: readfile <file> <LP|MPS>   -- public API only */
#include <stdio.h>
#include <stdlib.h>
#include <gmp.h>
#include "QSopt_ex.h"
int main (int argc, char **argv)
{
	int status = 0, rval;
	mpq_QSprob p;

	if (argc < 3) return 2;
	QSexactStart ();
	p = mpq_QSread_prob (argv[1], argv[2]);
	if (!p) { printf ("read failed (NULL)\n"); QSexactClear (); return 0; }
	printf ("read ok: %d rows %d cols\n", mpq_QSget_rowcount (p), mpq_QSget_colcount (p));
	rval = mpq_QSwrite_prob (p, "/dev/null", "LP");  printf ("write LP %d\n", rval);
	rval = mpq_QSwrite_prob (p, "/dev/null", "MPS"); printf ("write MPS %d\n", rval);
	rval = QSexact_solver (p, NULL, NULL, NULL, DUAL_SIMPLEX, &status);
	printf ("solve %d status %d\n", rval, status);
	mpq_QSfree_prob (p);
	QSexactClear ();
	return 0;
}
