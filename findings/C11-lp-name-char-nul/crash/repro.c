#include <stdio.h>
#include <string.h>
#include <gmp.h>
#include "QSopt_ex.h"
int main(int ac, char **av)
{
    int i, status, ok = 0, bad = 0;
    QSexactStart(); QSexact_set_precision(128);
    for (i = 1; i < ac; i++) {
        size_t n = strlen(av[i]);
        const char *ty = (n > 3 && !strcmp(av[i]+n-3, ".lp")) ? "LP" : "MPS";
        mpq_QSprob p = mpq_QSread_prob(av[i], ty);
        if (p) { ok++; QSexact_solver(p, NULL, NULL, NULL, DUAL_SIMPLEX, &status); mpq_QSfree_prob(p); }
        else bad++;
    }
    QSexactClear();
    fprintf(stderr, "read ok %d, rejected %d\n", ok, bad);
    return 0;
}
