#!/bin/sh
# usage: sh build.sh <worktree>
W=${1:?worktree}; D=$(cd "$(dirname "$0")" && pwd)
cc -g -O0 -I"$W" -I"$W/qsopt_ex" -o "$D/repro" "$D/repro.c" "$W/.libs/libqsopt_ex.a" -lgmp -lz -lbz2 -lm -lpthread
