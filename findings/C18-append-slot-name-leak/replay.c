/* replay of R-SLOTLEAK findings: a rejected QSnew_row (duplicate name) and a rejected QSadd_col (row index out of range) leave the
 * duplicated name parked in slot [count] of rownames / colnames; the count is not incremented, QSfree_prob releases [0,count) only.
 * valgrind --leak-check=full: "definitely lost" blocks allocated by ILLutil_str from ILLlib_addrow / ILLlib_addcol. */
#include <stdio.h>
#include <stdlib.h>
#include <gmp.h>
#include "QSopt_ex.h"
int main(int argc, char **argv)
{
	int k, r1 = 0, r2 = 0;
	int what = argc > 1 ? atoi(argv[1]) : 3;
	QSexactStart();
	mpq_QSprob p = mpq_QScreate_prob("t", QS_MAX);
	mpq_t one, zero, hund;
	mpq_init(one); mpq_init(zero); mpq_init(hund);
	mpq_set_ui(one,1,1); mpq_set_ui(hund,100,1);
	mpq_QSnew_col(p, one, zero, hund, "x");
	mpq_QSnew_row(p, hund, 'L', "c1");
	for (k = 0; k < 5; k++) {
		if (what & 1) r1 += mpq_QSnew_row(p, hund, 'L', "c1") != 0;          /* duplicate row name: rejected */
		int ind[1] = {99}; mpq_t val[1]; mpq_init(val[0]); mpq_set_ui(val[0],1,1);
		if (what & 2) r2 += mpq_QSadd_col(p, 1, ind, val, one, zero, hund, "a_rather_long_column_name_to_spot") != 0;   /* bad row index: rejected */
		mpq_clear(val[0]);
	}
	printf("rejected rows=%d cols=%d  nrows=%d ncols=%d\n", r1, r2, mpq_QSget_rowcount(p), mpq_QSget_colcount(p));
	mpq_clear(one); mpq_clear(zero); mpq_clear(hund);
	mpq_QSfree_prob(p);
	QSexactClear();
	return 0;
}
