/* QSdelete_rows keeps the cached solution when only rows that are BASIC in p->basis are deleted - sound only while p->basis is the
 * basis of the cached solution.  QSload_basis replaces p->basis and keeps the cache: afterwards the deletion of a row that is binding
 * in the cached solution, but basic in the loaded basis, leaves the stale solution in place. */
#include <stdio.h>
#include <stdlib.h>
#include <gmp.h>
#include "QSopt_ex.h"
int main(void)
{
	int rval, status, k;
	QSexactStart();
	mpq_QSprob p = mpq_QScreate_prob("t", QS_MIN);
	mpq_t one, zero, hund, four, v; mpq_init(one); mpq_init(zero); mpq_init(hund); mpq_init(four); mpq_init(v);
	mpq_set_ui(one,1,1); mpq_set_ui(hund,100,1); mpq_set_ui(four,4,1);
	mpq_QSnew_col(p, one, zero, hund, "x");
	int ind[1] = {0}; mpq_t val[1]; mpq_init(val[0]); mpq_set_si(val[0],-1,1); mpq_neg(four, four);
	mpq_QSadd_row(p, 1, ind, val, four, 'L', "c1");          /* -x <= -4 : binding at the optimum of min x, dual value -1 */
	rval = mpq_QSopt_dual(p, &status); mpq_QSget_objval(p, v);
	gmp_printf("solve: rval=%d status=%d value=%Qd\n", rval, status, v);
	/* another valid basis: the logical of c1 basic, x non-basic at its lower bound */
	QSbasis *B = mpq_QSget_basis(p);
	printf("optimal basis: cstat=%c rstat=%c\n", B->cstat[0], B->rstat[0]);
	B->cstat[0] = QS_COL_BSTAT_LOWER; B->rstat[0] = QS_ROW_BSTAT_BASIC;
	rval = mpq_QSload_basis(p, B); printf("load_basis rval=%d\n", rval);
	rval = mpq_QSdelete_row(p, 0); printf("delete_row rval=%d\n", rval);
	rval = mpq_QSget_status(p, &status); printf("status after the edit: %d (1 = OPTIMAL, %d = MODIFIED)\n", status, QS_LP_MODIFIED);
	rval = mpq_QSget_objval(p, v);
	if (rval == 0) gmp_printf("objval served after the edit: %Qd   (the LP is now min x, 0 <= x <= 100: optimum 0)\n", v);
	else printf("objval refused (rval=%d): no stale solution served\n", rval);
	mpq_QSfree_basis(B);
	mpq_QSfree_prob(p);
	QSexactClear();
	return rval == 0 && mpq_cmp_ui(v, 0, 1) != 0;
}
