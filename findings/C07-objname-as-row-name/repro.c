/* QSget_row_index() given the NAME OF THE OBJECTIVE (not a row) returns 0 and
 * index -1, for a problem read from an LP/MPS file. */
#include <stdio.h>
#include <gmp.h>
#include "qsopt_ex/QSopt_ex.h"
int main (void)
{
	FILE *f = fopen ("t.lp", "w");
	mpq_QSprob p;
	int idx = 99, rv, bad = 0;
	fprintf (f, "Minimize\n cost: x + 2 y\nSubject To\n r1: x + y >= 2\n r2: x - y <= 1\nEnd\n");
	fclose (f);
	QSexactStart ();
	p = mpq_QSread_prob ("t.lp", "LP");
	if (!p) return 2;
	rv = mpq_QSget_row_index (p, "cost", &idx);
	printf ("QSget_row_index(\"cost\") rv=%d index=%d (rows: %d)\n", rv, idx, mpq_QSget_rowcount (p));
	if (rv == 0) bad = 1;
	rv = mpq_QSget_row_index (p, "nope", &idx);
	printf ("QSget_row_index(\"nope\") rv=%d index=%d\n", rv, idx);
	mpq_QSfree_prob (p);
	QSexactClear ();
	return bad;
}
