/* mpq_QScopy_prob drops the SOS sets of the original: the two problems are
 * written differently, and writing in LP format fails for the original
 * (SOS cannot be expressed) but succeeds for the copy. */
#include <stdio.h>
#include <stdlib.h>
#include "QSopt_ex.h"
#include "except.h"
int main (void)
{
	mpq_QSdata *p, *c;
	int ro, rc, d;
	QSexactStart ();
	p = mpq_QSread_prob ("sos.mps", "MPS");
	if (!p)
		return 2;
	c = mpq_QScopy_prob (p, "sosprob");
	mpq_QSwrite_prob (p, "orig.mps", "MPS");
	mpq_QSwrite_prob (c, "copy.mps", "MPS");
	d = system ("diff orig.mps copy.mps");
	ro = mpq_QSwrite_prob (p, "orig.lp", "LP");
	rc = mpq_QSwrite_prob (c, "copy.lp", "LP");
	printf ("MPS files differ: %s; write as LP: original rval %d, copy rval %d\n",
					d ? "yes" : "no", ro, rc);
	mpq_QSfree_prob (p);
	mpq_QSfree_prob (c);
	QSexactClear ();
	return d != 0 || ro != rc;
}
