NAME          sosprob
ROWS
 N  cost
 L  lim1
 G  lim2
COLUMNS
 S1 SOS1qs    'MARKER'    'SOSORG'
    x         cost         1   lim1         1
    x         lim2         1
    y         cost         2   lim1         1
 SOS2qs       'MARKER'    'SOSEND'
    z         cost        -1   lim1         1
    z         lim2         1
RHS
    rhs       lim1         4   lim2         1
BOUNDS
 UP bnd       x            4
 UP bnd       y            1
 UP bnd       z            3
ENDATA
