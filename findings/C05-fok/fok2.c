#include <stdio.h>
#include "QSopt_ex.h"
int main(){ QSexactStart();
 mpq_QSprob p=mpq_QScreate_prob("t",QS_MAX); mpq_t one,z,h,v; mpq_init(one);mpq_init(z);mpq_init(h);mpq_init(v); mpq_set_ui(one,1,1); mpq_set_ui(h,100,1);
 mpq_QSnew_col(p,one,z,h,"x"); mpq_QSnew_col(p,one,z,h,"y"); int ind[2]={0,1}; mpq_t val[2]; mpq_init(val[0]);mpq_init(val[1]); mpq_set_ui(val[0],1,1);mpq_set_ui(val[1],1,1);
 mpq_set_ui(v,4,1); mpq_QSadd_row(p,2,ind,val,&v,'L',"r0"); mpq_set_ui(v,3,1); mpq_QSadd_row(p,1,ind,val,&v,'L',"r1");
 int st; mpq_QSopt_primal(p,&st);
 QSbasis S; S.nstruct=2;S.nrows=2; char cs[2]={QS_COL_BSTAT_LOWER,QS_COL_BSTAT_LOWER}, rs[2]={QS_ROW_BSTAT_BASIC,QS_ROW_BSTAT_BASIC}; S.cstat=cs;S.rstat=rs;
 mpq_QSwrite_basis(p,&S,"/tmp/rp/slack.bas");
 /* an objective edit keeps factorok, drops the cache */
 mpq_set_ui(v,2,1); mpq_QSchange_objcoef(p,0,v);
 mpq_QSread_and_load_basis(p,"/tmp/rp/slack.bas");
 
 int r=mpq_QSopt_primal(p,&st); QSbasis*B=mpq_QSget_basis(p); int tot=-1; mpq_QSget_itcnt(p,0,0,0,0,&tot); printf("iterations of the solve after loading the all-slack basis: %d\n",tot);
 printf("primal solve with iteration limit 0 from the loaded all-slack basis: rval=%d status=%d basis rstat={%d,%d} cstat={%d,%d} (all-slack = rstat {1,1} cstat {0,0}... BASIC=%d)\n",r,st,B->rstat[0],B->rstat[1],B->cstat[0],B->cstat[1],QS_ROW_BSTAT_BASIC);
 return tot==0;}
