#include <stdio.h>
#include <string.h>
#include "QSopt_ex.h"
static mpq_QSprob mk(int sense){ /* max/min x+y ; r0: x+y<=4 ; r1: x<=3 ; 0<=x,y<=100 */
 mpq_QSprob p=mpq_QScreate_prob("t",sense); mpq_t one,z,h,v; mpq_init(one);mpq_init(z);mpq_init(h);mpq_init(v);
 mpq_set_ui(one,1,1); mpq_set_ui(h,100,1);
 mpq_QSnew_col(p,one,z,h,"x"); mpq_QSnew_col(p,one,z,h,"y");
 int ind[2]={0,1}; mpq_t val[2]; mpq_init(val[0]);mpq_init(val[1]); mpq_set_ui(val[0],1,1);mpq_set_ui(val[1],1,1);
 mpq_set_ui(v,4,1); mpq_QSadd_row(p,2,ind,val,&v,'L',"r0"); mpq_set_ui(v,3,1); mpq_QSadd_row(p,1,ind,val,&v,'L',"r1");
 return p; }
static void val(mpq_QSprob p,const char*tag){ int st=0; mpq_t v; mpq_init(v); int r=mpq_QSopt_dual(p,&st); mpq_QSget_objval(p,&v); gmp_printf("%s: rval=%d status=%d obj=%Qd\n",tag,r,st,v); }
int main(int argc,char**argv){ QSexactStart(); int bad=0;
 { mpq_QSprob p=mk(QS_MAX); val(p,"A0 solve"); mpq_t two; mpq_init(two); mpq_set_ui(two,2,1);
   mpq_QSchange_coef(p,0,0,two); mpq_QSchange_coef(p,0,1,two); int st; mpq_t v; mpq_init(v); mpq_QSopt_dual(p,&st); mpq_QSget_objval(p,&v);
   gmp_printf("A1 after change_coef to 2x+2y<=4: status=%d obj=%Qd (expected 2)\n",st,v); if(mpq_cmp_ui(v,2,1)) bad|=1; }
 { mpq_QSprob p=mk(QS_MIN); val(p,"B0 solve"); mpq_QSchange_sense(p,0,'G'); int st; mpq_t v; mpq_init(v); mpq_QSopt_dual(p,&st); mpq_QSget_objval(p,&v);
   gmp_printf("B1 after change_sense r0 -> G (min x+y, x+y>=4): status=%d obj=%Qd (expected 4)\n",st,v); if(mpq_cmp_ui(v,4,1)) bad|=2; }
 { mpq_QSprob p=mk(QS_MAX); val(p,"C0 solve"); QSbasis*B=mpq_QSget_basis(p); printf("C optimal basis cstat=%c%c rstat=%c%c\n",B->cstat[0]+'0',B->cstat[1]+'0',B->rstat[0]+'0',B->rstat[1]+'0');
   /* all-slack basis file */ QSbasis S; S.nstruct=2;S.nrows=2; char cs[2]={QS_COL_BSTAT_LOWER,QS_COL_BSTAT_LOWER}, rs[2]={QS_ROW_BSTAT_BASIC,QS_ROW_BSTAT_BASIC}; S.cstat=cs;S.rstat=rs;
   mpq_QSwrite_basis(p,&S,"/tmp/rp/slack.bas"); int r=mpq_QSread_and_load_basis(p,"/tmp/rp/slack.bas"); QSbasis*B2=mpq_QSget_basis(p);
   int ord[2]={-9,-9}; int r2=mpq_QSget_basis_order(p,ord);
   printf("C after read_and_load(all-slack): rval=%d basis cstat=%c%c rstat=%c%c ; basis_order rval=%d = {%d,%d} (all-slack basis has order {2,3})\n",r,B2->cstat[0]+'0',B2->cstat[1]+'0',B2->rstat[0]+'0',B2->rstat[1]+'0',r2,ord[0],ord[1]);
   if(r2==0 && !((ord[0]>=2)&&(ord[1]>=2))) bad|=4; }
 printf("bad=%d\n",bad); return bad; }
