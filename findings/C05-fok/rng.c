#include <stdio.h>
#include "QSopt_ex.h"
int main(){ QSexactStart();
 mpq_QSprob p=mpq_QScreate_prob("t",QS_MAX); mpq_t one,z,h,v,r; mpq_init(one);mpq_init(z);mpq_init(h);mpq_init(v);mpq_init(r); mpq_set_ui(one,1,1); mpq_set_ui(h,100,1);
 mpq_QSnew_col(p,one,z,h,"x"); int ind[1]={0}; mpq_t val[1]; mpq_init(val[0]); mpq_set_ui(val[0],1,1);
 mpq_set_ui(v,3,1); mpq_set_ui(r,2,1); mpq_QSadd_ranged_row(p,1,ind,val,&v,'R',&r,"r0");   /* 3 <= x <= 5 */
 int st; mpq_t o; mpq_init(o); mpq_QSopt_dual(p,&st); mpq_QSget_objval(p,&o); gmp_printf("max x, 3<=x<=5: status=%d obj=%Qd\n",st,o);
 mpq_set_ui(r,5,1); int rc=mpq_QSchange_range(p,0,r);                                        /* 3 <= x <= 8 */
 mpq_QSopt_dual(p,&st); mpq_QSget_objval(p,&o); gmp_printf("after change_range(5) rc=%d: status=%d obj=%Qd (expected 8)\n",rc,st,o);
 return mpq_cmp_ui(o,8,1)!=0; }
