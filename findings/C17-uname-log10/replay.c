/* NULL-named row added after a row deletion: the generated name "c2" collides
 * with the surviving row and the fallback in ILLsymboltab_uname writes far
 * outside its stack buffer. */
#include <stdio.h>
#include <gmp.h>
#include "QSopt_ex.h"

int main (void)
{
	mpq_t b;
	mpq_QSprob p;
	int rval;

	QSexactStart ();
	mpq_init (b);
	p = mpq_QScreate_prob ("p", QS_MIN);
	rval = mpq_QSnew_row (p, b, 'L', NULL);	/* named "c1" */
	printf ("new_row 1: %d\n", rval);
	rval = mpq_QSnew_row (p, b, 'L', NULL);	/* named "c2" */
	printf ("new_row 2: %d\n", rval);
	rval = mpq_QSdelete_row (p, 0);					/* "c2" is now row 0 */
	printf ("delete_row 0: %d\n", rval);
	fflush (stdout);
	rval = mpq_QSnew_row (p, b, 'L', NULL);	/* wants "c2" again */
	printf ("new_row 3: %d\n", rval);
	mpq_QSfree_prob (p);
	mpq_clear (b);
	QSexactClear ();
	return 0;
}
