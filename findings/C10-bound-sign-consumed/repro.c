/* Two texts that are not LP syntax are accepted by the LP reader without any
 * error or warning, and change the meaning of the file:
 *   " - x <= 5"   in the Bounds section is read as   x <= 5   (the sign is dropped)
 *   " y <= /5"    is read as   y <= 0   (the literal "/5" scans as the number 0)
 * build: cc -I<wt> -I<wt>/qsopt_ex repro.c <wt>/.libs/libqsopt_ex.a -lgmp -lz -lbz2 -lm -lpthread
 * exit 0 iff the reader refuses the file */
#include <stdio.h>
#include <stdlib.h>
#include <string.h>
#include <gmp.h>
#include "qsopt_ex/QSopt_ex.h"

static void quiet (const char *s, void *d) { (void) s; (void) d; }

int main (void)
{
	FILE *f = fopen ("odd_bounds.lp", "w");
	mpq_QSerror_memory mem;
	mpq_QSerror_collector coll;
	mpq_QSline_reader rd;
	mpq_QSformat_error e;
	mpq_QSprob p;
	mpq_t lo, up;
	int i, n, nmsg = 0, isnull;

	fprintf (f, "Minimize\n obj: x + y\nSubject To\n c2: x + y >= -20\nBounds\n - x <= 5\n y <= /5\nEnd\n");
	fclose (f);
	QSlog_set_handler (quiet, NULL);
	QSexactStart ();
	mpq_init (lo);
	mpq_init (up);
	f = fopen ("odd_bounds.lp", "r");
	mem = mpq_QSerror_memory_create (1);
	coll = mpq_QSerror_memory_collector_new (mem);
	rd = mpq_QSline_reader_new ((void *) fgets, f);
	mpq_QSline_reader_set_error_collector (rd, coll);
	p = mpq_QSget_prob (rd, "odd_bounds.lp", "LP");
	for (e = mpq_QSerror_memory_get_last_error (mem); e; e = mpq_QSerror_memory_get_prev_error (e))
	{
		/* the two remarks every nameless file gets do not count */
		if (strstr (mpq_QSerror_get_desc (e), "Setting problem name") == NULL)
		{
			printf ("collector: %s", mpq_QSerror_get_desc (e));
			nmsg++;
		}
	}
	printf ("reader returned %s, %d message(s) about the file\n", p ? "a problem" : "NULL", nmsg);
	if (p)
	{
		n = mpq_QSget_colcount (p);
		for (i = 0; i < n; i++)
		{
			mpq_QSget_bound (p, i, 'L', &lo);
			mpq_QSget_bound (p, i, 'U', &up);
			printf ("col %d (%s): %g <= . <= %g\n", i, i ? "y" : "x", mpq_get_d (lo), mpq_get_d (up));
		}
		mpq_QSfree_prob (p);
	}
	isnull = (p == NULL);
	mpq_QSline_reader_free (rd);
	mpq_QSerror_collector_free (coll);
	mpq_QSerror_memory_free (mem);
	fclose (f);
	mpq_clear (lo);
	mpq_clear (up);
	QSexactClear ();
	return isnull ? 0 : 1;
}
