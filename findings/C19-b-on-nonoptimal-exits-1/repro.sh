#!/bin/sh
# sh repro.sh <worktree>     (unchanged tree)
W=${1:?worktree}
D=$(cd "$(dirname "$0")" && pwd)
E=$W/esolver/esolver
cd "$D" || exit 2
for p in inf unb; do
	rm -f $p.sol $p.bas
	"$E" -O $p.sol $p.lp > $p.log 2>&1;            echo "$p.lp            : exit $?  $(cat $p.sol)"
	"$E" -O $p.sol -b $p.bas $p.lp > $p.log 2>&1;  echo "$p.lp -b $p.bas  : exit $?  $(cat $p.sol)  basis file: $(ls $p.bas 2>/dev/null || echo none)"
	grep -h 'no basis' $p.log
done
