/* min x  s.t.  x >= 1 (row), x >= 0.  One call of QSexact_basis_dualstatus on
 * the optimal basis (x basic, row at its bound).  Run under valgrind. */
#include <stdio.h>
#include <stdlib.h>
#include <gmp.h>
#include "QSopt_ex.h"

int main (void)
{
	int rval = 0;
	mpq_t o, l, u, v[1], r, dv;
	int ind[1] = { 0 };
	char cs[1] = { QS_COL_BSTAT_BASIC }, rs[1] = { QS_ROW_BSTAT_LOWER };
	char res = 9;
	QSbasis B;
	mpq_QSprob p;

	QSexactStart ();
	mpq_init (o); mpq_init (l); mpq_init (u); mpq_init (v[0]); mpq_init (r); mpq_init (dv);
	p = mpq_QScreate_prob ("p", QS_MIN);
	mpq_set_si (o, 1, 1); mpq_set_si (l, 0, 1); mpq_set (u, mpq_ILL_MAXDOUBLE);
	rval |= mpq_QSnew_col (p, o, l, u, "x");
	mpq_set_si (v[0], 1, 1); mpq_set_si (r, 1, 1);
	rval |= mpq_QSadd_row (p, 1, ind, (const mpq_t *) v, (const mpq_t *) &r, 'G', "c1");
	B.nstruct = 1; B.nrows = 1; B.cstat = cs; B.rstat = rs;
	rval |= QSexact_basis_dualstatus (p, &B, &res, &dv, 1);
	gmp_printf ("rval=%d result=%d dobjval=%Qd\n", rval, res, dv);
	mpq_QSfree_prob (p);
	mpq_clear (o); mpq_clear (l); mpq_clear (u); mpq_clear (v[0]); mpq_clear (r); mpq_clear (dv);
	QSexactClear ();
	return rval;
}
