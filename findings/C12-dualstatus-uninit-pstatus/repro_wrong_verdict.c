/* Same LP and basis as repro.c.  Before the call the (dead) stack area that
 * QSexact_basis_dualstatus is going to use for its locals is filled with the
 * integer 5 (= PRIMAL_UNBOUNDED) by an ordinary function of the caller; any
 * earlier call chain of the application could leave such values there. */
#include <stdio.h>
#include <stdlib.h>
#include <gmp.h>
#include "QSopt_ex.h"

static __attribute__ ((noinline)) int dirty_stack (int val)
{
	volatile int a[2048];
	int i, s = 0;
	for (i = 0; i < 2048; i++) a[i] = val;
	for (i = 0; i < 2048; i += 97) s += a[i];
	return s;
}

int main (void)
{
	int rval = 0, k;
	mpq_t o, l, u, v[1], r, dv;
	int ind[1] = { 0 };
	char cs[1] = { QS_COL_BSTAT_BASIC }, rs[1] = { QS_ROW_BSTAT_LOWER };
	char res1 = 9, res2 = 9;
	QSbasis B;
	mpq_QSprob p;

	QSexactStart ();
	mpq_init (o); mpq_init (l); mpq_init (u); mpq_init (v[0]); mpq_init (r); mpq_init (dv);
	p = mpq_QScreate_prob ("p", QS_MIN);
	mpq_set_si (o, 1, 1); mpq_set_si (l, 0, 1); mpq_set (u, mpq_ILL_MAXDOUBLE);
	rval |= mpq_QSnew_col (p, o, l, u, "x");
	mpq_set_si (v[0], 1, 1); mpq_set_si (r, 1, 1);
	rval |= mpq_QSadd_row (p, 1, ind, (const mpq_t *) v, (const mpq_t *) &r, 'G', "c1");
	B.nstruct = 1; B.nrows = 1; B.cstat = cs; B.rstat = rs;

	k = dirty_stack (3);
	rval |= QSexact_basis_dualstatus (p, &B, &res1, &dv, 1);
	k += dirty_stack (5);
	rval |= QSexact_basis_dualstatus (p, &B, &res2, &dv, 1);
	printf ("same LP, same (optimal) basis: result after dirty_stack(3) = %d, after dirty_stack(5) = %d  (%d)\n", res1, res2, k);
	mpq_QSfree_prob (p);
	mpq_clear (o); mpq_clear (l); mpq_clear (u); mpq_clear (v[0]); mpq_clear (r); mpq_clear (dv);
	QSexactClear ();
	return rval || res1 != res2;
}
