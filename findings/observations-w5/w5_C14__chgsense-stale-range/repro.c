/* A ranged row that is turned into an equation with QSchange_sense keeps its
 * old range value.  The basis the solver then reports can have the EQUATION
 * "at upper"; that basis goes through QSwrite_basis/QSread_basis unchanged,
 * loads without complaint, and the next solve fails in ILLbasis_load.
 *
 *   min x + y     r0: 2 <= x + y <= 5 (ranged)    r1: x - y <= 0    0<=x,y<=10
 */
#include <stdio.h>
#include <string.h>
#include <gmp.h>
#include "QSopt_ex.h"
static void pb(const char*t,QSbasis*B){int i;printf("%-34s cstat=",t);for(i=0;i<B->nstruct;i++)putchar(B->cstat[i]);printf(" rstat=");for(i=0;i<B->nrows;i++)putchar(B->rstat[i]);putchar('\n');}
int main(int ac,char**av){
  int variant = ac>1 ? atoi(av[1]) : 1;
  int st=0,rc=0,r; mpq_t o,l,u,rhs,rng,v[2]; int ind[2]={0,1};
  QSexactStart();
  mpq_init(o);mpq_init(l);mpq_init(u);mpq_init(rhs);mpq_init(rng);mpq_init(v[0]);mpq_init(v[1]);
  mpq_QSprob p=mpq_QScreate_prob("chg",QS_MIN);
  mpq_set_si(o,variant==1?1:-1,1);mpq_set_si(l,0,1);mpq_set_si(u,10,1);
  mpq_QSnew_col(p,o,l,u,"x"); mpq_QSnew_col(p,o,l,u,"y");
  mpq_set_si(rhs,2,1);mpq_set_si(rng,3,1);mpq_set_si(v[0],1,1);mpq_set_si(v[1],1,1);
  mpq_QSadd_ranged_row(p,2,ind,(const mpq_t*)v,(const mpq_t*)&rhs,'R',(const mpq_t*)&rng,"r0");
  mpq_set_si(rhs,0,1);mpq_set_si(v[1],-1,1);
  mpq_QSadd_row(p,2,ind,(const mpq_t*)v,(const mpq_t*)&rhs,'L',"r1");
  mpq_QSopt_primal(p,&st); { QSbasis*B=mpq_QSget_basis(p); pb("ranged model, optimal basis",B); mpq_QSfree_basis(B);}
  printf("QSchange_sense(r0,'E') = %d\n",mpq_QSchange_sense(p,0,'E'));
  r=mpq_QSopt_dual(p,&st); printf("QSopt_dual = %d, status %d\n",r,st);
  if(r){ printf("DEFECT (variant 2): the solve after the sense change fails\n"); return 1; }
  QSbasis*B=mpq_QSget_basis(p); pb("equation model, optimal basis",B);
  if(B->rstat[0]==QS_ROW_BSTAT_UPPER){printf("DEFECT: the equation r0 is reported at upper\n");rc=1;}
  printf("QSwrite_basis = %d\n",mpq_QSwrite_basis(p,0,"chg.bas"));
  printf("QSread_and_load_basis = %d\n",mpq_QSread_and_load_basis(p,"chg.bas"));
  r=mpq_QSopt_primal(p,&st); printf("QSopt_primal after loading the file = %d, status %d\n",r,st);
  if(r){printf("DEFECT: the basis of the file cannot be used\n");rc=1;}
  return rc;
}
