NAME    chg
 XU x r0
 XL y r1
ENDATA
