#include "common.h"
int main (int ac, char **av)
{
	mpq_QSprob p; int rv, st = 0, bad = 0; QSbasis *G; FILE *f;
	const char *dup = ac > 1 ? av[1] : "dup.bas";
	QSexactStart ();
	p = build ();
	rv = mpq_QSopt_dual (p, &st);
	G = mpq_QSget_basis (p); printf ("basis after solve: %s\n", G ? "present" : "none"); if (G) mpq_QSfree_basis (G);
	rv = mpq_QSread_and_load_basis (p, "/nonexistent/file.bas");
	G = mpq_QSget_basis (p);
	printf ("QSread_and_load_basis(missing file): rv=%d, basis afterwards: %s (expected: non-zero, present)\n", rv, G ? "present" : "GONE");
	if (!G) bad = 1; else mpq_QSfree_basis (G);
	mpq_QSfree_prob (p);
	/* a well-formed file describing a malformed basis: x made basic twice */
	f = fopen (dup, "w"); fprintf (f, "NAME small\n XL x c1\n XL x c2\nENDATA\n"); fclose (f);
	p = build ();
	rv = mpq_QSopt_dual (p, &st);
	rv = mpq_QSread_and_load_basis (p, dup);
	printf ("QSread_and_load_basis(basis with 2 basic variables for 3 rows): rv=%d (expected non-zero)\n", rv);
	if (rv == 0) bad = 1;
	G = mpq_QSget_basis (p); if (G) { printf ("stored basis now: c=%.3s r=%.3s\n", G->cstat, G->rstat); mpq_QSfree_basis (G); }
	rv = mpq_QSopt_dual (p, &st); printf ("solve afterwards: rv=%d status=%d\n", rv, st);
	mpq_QSfree_prob (p); QSexactClear ();
	return bad;
}
