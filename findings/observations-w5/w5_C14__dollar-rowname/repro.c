/* A row whose name starts with '$' (a legal LP-format name character, the LP
 * writer/reader leave such a name alone) cannot be named in a basis file:
 * QSwrite_basis writes " XL x $cap", QSread_basis takes "$cap" for an MPS
 * comment and rejects the file. */
#include <stdio.h>
#include <string.h>
#include <gmp.h>
#include "QSopt_ex.h"
int main(void){
  int st=0,rc=0; mpq_t o,l,u,rhs,v[1]; int ind[1]={0};
  QSexactStart();
  mpq_init(o);mpq_init(l);mpq_init(u);mpq_init(rhs);mpq_init(v[0]);
  mpq_QSprob p=mpq_QScreate_prob("dollar",QS_MAX);
  mpq_set_si(o,1,1);mpq_set_si(l,0,1);mpq_set_si(u,10,1);
  mpq_QSnew_col(p,o,l,u,"x");
  mpq_set_si(rhs,4,1);mpq_set_si(v[0],1,1);
  mpq_QSadd_row(p,1,ind,(const mpq_t*)v,(const mpq_t*)&rhs,'L',"$cap");   /* max x, x<=4: x basic, row non-basic */
  /* the name survives an LP-format round trip unchanged: it needs no repair */
  mpq_QSwrite_prob(p,"dollar.lp","LP");
  { mpq_QSprob q=mpq_QSread_prob("dollar.lp","LP"); int ri=-1;
    if(q){ mpq_QSget_row_index(q,"$cap",&ri); printf("LP round trip: row \"$cap\" has index %d\n",ri); mpq_QSfree_prob(q);} }
  mpq_QSopt_primal(p,&st);
  QSbasis*B=mpq_QSget_basis(p);
  printf("status %d  cstat=%c rstat=%c\n",st,B->cstat[0],B->rstat[0]);
  printf("write: %d\n",mpq_QSwrite_basis(p,0,"dollar.bas"));
  QSbasis*R=mpq_QSread_basis(p,"dollar.bas");
  if(!R){printf("QSread_basis FAILED on the file QSwrite_basis has just written\n");rc=1;}
  else if(R->cstat[0]!=B->cstat[0]||R->rstat[0]!=B->rstat[0]){printf("read back cstat=%c rstat=%c\n",R->cstat[0],R->rstat[0]);rc=1;}
  else printf("round trip ok\n");
  return rc;
}
