#include <stdio.h>
#include <stdlib.h>
#include <gmp.h>
#include "QSopt_ex.h"
/* Pre-existing behaviour (unchanged tree): QSexact_verify with useprestep=1 and no approximate
 * solutions answers for ANOTHER basis than the one it was given.
 *
 * min x0 + 2 x1   s.t.  x0 + x1 >= 2,  x >= 0.
 * optimum: x0 = 2 (basis: x0 basic), value 2.
 * basis "x1 basic, x0 at lower": x1 = 2, y = 2, reduced cost of x0 = 1 - 2 = -1 < 0 at lower: NOT dual feasible. */
int main (void)
{
	mpq_QSprob p;
	mpq_t v[2], rhs, one, two, zero, dob;
	int ind[2] = { 0, 1 }, rval;
	char res;
	char cs[2] = { QS_COL_BSTAT_LOWER, QS_COL_BSTAT_BASIC }, rs[1] = { QS_ROW_BSTAT_LOWER };
	QSbasis B = { 2, 1, cs, rs };
	QSexactStart ();
	QSexact_set_precision (128);
	mpq_init (v[0]); mpq_init (v[1]); mpq_init (rhs); mpq_init (one); mpq_init (two); mpq_init (zero); mpq_init (dob);
	mpq_set_ui (one, 1, 1); mpq_set_ui (two, 2, 1);
	p = mpq_QScreate_prob ("obs", QS_MIN);
	mpq_QSnew_col (p, one, zero, mpq_ILL_MAXDOUBLE, "x0");
	mpq_QSnew_col (p, two, zero, mpq_ILL_MAXDOUBLE, "x1");
	mpq_set_ui (v[0], 1, 1); mpq_set_ui (v[1], 1, 1); mpq_set_ui (rhs, 2, 1);
	mpq_QSadd_row (p, 2, ind, (const mpq_t *) v, &rhs, 'G', "r0");
	res = 9; mpq_set_si (dob, -99, 1);
	rval = QSexact_basis_dualstatus (p, &B, &res, &dob, 1);
	printf ("dualstatus        : rval=%d result=%d\n", rval, res);
	res = 9; mpq_set_si (dob, -99, 1);
	rval = QSexact_verify (p, &B, 0, 0, 0, &res, &dob, 1);
	printf ("verify(prestep=0) : rval=%d result=%d\n", rval, res);
	res = 9; mpq_set_si (dob, -99, 1);
	rval = QSexact_verify (p, &B, 1, 0, 0, &res, &dob, 1);
	printf ("verify(prestep=1) : rval=%d result=%d dobjval=%g   cstat now %c%c\n", rval, res, mpq_get_d (dob), cs[0], cs[1]);
	mpq_QSfree_prob (p);
	return res != 0;								/* exit 1: verify(prestep) claims the dual-infeasible basis is dual feasible */
}
