#include "common.h"
int main (void)
{
	mpq_QSprob p; mpq_t v[2]; int rv, bad = 0;
	int cnt[2] = { 0, 0 }, beg[2] = { 0, 0 }; char sn[2] = { 'L', 'L' };
	const char *rn[2] = { "fresh_row", "c2" };	/* c2 is in use */
	const char *cn[2] = { "fresh_col", "y" };		/* y is in use */
	QSexactStart ();
	p = build (); mpq_init (v[0]); mpq_init (v[1]); mpq_set_ui (v[0], 1, 1); mpq_set_ui (v[1], 2, 1);
	rv = mpq_QSadd_rows (p, 2, cnt, beg, 0, 0, v, sn, rn);
	printf ("QSadd_rows {fresh_row, c2(dup)}: rv=%d rows=%d (expected: non-zero, 3)\n", rv, mpq_QSget_rowcount (p));
	if (rv == 0 || mpq_QSget_rowcount (p) != 3) bad = 1;
	rv = mpq_QSadd_cols (p, 2, cnt, beg, 0, 0, v, v, v, cn);
	printf ("QSadd_cols {fresh_col, y(dup)}: rv=%d cols=%d (expected: non-zero, 3)\n", rv, mpq_QSget_colcount (p));
	if (rv == 0 || mpq_QSget_colcount (p) != 3) bad = 1;
	mpq_clear (v[0]); mpq_clear (v[1]); mpq_QSfree_prob (p); QSexactClear ();
	return bad;
}
