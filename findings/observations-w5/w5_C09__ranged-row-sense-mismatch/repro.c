/* Two ways in which lp->sense[] and lp->rangeval[] disagree and the MPS text
 * describes another feasible set than the in-memory problem.  Public API only.
 *
 *  case 1: a ranged row ('R') whose range value is 0 (rhs <= a.x <= rhs, i.e.
 *          an equation) is written as a plain G row without RANGES entry
 *          and reads back as  a.x >= rhs.
 *  case 2: QSchange_sense (row, 'G') on a ranged row keeps the old range value;
 *          the G row is written WITH a RANGES entry and reads back as
 *          rhs <= a.x <= rhs + range.
 *
 * The check solves nothing: it reads sense/rhs/range back through
 * QSget_ranged_rows and compares the intervals [lo,hi] they denote.
 */
#include <stdio.h>
#include <string.h>
#include <gmp.h>
#include "QSopt_ex.h"

static void interval (char sense, mpq_t rhs, mpq_t range, mpq_t lo, mpq_t hi)
{
	mpq_set (lo, mpq_ILL_MINDOUBLE);
	mpq_set (hi, mpq_ILL_MAXDOUBLE);
	if (sense == 'G' || sense == 'E' || sense == 'R') mpq_set (lo, rhs);
	if (sense == 'L' || sense == 'E') mpq_set (hi, rhs);
	if (sense == 'R') mpq_add (hi, rhs, range);
}

static int check (mpq_QSprob p, const char *file, const char *rowname)
{
	mpq_QSprob q;
	int *cnt, *beg, *ind, i, j, bad = 0;
	mpq_t *val, *rhs, *range, *rhs2, *range2, lo, hi, lo2, hi2;
	char *sense, *sense2, **names, **names2;

	mpq_init (lo); mpq_init (hi); mpq_init (lo2); mpq_init (hi2);
	if (mpq_QSwrite_prob (p, file, "MPS")) return 1;
	q = mpq_QSread_prob (file, "MPS");
	if (!q) { printf ("%s rejected\n", file); return 1; }
	mpq_QSget_ranged_rows (p, &cnt, &beg, &ind, &val, &rhs, &sense, &range, &names);
	mpq_QSget_ranged_rows (q, &cnt, &beg, &ind, &val, &rhs2, &sense2, &range2, &names2);
	mpq_QSget_row_index (p, rowname, &i);
	mpq_QSget_row_index (q, rowname, &j);
	interval (sense[i], rhs[i], range[i], lo, hi);
	interval (sense2[j], rhs2[j], range2[j], lo2, hi2);
	gmp_printf ("  row %s in memory : sense %c rhs %Qd range %Qd\n", rowname, sense[i], rhs[i], range[i]);
	gmp_printf ("  row %s read back : sense %c rhs %Qd range %Qd\n", rowname, sense2[j], rhs2[j], range2[j]);
	if (!mpq_equal (lo, lo2) || !mpq_equal (hi, hi2))
	{
		printf ("  => DIFFERENT feasible interval for the row activity\n");
		bad = 1;
	}
	return bad;
}

int main (void)
{
	mpq_QSprob p;
	mpq_t o, l, u, v[2], rhs, rng;
	int ind[2] = { 0, 1 }, bad = 0;

	QSexactStart ();
	mpq_init (o); mpq_init (l); mpq_init (u); mpq_init (v[0]); mpq_init (v[1]);
	mpq_init (rhs); mpq_init (rng);
	p = mpq_QScreate_prob ("rng", QS_MIN);
	mpq_set_si (o, 1, 1); mpq_set_si (l, 0, 1); mpq_set (u, mpq_ILL_MAXDOUBLE);
	mpq_QSnew_col (p, o, l, u, "x");
	mpq_QSnew_col (p, o, l, u, "y");
	mpq_set_si (v[0], 1, 1); mpq_set_si (v[1], 2, 1);
	mpq_set_si (rhs, 3, 1);

	printf ("case 1: 'R' row with range 0\n");
	mpq_set_si (rng, 0, 1);
	mpq_QSadd_ranged_row (p, 2, ind, (const mpq_t *) v, (const mpq_t *) &rhs, 'R',
												(const mpq_t *) &rng, "r0");
	bad += check (p, "case1.mps", "r0");

	printf ("case 2: 'R' row with range 5, then QSchange_sense (row, 'G')\n");
	mpq_set_si (rng, 5, 1);
	mpq_QSadd_ranged_row (p, 2, ind, (const mpq_t *) v, (const mpq_t *) &rhs, 'R',
												(const mpq_t *) &rng, "r5");
	mpq_QSchange_sense (p, 1, 'G');
	bad += check (p, "case2.mps", "r5");
	return bad ? 1 : 0;
}
