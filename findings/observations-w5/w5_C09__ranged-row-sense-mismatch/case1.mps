NAME    rng
OBJSENSE
  MIN
OBJNAME
  obj
ROWS
 N  obj
 G  r0
COLUMNS
  x    obj    1
  x    r0    1
  y    obj    1
  y    r0    2
RHS
 RHS    r0    3
RANGES
ENDATA
