NAME    rng
OBJSENSE
  MIN
OBJNAME
  obj
ROWS
 N  obj
 G  r0
 G  r5
COLUMNS
  x    obj    1
  x    r0    1
  x    r5    1
  y    obj    1
  y    r0    2
  y    r5    2
RHS
 RHS    r0    3
 RHS    r5    3
RANGES
 RANGE    r5    5
ENDATA
