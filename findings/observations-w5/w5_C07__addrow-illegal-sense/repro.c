#include "common.h"
int main (void)
{
	mpq_QSprob p; mpq_t v; char s[8] = { 0 }; int rv, st = 0, bad = 0;
	QSexactStart ();
	p = build (); mpq_init (v); mpq_set_ui (v, 7, 1);
	rv = mpq_QSnew_row (p, v, 'X', "rx");
	printf ("QSnew_row sense 'X': rv=%d rows=%d (expected: non-zero, 3)\n", rv, mpq_QSget_rowcount (p));
	if (rv == 0) bad = 1;
	mpq_QSget_senses (p, s); printf ("senses now: %s\n", s);
	rv = mpq_QSopt_dual (p, &st);
	printf ("solve afterwards: rv=%d status=%d\n", rv, st);
	mpq_clear (v); mpq_QSfree_prob (p); QSexactClear ();
	return bad;
}
