#include "common.h"
int main (void)
{
	mpq_QSprob p; int rv, ix = 5, bad = 0;
	QSexactStart ();
	p = build ();
	rv = mpq_QSget_column_index (p, "nosuch", &ix);
	printf ("QSget_column_index(\"nosuch\"): rv=%d index=%d (expected non-zero rv)\n", rv, ix);
	if (rv == 0) bad = 1;
	rv = mpq_QSget_row_index (p, "nosuch", &ix);
	printf ("QSget_row_index(\"nosuch\"): rv=%d index=%d (expected non-zero rv)\n", rv, ix);
	if (rv == 0) bad = 1;
	mpq_QSfree_prob (p); QSexactClear ();
	return bad;
}
