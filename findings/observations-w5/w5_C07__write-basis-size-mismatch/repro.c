/* run under valgrind */
#include "common.h"
int main (int ac, char **av)
{
	mpq_QSprob p; int rv; QSbasis B;
	char *cs = malloc (1), *rs = malloc (1);
	QSexactStart ();
	p = build ();
	cs[0] = '1'; rs[0] = '0'; B.nstruct = 1; B.nrows = 1; B.cstat = cs; B.rstat = rs;	/* 1x1 basis for a 3x3 problem */
	rv = mpq_QSwrite_basis (p, &B, ac > 1 ? av[1] : "wb.bas");
	printf ("QSwrite_basis with a 1x1 basis on a 3x3 problem: rv=%d\n", rv);
	free (cs); free (rs); mpq_QSfree_prob (p); QSexactClear ();
	return 0;
}
