#include "common.h"
int main (void)
{
	mpq_QSprob p; mpq_t v, vv[2]; int ind[2] = { 0, 7 }, rv, ix = -9, bad = 0;
	QSexactStart ();
	p = build (); mpq_init (v); mpq_init (vv[0]); mpq_init (vv[1]);
	mpq_set_ui (v, 1, 1); mpq_set_ui (vv[0], 1, 1); mpq_set_ui (vv[1], 2, 1);
	rv = mpq_QSadd_col (p, 2, ind, vv, v, v, v, "newcol");	/* row index 7 is out of range */
	printf ("QSadd_col with row index 7: rv=%d cols=%d (rejected, fine)\n", rv, mpq_QSget_colcount (p));
	rv = mpq_QSget_column_index (p, "newcol", &ix);
	printf ("QSget_column_index(\"newcol\"): rv=%d index=%d (expected: unknown name; index 3 is not a column)\n", rv, ix);
	if (ix != -1) bad = 1;
	ind[1] = 1;
	rv = mpq_QSadd_col (p, 2, ind, vv, v, v, v, "newcol");	/* now valid */
	printf ("valid QSadd_col \"newcol\": rv=%d cols=%d (expected: 0, 4)\n", rv, mpq_QSget_colcount (p));
	if (rv) bad = 1;
	rv = mpq_QSnew_col (p, v, v, v, "other");
	printf ("valid QSnew_col \"other\": rv=%d cols=%d (expected: 0)\n", rv, mpq_QSget_colcount (p));
	if (rv) bad = 1;
	mpq_clear (v); mpq_clear (vv[0]); mpq_clear (vv[1]); mpq_QSfree_prob (p); QSexactClear ();
	return bad;
}
