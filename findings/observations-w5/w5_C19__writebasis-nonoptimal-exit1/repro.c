/* Public-API mirror of what "esolver -b out.bas inf.lp" does.
 * build: cc -I<wt> -I<wt>/qsopt_ex repro.c <wt>/.libs/libqsopt_ex.a -lgmp -lz -lbz2 -lm -lpthread
 * run:   ./a.out inf.lp      (or unb.lp)
 * Prints the status QSexact_solver proved and the return value of
 * mpq_QSwrite_basis; exit status 1 when a correctly solved (infeasible or
 * unbounded) problem makes the basis write, hence esolver, fail. */
#include <stdio.h>
#include "QSopt_ex.h"
int main (int ac, char **av)
{
	int status = 0, rs, rw;
	QSbasis basis = { 0, 0, 0, 0 };	/* as esolver: zeroed QSbasis handed to the solver */
	mpq_QSdata *p;
	if (ac != 2) return 2;
	QSexactStart ();
	QSexact_set_precision (128);
	p = mpq_QSread_prob (av[1], "LP");
	if (!p) return 2;
	rs = QSexact_solver (p, 0, 0, &basis, PRIMAL_SIMPLEX, &status);
	rw = mpq_QSwrite_basis (p, 0, "repro.bas");
	printf ("QSexact_solver rval %d, status %d (%s); mpq_QSwrite_basis rval %d; basis nstruct %d\n",
					rs, status, status == QS_LP_INFEASIBLE ? "INFEASIBLE" : status == QS_LP_UNBOUNDED ? "UNBOUNDED" :
					status == QS_LP_OPTIMAL ? "OPTIMAL" : "other", rw, basis.nstruct);
	mpq_QSfree_prob (p);
	QSexactClear ();
	return (rs == 0 && rw != 0) ? 1 : 0;
}
