#!/bin/sh
# usage: sh repro.sh <worktree>
WT=${1:?worktree}
HERE=$(cd "$(dirname "$0")" && pwd)
cd "$HERE" || exit 2
for f in inf.lp unb.lp; do
	"$WT/esolver/esolver" -O "$f.sol" -b "$f.bas" "$f" > "$f.log" 2>&1
	echo "esolver -O $f.sol -b $f.bas $f: exit $? ; $(head -1 "$f.sol") ; basis file: $(ls "$f.bas" 2>/dev/null || echo none)"
	"$WT/esolver/esolver" -O "$f.sol" "$f" > "$f.log2" 2>&1
	echo "esolver -O $f.sol $f (no -b): exit $?"
done
cc -I"$WT" -I"$WT/qsopt_ex" -o repro repro.c "$WT/.libs/libqsopt_ex.a" -lgmp -lz -lbz2 -lm -lpthread || exit 2
./repro inf.lp 2>/dev/null; echo "repro inf.lp exit $?"
./repro unb.lp 2>/dev/null; echo "repro unb.lp exit $?"
