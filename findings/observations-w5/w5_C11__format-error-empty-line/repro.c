/* Pre-existing defect (unchanged tree): ILLformat_error_create reads
 * theLine[-1] when the message refers to an empty line.
 *
 * An MPS text that ends without ENDATA makes ILLread_mps warn "Missing
 * ENDATA." after the last ILLmps_next_line hit end of file; at that point
 * state->line is "".  With an error collector installed the warning is turned
 * into a qsformat_error: format.c:67-71 computes len = strlen (theLine) = 0,
 * allocates len + 2 bytes and then tests error->theLine[len - 1], one byte
 * BEFORE the block just allocated.
 *
 * Build: cc -g repro.c -I<wt> -I<wt>/qsopt_ex <wt>/.libs/libqsopt_ex.a \
 *           -lgmp -lz -lbz2 -lm -lpthread -o repro
 * Run:   valgrind ./repro      (or build library + repro with -fsanitize=address)
 */
#include <stdio.h>
#include <string.h>
#include <gmp.h>
#include "QSopt_ex.h"

static const char *text =
	"NAME t\n"
	"ROWS\n"
	" N obj\n"
	" L c1\n"
	"COLUMNS\n"
	" x obj 1 c1 1\n"
	"RHS\n"
	" RHS c1 4\n";								/* no ENDATA */

static const char *pos;

static char *next_line (char *s, int size, void *src)
{
	int n = 0;

	(void) src;
	if (*pos == '\0')
		return NULL;
	while (*pos && n < size - 1)
	{
		s[n++] = *pos;
		if (*pos++ == '\n')
			break;
	}
	s[n] = '\0';
	return s;
}

int main (void)
{
	mpq_QSerror_memory mem;
	mpq_QSerror_collector col;
	mpq_QSline_reader rd;
	mpq_QSprob p;

	QSexactStart ();
	pos = text;
	mem = mpq_QSerror_memory_create (1);
	col = mpq_QSerror_memory_collector_new (mem);
	rd = mpq_QSline_reader_new ((void *) next_line, (void *) text);
	mpq_QSline_reader_set_error_collector (rd, col);
	p = mpq_QSget_prob (rd, "t", "MPS");
	printf ("problem %s, %d message(s) collected\n", p ? "returned" : "refused",
					mpq_QSerror_memory_get_nerrors (mem));
	mpq_QSline_reader_free (rd);
	if (p)
		mpq_QSfree_prob (p);
	mpq_QSerror_collector_free (col);
	mpq_QSerror_memory_free (mem);
	QSexactClear ();
	return 0;
}
