/* Stand-alone reproducer (public API only).
 * max sum x_j ; x_j + x_{j+1} <= 3+j (j=0..4) ; 0 <= x_j <= 10 ; n = 6
 * dual simplex with QS_PRICE_DMULTPARTIAL, then bound changes + warm re-solves.
 * Run under valgrind --leak-check=full: every re-solve after the second one
 * loses the six arrays of the previous dual partial-pricing record. */
#include <stdio.h>
#include <stdlib.h>
#include <gmp.h>
#include "QSopt_ex.h"

int main(void)
{
	int i, rval = 0, status = 0, n = 6;
	int chg[3] = { 1, 3, 5 };
	mpq_QSprob p;
	mpq_t one, ten, rhs, val[2];
	QSexactStart();
	QSexact_set_precision(128);
	mpq_init(one); mpq_init(ten); mpq_init(rhs); mpq_init(val[0]); mpq_init(val[1]);
	mpq_set_ui(one,1,1); mpq_set_ui(ten,10,1); mpq_set_ui(val[0],1,1); mpq_set_ui(val[1],1,1);
	p = mpq_QScreate_prob("t3", QS_MAX);
	for (i = 0; i < n; i++) { char nm[16]; sprintf(nm,"x%d",i); if (mpq_QSnew_col(p, one, mpq_zeroLpNum, ten, nm)) return 2; }
	for (i = 0; i + 1 < n; i++) { int ind[2] = {i,i+1}; char nm[16]; sprintf(nm,"r%d",i); mpq_set_ui(rhs,3+i,1);
		if (mpq_QSadd_row(p, 2, ind, val, &rhs, 'L', nm)) return 3; }
	if (mpq_QSset_param(p, QS_PARAM_DUAL_PRICING, QS_PRICE_DMULTPARTIAL)) return 4;
	rval = mpq_QSopt_dual(p, &status); printf("solve0 rval %d status %d\n", rval, status);
	for (i = 0; i < 3; i++) {
		mpq_set_ui(rhs, i, 1);
		rval = mpq_QSchange_bound(p, chg[i], 'U', rhs);           /* keeps p->factorok == 1 */
		rval = rval || mpq_QSopt_dual(p, &status);
		printf("solve%d rval %d status %d\n", i + 1, rval, status);
	}
	mpq_QSfree_prob(p);
	mpq_clear(one); mpq_clear(ten); mpq_clear(rhs); mpq_clear(val[0]); mpq_clear(val[1]);
	QSexactClear();
	return 0;
}
