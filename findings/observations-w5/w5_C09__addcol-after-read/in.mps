NAME          small
ROWS
 N  cost
 L  r1
 G  r2
COLUMNS
    x         cost         1   r1           1
    x         r2           1
    y         cost         2   r1           1
    y         r2           3
RHS
    RHS       r1           4   r2           1
ENDATA
