NAME    small
OBJSENSE
  MIN
OBJNAME
  cost
ROWS
 N  cost
 L  r1
 G  r2
COLUMNS
  x    cost    1
  x    r2    1
  x    r1    1
  y    cost    2
  y    r2    3
  y    r1    1
RHS
 RHS    r1    4
 RHS    r2    1
BOUNDS
 UP BOUND    extra0    20
ENDATA
