/* A column added with QSadd_col to a problem that was read from a file:
 * QSwrite_prob(..,"MPS") reads lp->is_sos_mem[] past its end and, depending on
 * the heap contents, leaves the new column out of the COLUMNS section (while
 * its BOUNDS line is still written), so that the text is rejected by
 * QSread_prob.  Public API only.  Run under valgrind to see the invalid read.
 *
 * exit 0: written text reads back with 3 columns
 * exit 1: text rejected / column lost
 */
#include <stdio.h>
#include <stdlib.h>
#include <gmp.h>
#include "QSopt_ex.h"

int main (int argc, char **argv)
{
	mpq_QSprob p, q;
	mpq_t obj, lo, up, val[2];
	int ind[2] = { 0, 1 }, i, n, rc = 0;
	int nextra = (argc > 1) ? atoi (argv[1]) : 1;
	char name[32];

	QSexactStart ();
	p = mpq_QSread_prob ("in.mps", "MPS");
	if (!p) return 2;
	mpq_init (obj); mpq_init (lo); mpq_init (up); mpq_init (val[0]); mpq_init (val[1]);
	mpq_set_si (obj, 5, 3); mpq_set_si (lo, 0, 1); mpq_set_si (up, 20, 1);
	mpq_set_si (val[0], 4, 1); mpq_set_si (val[1], 1, 2);
	for (i = 0; i < nextra; i++)
	{
		sprintf (name, "extra%d", i);
		if (mpq_QSadd_col (p, 2, ind, val, obj, lo, up, name)) return 2;
	}
	if (mpq_QSwrite_prob (p, "out.mps", "MPS")) return 2;
	q = mpq_QSread_prob ("out.mps", "MPS");
	if (!q)
	{
		printf ("out.mps is rejected by the reader\n");
		rc = 1;
	}
	else
	{
		n = mpq_QSget_colcount (q);
		printf ("columns: %d written from a problem with %d\n", n, mpq_QSget_colcount (p));
		rc = (n != mpq_QSget_colcount (p));
		mpq_QSfree_prob (q);
	}
	mpq_QSfree_prob (p);
	QSexactClear ();
	return rc;
}
