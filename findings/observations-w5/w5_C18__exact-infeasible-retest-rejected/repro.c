/* Stand-alone reproducer (public API only): QSexact_solver on a small infeasible LP
 * whose double-precision Farkas ray does not verify exactly. */
#include <stdio.h>
#include <stdlib.h>
#include <gmp.h>
#include "QSopt_ex.h"

int main(void)
{
	int rval, status = 0, i, bad = 0;
	int cmatcnt[2] = { 2, 4 };
	int cmatbeg[2] = { 0, 2 };
	int cmatind[6] = { 0, 1, 0, 1, 2, 3 };
	char sense[4] = { 'G', 'L', 'L', 'G' };
	const char *cn[2] = { "x", "y" };
	const char *rn[4] = { "c1", "c2", "c3", "c4" };
	long a[6] = { 1000000007L, 998244353L, 3, 3, 1, 1 };
	long b[4] = { 5, 1, 0, 0 };
	mpq_t cmatval[6], obj[2], rhs[4], lo[2], up[2];
	mpq_QSprob p;

	QSexactStart();
	QSexact_set_precision(128);
	for (i = 0; i < 6; i++) { mpq_init(cmatval[i]); mpq_set_si(cmatval[i], a[i], 1); }
	for (i = 0; i < 4; i++) { mpq_init(rhs[i]); mpq_set_si(rhs[i], b[i], 1); }
	for (i = 0; i < 2; i++) {
		mpq_init(obj[i]); mpq_set_si(obj[i], 1, 1);
		mpq_init(lo[i]); mpq_set(lo[i], mpq_ILL_MINDOUBLE);
		mpq_init(up[i]); mpq_set(up[i], mpq_ILL_MAXDOUBLE);
	}
	/* min x+y ; 1000000007x+3y>=5 ; 998244353x+3y<=1 ; y<=0 ; y>=0 ; x,y free */
	p = mpq_QSload_prob("inf", 2, 4, cmatcnt, cmatbeg, cmatind, cmatval, QS_MIN,
											obj, rhs, sense, lo, up, cn, rn);
	if (!p) return 3;
	rval = QSexact_solver(p, NULL, NULL, NULL, DUAL_SIMPLEX, &status);
	printf("QSexact_solver: rval=%d status=%d (QS_LP_INFEASIBLE=%d)\n", rval, status, QS_LP_INFEASIBLE);
	/* the LP is infeasible (y=0 forces 1000000007x>=5 and 998244353x<=1): the
	 * driver must succeed and certify QS_LP_INFEASIBLE */
	if (rval != 0 || status != QS_LP_INFEASIBLE) bad = 1;
	mpq_QSfree_prob(p);
	for (i = 0; i < 6; i++) mpq_clear(cmatval[i]);
	for (i = 0; i < 4; i++) mpq_clear(rhs[i]);
	for (i = 0; i < 2; i++) { mpq_clear(obj[i]); mpq_clear(lo[i]); mpq_clear(up[i]); }
	QSexactClear();
	return bad;
}
