/* A problem created with QScreate_prob has no objective name.  Both writers then
 * use "obj".  The MPS writer makes that name unique against the row names
 * (mps.c:1124-1131, ILLsymboltab_uname), the LP writer does not (lp.c:220
 * passes the literal "obj" to fix_names): with a constraint named "obj" the LP
 * text has two rows "obj" and is rejected by the LP reader, while the MPS text
 * of the same problem is fine -> the two renderings do not agree.  Public API
 * only. */
#include <stdio.h>
#include <gmp.h>
#include "QSopt_ex.h"

int main (void)
{
	mpq_QSprob p, qm, ql;
	mpq_t o, l, u, v, rhs;
	int ind = 0;

	QSexactStart ();
	mpq_init (o); mpq_init (l); mpq_init (u); mpq_init (v); mpq_init (rhs);
	p = mpq_QScreate_prob ("objrow", QS_MIN);
	mpq_set_si (rhs, 4, 1);
	mpq_QSnew_row (p, rhs, 'G', "obj");
	mpq_set_si (o, 1, 1); mpq_set_si (l, 0, 1); mpq_set (u, mpq_ILL_MAXDOUBLE); mpq_set_si (v, 2, 1);
	mpq_QSadd_col (p, 1, &ind, &v, o, l, u, "x");
	if (mpq_QSwrite_prob (p, "out.mps", "MPS")) return 2;
	if (mpq_QSwrite_prob (p, "out.lp", "LP")) return 2;
	qm = mpq_QSread_prob ("out.mps", "MPS");
	ql = mpq_QSread_prob ("out.lp", "LP");
	printf ("MPS text %s\n", qm ? "accepted" : "REJECTED");
	printf ("LP text %s\n", ql ? "accepted" : "REJECTED");
	return (qm && ql) ? 0 : 1;
}
