NAME    objrow
OBJSENSE
  MIN
OBJNAME
  obj_0
ROWS
 N  obj_0
 G  obj
COLUMNS
  x    obj_0    1
  x    obj    2
RHS
 RHS    obj    4
ENDATA
