#include "common.h"
int main (void)
{
	mpq_QSprob p; int rv, st = 0, bad = 0; QSbasis B, *G;
	char cs[4] = "111", rs[4] = "111";	/* six basic variables for three rows */
	char cz[4] = "Z00", rz[4] = "111";	/* right count, but 'Z' is no status */
	QSexactStart ();
	p = build ();
	rv = mpq_QSopt_dual (p, &st);
	G = mpq_QSget_basis (p); printf ("optimal basis: c=%.3s r=%.3s\n", G->cstat, G->rstat); mpq_QSfree_basis (G);
	rv = mpq_QSload_basis_array (p, cs, rs);
	printf ("QSload_basis_array with 6 basic entries: rv=%d (expected non-zero)\n", rv);
	if (rv == 0) bad = 1;
	G = mpq_QSget_basis (p); if (G) { printf ("stored basis now: c=%.3s r=%.3s\n", G->cstat, G->rstat); mpq_QSfree_basis (G); }
	rv = mpq_QSopt_dual (p, &st); printf ("solve afterwards: rv=%d status=%d\n", rv, st);
	mpq_QSfree_prob (p);
	p = build ();
	B.nstruct = 3; B.nrows = 3; B.cstat = cz; B.rstat = rz;
	rv = mpq_QSload_basis (p, &B);
	printf ("QSload_basis with status character 'Z': rv=%d (expected non-zero)\n", rv);
	if (rv == 0) bad = 1;
	rv = mpq_QSopt_dual (p, &st); printf ("solve afterwards: rv=%d status=%d\n", rv, st);
	mpq_QSfree_prob (p); QSexactClear ();
	return bad;
}
