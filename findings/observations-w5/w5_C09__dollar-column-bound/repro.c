/* A column whose name starts with '$' and that has a non-default bound: the
 * BOUNDS line the MPS writer produces for it is taken for a comment by the MPS
 * reader, the text is rejected.  (The same name is fine in COLUMNS/RHS lines and
 * in LP format, where '$' is a legal name character.)  Public API only. */
#include <stdio.h>
#include <gmp.h>
#include "QSopt_ex.h"

int main (void)
{
	mpq_QSprob p, q;
	mpq_t o, l, u, v, rhs;
	int ind = 0;

	QSexactStart ();
	mpq_init (o); mpq_init (l); mpq_init (u); mpq_init (v); mpq_init (rhs);
	p = mpq_QScreate_prob ("dollar", QS_MIN);
	mpq_set_si (rhs, 4, 1);
	mpq_QSnew_row (p, rhs, 'L', "r1");
	mpq_set_si (o, 1, 1); mpq_set_si (l, 0, 1); mpq_set_si (u, 9, 1); mpq_set_si (v, 2, 1);
	mpq_QSadd_col (p, 1, &ind, &v, o, l, u, "$cash");
	if (mpq_QSwrite_prob (p, "out.mps", "MPS")) return 2;
	q = mpq_QSread_prob ("out.mps", "MPS");
	printf ("MPS text %s\n", q ? "accepted" : "REJECTED");
	if (mpq_QSwrite_prob (p, "out.lp", "LP")) return 2;
	printf ("LP text %s\n", mpq_QSread_prob ("out.lp", "LP") ? "accepted" : "REJECTED");
	return q ? 0 : 1;
}
