NAME    dollar
OBJSENSE
  MIN
OBJNAME
  obj
ROWS
 N  obj
 L  r1
COLUMNS
  $cash    obj    1
  $cash    r1    2
RHS
 RHS    r1    4
BOUNDS
 UP BOUND    $cash    9
ENDATA
