/* Pre-existing defect (unchanged tree): a basis handed back by the library is
 * rejected by the library's own exact verdict functions / basis loader.
 *
 *   min x0 + x1   s.t.  r0: 1 <= x0 + x1 <= 3 (ranged)   r1: x0 - x1 <= 4   x >= 0
 *
 * r0 is then turned into an equation with mpq_QSchange_senses (x0 + x1 = 1), the
 * LP is solved with the rational dual simplex and the basis is fetched with
 * mpq_QSget_basis.  The row status of the EQUATION r0 comes back as
 * QS_ROW_BSTAT_UPPER ('2'), a status that only exists for ranged rows.
 *
 * exit 0: basis accepted and certified optimal;  exit 1: defect observed.
 */
#include <stdio.h>
#include <stdlib.h>
#include <gmp.h>
#include "QSopt_ex.h"

int main (void)
{
	mpq_QSprob p;
	mpq_t v[2], rhs, rng, one, zero;
	int ind[2] = { 0, 1 }, status = 0, rval, row = 0, bad = 0;
	char sense = 'E', res = 9;
	QSbasis *B;

	QSexactStart ();
	QSexact_set_precision (128);
	mpq_init (v[0]); mpq_init (v[1]); mpq_init (rhs); mpq_init (rng); mpq_init (one); mpq_init (zero);
	mpq_set_ui (one, 1, 1);
	p = mpq_QScreate_prob ("obs", QS_MIN);
	mpq_QSnew_col (p, one, zero, mpq_ILL_MAXDOUBLE, "x0");
	mpq_QSnew_col (p, one, zero, mpq_ILL_MAXDOUBLE, "x1");
	mpq_set_ui (v[0], 1, 1); mpq_set_ui (v[1], 1, 1); mpq_set_ui (rhs, 1, 1); mpq_set_ui (rng, 2, 1);
	rval = mpq_QSadd_ranged_row (p, 2, ind, (const mpq_t *) v, &rhs, 'R', &rng, "r0");
	mpq_set_si (v[1], -1, 1); mpq_set_ui (rhs, 4, 1);
	rval |= mpq_QSadd_row (p, 2, ind, (const mpq_t *) v, &rhs, 'L', "r1");
	rval |= mpq_QSchange_senses (p, 1, &row, &sense);
	printf ("build rval=%d\n", rval);

	rval = mpq_QSopt_dual (p, &status);
	B = mpq_QSget_basis (p);
	printf ("mpq_QSopt_dual rval=%d status=%d, mpq_QSget_basis: cstat=%.2s rstat=%.2s\n", rval, status,
					B ? B->cstat : "--", B ? B->rstat : "--");
	if (rval || status != QS_LP_OPTIMAL || !B)
		return 2;
	if (B->rstat[0] == QS_ROW_BSTAT_UPPER)
	{
		printf ("row 0 is an equation but its status is QS_ROW_BSTAT_UPPER\n");
		bad = 1;
	}
	rval = QSexact_basis_optimalstatus (p, B, &res, 1);
	printf ("QSexact_basis_optimalstatus on that basis: rval=%d result=%d\n", rval, res);
	if (rval || res != 1)
		bad = 1;
	rval = mpq_QSload_basis (p, B);
	if (!rval)
		rval = mpq_QSopt_dual (p, &status);
	printf ("mpq_QSload_basis + mpq_QSopt_dual (warm start from it): rval=%d status=%d\n", rval, status);
	if (rval || status != QS_LP_OPTIMAL)
		bad = 1;
	mpq_QSfree_basis (B);
	mpq_QSfree_prob (p);
	mpq_clear (v[0]); mpq_clear (v[1]); mpq_clear (rhs); mpq_clear (rng); mpq_clear (one); mpq_clear (zero);
	QSexactClear ();
	return bad;
}
