/* mpq_QSopt_dual (default dual pricing QS_PRICE_DSTEEP): solve, change one
 * matrix coefficient with mpq_QSchange_coef, solve again  ->  the process dies
 * with SIGFPE (GMP division by zero) inside update_p_scaleinf().
 *
 *   min 5x0 + x1 + 4x2 + 5x3 + 2x4
 *   r0: -3x0 -  x1       + 4x3 + 4x4 >= 4
 *   r1:  3x0 + 2x1       + 2x3 - 3x4 >= 33/2
 *   r2:              5x2 - 4x3 -  x4 >= -19/2
 *   r3:  3x0 + 4x1 - 4x2             >= 29
 *   x0 <= 7, 1<=x1<=5, -1<=x2<=3, 0<=x3<=5, 2<=x4<=7
 * then  A[r0][x3] := -4
 *
 * argv[1] = dual pricing rule (default 7 = QS_PRICE_DSTEEP)
 * exit 0: second solve returned; killed by SIGFPE otherwise.
 */
#include <stdio.h>
#include <stdlib.h>
#include <gmp.h>
#include "QSopt_ex.h"

#define N 5
#define M 4
static const int A[M][N] = {
	{-3, -1, 0, 4, 4},
	{3, 2, 0, 2, -3},
	{0, 0, 5, -4, -1},
	{3, 4, -4, 0, 0}
};
static const int rhs2[M] = { 8, 33, -19, 58 };	/* rhs * 2 */
static const int c[N] = { 5, 1, 4, 5, 2 };
static const int lo[N] = { 0, 1, -1, 0, 2 }, up[N] = { 7, 5, 3, 5, 7 };

int main (int argc, char **argv)
{
	int i, j, cnt, status = 0, rval, ind[N];
	int dpr = argc > 1 ? atoi (argv[1]) : QS_PRICE_DSTEEP;
	mpq_t v[N], q, l, u;
	mpq_QSprob p;
	QSexactStart ();
	setvbuf (stdout, 0, _IONBF, 0);
	for (j = 0; j < N; j++)
		mpq_init (v[j]);
	mpq_init (q); mpq_init (l); mpq_init (u);
	p = mpq_QScreate_prob ("dsteep", QS_MIN);
	for (j = 0; j < N; j++)
	{
		mpq_set_si (q, c[j], 1);
		mpq_set_si (l, lo[j], 1);
		mpq_set_si (u, up[j], 1);
		mpq_QSnew_col (p, q, j == 0 ? mpq_ILL_MINDOUBLE : l, u, 0);
	}
	for (i = 0; i < M; i++)
	{
		for (cnt = 0, j = 0; j < N; j++)
			if (A[i][j])
			{
				ind[cnt] = j;
				mpq_set_si (v[cnt], A[i][j], 1);
				cnt++;
			}
		mpq_set_si (q, rhs2[i], 2);
		mpq_canonicalize (q);
		mpq_QSadd_row (p, cnt, ind, (const mpq_t *) v, &q, 'G', 0);
	}
	mpq_QSset_param (p, QS_PARAM_DUAL_PRICING, dpr);
	mpq_QSset_param (p, QS_PARAM_SIMPLEX_SCALING, 0);
	rval = mpq_QSopt_dual (p, &status);
	printf ("first solve : rval=%d status=%d\n", rval, status);
	mpq_set_si (q, -4, 1);
	rval = mpq_QSchange_coef (p, 0, 3, q);
	printf ("change_coef : rval=%d\n", rval);
	rval = mpq_QSopt_dual (p, &status);
	printf ("second solve: rval=%d status=%d\n", rval, status);
	mpq_QSfree_prob (p);
	QSexactClear ();
	return 0;
}
