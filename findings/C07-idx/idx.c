#include <stdio.h>
#include <stdlib.h>
#include <string.h>
#include <unistd.h>
#include <sys/wait.h>
#include "QSopt_ex.h"
static mpq_QSprob mk(void){ /* 2 structural cols, 2 rows */
 mpq_QSprob p=mpq_QScreate_prob("t",QS_MAX); mpq_t one,z,h,v; mpq_init(one);mpq_init(z);mpq_init(h);mpq_init(v);
 mpq_set_ui(one,1,1); mpq_set_ui(h,100,1);
 mpq_QSnew_col(p,one,z,h,"x"); mpq_QSnew_col(p,one,z,h,"y");
 int ind[2]={0,1}; mpq_t val[2]; mpq_init(val[0]);mpq_init(val[1]); mpq_set_ui(val[0],1,1);mpq_set_ui(val[1],1,1);
 mpq_set_ui(v,4,1); mpq_QSadd_row(p,2,ind,val,&v,'L',"r0"); mpq_set_ui(v,3,1); mpq_QSadd_row(p,1,ind,val,&v,'L',"r1");
 return p; }
static int run(const char*name,int which){ fflush(stdout); pid_t c=fork(); if(!c){ char fn[64]; sprintf(fn,"/tmp/rp/asan.%d.txt",which); freopen(fn,"w",stderr);
  mpq_QSprob p=mk(); int st; mpq_QSopt_dual(p,&st); mpq_t v; mpq_init(v); mpq_set_ui(v,2,1); int r=-99;
  switch(which){
   case 0: r=mpq_QSchange_bound(p,2,'L',v); break;              /* nstruct == 2 */
   case 1: r=mpq_QSget_bound(p,2,'U',&v); break;
   case 2: { int d[1]={3}; r=mpq_QSdelete_cols(p,1,d); } break; /* 3 < ncols(4) but >= nstruct */
   case 3: { int rl[1]={7}; char s[1]={'G'}; r=mpq_QSchange_senses(p,1,rl,s); } break;
   case 4: { int cl[1]={9}; mpq_t lo[1],up[1]; mpq_init(lo[0]); mpq_init(up[0]); r=mpq_QSget_bounds_list(p,1,cl,lo,up); } break;
   case 5: { int rl[1]={50}; r=mpq_QSopt_pivotin_row(p,1,rl); } break;
   case 6: { int cl[1]={5000}; r=mpq_QSopt_pivotin_col(p,1,cl); } break;
   case 7: r=mpq_QSchange_bound(p,1,(char)76,v); r=r?r:1; break; /* control: valid call, forced nonzero */
   case 8: r=mpq_QSchange_bound(p,-1,(char)76,v); break; /* control: rejected */
  }
  _exit(r==0?10:(r==-99?12:11)); }
 int s; waitpid(c,&s,0);
 const char*res = WIFSIGNALED(s)?"KILLED BY SIGNAL": (WEXITSTATUS(s)==10?"returned 0 (accepted!)":(WEXITSTATUS(s)==11?"returned non-zero (rejected)":"ASan/abort exit"));
 printf("%-40s %s\n",name,res); return WIFSIGNALED(s)||WEXITSTATUS(s)!=11; }
#include <fcntl.h>
int main(){ QSexactStart(); int bad=0;
 bad+=run("QSchange_bound(p, nstruct)",0); bad+=run("QSget_bound(p, nstruct)",1); bad+=run("QSdelete_cols(p,{nstruct+1})",2);
 bad+=run("QSchange_senses(p,{7})",3); bad+=run("QSget_bounds_list(p,{9})",4); bad+=run("QSopt_pivotin_row(p,{50})",5); bad+=run("QSopt_pivotin_col(p,{5000})",6);
 bad+=run("control valid index",7); bad+=run("control index -1",8); printf("bad=%d\n",bad); return bad; }
