#include "small.h"
int main (void)
{
	mpq_QSprob p; mpq_t v; int ind[1] = { 0 }, rv, status = 0; char s[8] = { 0 };
	QSexactStart (); mpq_init (v); mpq_set_ui (v, 1, 1);
	p = load_small ();
	rv = mpq_QSadd_row (p, 1, ind, &v, &v, 'X', "bad1");
	printf ("QSadd_row(sense 'X') -> %d (expected non-zero)\n", rv);
	rv = mpq_QSnew_row (p, v, '?', "bad2");
	printf ("QSnew_row(sense '?') -> %d (expected non-zero)\n", rv);
	shape (p, "after"); mpq_QSget_senses (p, s); printf ("  senses now: %s\n", s);
	rv = mpq_QSchange_sense (p, 0, 'X');
	printf ("QSchange_sense(0,'X') -> %d (this one is rejected)\n", rv);
	rv = mpq_QSopt_dual (p, &status);
	printf ("QSopt_dual -> %d status %d\n", rv, status);
	mpq_QSfree_prob (p); QSexactClear ();
	return 0;
}
