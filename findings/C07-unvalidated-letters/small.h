/* the 3x2 problem of tests/test_qs.c:  max 3x+2y+4z, c1: 3x+2y+z<=12, c2: 5x+y=10, x>=2, y free, 1<=z<=10 */
#include <stdio.h>
#include <stdlib.h>
#include <string.h>
#include <limits.h>
#include <gmp.h>
#include "QSopt_ex.h"
static mpq_QSprob load_small (void)
{
	int i;
	int cmatcnt[3] = { 2, 2, 1 }, cmatbeg[3] = { 0, 2, 4 }, cmatind[5] = { 0, 1, 0, 1, 0 };
	char sense[2] = { 'L', 'E' };
	const char *colnames[3] = { "x", "y", "z" }, *rownames[2] = { "c1", "c2" };
	double cv[5] = { 3, 5, 2, 1, 1 }, ob[3] = { 3, 2, 4 }, rh[2] = { 12, 10 };
	mpq_t cmatval[5], obj[3], rhs[2], lower[3], upper[3];
	mpq_QSprob p;
	for (i = 0; i < 5; i++) { mpq_init (cmatval[i]); mpq_set_d (cmatval[i], cv[i]); }
	for (i = 0; i < 3; i++) { mpq_init (obj[i]); mpq_set_d (obj[i], ob[i]); mpq_init (lower[i]); mpq_init (upper[i]); }
	for (i = 0; i < 2; i++) { mpq_init (rhs[i]); mpq_set_d (rhs[i], rh[i]); }
	mpq_set_d (lower[0], 2.0); mpq_set (lower[1], mpq_ILL_MINDOUBLE); mpq_set_d (lower[2], 1.0);
	mpq_set (upper[0], mpq_ILL_MAXDOUBLE); mpq_set (upper[1], mpq_ILL_MAXDOUBLE); mpq_set_d (upper[2], 10.0);
	p = mpq_QSload_prob ("small", 3, 2, cmatcnt, cmatbeg, cmatind, cmatval, QS_MAX, obj, rhs, sense, lower, upper, colnames, rownames);
	for (i = 0; i < 5; i++) mpq_clear (cmatval[i]);
	for (i = 0; i < 3; i++) { mpq_clear (obj[i]); mpq_clear (lower[i]); mpq_clear (upper[i]); }
	for (i = 0; i < 2; i++) mpq_clear (rhs[i]);
	return p;
}
static void shape (mpq_QSprob p, const char *tag)
{
	printf ("  [%s] rows=%d cols=%d nz=%d\n", tag, mpq_QSget_rowcount (p), mpq_QSget_colcount (p), mpq_QSget_nzcount (p));
}
