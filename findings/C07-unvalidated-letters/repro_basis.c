#include "small.h"
static void show (mpq_QSprob p)
{
	QSbasis *B = mpq_QSget_basis (p); int i;
	if (!B) { printf ("  basis: none\n"); return; }
	printf ("  basis %dx%d cstat=", B->nstruct, B->nrows);
	for (i = 0; i < B->nstruct; i++) putchar (B->cstat[i]);
	printf (" rstat=");
	for (i = 0; i < B->nrows; i++) putchar (B->rstat[i]);
	printf ("\n"); mpq_QSfree_basis (B);
}
int main (void)
{
	mpq_QSprob p; int rv, status = 0; char cs[3], rs[2]; QSbasis B, *R; FILE *f;
	QSexactStart ();
	p = load_small ();
	/* 1. three basic variables for two rows */
	cs[0] = cs[1] = QS_COL_BSTAT_BASIC; cs[2] = QS_COL_BSTAT_LOWER; rs[0] = QS_ROW_BSTAT_BASIC; rs[1] = QS_ROW_BSTAT_LOWER;
	B.nstruct = 3; B.nrows = 2; B.cstat = cs; B.rstat = rs;
	printf ("QSload_basis(3 basic / 2 rows) -> %d (rejected)\n", mpq_QSload_basis (p, &B)); show (p);
	rv = mpq_QSload_basis_array (p, cs, rs);
	printf ("QSload_basis_array(same arrays) -> %d (expected non-zero)\n", rv); show (p);
	/* 2. a status byte that is no status at all */
	mpq_QSfree_prob (p); p = load_small ();
	cs[0] = 'Z'; cs[1] = cs[2] = QS_COL_BSTAT_LOWER; rs[0] = rs[1] = QS_ROW_BSTAT_BASIC;
	rv = mpq_QSload_basis (p, &B);
	printf ("QSload_basis(cstat[0]='Z') -> %d (expected non-zero)\n", rv); show (p);
	rv = mpq_QSopt_dual (p, &status); printf ("  QSopt_dual afterwards -> %d status %d\n", rv, status);
	/* 3. basis file: x made basic twice -> 1 basic column, 2 non-basic rows */
	mpq_QSfree_prob (p); p = load_small ();
	f = fopen ("twice.bas", "w"); fprintf (f, "NAME small\n XL x c1\n XL x c2\nENDATA\n"); fclose (f);
	R = mpq_QSread_basis (p, "twice.bas");
	printf ("QSread_basis(file with 'XL x c1' and 'XL x c2') -> %s (expected NULL)\n", R ? "a basis" : "NULL");
	if (R) mpq_QSfree_basis (R);
	rv = mpq_QSread_and_load_basis (p, "twice.bas");
	printf ("QSread_and_load_basis(same file) -> %d (expected non-zero)\n", rv); show (p);
	/* 4. a failing QSread_and_load_basis drops the basis the problem had */
	mpq_QSfree_prob (p); p = load_small (); mpq_QSopt_dual (p, &status); show (p);
	rv = mpq_QSread_and_load_basis (p, "/nonexistent.bas");
	printf ("QSread_and_load_basis(missing file) -> %d\n", rv); show (p);
	remove ("twice.bas"); mpq_QSfree_prob (p); QSexactClear ();
	return 0;
}
