/* replay of R-CAPACITY finding: QScopy_prob allocates the copy's intmarker with nstruct bytes although structsize is larger;
 * QSadd_col on the copy then writes intmarker[nstruct] past the block.  Run under valgrind: invalid write of size 1. */
#include <stdio.h>
#include <stdlib.h>
#include <gmp.h>
#include "QSopt_ex.h"
int main(void)
{
	FILE *f = fopen("mip.lp", "w");
	fprintf(f, "Maximize\n obj: x + y\nSubject To\n c1: x + y <= 4\nBounds\n x <= 3\nInteger\n y\nEnd\n");
	fclose(f);
	QSexactStart();
	mpq_QSprob p = mpq_QSread_prob("mip.lp", "LP");
	if (!p) return 2;
	mpq_QSprob q = mpq_QScopy_prob(p, "copy");
	if (!q) return 2;
	mpq_t one; mpq_init(one); mpq_set_ui(one, 1, 1);
	int ind[1] = {0}; mpq_t val[1]; mpq_init(val[0]); mpq_set_ui(val[0], 1, 1);
	int rval = mpq_QSadd_col(q, 1, ind, val, one, mpq_zeroLpNum, one, "z");
	printf("add_col rval=%d\n", rval);
	mpq_clear(one); mpq_clear(val[0]);
	mpq_QSfree_prob(q); mpq_QSfree_prob(p);
	QSexactClear();
	return rval;
}
