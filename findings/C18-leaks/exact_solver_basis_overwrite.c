#include <stdio.h>
#include "QSopt_ex.h"
static void h(const char*m,void*d){}
int main(int argc,char**argv){ QSexactStart(); QSlog_set_handler(h,NULL);
 for(int rep=0;rep<2;rep++){ mpq_QSprob p=mpq_QSread_prob("z.lp","LP"); int st=0; QSexact_solver(p,NULL,NULL,NULL,DUAL_SIMPLEX,&st); printf("demo: status %d\n",st); mpq_QSfree_prob(p);} 
 QSexactClear(); return 0; }
