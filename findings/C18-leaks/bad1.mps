NAME t
ROWS
 N obj
 L c1
COLUMNS
 x obj 1 c1 1
RHS
 rhs nosuchrow 4
ENDATA
