#!/bin/sh
W=${1:?usage}; D=$(cd "$(dirname "$0")" && pwd); T=$(mktemp -d); trap 'rm -rf "$T"' EXIT
INC="-I$W -I$W/qsopt_ex"; LIBS="$W/.libs/libqsopt_ex.a -lgmp -lz -lbz2 -lm -lpthread"
gcc -DHAVE_CONFIG_H -DEG_LPNUM_MEMSLAB=0 $INC -g -O2 -c "$W/qsopt_ex/eg_lpnum.c" -o "$T/nosl.o" || exit 98
gcc -g -fsanitize=address -fno-omit-frame-pointer $INC "$D/demo.c" "$T/nosl.o" $LIBS -o "$T/demo" || exit 97
cd "$D"; ASAN_OPTIONS=detect_leaks=1:exitcode=23 "$T/demo" > "$T/out" 2>&1; rc=$?
grep -E "^demo:|SUMMARY|    #1 " "$T/out" | sort | uniq -c | sort -rn | head -8; exit $rc
