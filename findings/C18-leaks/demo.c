#include <stdio.h>
#include "QSopt_ex.h"
static void h(const char*m,void*d){}
int main(int argc,char**argv){ QSexactStart(); QSlog_set_handler(h,NULL);
 for(int rep=0;rep<3;rep++){ mpq_QSprob p;
  p=mpq_QSread_prob("bad1.mps","MPS"); if(p) mpq_QSfree_prob(p);
  p=mpq_QSread_prob("bad2.mps","MPS"); if(p) mpq_QSfree_prob(p);
  p=mpq_QSread_prob("bad3.lp","LP"); if(p) mpq_QSfree_prob(p); }
 QSexactClear(); printf("demo: done\n"); return 0; }
