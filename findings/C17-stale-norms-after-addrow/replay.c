/* reported by a seeding sub-agent: dual devex pricing + QSadd_row + re-solve reads the devex norm array past its end */
#include <stdio.h>
#include <stdlib.h>
#include <gmp.h>
#include "QSopt_ex.h"
int main(int argc, char **argv)
{
	int rval, status, k, price = argc > 1 ? atoi(argv[1]) : QS_PRICE_DDEVEX, algo = argc > 2 ? atoi(argv[2]) : 2;
	QSexactStart();
	mpq_QSprob p = mpq_QScreate_prob("t", QS_MAX);
	mpq_t one, four, three, zero, hund;
	mpq_init(one); mpq_init(four); mpq_init(three); mpq_init(zero); mpq_init(hund);
	mpq_set_ui(one,1,1); mpq_set_ui(four,4,1); mpq_set_ui(three,3,1); mpq_set_ui(hund,100,1);
	mpq_QSnew_col(p, one, zero, hund, "x");
	mpq_QSnew_col(p, one, zero, hund, "y");
	mpq_QSnew_col(p, one, zero, hund, "z");
	int ind[3] = {0,1,2}; mpq_t val[3]; for (k = 0; k < 3; k++) { mpq_init(val[k]); mpq_set_ui(val[k],1,1); }
	mpq_QSadd_row(p, 3, ind, val, four, 'L', "c1");
	mpq_QSadd_row(p, 1, ind, val, three, 'L', "c2");
	mpq_QSset_param(p, QS_PARAM_DUAL_PRICING, price);
	mpq_QSset_param(p, QS_PARAM_PRIMAL_PRICING, QS_PRICE_PDEVEX);
	rval = algo == 2 ? mpq_QSopt_dual(p, &status) : mpq_QSopt_primal(p, &status);
	printf("solve rval=%d status=%d\n", rval, status);
	for (k = 0; k < 6; k++) {
		mpq_set_ui(val[1], 2 + k, 1); mpq_set_ui(val[2], 7 - k, 1);
		mpq_set_ui(four, 5 + k, 1);
		rval = mpq_QSadd_row(p, 3, ind, val, four, k % 2 ? 'L' : 'G', NULL);
		printf("add_row rval=%d\n", rval);
		rval = (algo == 2 || (algo == 3 && k % 2)) ? mpq_QSopt_dual(p, &status) : mpq_QSopt_primal(p, &status);
		printf("solve rval=%d status=%d\n", rval, status);
	}
	mpq_QSfree_prob(p);
	QSexactClear();
	return 0;
}
