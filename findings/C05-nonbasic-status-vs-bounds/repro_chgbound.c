/* solve; make the bound on which a non-basic column sits infinite with
 * mpq_QSchange_bound; solve again (warm): OPTIMAL with the column "at" 1e150.
 * Public API only. */
#include "oracle.h"

static int run (int alg)
{
	model_t M;
	mpq_QSprob p;
	int status = 0, rval, nbad = 0;
	/* max 2 x0 + x1  s.t.  x0 - x1 >= -5 ;  0 <= x0 <= 3 ; 0 <= x1 <= 4
	 * optimum 10 at (3,4), both columns non-basic at their upper bounds */
	model_init (&M, 1, 2, QS_MAX);
	mpq_set_si (M.A[0], 1, 1);
	mpq_set_si (M.A[1], -1, 1);
	M.sense[0] = 'G';
	mpq_set_si (M.rhs[0], -5, 1);
	mpq_set_si (M.obj[0], 2, 1);
	mpq_set_si (M.obj[1], 1, 1);
	mpq_set_si (M.ub[0], 3, 1);
	mpq_set_si (M.ub[1], 4, 1);
	p = model_build (&M, "t");
	rval = alg ? mpq_QSopt_dual (p, &status) : mpq_QSopt_primal (p, &status);
	printf ("%s: first solve rval %d status %d\n", alg ? "dual" : "primal", rval, status);
	if (!rval && status == QS_LP_OPTIMAL)
		nbad += certify_accessors (&M, p, "first");
	/* x0 is non-basic at its upper bound 3 (objective 2 x0 + x1): drop that bound */
	rval = mpq_QSchange_bound (p, 0, 'U', mpq_ILL_MAXDOUBLE);
	M.ubinf[0] = 1;
	printf ("change_bound rval %d\n", rval);
	rval = alg ? mpq_QSopt_dual (p, &status) : mpq_QSopt_primal (p, &status);
	printf ("second solve rval %d status %d\n", rval, status);
	if (!rval && status == QS_LP_OPTIMAL)
	{
		mpq_t v;
		mpq_init (v);
		mpq_QSget_objval (p, &v);
		printf ("reported optimum %g (the new LP is unbounded)\n", mpq_get_d (v));
		mpq_clear (v);
		nbad += certify_accessors (&M, p, "after change_bound");
	}
	mpq_QSfree_prob (p);
	model_free (&M);
	return nbad;
}

int main (void)
{
	int nbad = 0;
	QSexactStart ();
	QSexact_set_precision (128);
	nbad += run (0);
	nbad += run (1);
	QSexactClear ();
	printf ("%s\n", nbad ? "PROPERTY BROKEN" : "ok");
	return nbad ? 1 : 0;
}
