/* Independent exact-arithmetic certificate checker for QSopt_ex (mpq) solutions.
 *
 * The LP is kept by the caller in a dense "model" (the LP as the caller has
 * defined it through the API); nothing is read back from the library except
 * the solution itself (status, objval, x, pi, rc, slack).
 *
 * Conventions (QSopt): min/max c.x  s.t.  row i:
 *     'L'  a_i.x <= rhs_i          slack_i = rhs_i - a_i.x   >= 0
 *     'G'  a_i.x >= rhs_i          slack_i = a_i.x - rhs_i   >= 0
 *     'E'  a_i.x  = rhs_i          slack_i = 0
 *     'R'  rhs_i <= a_i.x <= rhs_i + range_i   slack_i = a_i.x - rhs_i
 *   lb_j <= x_j <= ub_j (either side may be infinite)
 *   rc = c - A^T pi ; for MIN: rc_j>0 => x_j=lb_j, rc_j<0 => x_j=ub_j,
 *   pi_i>0 => row at its lower side, pi_i<0 => row at its upper side.
 *   (MAX: all dual signs reversed.)
 */
#ifndef ORACLE_H
#define ORACLE_H
#include <stdio.h>
#include <stdlib.h>
#include <string.h>
#include <gmp.h>
#include "QSopt_ex.h"

typedef struct
{
	int m, n, objsense;						/* QS_MIN / QS_MAX */
	mpq_t *A;											/* m*n, row major */
	char *sense;
	mpq_t *rhs, *range;
	mpq_t *lb, *ub;
	int *lbinf, *ubinf;
	mpq_t *obj;
} model_t;

static mpq_t *or_alloc (int k)
{
	int i;
	mpq_t *a = (mpq_t *) malloc (sizeof (mpq_t) * (k > 0 ? k : 1));
	for (i = 0; i < k; i++)
		mpq_init (a[i]);
	return a;
}

static void or_free (mpq_t * a, int k)
{
	int i;
	if (!a)
		return;
	for (i = 0; i < k; i++)
		mpq_clear (a[i]);
	free (a);
}

static void model_init (model_t * M, int m, int n, int objsense)
{
	M->m = m;
	M->n = n;
	M->objsense = objsense;
	M->A = or_alloc (m * n);
	M->sense = (char *) calloc (m + 1, 1);
	M->rhs = or_alloc (m);
	M->range = or_alloc (m);
	M->lb = or_alloc (n);
	M->ub = or_alloc (n);
	M->obj = or_alloc (n);
	M->lbinf = (int *) calloc (n + 1, sizeof (int));
	M->ubinf = (int *) calloc (n + 1, sizeof (int));
}

static void model_free (model_t * M)
{
	or_free (M->A, M->m * M->n);
	or_free (M->rhs, M->m);
	or_free (M->range, M->m);
	or_free (M->lb, M->n);
	or_free (M->ub, M->n);
	or_free (M->obj, M->n);
	free (M->sense);
	free (M->lbinf);
	free (M->ubinf);
}

/* remove row r from the model */
static void model_delrow (model_t * M, int r)
{
	int i, j;
	for (i = r; i + 1 < M->m; i++)
	{
		for (j = 0; j < M->n; j++)
			mpq_set (M->A[i * M->n + j], M->A[(i + 1) * M->n + j]);
		M->sense[i] = M->sense[i + 1];
		mpq_set (M->rhs[i], M->rhs[i + 1]);
		mpq_set (M->range[i], M->range[i + 1]);
	}
	M->m--;
}

/* build the library problem from the model, public API only */
static mpq_QSprob model_build (const model_t * M, const char *name)
{
	int i, j, rval = 0;
	char nm[32];
	mpq_QSprob p = mpq_QScreate_prob (name, M->objsense);
	if (!p)
		return 0;
	for (j = 0; j < M->n && !rval; j++)
	{
		mpq_t l, u;
		mpq_init (l);
		mpq_init (u);
		if (M->lbinf[j])
			mpq_set (l, mpq_ILL_MINDOUBLE);
		else
			mpq_set (l, M->lb[j]);
		if (M->ubinf[j])
			mpq_set (u, mpq_ILL_MAXDOUBLE);
		else
			mpq_set (u, M->ub[j]);
		sprintf (nm, "x%d", j);
		rval = mpq_QSnew_col (p, M->obj[j], l, u, nm);
		mpq_clear (l);
		mpq_clear (u);
	}
	for (i = 0; i < M->m && !rval; i++)
	{
		int cnt = 0;
		int *ind = (int *) malloc (sizeof (int) * (M->n + 1));
		mpq_t *val = or_alloc (M->n);
		for (j = 0; j < M->n; j++)
			if (mpq_sgn (M->A[i * M->n + j]))
			{
				ind[cnt] = j;
				mpq_set (val[cnt], M->A[i * M->n + j]);
				cnt++;
			}
		sprintf (nm, "r%d", i);
		rval = mpq_QSadd_ranged_row (p, cnt, ind, (const mpq_t *) val,
																 (const mpq_t *) &M->rhs[i], M->sense[i],
																 (const mpq_t *) &M->range[i], nm);
		or_free (val, M->n);
		free (ind);
	}
	if (rval)
	{
		mpq_QSfree_prob (p);
		return 0;
	}
	return p;
}

#define OR_FAIL(...) do { printf ("  VIOLATION: " __VA_ARGS__); printf ("\n"); nbad++; } while (0)

/* Check a claimed optimal solution (val,x,pi,rc,slack) against the model.
 * Any of pi/rc/slack/val may be NULL (then the respective checks that need
 * them are skipped, rc is recomputed from pi if pi is there).
 * returns number of violations */
static int certify (const model_t * M, const char *tag, mpq_t * val,
										mpq_t * x, mpq_t * pi, mpq_t * rc, mpq_t * slack)
{
	int i, j, nbad = 0, m = M->m, n = M->n;
	int s = (M->objsense == QS_MIN) ? 1 : -1;
	mpq_t t, u, act, pobj, dobj;
	mpq_t *myrc = or_alloc (n);
	mpq_init (t);
	mpq_init (u);
	mpq_init (act);
	mpq_init (pobj);
	mpq_init (dobj);

	/* bounds */
	for (j = 0; j < n; j++)
	{
		if (!M->lbinf[j] && mpq_cmp (x[j], M->lb[j]) < 0)
			OR_FAIL ("[%s] x%d = %g below its lower bound %g", tag, j,
							 mpq_get_d (x[j]), mpq_get_d (M->lb[j]));
		if (!M->ubinf[j] && mpq_cmp (x[j], M->ub[j]) > 0)
			OR_FAIL ("[%s] x%d = %g above its upper bound %g", tag, j,
							 mpq_get_d (x[j]), mpq_get_d (M->ub[j]));
		mpq_mul (t, M->obj[j], x[j]);
		mpq_add (pobj, pobj, t);
	}
	if (val && mpq_cmp (*val, pobj))
		OR_FAIL ("[%s] reported objective %g differs from c.x = %g", tag,
						 mpq_get_d (*val), mpq_get_d (pobj));

	/* reduced costs */
	if (pi)
	{
		for (j = 0; j < n; j++)
		{
			mpq_set (myrc[j], M->obj[j]);
			for (i = 0; i < m; i++)
			{
				mpq_mul (t, M->A[i * n + j], pi[i]);
				mpq_sub (myrc[j], myrc[j], t);
			}
			if (rc && mpq_cmp (rc[j], myrc[j]))
				OR_FAIL ("[%s] rc%d = %g but c - A^T pi = %g", tag, j,
								 mpq_get_d (rc[j]), mpq_get_d (myrc[j]));
		}
	}
	else if (rc)
		for (j = 0; j < n; j++)
			mpq_set (myrc[j], rc[j]);

	if (pi || rc)
		for (j = 0; j < n; j++)
		{
			int sg = s * mpq_sgn (myrc[j]);
			if (sg > 0)
			{
				if (M->lbinf[j] || mpq_cmp (x[j], M->lb[j]))
					OR_FAIL ("[%s] dual sign: rc%d = %g but x%d = %g is not at its lower"
									 " bound", tag, j, mpq_get_d (myrc[j]), j, mpq_get_d (x[j]));
				else
				{
					mpq_mul (t, myrc[j], M->lb[j]);
					mpq_add (dobj, dobj, t);
				}
			}
			else if (sg < 0)
			{
				if (M->ubinf[j] || mpq_cmp (x[j], M->ub[j]))
					OR_FAIL ("[%s] dual sign: rc%d = %g but x%d = %g is not at its upper"
									 " bound", tag, j, mpq_get_d (myrc[j]), j, mpq_get_d (x[j]));
				else
				{
					mpq_mul (t, myrc[j], M->ub[j]);
					mpq_add (dobj, dobj, t);
				}
			}
		}

	/* rows */
	for (i = 0; i < m; i++)
	{
		int atlo, athi;
		mpq_set_ui (act, 0, 1);
		for (j = 0; j < n; j++)
		{
			mpq_mul (t, M->A[i * n + j], x[j]);
			mpq_add (act, act, t);
		}
		mpq_add (u, M->rhs[i], M->range[i]);	/* upper side of an R row */
		switch (M->sense[i])
		{
		case 'L':
			if (mpq_cmp (act, M->rhs[i]) > 0)
				OR_FAIL ("[%s] row %d (L): activity %g > rhs %g", tag, i,
								 mpq_get_d (act), mpq_get_d (M->rhs[i]));
			atlo = 0;
			athi = !mpq_cmp (act, M->rhs[i]);
			mpq_sub (t, M->rhs[i], act);
			mpq_set (u, M->rhs[i]);
			break;
		case 'G':
			if (mpq_cmp (act, M->rhs[i]) < 0)
				OR_FAIL ("[%s] row %d (G): activity %g < rhs %g", tag, i,
								 mpq_get_d (act), mpq_get_d (M->rhs[i]));
			atlo = !mpq_cmp (act, M->rhs[i]);
			athi = 0;
			mpq_sub (t, act, M->rhs[i]);
			break;
		case 'E':
			if (mpq_cmp (act, M->rhs[i]))
				OR_FAIL ("[%s] row %d (E): activity %g != rhs %g", tag, i,
								 mpq_get_d (act), mpq_get_d (M->rhs[i]));
			atlo = athi = !mpq_cmp (act, M->rhs[i]);
			mpq_sub (t, M->rhs[i], act);
			mpq_set (u, M->rhs[i]);
			break;
		default:										/* 'R' */
			if (mpq_cmp (act, M->rhs[i]) < 0 || mpq_cmp (act, u) > 0)
				OR_FAIL ("[%s] row %d (R): activity %g outside [%g,%g]", tag, i,
								 mpq_get_d (act), mpq_get_d (M->rhs[i]), mpq_get_d (u));
			atlo = !mpq_cmp (act, M->rhs[i]);
			athi = !mpq_cmp (act, u);
			mpq_sub (t, act, M->rhs[i]);
			break;
		}
		if (slack && mpq_cmp (slack[i], t))
			OR_FAIL ("[%s] row %d (%c): reported slack %g but the row's slack at x is"
							 " %g", tag, i, M->sense[i], mpq_get_d (slack[i]), mpq_get_d (t));
		if (pi)
		{
			int sg = s * mpq_sgn (pi[i]);
			if (sg > 0)
			{
				if (!atlo)
					OR_FAIL ("[%s] dual sign: pi%d = %g but row (%c) is not tight at its"
									 " lower side (activity %g)", tag, i, mpq_get_d (pi[i]),
									 M->sense[i], mpq_get_d (act));
				mpq_mul (t, pi[i], M->rhs[i]);
				mpq_add (dobj, dobj, t);
			}
			else if (sg < 0)
			{
				if (!athi)
					OR_FAIL ("[%s] dual sign: pi%d = %g but row (%c) is not tight at its"
									 " upper side (activity %g)", tag, i, mpq_get_d (pi[i]),
									 M->sense[i], mpq_get_d (act));
				mpq_mul (t, pi[i], u);
				mpq_add (dobj, dobj, t);
			}
		}
	}
	if (pi && !nbad && mpq_cmp (pobj, dobj))
		OR_FAIL ("[%s] primal objective %g != dual objective %g", tag,
						 mpq_get_d (pobj), mpq_get_d (dobj));
	if (pi && val && !nbad && mpq_cmp (*val, dobj))
		OR_FAIL ("[%s] reported objective %g != dual objective %g", tag,
						 mpq_get_d (*val), mpq_get_d (dobj));

	or_free (myrc, n);
	mpq_clear (t);
	mpq_clear (u);
	mpq_clear (act);
	mpq_clear (pobj);
	mpq_clear (dobj);
	return nbad;
}

/* fetch the solution through the accessors and certify it */
static int certify_accessors (const model_t * M, mpq_QSprob p, const char *tag)
{
	int nbad = 0, rval, m = M->m, n = M->n;
	mpq_t val;
	mpq_t *x = or_alloc (n), *pi = or_alloc (m), *rc = or_alloc (n), *sl =
		or_alloc (m);
	mpq_init (val);
	if (mpq_QSget_colcount (p) != n || mpq_QSget_rowcount (p) != m)
	{
		printf ("  VIOLATION: [%s] dimension mismatch\n", tag);
		nbad++;
		goto DONE;
	}
	rval = mpq_QSget_objval (p, &val);
	rval = rval || mpq_QSget_x_array (p, x);
	rval = rval || mpq_QSget_pi_array (p, pi);
	rval = rval || mpq_QSget_rc_array (p, rc);
	rval = rval || mpq_QSget_slack_array (p, sl);
	if (rval)
	{
		printf ("  VIOLATION: [%s] status is OPTIMAL but an accessor failed\n", tag);
		nbad++;
		goto DONE;
	}
	nbad += certify (M, tag, &val, x, pi, rc, sl);
DONE:
	mpq_clear (val);
	or_free (x, n);
	or_free (pi, m);
	or_free (rc, n);
	or_free (sl, m);
	return nbad;
}

#endif
