/* A caller-supplied basis that marks a BOUNDED column as non-basic "free"
 * (QS_COL_BSTAT_FREE, i.e. sitting at 0) is accepted; if the column's reduced
 * cost is 0 the mpq simplex reports OPTIMAL with that column at 0, outside its
 * bounds [1,2].  Public API only. */
#include "oracle.h"

static int run (int mode)
{
	model_t M;
	mpq_QSprob p;
	QSbasis B;
	char cstat[2], rstat[1];
	int status = 0, rval, nbad = 0;
	const char *nm[] = { "mpq_QSopt_primal", "mpq_QSopt_dual", "QSexact_solver(primal)", "QSexact_solver(dual)" };
	/* min x0  s.t. x0 + x1 <= 10 ; x0 >= 0 ; 1 <= x1 <= 2 */
	model_init (&M, 1, 2, QS_MIN);
	mpq_set_si (M.A[0], 1, 1);
	mpq_set_si (M.A[1], 1, 1);
	M.sense[0] = 'L';
	mpq_set_si (M.rhs[0], 10, 1);
	mpq_set_si (M.obj[0], 1, 1);
	mpq_set_si (M.lb[0], 0, 1);
	M.ubinf[0] = 1;
	mpq_set_si (M.lb[1], 1, 1);
	mpq_set_si (M.ub[1], 2, 1);
	p = model_build (&M, "t");
	cstat[0] = QS_COL_BSTAT_LOWER;
	cstat[1] = QS_COL_BSTAT_FREE;
	rstat[0] = QS_ROW_BSTAT_BASIC;
	B.nstruct = 2;
	B.nrows = 1;
	B.cstat = cstat;
	B.rstat = rstat;
	if (mode < 2)
	{
		rval = mpq_QSload_basis (p, &B);
		printf ("load basis rval %d\n", rval);
		rval = mode ? mpq_QSopt_dual (p, &status) : mpq_QSopt_primal (p, &status);
	}
	else
	{
		QSbasis *eb = (QSbasis *) calloc (1, sizeof (QSbasis));
		eb->nstruct = 2;
		eb->nrows = 1;
		eb->cstat = (char *) malloc (2);
		eb->rstat = (char *) malloc (1);
		memcpy (eb->cstat, cstat, 2);
		memcpy (eb->rstat, rstat, 1);
		rval = QSexact_solver (p, 0, 0, eb, mode == 2 ? PRIMAL_SIMPLEX : DUAL_SIMPLEX, &status);
		mpq_QSfree_basis (eb);
	}
	printf ("%s: rval %d status %d\n", nm[mode], rval, status);
	if (!rval && status == QS_LP_OPTIMAL)
		nbad += certify_accessors (&M, p, nm[mode]);
	mpq_QSfree_prob (p);
	model_free (&M);
	return nbad;
}

int main (void)
{
	int nbad = 0, m;
	QSexactStart ();
	QSexact_set_precision (128);
	for (m = 0; m < 4; m++)
		nbad += run (m);
	QSexactClear ();
	printf ("%s\n", nbad ? "PROPERTY BROKEN" : "ok");
	return nbad ? 1 : 0;
}
