/* QSchange_sense R -> G keeps the old range value; the MPS writer prints a
 * RANGES entry for every row with a non-zero range value, whatever its sense */
#include "../common.h"
int main (void)
{
	mpq_QSprob p, q; mpq_t rhs, rng, val[2]; int ind[2] = { 0, 1 };
	QSexactStart ();
	mpq_init (rhs); mpq_init (rng); mpq_init (val[0]); mpq_init (val[1]);
	p = base ("10");
	qs (val[0], "1"); qs (val[1], "1"); qs (rhs, "1"); qs (rng, "3");
	mpq_QSadd_ranged_row (p, 2, ind, (const mpq_t *) val, (const mpq_t *) &rhs, 'R', (const mpq_t *) &rng, "band");	/* 1 <= x + y <= 4 */
	mpq_QSchange_sense (p, 1, 'G');	/* now  x + y >= 1 */
	mpq_QSwrite_prob (p, "chgsense.mps", "MPS");
	q = mpq_QSread_prob ("chgsense.mps", "MPS");
	show ("original ", p);
	show ("read back", q);
	return 0;
}
