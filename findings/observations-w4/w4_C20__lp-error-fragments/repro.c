/* An LP-format parse error, reported with a log handler installed and no
 * error collector: the diagnostic does not arrive as one message but as a
 * train of fragments, one QSlog call per character of the offending token. */
#include <stdio.h>
#include <string.h>
#include "QSopt_ex.h"

static int nmsg = 0, nsingle = 0;
static void handler (const char *m, void *data)
{
	(void) data;
	nmsg++;
	if (strlen (m) <= 1) nsingle++;
	printf ("  msg %2d: [%s]\n", nmsg, m);
}

int main (int argc, char **argv)
{
	mpq_QSprob p;
	QSexactStart ();
	QSlog_set_handler (handler, NULL);
	p = mpq_QSread_prob (argc > 1 ? argv[1] : "bad.lp", "LP");
	printf ("read %s; %d handler messages, %d of them at most one character long\n",
					p ? "succeeded" : "failed", nmsg, nsingle);
	if (p) mpq_QSfree_prob (p);
	QSlog_set_handler (NULL, NULL);
	QSexactClear ();
	return nsingle ? 1 : 0;
}
