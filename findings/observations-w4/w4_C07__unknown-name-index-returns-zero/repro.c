#include "small.h"
int main (void)
{
	mpq_QSprob p; int k = 99, rv;
	QSexactStart (); p = load_small ();
	rv = mpq_QSget_column_index (p, "nosuch", &k); printf ("QSget_column_index(nosuch) -> rv=%d index=%d\n", rv, k);
	k = 99; rv = mpq_QSget_row_index (p, "nosuch", &k); printf ("QSget_row_index(nosuch)    -> rv=%d index=%d\n", rv, k);
	mpq_QSfree_prob (p); QSexactClear ();
	return 0;
}
