/* mpq_QSopt_primal with QS_PRICE_PMULTPARTIAL: OPTIMAL, but the reduced costs
 * served by mpq_QSget_rc_array are not c - A^T pi. */
#include "common.h"
int main (void)
{
	/* max -5 x0 + 4 x2 - 4 x4 - x5
	 *  r0: -4 x0 + 2 x2 + x3 + 2 x5 = -1 ; r1: 2 x0 - 2 x1 + 3 x2 - x4 = 6 ; r2: -2 x0 + 4 x5 <= 7
	 *  x0 = 0, x1 free, x2 = -2, 1 <= x3 <= 2, -2 <= x4 <= 2, x5 free */
	static const int r0[] = { -4, 0, 2, 1, 0, 2 }, r1[] = { 2, -2, 3, 0, -1, 0 }, r2[] = { -2, 0, 0, 0, 0, 4 };
	model_t M;
	mpq_QSprob p;
	int status = 0, rval, nbad = 0, pr;
	QSexactStart ();
	QSexact_set_precision (128);
	model_init (&M, 3, 6, QS_MAX);
	set_row (&M, 0, r0, 'E', -1, 0);
	set_row (&M, 1, r1, 'E', 6, 0);
	set_row (&M, 2, r2, 'L', 7, 0);
	set_col (&M, 0, -5, 0, 0, 0, 0);
	set_col (&M, 1, 0, 1, 0, 1, 0);
	set_col (&M, 2, 4, 0, -2, 0, -2);
	set_col (&M, 3, 0, 0, 1, 0, 2);
	set_col (&M, 4, -4, 0, -2, 0, 2);
	set_col (&M, 5, -1, 1, 0, 1, 0);
	for (pr = QS_PRICE_PSTEEP; pr <= QS_PRICE_PMULTPARTIAL; pr++)
	{
		p = model_build (&M, "t");
		mpq_QSset_param (p, QS_PARAM_PRIMAL_PRICING, pr);
		mpq_QSset_param (p, QS_PARAM_SIMPLEX_SCALING, 0);
		rval = mpq_QSopt_primal (p, &status);
		printf ("primal pricing %d: rval %d status %d\n", pr, rval, status);
		if (!rval && status == QS_LP_OPTIMAL)
			nbad += certify_accessors (&M, p, pr == QS_PRICE_PMULTPARTIAL ? "pmultpartial" : "psteep");
		mpq_QSfree_prob (p);
	}
	model_free (&M);
	QSexactClear ();
	printf ("%s\n", nbad ? "PROPERTY BROKEN" : "ok");
	return nbad ? 1 : 0;
}
