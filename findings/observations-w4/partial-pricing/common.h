#include "oracle.h"
static void set_row (model_t * M, int i, const int *c, char sense, int rhs, int range)
{
	int j;
	for (j = 0; j < M->n; j++)
		mpq_set_si (M->A[i * M->n + j], c[j], 1);
	M->sense[i] = sense;
	mpq_set_si (M->rhs[i], rhs, 1);
	mpq_set_si (M->range[i], range, 1);
}
static void set_col (model_t * M, int j, int obj, int lbinf, int lb, int ubinf, int ub)
{
	mpq_set_si (M->obj[j], obj, 1);
	M->lbinf[j] = lbinf;
	M->ubinf[j] = ubinf;
	mpq_set_si (M->lb[j], lb, 1);
	mpq_set_si (M->ub[j], ub, 1);
}
