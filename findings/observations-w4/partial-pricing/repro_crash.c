/* QSexact_solver (DUAL) on an mpq problem whose primal pricing is
 * QS_PRICE_PMULTPARTIAL: SIGSEGV in dbl_ILLheap_build (key == NULL). */
#include "common.h"
int main (void)
{
	/* min 4 x0 - 5 x1 - 3 x2 + 4 x3 + 5 x5
	 *  r0: -2 x3 + 2 x4 - x5 >= -4 ; r1: x1 - 4 x2 - 3 x4 = 10
	 *  x0 free, -3 <= x1 <= 0, x2 >= -3, x3 free, x4 = 2, x5 free */
	static const int r0[] = { 0, 0, 0, -2, 2, -1 }, r1[] = { 0, 1, -4, 0, -3, 0 };
	model_t M;
	mpq_QSprob p;
	int status = 0, rval;
	QSexactStart ();
	QSexact_set_precision (128);
	model_init (&M, 2, 6, QS_MIN);
	set_row (&M, 0, r0, 'G', -4, 0);
	set_row (&M, 1, r1, 'E', 10, 0);
	set_col (&M, 0, 4, 1, 0, 1, 0);
	set_col (&M, 1, -5, 0, -3, 0, 0);
	set_col (&M, 2, -3, 0, -3, 1, 0);
	set_col (&M, 3, 4, 1, 0, 1, 0);
	set_col (&M, 4, 0, 0, 2, 0, 2);
	set_col (&M, 5, 5, 1, 0, 1, 0);
	p = model_build (&M, "t");
	mpq_QSset_param (p, QS_PARAM_PRIMAL_PRICING, QS_PRICE_PMULTPARTIAL);
	mpq_QSset_param (p, QS_PARAM_SIMPLEX_SCALING, 0);
	rval = QSexact_solver (p, 0, 0, 0, DUAL_SIMPLEX, &status);
	printf ("rval %d status %d\n", rval, status);
	mpq_QSfree_prob (p);
	model_free (&M);
	QSexactClear ();
	return 0;
}
