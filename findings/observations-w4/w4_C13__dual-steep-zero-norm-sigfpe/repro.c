/* mpq_QSopt_dual on a freshly read, valid LP dies with SIGFPE (GMP division by zero). */
#include <stdio.h>
#include "QSopt_ex.h"
int main(int argc,char**argv){
  int st=0,rv; mpq_QSprob p;
  QSexactStart();
  p=mpq_QSread_prob(argc>1?argv[1]:"prob.lp","LP");
  if(!p){printf("read failed\n");return 2;}
  mpq_QSset_param(p,QS_PARAM_SIMPLEX_DISPLAY,0);
  rv=mpq_QSopt_dual(p,&st);
  printf("rv %d status %d\n",rv,st);
  mpq_QSfree_prob(p); QSexactClear();
  return 0;
}
