/* QSopt_primal returns the stale cached solution after a basis was read and
 * loaded from a file; QSopt_dual does re-solve from the loaded basis.
 *
 *   max x + y   s.t.  c1: x + y <= 4,   0 <= x,y <= 3
 *   two optimal vertices: (3,1) [x at upper, y basic] and (1,3) [x basic, y at upper]
 *
 * build: gcc -I$W -I$W/qsopt_ex repro.c $W/.libs/libqsopt_ex.a -lgmp -lz -lbz2 -lm -lpthread
 */
#include <stdio.h>
#include <stdlib.h>
#include <string.h>
#include <gmp.h>
#include "QSopt_ex.h"

static mpq_QSprob mk (void)
{
	int cmatcnt[2] = { 1, 1 }, cmatbeg[2] = { 0, 1 }, cmatind[2] = { 0, 0 };
	char sense[1] = { 'L' };
	const char *cn[2] = { "x", "y" }, *rn[1] = { "c1" };
	mpq_t v[2], obj[2], rhs[1], lo[2], up[2];
	int i;

	for (i = 0; i < 2; i++)
	{
		mpq_init (v[i]); mpq_init (obj[i]); mpq_init (lo[i]); mpq_init (up[i]);
		mpq_set_si (v[i], 1, 1); mpq_set_si (obj[i], 1, 1);
		mpq_set_si (lo[i], 0, 1); mpq_set_si (up[i], 3, 1);
	}
	mpq_init (rhs[0]); mpq_set_si (rhs[0], 4, 1);
	return mpq_QSload_prob ("t", 2, 1, cmatcnt, cmatbeg, cmatind, v, QS_MAX, obj,
													rhs, sense, lo, up, cn, rn);
}

static void show (mpq_QSprob p, const char *tag, mpq_t * x)
{
	char cs[3] = { 0 }, rs[2] = { 0 };

	mpq_QSget_x_array (p, x);
	mpq_QSget_basis_array (p, cs, rs);
	gmp_printf ("%-34s x=%Qd y=%Qd  cstat=%s rstat=%s\n", tag, x[0], x[1], cs, rs);
}

int main (int argc, char **argv)
{
	int use_dual = argc > 1 && !strcmp (argv[1], "dual");
	int st, bad = 0;
	char cs[3] = { 0 }, rs[2] = { 0 }, other_cs[3], other_rs[2] = "0";
	mpq_t xa[2], xb[2], xc[2];
	mpq_QSprob p;

	QSexactStart ();
	mpq_init (xa[0]); mpq_init (xa[1]); mpq_init (xb[0]); mpq_init (xb[1]);
	mpq_init (xc[0]); mpq_init (xc[1]);
	p = mk ();

	mpq_QSopt_primal (p, &st);
	show (p, "solved (basis A)", xa);
	mpq_QSwrite_basis (p, 0, "A.bas");

	/* move to the other optimal vertex */
	mpq_QSget_basis_array (p, cs, rs);
	strcpy (other_cs, cs[0] == '1' ? "21" : "12");
	mpq_QSload_basis_array (p, other_cs, other_rs);
	mpq_QSopt_dual (p, &st);
	show (p, "other vertex loaded + QSopt_dual", xb);

	/* come back to A through the file */
	if (mpq_QSread_and_load_basis (p, "A.bas")) { printf ("read failed\n"); return 2; }
	if (use_dual) mpq_QSopt_dual (p, &st); else mpq_QSopt_primal (p, &st);
	show (p, use_dual ? "A.bas loaded + QSopt_dual" : "A.bas loaded + QSopt_primal", xc);

	if (!mpq_equal (xa[0], xc[0]) || !mpq_equal (xa[1], xc[1]))
	{
		printf ("MISMATCH: the solution reported after loading A.bas is not the "
						"basic solution of A\n");
		bad = 1;
	}
	mpq_QSfree_prob (p);
	QSexactClear ();
	return bad;
}
