/* a ranged row whose range is 0 (lo <= a.x <= lo) is written to MPS as a plain
 * G row: the upper side is lost */
#include "../common.h"
int main (void)
{
	mpq_QSprob p, q; mpq_t rhs, rng, val[2]; int ind[2] = { 0, 1 };
	QSexactStart ();
	mpq_init (rhs); mpq_init (rng); mpq_init (val[0]); mpq_init (val[1]);
	p = base ("5");
	qs (val[0], "1"); qs (val[1], "1"); qs (rhs, "2"); qs (rng, "0");
	mpq_QSadd_ranged_row (p, 2, ind, (const mpq_t *) val, (const mpq_t *) &rhs, 'R', (const mpq_t *) &rng, "fix");	/* 2 <= x + y <= 2 */
	mpq_QSwrite_prob (p, "zero-range.mps", "MPS");
	q = mpq_QSread_prob ("zero-range.mps", "MPS");
	show ("original ", p);
	show ("read back", q);
	return 0;
}
