/* Reproducer (public API only):
 *   min x + y
 *   r0: 1 <= x + y <= 3   (ranged)     r1: x >= 1      r2: y <= 5
 * change_sense (r0, 'E'); QSopt_dual; delete_row (r2)  -> returns an error after
 * having removed the row; add_row -> invalid reads in the stale factorisation.
 */
#include <stdio.h>
#include <stdlib.h>
#include <gmp.h>
#include "QSopt_ex.h"

int main (void)
{
	mpq_QSprob p;
	mpq_t c, l, u, v[2], rhs, rng;
	int ind[2] = { 0, 1 }, one[1], status = 0, rval;

	QSexactStart ();
	QSexact_set_precision (128);
	mpq_init (c); mpq_init (l); mpq_init (u); mpq_init (v[0]); mpq_init (v[1]);
	mpq_init (rhs); mpq_init (rng);
	p = mpq_QScreate_prob ("p", QS_MIN);
	mpq_set_si (c, 1, 1); mpq_set (u, mpq_ILL_MAXDOUBLE);
	mpq_QSnew_col (p, c, l, u, "x");
	mpq_QSnew_col (p, c, l, u, "y");
	mpq_set_si (v[0], 1, 1); mpq_set_si (v[1], 1, 1);
	mpq_set_si (rhs, 1, 1); mpq_set_si (rng, 2, 1);
	mpq_QSadd_ranged_row (p, 2, ind, (const mpq_t *) v, &rhs, 'R', &rng, "r0");
	one[0] = 0; mpq_set_si (rhs, 1, 1);
	mpq_QSadd_row (p, 1, one, (const mpq_t *) v, &rhs, 'G', "r1");
	one[0] = 1; mpq_set_si (rhs, 5, 1);
	mpq_QSadd_row (p, 1, one, (const mpq_t *) v, &rhs, 'L', "r2");

	rval = mpq_QSchange_sense (p, 0, 'E');
	printf ("change_sense rval=%d\n", rval);
	rval = mpq_QSopt_dual (p, &status);
	printf ("opt_dual rval=%d status=%d\n", rval, status);
	rval = mpq_QSdelete_row (p, 2);
	printf ("delete_row rval=%d   rows now %d\n", rval, mpq_QSget_rowcount (p));
	one[0] = 0; mpq_set_si (rhs, 9, 1);
	rval = mpq_QSadd_row (p, 1, one, (const mpq_t *) v, &rhs, 'L', "r3");
	printf ("add_row rval=%d   rows now %d\n", rval, mpq_QSget_rowcount (p));
	rval = mpq_QSopt_dual (p, &status);
	printf ("opt_dual rval=%d status=%d\n", rval, status);
	mpq_QSfree_prob (p);
	QSexactClear ();
	return 0;
}
