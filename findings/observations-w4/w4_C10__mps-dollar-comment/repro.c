/* MPS: "$" in field 3 or 5 starts a comment.  The reader recognises it only on
 * BOUNDS lines; after a complete COLUMNS / RHS / RANGES record the valid file
 * is rejected.  Public API only. */
#include <stdio.h>
#include "QSopt_ex.h"
#define HEAD "NAME t\nROWS\n N cost\n L r1\n G r2\nCOLUMNS\n"
static int try (const char *name, const char *text)
{
	FILE *f = fopen (name, "w");
	mpq_QSprob p;

	fputs (text, f);
	fclose (f);
	p = mpq_QSread_prob (name, "MPS");
	printf ("%-14s %s\n", name, p ? "read" : "REJECTED");
	if (p)
		mpq_QSfree_prob (p);
	return p == NULL;
}
int main (void)
{
	int bad = 0;

	QSexactStart ();
	try ("bounds.mps", HEAD "    x  cost  1  r1  1\n    x  r2  1\nRHS\n    rhs  r1  4  r2  1\n"
			 "BOUNDS\n UP bnd x 4 $ comment\nENDATA\n");
	bad += try ("columns.mps", HEAD "    x  cost  1  r1  1\n    x  r2  1   $ comment\nRHS\n    rhs  r1  4  r2  1\nENDATA\n");
	bad += try ("rhs.mps", HEAD "    x  cost  1  r1  1\n    x  r2  1\nRHS\n    rhs  r1  4  $ comment\n    rhs  r2  1\nENDATA\n");
	QSexactClear ();
	return bad != 0;
}
