NAME dup
ROWS
 N obj
 N free
 L c1
COLUMNS
 a free 1
 b obj 1 c1 1
 b c1 2
RHS
 rhs c1 4
ENDATA
