/* Pre-existing defect (unchanged tree): QSchange_bound that makes the bound at which a nonbasic
 * variable sits infinite, followed by a warm re-solve, returns OPTIMAL with x_j = -1e30-ish
 * (the library's "minus infinity" constant) instead of UNBOUNDED.
 *    min x0 + 3 x1 ;  r0: x0 + x1 >= -10 is replaced by nothing: no rows needed
 */
#include <stdio.h>
#include <stdlib.h>
#include <gmp.h>
#include "QSopt_ex.h"
static void solve(mpq_QSprob p,const char*w,int dual,int*st,mpq_t*x,mpq_t*val){ int rv; *st=0; rv=dual?mpq_QSopt_dual(p,st):mpq_QSopt_primal(p,st); printf("%-40s rval=%d status=%d",w,rv,*st); if(!rv&&*st==QS_LP_OPTIMAL){ mpq_QSget_x_array(p,x); mpq_QSget_objval(p,val); printf("  x=(%g, %g) objval=%g",mpq_get_d(x[0]),mpq_get_d(x[1]),mpq_get_d(*val)); } printf("\n"); }
int main(int ac,char**av){
  mpq_QSprob p,f; mpq_t o,l,u,x[2],val; int st,stf,bad=0,dual=ac>1?atoi(av[1]):1;
  QSexactStart(); QSexact_set_precision(128);
  mpq_init(o);mpq_init(l);mpq_init(u);mpq_init(x[0]);mpq_init(x[1]);mpq_init(val);
  p=mpq_QScreate_prob("p",QS_MIN);
  mpq_set_si(o,1,1);mpq_set_si(l,0,1);mpq_set_si(u,4,1); mpq_QSnew_col(p,o,l,u,"x0");
  mpq_set_si(o,3,1);mpq_set_si(l,-3,1); mpq_QSnew_col(p,o,l,mpq_ILL_MAXDOUBLE,"x1");
  solve(p,"p: x1 >= -3",dual,&st,x,&val);
  mpq_QSchange_bound(p,1,'L',mpq_ILL_MINDOUBLE);          /* x1 free: LP is unbounded */
  solve(p,"p after lower(x1) := -inf (warm)",dual,&st,x,&val);
  f=mpq_QScopy_prob(p,"fresh");
  solve(f,"copy of p (cold)",dual,&stf,x,&val);
  if(st!=stf) bad=1;
  mpq_QSfree_prob(p); mpq_QSfree_prob(f); QSexactClear();
  printf(bad?"DEFECT: warm re-solve and cold solve of the same LP disagree\n":"ok\n"); return bad;
}
