#include <stdio.h>
#include <stdlib.h>
#include <string.h>
#include <gmp.h>
#include "QSopt_ex.h"
/* read a file through the line-reader API with an error memory attached */
int main(int argc,char**argv){
  FILE *f = fopen(argv[1],"r");
  mpq_QSprob p; mpq_QSline_reader rd; mpq_QSerror_memory mem; mpq_QSerror_collector col;
  if(!f) return 2;
  QSexactStart();
  mem = mpq_QSerror_memory_create(1);
  col = mpq_QSerror_memory_collector_new(mem);
  rd = mpq_QSline_reader_new((void*)fgets, f);
  mpq_QSline_reader_set_error_collector(rd, col);
  p = mpq_QSget_prob(rd, "t", argv[2]);
  printf("prob %p, %d errors/warnings recorded\n", (void*)p, mpq_QSerror_memory_get_nerrors(mem));
  if(p) mpq_QSfree_prob(p);
  mpq_QSline_reader_free(rd);
  mpq_QSerror_collector_free(col);
  mpq_QSerror_memory_free(mem);
  fclose(f);
  QSexactClear();
  return 0;
}
