NAME t
ROWS
 N obj
 L c1
COLUMNS
 x obj 1 c1 1
RHS
 rhs c1 4
