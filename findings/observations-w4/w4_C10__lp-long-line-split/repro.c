/* A literal with "arbitrary many digits": a line longer than
 * ILL_namebufsize - 3 = 131069 characters is cut in two and the valid file is
 * rejected.  Public API only. */
#include <stdio.h>
#include "QSopt_ex.h"
int main (void)
{
	FILE *f = fopen ("long.lp", "w");
	mpq_QSprob p;
	int i;

	fputs ("Minimize\n obj: x + y\nSubject To\n c1: x + y >= 1\n c2: x - y <= ", f);
	for (i = 0; i < 140000; i++)
		fputc ('7', f);
	fputs ("\nEnd\n", f);
	fclose (f);
	QSexactStart ();
	p = mpq_QSread_prob ("long.lp", "LP");
	printf ("%s\n", p ? "file read" : "valid file REJECTED");
	if (p)
		mpq_QSfree_prob (p);
	QSexactClear ();
	return p ? 0 : 1;
}
