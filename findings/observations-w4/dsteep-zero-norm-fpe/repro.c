/* mpq_QSopt_dual, default dual steepest edge pricing, scaling on (default),
 * iteration limit 1: SIGFPE (GMP division by zero) in update_p_scaleinf,
 * price.c, called from mpq_ILLfct_update_dpII_prices.  Public API only. */
#include "common.h"
int main (void)
{
	/* min x0 + 4 x1 + x2
	 *  r0: 9 <= 2 x0 + x1 - x2 <= 10 (ranged) ; r1: 4 x1 <= 1 ; r2: 5 x0 >= 1
	 *  r3: 2 x0 + 2 x1 - 2 x2 >= 0 ; r4: 3 x0 + 3 x1 >= 8 ; r5: -x0 + 3 x1 >= 0
	 *  -1 <= x0 <= 4, -1 <= x1 <= 6, -1 <= x2 <= 0 */
	static const int r0[] = { 2, 1, -1 }, r1[] = { 0, 4, 0 }, r2[] = { 5, 0, 0 },
		r3[] = { 2, 2, -2 }, r4[] = { 3, 3, 0 }, r5[] = { -1, 3, 0 };
	model_t M;
	mpq_QSprob p;
	int status = 0, rval;
	QSexactStart ();
	QSexact_set_precision (128);
	model_init (&M, 6, 3, QS_MIN);
	set_row (&M, 0, r0, 'R', 9, 1);
	set_row (&M, 1, r1, 'L', 1, 0);
	set_row (&M, 2, r2, 'G', 1, 0);
	set_row (&M, 3, r3, 'G', 0, 0);
	set_row (&M, 4, r4, 'G', 8, 0);
	set_row (&M, 5, r5, 'G', 0, 0);
	set_col (&M, 0, 1, 0, -1, 0, 4);
	set_col (&M, 1, 4, 0, -1, 0, 6);
	set_col (&M, 2, 1, 0, -1, 0, 0);
	p = model_build (&M, "t");
	mpq_QSset_param (p, QS_PARAM_SIMPLEX_SCALING, 1);
	mpq_QSset_param (p, QS_PARAM_SIMPLEX_MAX_ITERATIONS, 1);
	rval = mpq_QSopt_dual (p, &status);
	printf ("rval %d status %d\n", rval, status);
	mpq_QSfree_prob (p);
	model_free (&M);
	QSexactClear ();
	return 0;
}
