/* min -x - y  s.t.  x + y <= 4, x <= 3 (as a row), x,y >= 0.
 * Caller's basis: all-slack (x=y=0): primal feasible, dual INFEASIBLE
 * (reduced costs -1,-1 at lower bounds), dual objective 0.
 * QSexact_basis_dualstatus / QSexact_verify(useprestep=0) answer "not dual
 * feasible"; QSexact_verify(useprestep=1, no approximate solutions) answers
 * "dual feasible" with bound -4, the value of a different basis. */
#include <stdio.h>
#include <stdlib.h>
#include <gmp.h>
#include "QSopt_ex.h"

int main (void)
{
	int rval = 0, bad = 0;
	mpq_t o, l, u, v[2], r, dv;
	int ind[2] = { 0, 1 };
	char cs[2] = { QS_COL_BSTAT_LOWER, QS_COL_BSTAT_LOWER }, rs[2] = { QS_ROW_BSTAT_BASIC, QS_ROW_BSTAT_BASIC };
	char res;
	QSbasis B;
	mpq_QSprob p;

	QSexactStart ();
	mpq_init (o); mpq_init (l); mpq_init (u); mpq_init (v[0]); mpq_init (v[1]); mpq_init (r); mpq_init (dv);
	p = mpq_QScreate_prob ("p", QS_MIN);
	mpq_set_si (o, -1, 1); mpq_set_si (l, 0, 1); mpq_set (u, mpq_ILL_MAXDOUBLE);
	rval |= mpq_QSnew_col (p, o, l, u, "x");
	rval |= mpq_QSnew_col (p, o, l, u, "y");
	mpq_set_si (v[0], 1, 1); mpq_set_si (v[1], 1, 1); mpq_set_si (r, 4, 1);
	rval |= mpq_QSadd_row (p, 2, ind, (const mpq_t *) v, (const mpq_t *) &r, 'L', "c1");
	mpq_set_si (r, 3, 1);
	rval |= mpq_QSadd_row (p, 1, ind, (const mpq_t *) v, (const mpq_t *) &r, 'L', "c2");
	B.nstruct = 2; B.nrows = 2; B.cstat = cs; B.rstat = rs;

	res = 9; mpq_set_si (dv, -777, 1);
	rval = QSexact_basis_dualstatus (p, &B, &res, &dv, 1);
	gmp_printf ("QSexact_basis_dualstatus      : rval=%d result=%d\n", rval, res);
	res = 9; mpq_set_si (dv, -777, 1);
	rval = QSexact_verify (p, &B, 0, NULL, NULL, &res, &dv, 1);
	gmp_printf ("QSexact_verify useprestep=0   : rval=%d result=%d\n", rval, res);
	res = 9; mpq_set_si (dv, -777, 1);
	rval = QSexact_verify (p, &B, 1, NULL, NULL, &res, &dv, 1);
	gmp_printf ("QSexact_verify useprestep=1   : rval=%d result=%d dobjval=%Qd\n", rval, res, dv);
	if (res == 1) { printf ("DEVIATION: the caller's basis is dual infeasible, verify(useprestep=1) says dual feasible\n"); bad = 1; }
	mpq_QSfree_prob (p);
	mpq_clear (o); mpq_clear (l); mpq_clear (u); mpq_clear (v[0]); mpq_clear (v[1]); mpq_clear (r); mpq_clear (dv);
	QSexactClear ();
	return bad;
}
