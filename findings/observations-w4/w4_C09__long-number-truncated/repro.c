/* a coefficient with more than ~4080 decimal digits: the written line is cut
 * at 4095 characters (newline included), in MPS and in LP format */
#include "../common.h"
int main (int argc, char **argv)
{
	int digits = argc > 1 ? atoi (argv[1]) : 5000;
	mpq_QSprob p, q; mpq_t big; char *s = malloc (digits + 1);
	QSexactStart ();
	memset (s, '7', digits); s[digits] = 0;
	mpq_init (big); qs (big, s);
	p = base ("5");
	mpq_QSchange_coef (p, 0, 0, big);
	mpq_QSwrite_prob (p, "long.mps", "MPS");
	q = mpq_QSread_prob ("long.mps", "MPS");
	printf ("%d digits, MPS read back: %s\n", digits, q ? "accepted" : "REJECTED");
	mpq_QSwrite_prob (p, "long.lp", "LP");
	q = mpq_QSread_prob ("long.lp", "LP");
	printf ("%d digits, LP  read back: %s\n", digits, q ? "accepted" : "REJECTED");
	return 0;
}
