/* Pre-existing defect (unchanged tree): a row turned into a ranged row with
 * QSchange_sense(.., 'R') + QSchange_range has the opposite orientation of a row created with
 * QSadd_ranged_row(.., 'R', range): the re-solve after the edit differs from the solve of a
 * copy (QScopy_prob) / of a freshly built LP with the same (sense, rhs, range) data.
 *
 *     max x0,  0 <= x0 <= 10,   r0: x0 (sense) 4
 */
#include <stdio.h>
#include <stdlib.h>
#include <gmp.h>
#include "QSopt_ex.h"
static void solve(mpq_QSprob p,const char*w,mpq_t val){ int st=0,rv; rv=mpq_QSopt_primal(p,&st); mpq_set_si(val,-999,1); if(!rv&&st==QS_LP_OPTIMAL) mpq_QSget_objval(p,(mpq_t*)val); gmp_printf("%-34s rval=%d status=%d objval=%Qd\n",w,rv,st,val); }
int main(void){
  mpq_QSprob p,q,f; mpq_t o,l,u,v[1],t,r,v1,v2,v3; int ind[1]={0},bad=0; char s; mpq_t *rng=0,*rhs=0,*rv=0; int *rc=0,*rb=0,*rix=0; char*sn=0;
  QSexactStart(); QSexact_set_precision(128);
  mpq_init(o);mpq_init(l);mpq_init(u);mpq_init(v[0]);mpq_init(t);mpq_init(r);mpq_init(v1);mpq_init(v2);mpq_init(v3);
  p=mpq_QScreate_prob("p",QS_MAX);
  mpq_set_si(o,1,1);mpq_set_si(l,0,1);mpq_set_si(u,10,1); mpq_QSnew_col(p,o,l,u,"x0");
  mpq_set_si(v[0],1,1); mpq_set_si(t,4,1); mpq_QSadd_row(p,1,ind,(const mpq_t*)v,(const mpq_t*)&t,'L',"r0");
  solve(p,"p  (x0 <= 4):",v1);
  mpq_QSchange_sense(p,0,'R'); mpq_set_si(r,2,1); mpq_QSchange_range(p,0,r);
  mpq_QSget_ranged_rows(p,&rc,&rb,&rix,&rv,&rhs,&sn,&rng,0);
  gmp_printf("row data reported by the library: sense %c rhs %Qd range %Qd\n",sn[0],rhs[0],rng[0]);
  solve(p,"p  after chgsense R, chgrange 2:",v1);
  q=mpq_QScopy_prob(p,"copy"); solve(q,"QScopy_prob(p):",v2);
  f=mpq_QScreate_prob("f",QS_MAX); mpq_QSnew_col(f,o,l,u,"x0"); s=sn[0];
  mpq_QSadd_ranged_row(f,1,ind,(const mpq_t*)v,(const mpq_t*)&rhs[0],s,(const mpq_t*)&rng[0],"r0"); solve(f,"fresh LP from the reported data:",v3);
  if(!mpq_equal(v1,v2)||!mpq_equal(v1,v3)) bad=1;
  mpq_QSfree_prob(p);mpq_QSfree_prob(q);mpq_QSfree_prob(f); QSexactClear();
  printf(bad?"DEFECT: edited LP and its copy / fresh rebuild disagree\n":"ok\n"); return bad;
}
