/* Variant: QSchange_sense(row,'R') on a row that is ALREADY ranged silently collapses the range
 * of the logical to 0 (and flips its coefficient) but keeps rangeval: QSget_ranged_rows, QScopy_prob
 * and the writers still see range 2, the solver sees range 0.  Also shows QSexact_solver on it. */
#include <stdio.h>
#include <stdlib.h>
#include <gmp.h>
#include "QSopt_ex.h"
static void solve(mpq_QSprob p,const char*w,mpq_t val,int exact){ int st=0,rv; rv=exact?QSexact_solver(p,0,0,0,DUAL_SIMPLEX,&st):mpq_QSopt_primal(p,&st); mpq_set_si(val,-999,1); if(!rv&&st==QS_LP_OPTIMAL) mpq_QSget_objval(p,(mpq_t*)val); gmp_printf("%-44s rval=%d status=%d objval=%Qd\n",w,rv,st,val); }
int main(void){
  mpq_QSprob p,q; mpq_t o,l,u,v[1],t,r,v1,v2,v3; int ind[1]={0},bad=0; mpq_t *rng=0,*rhs=0,*rv=0; int *rc=0,*rb=0,*rix=0; char*sn=0;
  QSexactStart(); QSexact_set_precision(128);
  mpq_init(o);mpq_init(l);mpq_init(u);mpq_init(v[0]);mpq_init(t);mpq_init(r);mpq_init(v1);mpq_init(v2);mpq_init(v3);
  p=mpq_QScreate_prob("p",QS_MAX);
  mpq_set_si(o,1,1);mpq_set_si(l,0,1);mpq_set_si(u,10,1); mpq_QSnew_col(p,o,l,u,"x0");
  mpq_set_si(v[0],1,1); mpq_set_si(t,4,1); mpq_set_si(r,2,1); mpq_QSadd_ranged_row(p,1,ind,(const mpq_t*)v,(const mpq_t*)&t,'R',(const mpq_t*)&r,"r0");
  solve(p,"p  (4 <= x0 <= 6):",v1,0);
  mpq_QSchange_sense(p,0,'R');
  mpq_QSget_ranged_rows(p,&rc,&rb,&rix,&rv,&rhs,&sn,&rng,0);
  gmp_printf("row data reported by the library: sense %c rhs %Qd range %Qd\n",sn[0],rhs[0],rng[0]);
  solve(p,"p  after chgsense(0,'R') [QSopt_primal]:",v1,0);
  q=mpq_QScopy_prob(p,"copy"); solve(q,"QScopy_prob(p) [QSopt_primal]:",v2,0);
  solve(p,"p  [QSexact_solver]:",v3,1);
  if(!mpq_equal(v1,v2)||!mpq_equal(v1,v3)) bad=1;
  mpq_QSfree_prob(p);mpq_QSfree_prob(q); QSexactClear();
  printf(bad?"DEFECT: edited LP and its copy disagree\n":"ok\n"); return bad;
}
