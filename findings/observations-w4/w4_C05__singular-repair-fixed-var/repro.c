/* Pre-existing defect (unchanged tree): a warm re-solve whose retained basis became
 * singular repairs the basis by kicking out a FIXED structural with status STAT_ZERO,
 * so the "optimal" solution reports that variable at 0 instead of at its fixed bound.
 *
 *   min 0*x0            x0 in [-2,-2]        row0:  -2 x0 = 6     (infeasible)
 *   solve (dual)  -> infeasible, retained basis has x0 basic
 *   chgcoef(0,0) := 0 ; x0 fixed at [1,1] ; rhs := 5 ; add x1 (obj 1, [1,3], coef 2 in row0)
 *   solve (dual)  -> claims OPTIMAL with x0 = 0   (x0 must be 1)
 */
#include <stdio.h>
#include <stdlib.h>
#include <gmp.h>
#include "QSopt_ex.h"
int main(void){
  mpq_QSprob p; mpq_t o,l,u,v[1],t,x[2],val; int st=0,rv,i,ind[1]={0},bad=0;
  QSexactStart(); QSexact_set_precision(128);
  mpq_init(o);mpq_init(l);mpq_init(u);mpq_init(v[0]);mpq_init(t);mpq_init(val);for(i=0;i<2;i++)mpq_init(x[i]);
  p=mpq_QScreate_prob("p",QS_MIN);
  mpq_set_si(o,0,1);mpq_set_si(l,-2,1);mpq_set_si(u,-2,1); mpq_QSnew_col(p,o,l,u,"x0");
  mpq_set_si(v[0],-2,1); mpq_set_si(t,6,1); mpq_QSadd_row(p,1,ind,(const mpq_t*)v,(const mpq_t*)&t,'E',"r0");
  rv=mpq_QSopt_dual(p,&st); printf("solve 1: rval=%d status=%d (2 = infeasible, expected)\n",rv,st);
  mpq_set_si(t,0,1); mpq_QSchange_coef(p,0,0,t);
  mpq_set_si(t,1,1); mpq_QSchange_bound(p,0,'B',t);
  mpq_set_si(t,5,1); mpq_QSchange_rhscoef(p,0,t);
  mpq_set_si(o,1,1);mpq_set_si(l,1,1);mpq_set_si(u,3,1);mpq_set_si(v[0],2,1); mpq_QSadd_col(p,1,ind,v,o,l,u,"x1");
  rv=mpq_QSopt_dual(p,&st); printf("solve 2: rval=%d status=%d\n",rv,st);
  if(!rv&&st==QS_LP_OPTIMAL){
    mpq_QSget_x_array(p,x); mpq_QSget_objval(p,&val);
    gmp_printf("x = (%Qd, %Qd) objval=%Qd     expected x = (1, 5/2), objval 5/2; x0 has bounds [1,1]\n",x[0],x[1],val);
    if(mpq_cmp_si(x[0],1,1)||mpq_cmp_si(x[1],5,2)) bad=1;
  } else bad=1;
  mpq_QSfree_prob(p); QSexactClear();
  printf(bad?"DEFECT: returned solution violates the bounds of x0\n":"ok\n"); return bad;
}
