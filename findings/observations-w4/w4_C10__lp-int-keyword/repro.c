/* The LP reader lists "INT" as a spelling of the integer section keyword
 * (lp.c: integer[1] = "INT") but a file using it can never be read.  */
#include <stdio.h>
#include "QSopt_ex.h"
static int try (const char *name, const char *text)
{
	FILE *f = fopen (name, "w");
	mpq_QSprob p;

	fputs (text, f);
	fclose (f);
	p = mpq_QSread_prob (name, "LP");
	printf ("%-14s %s\n", name, p ? "read" : "REJECTED");
	if (p)
		mpq_QSfree_prob (p);
	return p == NULL;
}
int main (void)
{
	int bad = 0;

	QSexactStart ();
	try ("integer.lp", "Minimize\n obj: x + y\nSubject To\n c1: x + y >= 1\nInteger\n x\nEnd\n");
	bad += try ("int.lp", "Minimize\n obj: x + y\nSubject To\n c1: x + y >= 1\nInt\n x\nEnd\n");
	bad += try ("bounds_int.lp",
							"Minimize\n obj: x + y\nSubject To\n c1: x + y >= 1\nBounds\n x <= 4\nInt\n x\nEnd\n");
	QSexactClear ();
	return bad != 0;
}
