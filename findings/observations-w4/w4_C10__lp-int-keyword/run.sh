#!/bin/sh
# usage: sh run.sh <worktree>   (exit 0 = defect not present, 1 = defect reproduced)
W=${1:?usage: sh run.sh <worktree>}
D=$(cd "$(dirname "$0")" && pwd)
cc -O0 -g -I"$W" -I"$W/qsopt_ex" "$D/repro.c" "$W/.libs/libqsopt_ex.a" \
   -lgmp -lz -lbz2 -lm -lpthread -o "$D/repro" || exit 2
cd "$D" && ./repro 2>repro.stderr
