#include "small.h"
int main (void)
{
	mpq_QSprob p; mpq_t v[2]; int ind[2] = { 0, 2 }, k = -5, rv;
	QSexactStart (); mpq_init (v[0]); mpq_init (v[1]); mpq_set_ui (v[0], 1, 1); mpq_set_ui (v[1], 2, 1);
	p = load_small ();
	rv = mpq_QSadd_col (p, 2, ind, v, v[0], v[0], v[1], "w");		/* row index 2 is out of range (2 rows) */
	printf ("QSadd_col(rows {0,2}, name w) -> %d (expected: non-zero)\n", rv); shape (p, "after");
	rv = mpq_QSget_column_index (p, "w", &k);
	printf ("QSget_column_index(\"w\") -> rv=%d index=%d   (column count is %d: 'w' must not exist)\n", rv, k, mpq_QSget_colcount (p));
	rv = mpq_QSwrite_prob (p, "/dev/null", "LP");
	printf ("QSwrite_prob(LP) -> %d (expected 0: the problem is unchanged)\n", rv);
	ind[1] = 1;
	rv = mpq_QSadd_col (p, 2, ind, v, v[0], v[0], v[1], "w");		/* now valid */
	printf ("valid QSadd_col(rows {0,1}, name w) -> %d (expected 0)\n", rv);
	mpq_QSfree_prob (p); QSexactClear ();
	return 0;
}
