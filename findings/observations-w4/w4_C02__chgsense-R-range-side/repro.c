/* A row turned into a ranged row with QSchange_sense(.,'R') + QSchange_range
 * extends to the other side of rhs than a row created as 'R' by
 * QSadd_ranged_rows / read from a file, although every getter and the LP
 * writer report the same (sense, rhs, range) triple for both.
 *
 *   col  x, 1 <= x <= 3, min x
 *   row  r: x = 0, then change_sense(r,'R'), change_range(r,2)
 *
 * Reported by QSget_ranged_rows / QSwrite_prob:  0 <= x <= 2  (feasible, opt 1)
 * Stored internally (logical coefficient +1, bounds [0,2]):  -2 <= x <= 0
 */
#include <stdio.h>
#include <stdlib.h>
#include <gmp.h>
#include "QSopt_ex.h"

static mpq_QSprob build (int via_change)
{
	mpq_t one, two, zero, three, val[1];
	int ind[1] = { 0 };
	mpq_QSprob p = mpq_QScreate_prob ("t", QS_MIN);
	mpq_init (one); mpq_init (two); mpq_init (zero); mpq_init (three);
	mpq_init (val[0]);
	mpq_set_ui (one, 1, 1); mpq_set_ui (two, 2, 1); mpq_set_ui (three, 3, 1);
	mpq_set_ui (val[0], 1, 1);
	mpq_QSnew_col (p, one, one, three, "x");
	if (via_change)
	{
		mpq_QSadd_row (p, 1, ind, val, &zero, 'E', "r");
		mpq_QSchange_sense (p, 0, 'R');
		mpq_QSchange_range (p, 0, two);
	}
	else
		mpq_QSadd_ranged_row (p, 1, ind, val, &zero, 'R', &two, "r");
	return p;
}

int main (void)
{
	int v, bad = 0;
	QSexactStart ();
	for (v = 0; v < 2; v++)
	{
		mpq_QSprob p = build (v);
		int *cnt = 0, *beg = 0, *rind = 0, status = 0, rval, st2 = 0;
		mpq_t *rv = 0, *rhs = 0, *range = 0, x[2], y[1];
		char *sense = 0;
		mpq_init (x[0]); mpq_init (x[1]); mpq_init (y[0]);
		mpq_QSget_ranged_rows (p, &cnt, &beg, &rind, &rv, &rhs, &sense, &range, 0);
		gmp_printf ("%s: getter says sense=%c rhs=%Qd range=%Qd;",
								v ? "E->change_sense(R)+change_range" : "add_ranged_row       ",
								sense[0], rhs[0], range[0]);
		rval = QSexact_solver (p, x, y, 0, DUAL_SIMPLEX, &status);
		printf (" QSexact_solver rval=%d status=%d", rval, status);
		if (status == QS_LP_OPTIMAL)
			gmp_printf (" x=%Qd", x[0]);
		mpq_QSfree_prob (p);
		p = build (v);
		rval = mpq_QSopt_primal (p, &st2);
		printf ("; mpq_QSopt_primal rval=%d status=%d\n", rval, st2);
		if (status != QS_LP_OPTIMAL || st2 != QS_LP_OPTIMAL)
			bad = 1;
		mpq_QSfree_prob (p);
	}
	QSexactClear ();
	return bad;
}
