/* '/' is a legal first character of an LP name, and the writer leaves out
 * a coefficient 1; the reader then takes "/2" of the name "/2x" for a
 * number (0/2) and "x" for the variable. */
#include "common.h"
int main (void)
{
	mpq_QSprob p, q;
	int idx = -1;

	QSexactStart ();
	p = base_problem ("slash");
	add_column (p, "/2x", "0", NULL);
	if (mpq_QSwrite_prob (p, "out.lp", "LP"))
		return 2;
	q = mpq_QSread_prob ("out.lp", "LP");
	if (q == NULL)
	{
		printf ("reader REJECTED the file\n");
		return 1;
	}
	printf ("columns: original %d, read back %d\n", mpq_QSget_colcount (p), mpq_QSget_colcount (q));
	printf ("column \"/2x\" %s in the problem read back\n",
					mpq_QSget_column_index (q, "/2x", &idx) == 0 && idx >= 0 ? "present" : "MISSING");
	return mpq_QSget_colcount (p) != mpq_QSget_colcount (q);
}
