/* Reproducer: heap over-read in buildMatrix (qsopt_ex/rawlp.c:1194) while
 * reading a valid MPS file.  Public API only.
 *   gcc -g -I$W -I$W/qsopt_ex repro.c $W/.libs/libqsopt_ex.a -lgmp -lz -lbz2 -lm -lpthread -o repro
 *   valgrind ./repro dup.mps
 */
#include <stdio.h>
#include <gmp.h>
#include "QSopt_ex.h"
int main (int ac, char **av)
{
	mpq_QSprob p;
	if (ac < 2)
		return 2;
	QSexactStart ();
	QSexact_set_precision (128);
	p = mpq_QSread_prob (av[1], "MPS");
	if (!p)
	{
		printf ("read failed\n");
		QSexactClear ();
		return 1;
	}
	printf ("read ok: %d rows %d cols\n", mpq_QSget_rowcount (p),
					mpq_QSget_colcount (p));
	mpq_QSfree_prob (p);
	QSexactClear ();
	return 0;
}
