NAME          dup
ROWS
 N  obj
 N  free1
 G  c1
COLUMNS
    z         free1     1
    x         obj       1
    x         c1        1
    x         c1        2
RHS
    rhs       c1        3
ENDATA
