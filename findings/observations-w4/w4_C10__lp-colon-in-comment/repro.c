/* A ':' inside a comment makes the reader look for a row name in front of an
 * unnamed constraint; the valid file is rejected.  Public API only. */
#include <stdio.h>
#include "QSopt_ex.h"
int main (void)
{
	FILE *f = fopen ("colon.lp", "w");
	mpq_QSprob p;

	fputs ("Minimize\n obj: x + y\nSubject To\n x + y >= 1 \\ note: both\n c2: x - y <= 3\nEnd\n", f);
	fclose (f);
	QSexactStart ();
	p = mpq_QSread_prob ("colon.lp", "LP");
	printf ("%s\n", p ? "file read" : "valid file REJECTED");
	if (p)
		mpq_QSfree_prob (p);
	QSexactClear ();
	return p ? 0 : 1;
}
