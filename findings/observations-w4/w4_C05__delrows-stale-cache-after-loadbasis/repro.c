/* Pre-existing defect (unchanged tree): QSdelete_row decides from p->basis alone whether the
 * cached solution survives the deletion; after QSload_basis the stored basis is no longer the basis
 * of the cached solution, and the additional test on the cached dual only looks for pi > 0.
 *   min -x0, 0<=x0<=10, r0: x0 <= 4      -> solve: x0=4, pi=-1 (r0 binding)
 *   load basis {x0 at upper, r0 basic}    (legal; LP unchanged, cache stays)
 *   delete r0                             -> cache kept: x=4, objval=-4 still served
 *   LP is now min -x0, 0<=x0<=10: optimum -10
 */
#include <stdio.h>
#include <stdlib.h>
#include <gmp.h>
#include "QSopt_ex.h"
int main(void){
  mpq_QSprob p; mpq_t o,l,u,v[1],t,x[1],val; int st=0,rv,ind[1]={0},bad=0,r1,r2; char cs[1],rs[1];
  QSexactStart(); QSexact_set_precision(128);
  mpq_init(o);mpq_init(l);mpq_init(u);mpq_init(v[0]);mpq_init(t);mpq_init(x[0]);mpq_init(val);
  p=mpq_QScreate_prob("p",QS_MIN);
  mpq_set_si(o,-1,1);mpq_set_si(l,0,1);mpq_set_si(u,10,1); mpq_QSnew_col(p,o,l,u,"x0");
  mpq_set_si(v[0],1,1); mpq_set_si(t,4,1); mpq_QSadd_row(p,1,ind,(const mpq_t*)v,(const mpq_t*)&t,'L',"r0");
  rv=mpq_QSopt_dual(p,&st); mpq_QSget_x_array(p,x); mpq_QSget_objval(p,&val);
  gmp_printf("solve: rval=%d status=%d x0=%Qd objval=%Qd\n",rv,st,x[0],val);
  cs[0]=QS_COL_BSTAT_UPPER; rs[0]=QS_ROW_BSTAT_BASIC;
  rv=mpq_QSload_basis_array(p,cs,rs); printf("load_basis_array: rval=%d\n",rv);
  rv=mpq_QSdelete_row(p,0); printf("delete_row(0): rval=%d\n",rv);
  r1=mpq_QSget_x_array(p,x); r2=mpq_QSget_objval(p,&val); mpq_QSget_status(p,&st);
  printf("after the edit, before any solve: get_x rval=%d, get_objval rval=%d, status=%d\n",r1,r2,st);
  if(!r1){ gmp_printf("   x0=%Qd  (optimal for the current LP: x0=10)\n",x[0]); if(mpq_cmp_si(x[0],10,1)) bad=1; }
  if(!r2){ gmp_printf("   objval=%Qd (optimal for the current LP: -10)\n",val); if(mpq_cmp_si(val,-10,1)) bad=1; }
  rv=mpq_QSopt_primal(p,&st); mpq_QSget_x_array(p,x); mpq_QSget_objval(p,&val);
  gmp_printf("re-solve with mpq_QSopt_primal: rval=%d status=%d x0=%Qd objval=%Qd\n",rv,st,x[0],val);
  if(mpq_cmp_si(val,-10,1)) bad=1;
  rv=mpq_QSopt_dual(p,&st); mpq_QSget_x_array(p,x); mpq_QSget_objval(p,&val);
  gmp_printf("re-solve with mpq_QSopt_dual:   rval=%d status=%d x0=%Qd objval=%Qd\n",rv,st,x[0],val);
  mpq_QSfree_prob(p); QSexactClear();
  printf(bad?"DEFECT: stale solution served between the edit and the next solve\n":"ok\n"); return bad;
}
