/* problem name that is empty or contains a blank: written verbatim after
 * "Problem", the reader takes one blank separated token for the name */
#include "common.h"
int main (int argc, char **argv)
{
	mpq_QSprob p, q;
	const char *name = argc > 1 ? argv[1] : "my problem";

	QSexactStart ();
	p = base_problem (name);
	if (mpq_QSwrite_prob (p, "out.lp", "LP"))
		return 2;
	q = mpq_QSread_prob ("out.lp", "LP");
	printf ("problem name \"%s\": reader %s\n", name, q ? "accepted the file" : "REJECTED the file");
	return q == NULL;
}
