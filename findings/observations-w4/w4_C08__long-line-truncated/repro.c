/* A number of more than ~4090 digits makes one LP line longer than 4095
 * characters; EGioWrite silently cuts the line (newline included). */
#include "common.h"
int main (void)
{
	mpq_QSprob p, q;
	char *big = malloc (6001);
	mpq_t r, v[2];
	int ind[2] = { 0, 1 };

	QSexactStart ();
	p = base_problem ("longline");
	memset (big, '7', 6000);
	big[6000] = 0;
	mpq_init (r); mpq_init (v[0]); mpq_init (v[1]);
	setq (r, big); setq (v[0], "1"); setq (v[1], "1");
	mpq_QSadd_row (p, 2, ind, (const mpq_t *) v, (const mpq_t *) &r, 'L', "big");
	if (mpq_QSwrite_prob (p, "out.lp", "LP"))
	{
		printf ("writer failed\n");
		return 2;
	}
	printf ("writer returned 0\n");
	q = mpq_QSread_prob ("out.lp", "LP");
	printf ("reader %s\n", q ? "accepted the file" : "REJECTED the file");
	if (q)
	{
		mpq_t *rhs = (mpq_t *) malloc (2 * sizeof (mpq_t));
		mpq_init (rhs[0]); mpq_init (rhs[1]);
		mpq_QSget_rhs (q, rhs);
		printf ("rhs of row big %s\n", mpq_equal (rhs[1], r) ? "identical" : "DIFFERENT");
	}
	return q == NULL;
}
