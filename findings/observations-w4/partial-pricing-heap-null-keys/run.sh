#!/bin/sh
# sh run.sh <worktree> ; exit 0 iff the sequence runs cleanly under memcheck
W=${1:?usage: sh run.sh <worktree>}
D=$(cd "$(dirname "$0")" && pwd)
cd "$D" || exit 2
gcc -g -O1 -I"$W" -I"$W/qsopt_ex" repro.c "$W/.libs/libqsopt_ex.a" -lgmp -lz -lbz2 -lm -lpthread -o repro.bin || exit 2
valgrind -q --error-exitcode=99 ./repro.bin
