/* A row whose name starts with '$' makes the basis file unreadable: the line
 * " XL x $cap" is cut at the '$' (MPS comment rule for fields 3,5,...).
 *
 *   max x + 2 y   s.t.  $cap: x + y <= 4,   0 <= x,y <= 3
 *
 * build: gcc -I$W -I$W/qsopt_ex repro.c $W/.libs/libqsopt_ex.a -lgmp -lz -lbz2 -lm -lpthread
 */
#include <stdio.h>
#include <stdlib.h>
#include <string.h>
#include <gmp.h>
#include "QSopt_ex.h"

int main (int argc, char **argv)
{
	const char *rowname = argc > 1 ? argv[1] : "$cap";
	int cmatcnt[2] = { 1, 1 }, cmatbeg[2] = { 0, 1 }, cmatind[2] = { 0, 0 };
	char sense[1] = { 'L' };
	const char *cn[2] = { "x", "y" }, *rn[1];
	mpq_t v[2], obj[2], rhs[1], lo[2], up[2];
	int i, st, rval;
	mpq_QSprob p;
	QSbasis *B;
	char *nm;

	rn[0] = rowname;
	QSexactStart ();
	for (i = 0; i < 2; i++)
	{
		mpq_init (v[i]); mpq_init (obj[i]); mpq_init (lo[i]); mpq_init (up[i]);
		mpq_set_si (v[i], 1, 1); mpq_set_si (obj[i], i + 1, 1);
		mpq_set_si (lo[i], 0, 1); mpq_set_si (up[i], 3, 1);
	}
	mpq_init (rhs[0]); mpq_set_si (rhs[0], 4, 1);
	p = mpq_QSload_prob ("t", 2, 1, cmatcnt, cmatbeg, cmatind, v, QS_MAX, obj,
											 rhs, sense, lo, up, cn, rn);
	mpq_QSget_rownames (p, &nm);	/* name kept as given, no repair */
	printf ("row name in the problem: %s\n", nm);
	mpq_QSopt_dual (p, &st);
	rval = mpq_QSwrite_basis (p, 0, "d.bas");
	printf ("write rval=%d status=%d\n", rval, st);
	B = mpq_QSread_basis (p, "d.bas");
	printf ("QSread_basis -> %s\n", B ? "ok" : "NULL (file written by the library is refused)");
	if (B) mpq_QSfree_basis (B);
	mpq_QSfree_prob (p);
	QSexactClear ();
	return B ? 0 : 1;
}
