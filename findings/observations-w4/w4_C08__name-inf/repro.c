/* a column called "inf" (or "infinity", any case) with a non default bound:
 * in the Bounds section the reader takes the name for the value +infinity */
#include "common.h"
int main (int argc, char **argv)
{
	mpq_QSprob p, q;
	const char *name = argc > 1 ? argv[1] : "inf";

	QSexactStart ();
	p = base_problem ("infname");
	add_column (p, name, "0", "5");
	if (mpq_QSwrite_prob (p, "out.lp", "LP"))
		return 2;
	q = mpq_QSread_prob ("out.lp", "LP");
	printf ("column \"%s\" with bounds [0,5]: reader %s\n", name, q ? "accepted the file" : "REJECTED the file");
	return q == NULL;
}
