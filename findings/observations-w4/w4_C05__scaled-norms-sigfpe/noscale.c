/* Pre-existing defect (unchanged tree): mpq_QSopt_dual on a freshly built 2x3 LP dies with
 * SIGFPE (GMP division by zero) in update_p_scaleinf (price.c:1276).
 *   max 0*x0 - 3*x1,  x0 in [1,4], x1 in [-3,1]
 *   r0:        -3 x1 <= 1
 *   r1: -x0 + 2/3 x1  = 2
 *   r2: -2 x0         = 4         (infeasible: x0 = -2 < 1)
 */
#include <stdio.h>
#include <stdlib.h>
#include <gmp.h>
#include "QSopt_ex.h"
int main(void){
  mpq_QSprob p; mpq_t o,l,u,v[2],t; int st=0,rv,ind[2];
  QSexactStart(); QSexact_set_precision(128);
  mpq_init(o);mpq_init(l);mpq_init(u);mpq_init(v[0]);mpq_init(v[1]);mpq_init(t);
  p=mpq_QScreate_prob("p",QS_MIN);
  mpq_set_si(o,0,1);mpq_set_si(l,1,1);mpq_set_si(u,4,1); mpq_QSnew_col(p,o,l,u,"x0");
  mpq_set_si(o,-3,1);mpq_set_si(l,-3,1);mpq_set_si(u,1,1); mpq_QSnew_col(p,o,l,u,"x1");
  ind[0]=1; mpq_set_si(v[0],-3,1); mpq_set_si(t,1,1); mpq_QSadd_row(p,1,ind,(const mpq_t*)v,(const mpq_t*)&t,'L',"r0");
  ind[0]=0; ind[1]=1; mpq_set_si(v[0],-1,1); mpq_set_si(v[1],2,3); mpq_set_si(t,2,1); mpq_QSadd_row(p,2,ind,(const mpq_t*)v,(const mpq_t*)&t,'E',"r1");
  ind[0]=0; mpq_set_si(v[0],-2,1); mpq_set_si(t,4,1); mpq_QSadd_row(p,1,ind,(const mpq_t*)v,(const mpq_t*)&t,'E',"r2");
  mpq_QSchange_objsense(p,QS_MAX);
  mpq_QSset_param(p,QS_PARAM_SIMPLEX_SCALING,0); rv=mpq_QSopt_dual(p,&st);
  printf("mpq_QSopt_dual: rval=%d status=%d (expected status 2, infeasible)\n",rv,st);
  mpq_QSfree_prob(p); QSexactClear();
  return (rv||st!=QS_LP_INFEASIBLE);
}
