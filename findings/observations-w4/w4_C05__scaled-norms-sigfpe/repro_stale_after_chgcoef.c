/* Second path to the same crash (unchanged tree): row norms retained across QSchange_coef are
 * re-used by QSadd_row (which re-factors and declares factorok=1) and by the warm dual re-solve.
 *   min -4 x0, x0 in [-1,5];  rows: 0>=0, 0>=2, -1<=x0<=3 (R), 0<=-3, -2x0=-3, 3x0>=6, -2x0=-3
 *   solve (dual)            -> infeasible
 *   obj(x0)=3/2 ; coef(r4,x0)=0 ; add row 2x0<=-3 ; solve (dual)   -> SIGFPE
 */
#include <stdio.h>
#include <stdlib.h>
#include <gmp.h>
#include "QSopt_ex.h"
static mpq_QSprob p; static mpq_t t,v[1],r;
static void row(int sense,int rhs,int coef,int range){ int ind[1]={0}; mpq_set_si(v[0],coef,1); mpq_set_si(t,rhs,1); mpq_set_si(r,range,1);
  mpq_QSadd_ranged_row(p,coef?1:0,ind,(const mpq_t*)v,(const mpq_t*)&t,sense,(const mpq_t*)&r,0); }
int main(void){
  mpq_t o,l,u; int st=0,rv;
  QSexactStart(); QSexact_set_precision(128);
  mpq_init(o);mpq_init(l);mpq_init(u);mpq_init(t);mpq_init(v[0]);mpq_init(r);
  p=mpq_QScreate_prob("p",QS_MIN);
  mpq_set_si(o,-4,1);mpq_set_si(l,-1,1);mpq_set_si(u,5,1); mpq_QSnew_col(p,o,l,u,"x0");
  row('G',0,0,0); row('G',2,0,0); row('R',-1,1,4); row('L',-3,0,0); row('E',-3,-2,0); row('G',6,3,0); row('E',-3,-2,0);
  rv=mpq_QSopt_dual(p,&st); printf("solve 1: rval=%d status=%d\n",rv,st);
  mpq_set_si(t,3,2); mpq_QSchange_objcoef(p,0,t);
  mpq_set_si(t,0,1); mpq_QSchange_coef(p,4,0,t);
  row('L',-3,2,0);
  rv=mpq_QSopt_dual(p,&st); printf("solve 2: rval=%d status=%d (expected 2, infeasible)\n",rv,st);
  mpq_QSfree_prob(p); QSexactClear();
  return (rv||st!=QS_LP_INFEASIBLE);
}
