/* min -x - y  s.t.  x + y <= 4, x <= 3 (row), x,y >= 0.
 * Solve with mpq_QSopt_primal, then load the all-slack basis (x=y=0, objective
 * 0, not optimal) with mpq_QSload_basis and call mpq_QSopt_primal again. */
#include <stdio.h>
#include <stdlib.h>
#include <string.h>
#include <gmp.h>
#include "QSopt_ex.h"

int main (void)
{
	int status = -1, rval = 0, i, bad = 0;
	mpq_t o, l, u, v[2], r, val;
	int ind[2] = { 0, 1 };
	mpq_QSprob p;
	QSbasis *B, *B2;

	QSexactStart ();
	mpq_init (o); mpq_init (l); mpq_init (u); mpq_init (v[0]); mpq_init (v[1]); mpq_init (r); mpq_init (val);
	p = mpq_QScreate_prob ("p", QS_MIN);
	mpq_set_si (o, -1, 1); mpq_set_si (l, 0, 1); mpq_set (u, mpq_ILL_MAXDOUBLE);
	rval |= mpq_QSnew_col (p, o, l, u, "x");
	rval |= mpq_QSnew_col (p, o, l, u, "y");
	mpq_set_si (v[0], 1, 1); mpq_set_si (v[1], 1, 1); mpq_set_si (r, 4, 1);
	rval |= mpq_QSadd_row (p, 2, ind, (const mpq_t *) v, (const mpq_t *) &r, 'L', "c1");
	mpq_set_si (r, 3, 1);
	rval |= mpq_QSadd_row (p, 1, ind, (const mpq_t *) v, (const mpq_t *) &r, 'L', "c2");

	rval |= mpq_QSopt_primal (p, &status);
	mpq_QSget_objval (p, &val);
	B = mpq_QSget_basis (p);
	gmp_printf ("first solve : rval=%d status=%d obj=%Qd basis c=%.2s r=%.2s\n", rval, status, val, B->cstat, B->rstat);

	/* all-slack basis: x,y at lower, both rows basic */
	B->cstat[0] = B->cstat[1] = QS_COL_BSTAT_LOWER;
	B->rstat[0] = B->rstat[1] = QS_ROW_BSTAT_BASIC;
	rval |= mpq_QSload_basis (p, B);
	status = -1;
	rval |= mpq_QSopt_primal (p, &status);
	mpq_QSget_objval (p, &val);
	B2 = mpq_QSget_basis (p);
	gmp_printf ("second solve: rval=%d status=%d obj=%Qd basis c=%.2s r=%.2s\n", rval, status, val, B2->cstat, B2->rstat);
	if (status == QS_LP_OPTIMAL)
	{
		/* the basic solution of the basis handed back must have objective -4 */
		int allslack = 1;
		for (i = 0; i < 2; i++) allslack &= (B2->cstat[i] == QS_COL_BSTAT_LOWER && B2->rstat[i] == QS_ROW_BSTAT_BASIC);
		if (allslack) { printf ("DEFECT: status OPTIMAL (obj -4 from the stale cache) but the basis handed back is the all-slack basis whose basic solution has objective 0\n"); bad = 1; }
	}
	/* same with the dual entry point: it re-solves because factorok was reset */
	rval |= mpq_QSload_basis (p, B);
	rval |= mpq_QSopt_dual (p, &status);
	mpq_QSfree_basis (B2);
	B2 = mpq_QSget_basis (p);
	printf ("dual entry  : status=%d basis c=%.2s r=%.2s\n", status, B2->cstat, B2->rstat);
	mpq_QSfree_basis (B); mpq_QSfree_basis (B2);
	mpq_QSfree_prob (p);
	mpq_clear (o); mpq_clear (l); mpq_clear (u); mpq_clear (v[0]); mpq_clear (v[1]); mpq_clear (r); mpq_clear (val);
	QSexactClear ();
	return bad;
}
