#include "small.h"
int main (void)
{
	mpq_QSprob p; mpq_t v[2]; int rv;
	int cnt[2] = { 1, 1 }, beg[2] = { 0, 1 }, ind[2] = { 0, 7 };
	char sn[2] = { 'L', 'L' }; const char *nm[2] = { "r1", "r2" }, *cn[2] = { "w", "x" };
	QSexactStart (); mpq_init (v[0]); mpq_init (v[1]); mpq_set_ui (v[0], 1, 1); mpq_set_ui (v[1], 2, 1);
	p = load_small ();
	rv = mpq_QSadd_rows (p, 2, cnt, beg, ind, v, v, sn, nm);
	printf ("QSadd_rows(r1 ok, r2 uses column 7) -> %d\n", rv); shape (p, "after");
	mpq_QSfree_prob (p); p = load_small (); ind[1] = 1; nm[1] = "c1";
	rv = mpq_QSadd_rows (p, 2, cnt, beg, ind, v, v, sn, nm);
	printf ("QSadd_rows(r1 ok, second named c1 = duplicate) -> %d\n", rv); shape (p, "after");
	mpq_QSfree_prob (p); p = load_small ();
	rv = mpq_QSadd_cols (p, 2, cnt, beg, ind, v, v, v, v, cn);
	printf ("QSadd_cols(w ok, second named x = duplicate) -> %d\n", rv); shape (p, "after");
	mpq_QSfree_prob (p); QSexactClear ();
	return 0;
}
