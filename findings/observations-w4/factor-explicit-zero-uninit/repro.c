#include <stdio.h>
#include <stdlib.h>
#include <gmp.h>
#include "QSopt_ex.h"
static unsigned long long st = 88172645463325252ULL;
static unsigned rnd(void){ st ^= st << 13; st ^= st >> 7; st ^= st << 17; return (unsigned)(st >> 11); }
int main(int ac, char **av)
{
	int n = ac > 1 ? atoi(av[1]) : 7, m = ac > 2 ? atoi(av[2]) : 7, seed = ac > 3 ? atoi(av[3]) : 1, algo = ac > 4 ? atoi(av[4]) : 0;
	int i, j, nz = 0, status = 0, rval;
	int *cnt = malloc(n*sizeof(int)), *beg = malloc(n*sizeof(int)), *ind = malloc(n*m*sizeof(int));
	mpq_t *val = malloc(n*m*sizeof(mpq_t)), *obj = malloc(n*sizeof(mpq_t)), *rhs = malloc(m*sizeof(mpq_t)), *lo = malloc(n*sizeof(mpq_t)), *up = malloc(n*sizeof(mpq_t));
	char *sense = malloc(m);
	mpq_QSprob p;
	for (i = 0; i < seed * 7; i++) rnd();
	QSexactStart(); QSexact_set_precision(128);
	for (j = 0; j < n; j++) {
		beg[j] = nz; cnt[j] = 0;
		for (i = 0; i < m; i++) { int v = (int)(rnd() % 6) - 1; if (v < 0) continue; /* v == 0 kept as explicit zero */
			ind[nz] = i; mpq_init(val[nz]); mpq_set_si(val[nz], v, 1); nz++; cnt[j]++; }
		mpq_init(obj[j]); mpq_set_si(obj[j], 1 + (int)(rnd() % 9), 1);
		mpq_init(lo[j]); mpq_init(up[j]); mpq_set(up[j], mpq_ILL_MAXDOUBLE);
	}
	for (i = 0; i < m; i++) { sense[i] = 'L'; mpq_init(rhs[i]); mpq_set_si(rhs[i], 10 + (int)(rnd() % 20), 1); }
	p = mpq_QSload_prob("z", n, m, cnt, beg, ind, val, QS_MAX, obj, rhs, sense, lo, up, NULL, NULL);
	if (!p) return 2;
	rval = algo ? mpq_QSopt_dual(p, &status) : mpq_QSopt_primal(p, &status);
	printf("rval=%d status=%d\n", rval, status);
	mpq_QSfree_prob(p); QSexactClear();
	return 0;
}
