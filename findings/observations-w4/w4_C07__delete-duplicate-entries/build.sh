#!/bin/sh
# sh build.sh <worktree> : builds ./repro against the library as built in <worktree>
W=${1:-/tmp/seed/C07}
cd "$(dirname "$0")" && gcc -g -O0 -w -I"$W" -I"$W/qsopt_ex" repro.c -o repro "$W/.libs/libqsopt_ex.a" -lgmp -lz -lbz2 -lm -lpthread
