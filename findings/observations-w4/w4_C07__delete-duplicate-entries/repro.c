#include "small.h"
int main (void)
{
	mpq_QSprob p; int d[2], rv; const char *nm[2];
	QSexactStart ();
	p = load_small (); d[0] = d[1] = 0;
	rv = mpq_QSdelete_rows (p, 2, d); printf ("QSdelete_rows({0,0}) -> %d\n", rv); shape (p, "after");
	printf ("  QSwrite_prob -> %d\n", mpq_QSwrite_prob (p, "/dev/null", "LP"));
	mpq_QSfree_prob (p);
	p = load_small (); d[0] = d[1] = 1;
	rv = mpq_QSdelete_cols (p, 2, d); printf ("QSdelete_cols({1,1}) -> %d\n", rv); shape (p, "after");
	mpq_QSfree_prob (p);
	p = load_small (); nm[0] = nm[1] = "c1";
	rv = mpq_QSdelete_named_rows_list (p, 2, nm); printf ("QSdelete_named_rows_list({c1,c1}) -> %d\n", rv); shape (p, "after");
	mpq_QSfree_prob (p);
	p = load_small (); nm[0] = nm[1] = "x";
	rv = mpq_QSdelete_named_columns_list (p, 2, nm); printf ("QSdelete_named_columns_list({x,x}) -> %d\n", rv); shape (p, "after");
	mpq_QSfree_prob (p);
	QSexactClear ();
	return 0;
}
