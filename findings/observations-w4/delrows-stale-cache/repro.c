/* solve, load another (slack) basis, delete a row that is BINDING in the cached
 * solution but basic in the loaded basis, ask again: the cached OPTIMAL of the
 * old LP is served for the new LP. */
#include "oracle.h"

int main (void)
{
	model_t M;
	mpq_QSprob p;
	QSbasis *B;
	int status = 0, rval, nbad = 0, i;
	QSexactStart ();
	QSexact_set_precision (128);
	/* min -x0 - x1  s.t.  r0: x0 + x1 <= 4 ; r1: x0 <= 3 ;  0 <= x <= 10 */
	model_init (&M, 2, 2, QS_MIN);
	mpq_set_si (M.A[0], 1, 1); mpq_set_si (M.A[1], 1, 1);
	mpq_set_si (M.A[2], 1, 1);
	M.sense[0] = 'L'; M.sense[1] = 'L';
	mpq_set_si (M.rhs[0], 4, 1); mpq_set_si (M.rhs[1], 3, 1);
	for (i = 0; i < 2; i++)
	{
		mpq_set_si (M.obj[i], -1, 1);
		mpq_set_si (M.lb[i], 0, 1);
		mpq_set_si (M.ub[i], 10, 1);
	}
	p = model_build (&M, "t");
	rval = mpq_QSopt_primal (p, &status);
	printf ("first solve rval %d status %d\n", rval, status);
	nbad += certify_accessors (&M, p, "first");

	/* load the all-slack basis */
	B = mpq_QSget_basis (p);
	B->cstat[0] = B->cstat[1] = QS_COL_BSTAT_LOWER;
	B->rstat[0] = B->rstat[1] = QS_ROW_BSTAT_BASIC;
	rval = mpq_QSload_basis (p, B);
	printf ("load basis rval %d\n", rval);
	mpq_QSfree_basis (B);

	rval = mpq_QSdelete_row (p, 0);
	model_delrow (&M, 0);
	printf ("delete row 0 rval %d\n", rval);
	rval = mpq_QSopt_primal (p, &status);
	printf ("second solve rval %d status %d (1 = OPTIMAL)\n", rval, status);
	if (!rval && status == QS_LP_OPTIMAL)
	{
		mpq_t v;
		mpq_init (v);
		mpq_QSget_objval (p, &v);
		printf ("reported optimum %g (true optimum of the remaining LP: -13)\n", mpq_get_d (v));
		mpq_clear (v);
		nbad += certify_accessors (&M, p, "after delete");
	}
	mpq_QSfree_prob (p);
	model_free (&M);
	QSexactClear ();
	printf ("%s\n", nbad ? "PROPERTY BROKEN" : "ok");
	return nbad ? 1 : 0;
}
