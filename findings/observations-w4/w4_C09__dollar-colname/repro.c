/* a column whose name starts with '$' (legal in LP format) and that has a
 * bound: the BOUNDS record written by the MPS writer is taken for a comment */
#include "../common.h"
int main (void)
{
	mpq_QSprob p, q; mpq_t one, zero, up, rhs, val[1]; int ind[1] = { 0 };
	QSexactStart ();
	mpq_init (one); mpq_init (zero); mpq_init (up); mpq_init (rhs); mpq_init (val[0]);
	qs (one, "1"); qs (up, "7"); qs (rhs, "2"); qs (val[0], "1");
	p = mpq_QScreate_prob ("obs", QS_MIN);
	mpq_QSnew_col (p, one, zero, up, "$x");
	mpq_QSadd_row (p, 1, ind, (const mpq_t *) val, (const mpq_t *) &rhs, 'G', "c1");
	mpq_QSwrite_prob (p, "dollar.mps", "MPS");
	q = mpq_QSread_prob ("dollar.mps", "MPS");
	printf ("read back: %s\n", q ? "accepted" : "REJECTED");
	mpq_QSwrite_prob (p, "dollar.lp", "LP");
	q = mpq_QSread_prob ("dollar.lp", "LP");
	printf ("LP format, for comparison: %s\n", q ? "accepted" : "REJECTED");
	return 0;
}
