/* A '\' comment that follows a variable name without a blank is parsed as part
 * of the expression: the text "x + y\+ 3 x" denotes x + y, the reader delivers
 * 4 x + y.  Public API only. */
#include <stdio.h>
#include <gmp.h>
#include "QSopt_ex.h"
int main (void)
{
	FILE *f = fopen ("glued.lp", "w");
	mpq_QSprob p;
	mpq_t obj[2];
	int bad, ix = -1, iy = -1;

	fputs ("Minimize\n obj: x + y\\+ 3 x\nSubject To\n c1: x + y >= 1\nEnd\n", f);
	fclose (f);
	QSexactStart ();
	p = mpq_QSread_prob ("glued.lp", "LP");
	if (!p)
	{
		printf ("read failed\n");
		return 1;
	}
	mpq_init (obj[0]);
	mpq_init (obj[1]);
	mpq_QSget_column_index (p, "x", &ix);
	mpq_QSget_column_index (p, "y", &iy);
	mpq_QSget_obj_list (p, 1, &ix, &obj[0]);
	mpq_QSget_obj_list (p, 1, &iy, &obj[1]);
	gmp_printf ("objective read: %Qd x + %Qd y   (text denotes 1 x + 1 y)\n", obj[0], obj[1]);
	bad = mpq_cmp_ui (obj[0], 1, 1) != 0 || mpq_cmp_ui (obj[1], 1, 1) != 0;
	mpq_QSfree_prob (p);
	QSexactClear ();
	return bad;
}
