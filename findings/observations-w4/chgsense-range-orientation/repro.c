/* A row turned into a ranged row with mpq_QSchange_sense(...,'R') +
 * mpq_QSchange_range() gets the interval [rhs-range, rhs]; a row ADDED as 'R'
 * (mpq_QSadd_ranged_row), or the same row after a write/read round trip, has
 * [rhs, rhs+range].  Public API only. */
#include "oracle.h"

static int run (int via_chgsense, int use_exact)
{
	model_t M;
	mpq_QSprob p;
	int status = 0, rval, nbad = 0;
	mpq_t r;
	mpq_init (r);
	/* max x0   s.t.  r0: x0 in [4, 4+2]  (R row, rhs 4, range 2);  0 <= x0 <= 100 */
	model_init (&M, 1, 1, QS_MAX);
	mpq_set_si (M.A[0], 1, 1);
	M.sense[0] = via_chgsense ? 'L' : 'R';
	mpq_set_si (M.rhs[0], 4, 1);
	mpq_set_si (M.range[0], via_chgsense ? 0 : 2, 1);
	mpq_set_si (M.obj[0], 1, 1);
	mpq_set_si (M.lb[0], 0, 1);
	mpq_set_si (M.ub[0], 100, 1);
	p = model_build (&M, "t");
	if (via_chgsense)
	{
		mpq_set_si (r, 2, 1);
		rval = mpq_QSchange_sense (p, 0, 'R');
		rval = rval || mpq_QSchange_range (p, 0, r);
		printf ("chgsense+chgrange rval %d\n", rval);
		M.sense[0] = 'R';
		mpq_set (M.range[0], r);
	}
	rval = use_exact ? QSexact_solver (p, 0, 0, 0, DUAL_SIMPLEX, &status) : mpq_QSopt_dual (p, &status);
	printf ("%s, %s: rval %d status %d\n", use_exact ? "QSexact_solver" : "mpq_QSopt_dual", via_chgsense ? "row made R by chgsense" : "row added as R", rval, status);
	if (!rval && status == QS_LP_OPTIMAL)
	{
		mpq_t v;
		mpq_init (v);
		mpq_QSget_objval (p, &v);
		printf ("  max x0 = %g  (rhs 4, range 2: documented interval [4,6])\n", mpq_get_d (v));
		mpq_clear (v);
		nbad += certify_accessors (&M, p, via_chgsense ? "chgsense" : "added");
	}
	mpq_QSfree_prob (p);
	model_free (&M);
	mpq_clear (r);
	return nbad;
}

int main (void)
{
	int nbad = 0;
	QSexactStart ();
	QSexact_set_precision (128);
	nbad += run (0, 1); nbad += run (0, 0);
	nbad += run (1, 1); nbad += run (1, 0);
	QSexactClear ();
	printf ("%s\n", nbad ? "PROPERTY BROKEN" : "ok");
	return nbad ? 1 : 0;
}
