/* mpq_QSopt_primal with QS_PRICE_PMULTPARTIAL: the reduced cost handed out for
 * a FIXED column (lower == upper) is stale -- it is not c_j - pi.A_j for the
 * pi that is reported together with it (it is still c_j, the value computed
 * for the starting basis where pi = 0).
 *
 *   max  -5/2 x0 + 3/5 x1
 *   s.t.  x0 - 1/5 x1  = 53/10
 *             - 5/2 x1 >= 9
 *         0 <= x0 <= 9,  x1 = -4 (fixed)
 *
 * only feasible point x = (9/2,-4); pi = (-5/2, 0); rc = (0, 3/5 - 1/2) = (0, 1/10)
 * exit 0: rc consistent with pi, 1: inconsistent.
 */
#include <stdio.h>
#include <gmp.h>
#include "QSopt_ex.h"

int main (int argc, char **argv)
{
	int status = 0, rval, ind[2] = { 0, 1 }, bad = 0, i, j;
	int pricing = argc > 1 ? atoi (argv[1]) : QS_PRICE_PMULTPARTIAL;
	mpq_t c[2], lo[2], up[2], A[2][2], rhs[2], x[2], rc[2], pi[2], t;
	mpq_QSprob p;
	QSexactStart ();
	for (j = 0; j < 2; j++)
	{
		mpq_init (c[j]); mpq_init (lo[j]); mpq_init (up[j]);
		mpq_init (A[0][j]); mpq_init (A[1][j]); mpq_init (rhs[j]);
		mpq_init (x[j]); mpq_init (rc[j]); mpq_init (pi[j]);
	}
	mpq_init (t);
	mpq_set_si (c[0], -5, 2); mpq_set_si (c[1], 3, 5);
	mpq_set_si (lo[0], 0, 1); mpq_set_si (up[0], 9, 1);
	mpq_set_si (lo[1], -4, 1); mpq_set_si (up[1], -4, 1);
	mpq_set_si (A[0][0], 1, 1); mpq_set_si (A[0][1], -1, 5);
	mpq_set_si (A[1][0], 0, 1); mpq_set_si (A[1][1], -5, 2);
	mpq_set_si (rhs[0], 53, 10); mpq_set_si (rhs[1], 9, 1);
	p = mpq_QScreate_prob ("stale_rc", QS_MAX);
	mpq_QSnew_col (p, c[0], lo[0], up[0], "x0");
	mpq_QSnew_col (p, c[1], lo[1], up[1], "x1");
	mpq_QSadd_row (p, 2, ind, (const mpq_t *) A[0], &rhs[0], 'E', "r0");
	mpq_QSadd_row (p, 1, ind + 1, (const mpq_t *) &A[1][1], &rhs[1], 'G', "r1");
	mpq_QSset_param (p, QS_PARAM_PRIMAL_PRICING, pricing);
	/* with scaling on, a scaled copy is solved first and its basis is handed to
	 * the real solve, which then needs no pivot and shows nothing */
	mpq_QSset_param (p, QS_PARAM_SIMPLEX_SCALING, 0);
	rval = mpq_QSopt_primal (p, &status);
	printf ("primal pricing %d: rval=%d status=%d\n", pricing, rval, status);
	if (rval || status != QS_LP_OPTIMAL)
		return 2;
	mpq_QSget_x_array (p, x);
	mpq_QSget_pi_array (p, pi);
	mpq_QSget_rc_array (p, rc);
	gmp_printf ("pi = (%Qd, %Qd)\n", pi[0], pi[1]);
	for (j = 0; j < 2; j++)
	{
		mpq_set (t, c[j]);
		for (i = 0; i < 2; i++)
		{
			mpq_t u;
			mpq_init (u);
			mpq_mul (u, pi[i], A[i][j]);
			mpq_sub (t, t, u);
			mpq_clear (u);
		}
		gmp_printf ("x%d = %Qd   rc = %Qd   c_j - pi.A_j = %Qd%s\n", j, x[j], rc[j], t,
								mpq_equal (t, rc[j]) ? "" : "   <-- MISMATCH");
		if (!mpq_equal (t, rc[j]))
			bad = 1;
	}
	mpq_QSfree_prob (p);
	QSexactClear ();
	return bad;
}
