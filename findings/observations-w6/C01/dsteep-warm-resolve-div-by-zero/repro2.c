/* Same crash, second trigger: a SINGLE call of mpq_QSopt_dual with the default
 * settings (scaling on, QS_PRICE_DSTEEP) and an iteration limit of 4.
 * The scaled copy is solved first, stops at the limit, and its basis + dual
 * steepest-edge norms (norms of the SCALED problem) are handed to the solve of
 * the problem itself.  -> SIGFPE (GMP division by zero), price.c:1280.
 *
 *   min -5x0 -2x1 -5x2 -5x3 -5x4 - x5
 *   r0:        2x1 + 2x2 - 2x3        + 3x5 >= 33/2
 *   r1:  5x0 + 2x1 -  x2 - 2x3 + 5x4 + 2x5  = 33
 *   r2: -4x0 - 4x1 - 3x2 + 2x3              >= 0
 *   r3:   x0 -  x1       +  x3 - 2x4        <= -49/2
 *   r4:        3x1 - 4x2 + 2x3        - 2x5 in [-21/2, -21/2+5]
 *   r5:        5x1 - 3x2 - 2x3 + 4x4        in [79/2, 79/2+2]
 *   -4<=x0<=8, -1<=x1<=4, x2>=2, -1<=x3<=6, x4<=9, 2<=x5<=3
 */
#include <stdio.h>
#include <stdlib.h>
#include <gmp.h>
#include "QSopt_ex.h"
#define N 6
#define M 6
static const int A[M][N] = {
	{0, 2, 2, -2, 0, 3}, {5, 2, -1, -2, 5, 2}, {-4, -4, -3, 2, 0, 0},
	{1, -1, 0, 1, -2, 0}, {0, 3, -4, 2, 0, -2}, {0, 5, -3, -2, 4, 0}
};
static const int rhs2[M] = { 33, 66, 0, -49, -21, 79 };	/* 2*rhs */
static const char sense[M + 1] = "GEGLRR";
static const int rng[M] = { 0, 0, 0, 0, 5, 2 };
static const int c[N] = { -5, -2, -5, -5, -5, -1 };
static const int lo[N] = { -4, -1, 2, -1, 0, 2 }, up[N] = { 8, 4, 0, 6, 9, 3 };
static const int loinf[N] = { 0, 0, 0, 0, 1, 0 }, upinf[N] = { 0, 0, 1, 0, 0, 0 };

int main (int argc, char **argv)
{
	int i, j, cnt, status = 0, rval, ind[N];
	int lim = argc > 1 ? atoi (argv[1]) : 4;
	mpq_t v[N], q, r, l, u;
	mpq_QSprob p;
	QSexactStart ();
	setvbuf (stdout, 0, _IONBF, 0);
	for (j = 0; j < N; j++)
		mpq_init (v[j]);
	mpq_init (q); mpq_init (r); mpq_init (l); mpq_init (u);
	p = mpq_QScreate_prob ("dsteep2", QS_MIN);
	for (j = 0; j < N; j++)
	{
		mpq_set_si (q, c[j], 1);
		mpq_set_si (l, lo[j], 1);
		mpq_set_si (u, up[j], 1);
		mpq_QSnew_col (p, q, loinf[j] ? mpq_ILL_MINDOUBLE : l, upinf[j] ? mpq_ILL_MAXDOUBLE : u, 0);
	}
	for (i = 0; i < M; i++)
	{
		for (cnt = 0, j = 0; j < N; j++)
			if (A[i][j])
			{
				ind[cnt] = j;
				mpq_set_si (v[cnt], A[i][j], 1);
				cnt++;
			}
		mpq_set_si (q, rhs2[i], 2);
		mpq_canonicalize (q);
		mpq_set_si (r, rng[i], 1);
		if (sense[i] == 'R')
			mpq_QSadd_ranged_row (p, cnt, ind, (const mpq_t *) v, &q, 'R', (const mpq_t *) &r, 0);
		else
			mpq_QSadd_row (p, cnt, ind, (const mpq_t *) v, &q, sense[i], 0);
	}
	mpq_QSset_param (p, QS_PARAM_SIMPLEX_MAX_ITERATIONS, lim);
	rval = mpq_QSopt_dual (p, &status);
	printf ("mpq_QSopt_dual (iteration limit %d): rval=%d status=%d\n", lim, rval, status);
	mpq_QSfree_prob (p);
	QSexactClear ();
	return 0;
}
