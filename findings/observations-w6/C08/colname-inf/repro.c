/* A column called "inf" (or "infinity", any case) whose bound line starts with
 * the name: the LP text written by the library is rejected by its reader. */
#include <stdio.h>
#include "qsopt_ex/QSopt_ex.h"
int main (void)
{
	mpq_QSprob p, q;
	mpq_t o, l, u, rhs, v[2];
	int ind[2] = { 0, 1 }, rval;
	QSexactStart ();
	QSexact_set_precision (128);
	mpq_init (o); mpq_init (l); mpq_init (u); mpq_init (rhs); mpq_init (v[0]); mpq_init (v[1]);
	p = mpq_QScreate_prob ("p", QS_MAX);
	mpq_set_ui (o, 1, 1); mpq_set_ui (l, 0, 1); mpq_set (u, mpq_ILL_MAXDOUBLE);
	mpq_QSnew_col (p, o, l, u, "x");
	mpq_set_ui (u, 5, 1);
	mpq_QSnew_col (p, o, l, u, "inf");			/* 0 <= inf <= 5 */
	mpq_set_ui (v[0], 1, 1); mpq_set_ui (v[1], 1, 1); mpq_set_ui (rhs, 10, 1);
	mpq_QSadd_row (p, 2, ind, (const mpq_t *) v, (const mpq_t *) &rhs, 'L', "r");
	rval = mpq_QSwrite_prob (p, "inf.lp", "LP");
	printf ("write rval = %d\n", rval);
	q = mpq_QSread_prob ("inf.lp", "LP");
	printf ("read back: %s\n", q ? "accepted" : "REJECTED");
	return q ? 0 : 1;
}
