/* usage: repro <digits>.  A coefficient with that many decimal digits.  With
 * about 131072 digits or more the LP writer overruns a fixed stack buffer. */
#include <stdio.h>
#include <stdlib.h>
#include "qsopt_ex/QSopt_ex.h"
int main (int argc, char **argv)
{
	int n = argc > 1 ? atoi (argv[1]) : 140000, i, rval;
	char *big = malloc (n + 1);
	mpq_QSprob p, q;
	mpq_t o, l, u, rhs, v[1];
	int ind[1] = { 0 };
	QSexactStart ();
	QSexact_set_precision (128);
	mpq_init (o); mpq_init (l); mpq_init (u); mpq_init (rhs); mpq_init (v[0]);
	big[0] = '1';
	for (i = 1; i < n; i++) big[i] = '0' + (i * 7 + 3) % 10;
	big[n] = 0;
	p = mpq_QScreate_prob ("p", QS_MAX);
	mpq_set_ui (o, 1, 1); mpq_set_ui (l, 0, 1); mpq_set (u, mpq_ILL_MAXDOUBLE);
	mpq_QSnew_col (p, o, l, u, "x");
	mpq_set_str (v[0], big, 10); mpq_set_ui (rhs, 10, 1);
	mpq_QSadd_row (p, 1, ind, (const mpq_t *) v, (const mpq_t *) &rhs, 'L', "r");
	rval = mpq_QSwrite_prob (p, "huge.lp", "LP");
	printf ("write rval = %d\n", rval);
	q = mpq_QSread_prob ("huge.lp", "LP");
	printf ("read back: %s\n", q ? "accepted" : "REJECTED");
	return q ? 0 : 1;
}
