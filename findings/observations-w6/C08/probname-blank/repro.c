/* A problem name with a blank, or an empty problem name: the LP text written
 * by the library is rejected by its reader. */
#include <stdio.h>
#include "qsopt_ex/QSopt_ex.h"
static int try (const char *name)
{
	mpq_QSprob p, q;
	mpq_t o, l, u, rhs, v[1];
	int ind[1] = { 0 }, rval;
	mpq_init (o); mpq_init (l); mpq_init (u); mpq_init (rhs); mpq_init (v[0]);
	p = mpq_QScreate_prob (name, QS_MAX);
	mpq_set_ui (o, 1, 1); mpq_set_ui (l, 0, 1); mpq_set (u, mpq_ILL_MAXDOUBLE);
	mpq_QSnew_col (p, o, l, u, "x");
	mpq_set_ui (v[0], 1, 1); mpq_set_ui (rhs, 10, 1);
	mpq_QSadd_row (p, 1, ind, (const mpq_t *) v, (const mpq_t *) &rhs, 'L', "r");
	rval = mpq_QSwrite_prob (p, "pn.lp", "LP");
	q = mpq_QSread_prob ("pn.lp", "LP");
	printf ("problem name \"%s\": write rval = %d, read back: %s\n", name, rval,
					q ? "accepted" : "REJECTED");
	return q ? 0 : 1;
}
int main (void)
{
	int bad = 0;
	QSexactStart ();
	QSexact_set_precision (128);
	bad += try ("model");
	bad += try ("my model");
	bad += try ("");
	return bad ? 1 : 0;
}
