/* A row turned into a ranged row with QSchange_sense (.., 'R') in a problem
 * that never had a range: the LP writer fails. */
#include <stdio.h>
#include "qsopt_ex/QSopt_ex.h"
int main (void)
{
	mpq_QSprob p;
	mpq_t o, l, u, rhs, v[1];
	int ind[1] = { 0 }, rval, status = 0;
	QSexactStart ();
	QSexact_set_precision (128);
	mpq_init (o); mpq_init (l); mpq_init (u); mpq_init (rhs); mpq_init (v[0]);
	p = mpq_QScreate_prob ("p", QS_MAX);
	mpq_set_ui (o, 1, 1); mpq_set_ui (l, 0, 1); mpq_set (u, mpq_ILL_MAXDOUBLE);
	mpq_QSnew_col (p, o, l, u, "x");
	mpq_set_ui (v[0], 1, 1); mpq_set_ui (rhs, 10, 1);
	mpq_QSadd_row (p, 1, ind, (const mpq_t *) v, (const mpq_t *) &rhs, 'L', "r");
	rval = mpq_QSchange_sense (p, 0, 'R');	/* 10 <= x <= 10 + 0 */
	printf ("QSchange_sense rval = %d\n", rval);
	rval = QSexact_solver (p, 0, 0, 0, DUAL_SIMPLEX, &status);
	printf ("solver rval = %d status = %d (1 = optimal)\n", rval, status);
	rval = mpq_QSwrite_prob (p, "rng.lp", "LP");
	printf ("QSwrite_prob rval = %d\n", rval);
	return rval ? 1 : 0;
}
