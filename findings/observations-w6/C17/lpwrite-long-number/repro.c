/* A coefficient whose decimal representation is longer than the fixed line
 * buffer of the LP/MPS writers (ILL_namebufsize = 0x20000 bytes). */
#include <stdio.h>
#include <stdlib.h>
#include <gmp.h>
#include "QSopt_ex.h"

int main (int argc, char **argv)
{
	int rval, ind[1] = { 0 };
	unsigned long digits = (argc > 1) ? strtoul (argv[1], 0, 10) : 140000UL;
	const char *fmt = (argc > 2) ? argv[2] : "LP";
	mpq_QSprob p;
	mpq_t big, zero, one, val[1];

	QSexactStart ();
	mpq_init (big); mpq_init (zero); mpq_init (one); mpq_init (val[0]);
	mpq_set_ui (one, 1, 1);
	mpz_ui_pow_ui (mpq_numref (big), 10, digits);	/* 1 followed by `digits` zeros */
	p = mpq_QScreate_prob ("big", QS_MIN);
	rval = mpq_QSnew_col (p, big, zero, one, "x");
	mpq_set (val[0], one);
	rval = rval || mpq_QSadd_row (p, 1, ind, (const mpq_t *) val, (const mpq_t *) &one, 'L', "c1");
	printf ("build rval %d\n", rval);
	rval = mpq_QSwrite_prob (p, (argc > 3) ? argv[3] : "/dev/null", fmt);
	printf ("write rval %d\n", rval);
	mpq_QSfree_prob (p);
	mpq_clear (big); mpq_clear (zero); mpq_clear (one); mpq_clear (val[0]);
	QSexactClear ();
	return 0;
}
