/* QSget_nzcount after deleting a row / a column */
#include <stdio.h>
#include <gmp.h>
#include "QSopt_ex.h"
int main (void)
{
	int ind[2] = { 0, 1 }, rval = 0;
	mpq_QSprob p;
	mpq_t zero, one, val[2];

	QSexactStart ();
	mpq_init (zero); mpq_init (one); mpq_init (val[0]); mpq_init (val[1]);
	mpq_set_ui (one, 1, 1); mpq_set_ui (val[0], 1, 1); mpq_set_ui (val[1], 2, 1);
	p = mpq_QScreate_prob ("nz", QS_MIN);
	rval |= mpq_QSnew_col (p, one, zero, one, "x");
	rval |= mpq_QSnew_col (p, one, zero, one, "y");
	rval |= mpq_QSadd_row (p, 2, ind, (const mpq_t *) val, (const mpq_t *) &one, 'L', "r0");
	rval |= mpq_QSadd_row (p, 2, ind, (const mpq_t *) val, (const mpq_t *) &one, 'G', "r1");
	printf ("rval %d, nzcount with 2 rows x 2 cols, all nonzero: %d (expected 4)\n", rval, mpq_QSget_nzcount (p));
	rval = mpq_QSdelete_row (p, 1);
	printf ("rval %d, after deleting row r1: %d (expected 2)\n", rval, mpq_QSget_nzcount (p));
	rval = mpq_QSdelete_col (p, 1);
	printf ("rval %d, after deleting column y: %d (expected 1)\n", rval, mpq_QSget_nzcount (p));
	mpq_QSfree_prob (p);
	mpq_clear (zero); mpq_clear (one); mpq_clear (val[0]); mpq_clear (val[1]);
	QSexactClear ();
	return 0;
}
