/* A problem created through the API has no objective name
 * (mpq_QSget_objname returns NULL); its copy has one ("obj"). */
#include <stdio.h>
#include "QSopt_ex.h"
#include "except.h"
int main (void)
{
	mpq_QSdata *p, *c;
	mpq_t one;
	char *a, *b;
	int ia = -2, ib = -2, ra, rb, bad;
	QSexactStart ();
	mpq_init (one);
	mpq_set_ui (one, 1, 1);
	p = mpq_QScreate_prob ("p", QS_MIN);
	mpq_QSnew_col (p, one, one, mpq_ILL_MAXDOUBLE, "x");
	mpq_QSnew_row (p, one, 'G', "r0");
	c = mpq_QScopy_prob (p, "c");
	a = mpq_QSget_objname (p);
	b = mpq_QSget_objname (c);
	printf ("objname: original %s, copy %s\n", a ? a : "(null)", b ? b : "(null)");
	/* the name is also registered in the copy's row table: a row called "obj"
	 * can be added to the original but not to the copy */
	ra = mpq_QSnew_row (p, one, 'L', "obj");
	rb = mpq_QSnew_row (c, one, 'L', "obj");
	printf ("QSnew_row (.., \"obj\"): original rval %d, copy rval %d\n", ra, rb);
	mpq_QSget_row_index (p, "obj", &ia);
	mpq_QSget_row_index (c, "obj", &ib);
	printf ("row index of \"obj\": original %d, copy %d; rows: original %d, copy %d\n",
					ia, ib, mpq_QSget_rowcount (p), mpq_QSget_rowcount (c));
	bad = (a == 0) != (b == 0) || ra != rb;
	mpq_QSfree (a); mpq_QSfree (b);
	mpq_QSfree_prob (p); mpq_QSfree_prob (c);
	mpq_clear (one);
	QSexactClear ();
	return bad;
}
