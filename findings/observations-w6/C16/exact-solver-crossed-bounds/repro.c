/* NOT a C16 defect, found on the way: QSexact_solver returns rval 0 with
 * status QS_LP_UNSOLVED (6) for an LP made infeasible by a column whose lower
 * bound exceeds its upper bound, and status 0 (not a QS_LP_* value) for a
 * problem without rows and columns. */
#include <stdio.h>
#include "QSopt_ex.h"
#include "except.h"
int main (void)
{
	mpq_QSdata *p, *e;
	mpq_t o, l, u, v[2];
	int ind[2] = { 0, 1 }, st = -1, rv, bad = 0;
	QSexactStart ();
	QSexact_set_precision (128);
	mpq_init (o); mpq_init (l); mpq_init (u); mpq_init (v[0]); mpq_init (v[1]);
	mpq_set_ui (o, 1, 1); mpq_set_ui (l, 0, 1); mpq_set_ui (u, 10, 1);
	mpq_set_ui (v[0], 1, 1); mpq_set_ui (v[1], 1, 1);
	p = mpq_QScreate_prob ("crossed", QS_MIN);
	mpq_QSnew_col (p, o, l, u, "x");
	mpq_QSnew_col (p, o, l, u, "y");
	mpq_set_ui (o, 4, 1);
	mpq_QSadd_row (p, 2, ind, (const mpq_t *) v, (const mpq_t *) &o, 'G', "r");
	mpq_set_ui (l, 20, 1);
	mpq_QSchange_bound (p, 1, 'L', l);	/* 20 <= y <= 10 */
	rv = QSexact_solver (p, 0, 0, 0, DUAL_SIMPLEX, &st);
	printf ("crossed bounds: rval %d status %d (QS_LP_INFEASIBLE is %d)\n", rv,
					st, QS_LP_INFEASIBLE);
	bad |= st != QS_LP_INFEASIBLE;
	e = mpq_QScreate_prob ("empty", QS_MIN);
	st = -1;
	rv = QSexact_solver (e, 0, 0, 0, DUAL_SIMPLEX, &st);
	printf ("empty problem:  rval %d status %d (QS_LP_OPTIMAL is %d)\n", rv, st,
					QS_LP_OPTIMAL);
	bad |= st != QS_LP_OPTIMAL;
	mpq_QSfree_prob (p); mpq_QSfree_prob (e);
	mpq_clear (o); mpq_clear (l); mpq_clear (u); mpq_clear (v[0]); mpq_clear (v[1]);
	QSexactClear ();
	return bad;
}
