/* QSget_nzcount is stale after QSdelete_row / QSdelete_col, so a copy made
 * afterwards (which counts its own nonzeros) differs from the original. */
#include <stdio.h>
#include "QSopt_ex.h"
#include "except.h"
int main (void)
{
	mpq_QSdata *p, *c;
	mpq_t one, v[2];
	int ind[2] = { 0, 1 }, bad = 0;
	QSexactStart ();
	mpq_init (one); mpq_init (v[0]); mpq_init (v[1]);
	mpq_set_ui (one, 1, 1); mpq_set_ui (v[0], 1, 1); mpq_set_ui (v[1], 2, 1);
	p = mpq_QScreate_prob ("p", QS_MIN);
	mpq_QSnew_col (p, one, one, mpq_ILL_MAXDOUBLE, "x");
	mpq_QSnew_col (p, one, one, mpq_ILL_MAXDOUBLE, "y");
	mpq_QSadd_row (p, 2, ind, (const mpq_t *) v, (const mpq_t *) &one, 'G', "r0");
	mpq_QSadd_row (p, 2, ind, (const mpq_t *) v, (const mpq_t *) &one, 'L', "r1");
	mpq_QSadd_row (p, 1, ind, (const mpq_t *) v, (const mpq_t *) &one, 'L', "r2");
	printf ("built:            nzcount = %d (5 expected)\n", mpq_QSget_nzcount (p));
	mpq_QSdelete_row (p, 0);
	c = mpq_QScopy_prob (p, "c");
	printf ("after delete row: nzcount original = %d, copy = %d (3 expected)\n",
					mpq_QSget_nzcount (p), mpq_QSget_nzcount (c));
	bad |= mpq_QSget_nzcount (p) != mpq_QSget_nzcount (c);
	mpq_QSfree_prob (c);
	mpq_QSdelete_col (p, 1);
	c = mpq_QScopy_prob (p, "c");
	printf ("after delete col: nzcount original = %d, copy = %d (2 expected)\n",
					mpq_QSget_nzcount (p), mpq_QSget_nzcount (c));
	bad |= mpq_QSget_nzcount (p) != mpq_QSget_nzcount (c);
	mpq_QSfree_prob (c);
	mpq_QSfree_prob (p);
	mpq_clear (one); mpq_clear (v[0]); mpq_clear (v[1]);
	QSexactClear ();
	return bad;
}
