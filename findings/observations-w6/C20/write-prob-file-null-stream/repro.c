/* mode 1: mpq_QSwrite_prob_file (p, NULL, "LP")
 * mode 2: mpq_QSerror_print (NULL, error) with a real error object
 * build: cc -o repro repro.c -I$W -I$W/qsopt_ex $W/.libs/libqsopt_ex.a -lgmp -lz -lbz2 -lm -lpthread */
#include <stdio.h>
#include <stdlib.h>
#include <string.h>
#include "QSopt_ex.h"

static void handler (const char *m, void *d) { (void) d; printf ("[log] %s\n", m); fflush (stdout); }

int main (int ac, char **av)
{
	int mode = ac > 1 ? atoi (av[1]) : 1;
	mpq_QSprob p;
	mpq_t one;

	QSexactStart ();
	QSlog_set_handler (handler, NULL);
	if (mode == 1)
	{
		p = mpq_QScreate_prob ("t", QS_MIN);
		mpq_init (one); mpq_set_si (one, 1, 1);
		mpq_QSnew_col (p, one, one, mpq_ILL_MAXDOUBLE, "x");
		printf ("rval %d\n", mpq_QSwrite_prob_file (p, NULL, "LP"));
		mpq_QSfree_prob (p);
	}
	else
	{
		FILE *f = fopen ("bad.lp", "w");
		FILE *in;
		mpq_QSline_reader r;
		mpq_QSerror_memory mem = mpq_QSerror_memory_create (1);
		mpq_QSerror_collector c = mpq_QSerror_memory_collector_new (mem);

		fputs ("Minimize\n obj: x + y\nSubject To\n c1: x + y >= >= 1\nEnd\n", f);
		fclose (f);
		in = fopen ("bad.lp", "r");
		r = mpq_QSline_reader_new ((void *) fgets, in);
		mpq_QSline_reader_set_error_collector (r, c);
		p = mpq_QSget_prob (r, "bad", "LP");
		printf ("p %p, %d errors collected\n", (void *) p, mpq_QSerror_memory_get_nerrors (mem));
		fflush (stdout);
		mpq_QSerror_print (NULL, mpq_QSerror_memory_get_last_error (mem));
		printf ("returned\n");
	}
	QSexactClear ();
	return 0;
}
