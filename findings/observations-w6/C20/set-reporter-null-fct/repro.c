/* QSset_reporter (p, skip, NULL, NULL): the NULL function is reported
 * ("NULL fct argument to mpq_QSset_reporter") but installed all the same; the
 * next solve calls through it.  Public API only.
 * build: cc -o repro repro.c -I$W -I$W/qsopt_ex $W/.libs/libqsopt_ex.a -lgmp -lz -lbz2 -lm -lpthread */
#include <stdio.h>
#include <string.h>
#include "QSopt_ex.h"

static void handler (const char *m, void *d) { (void) d; fprintf (stdout, "[log] %s\n", m); }

int main (void)
{
	int status = 0, rval;
	mpq_QSprob p;
	mpq_t one;
	int ind[1] = { 0 };
	mpq_t val[1];

	QSexactStart ();
	QSlog_set_handler (handler, NULL);
	p = mpq_QScreate_prob ("t", QS_MIN);
	mpq_init (one); mpq_set_si (one, 1, 1);
	mpq_init (val[0]); mpq_set_si (val[0], 1, 1);
	mpq_QSnew_col (p, one, one, mpq_ILL_MAXDOUBLE, "x");
	mpq_QSadd_row (p, 1, ind, val, &one, 'G', "r");
	mpq_QSset_param (p, QS_PARAM_SIMPLEX_DISPLAY, 1);
	mpq_QSset_reporter (p, 1, NULL, NULL);	/* rejected argument ... */
	fflush (stdout);
	rval = mpq_QSopt_dual (p, &status);			/* ... SIGSEGV here */
	printf ("rval %d status %d\n", rval, status);
	mpq_QSfree_prob (p);
	QSexactClear ();
	return 0;
}
