/* An LP coefficient with a large decimal exponent makes the reader spin:
 * the exponent is accumulated in an int without bound and then applied by
 * multiplying by 10 that many times.
 * build: cc -o repro repro.c -I$W -I$W/qsopt_ex $W/.libs/libqsopt_ex.a -lgmp -lz -lbz2 -lm -lpthread
 * run:   ./repro          (alarm(10) ends it; exit by SIGALRM = still parsing) */
#include <stdio.h>
#include <unistd.h>
#include "QSopt_ex.h"

static void handler (const char *m, void *d) { (void) d; printf ("[log] %s\n", m); }

int main (void)
{
	FILE *f = fopen ("big.lp", "w");
	mpq_QSprob p;

	fputs ("Minimize\n obj: 1e999999999 x + y\nSubject To\n c1: x + y >= 1\nEnd\n", f);
	fclose (f);
	QSexactStart ();
	QSlog_set_handler (handler, NULL);
	alarm (10);
	p = mpq_QSread_prob ("big.lp", "LP");
	printf ("returned %p\n", (void *) p);
	if (p) mpq_QSfree_prob (p);
	QSexactClear ();
	return 0;
}
