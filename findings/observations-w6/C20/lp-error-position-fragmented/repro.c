/* A syntax error in an LP file: the position part of the diagnostic
 * ( LP Error at "<token>": ) reaches the handler one character per message.
 * build: cc -o repro repro.c -I$W -I$W/qsopt_ex $W/.libs/libqsopt_ex.a -lgmp -lz -lbz2 -lm -lpthread */
#include <stdio.h>
#include <string.h>
#include "QSopt_ex.h"

static int n = 0, single = 0;
static void handler (const char *m, void *d)
{
	(void) d;
	n++;
	if (strlen (m) == 1)
		single++;
	printf ("[message %2d] <%s>\n", n, m);
}

int main (void)
{
	FILE *f = fopen ("bad.lp", "w");
	mpq_QSprob p;

	fputs ("Minimize\n obj: x + y\nSubject To\n c1: x + y >= >= 1\nEnd\n", f);
	fclose (f);
	QSexactStart ();
	QSlog_set_handler (handler, NULL);
	p = mpq_QSread_prob ("bad.lp", "LP");
	printf ("p = %p; %d messages, %d of them one character long\n", (void *) p, n, single);
	if (p) mpq_QSfree_prob (p);
	QSexactClear ();
	return single != 0;
}
