/* Pre-existing defect (unchanged tree): a ranged row whose logical is
 * non-basic at its UPPER bound, then QSchange_sense to a non-ranged sense,
 * then re-solve with the incremental simplex -> the solve fails (rval 1,
 * "unknown row basis stat 3") instead of returning the optimum of the
 * edited LP.  Every later mpq_QSopt_dual/primal fails the same way because
 * the stale basis is kept.
 *
 *   min -x   s.t.  1 <= x <= 3 (ranged row, rhs 1, range 2),  0 <= x <= 10
 *   optimum x = 3: the row is tight at its upper side (rstat '2').
 *   edit: sense of the row := 'L'   (x <= 1)   -> optimum is x = 1, value -1
 *
 * exit 0 = property holds, 1 = defect reproduced.
 */
#include <stdio.h>
#include <stdlib.h>
#include <gmp.h>
#include "QSopt_ex.h"

int main (void)
{
	mpq_QSprob p;
	mpq_t obj, lo, up, rhs, rng, one, val;
	int ind[1] = { 0 }, st = 0, r, bad = 0;
	char cs[1], rs[1];

	QSexactStart ();
	mpq_init (obj); mpq_init (lo); mpq_init (up); mpq_init (rhs);
	mpq_init (rng); mpq_init (one); mpq_init (val);
	mpq_set_si (obj, -1, 1); mpq_set_si (lo, 0, 1); mpq_set_si (up, 10, 1);
	mpq_set_si (rhs, 1, 1); mpq_set_si (rng, 2, 1); mpq_set_si (one, 1, 1);

	p = mpq_QScreate_prob ("r", QS_MIN);
	mpq_QSnew_col (p, obj, lo, up, "x");
	mpq_QSadd_ranged_row (p, 1, ind, (const mpq_t *) &one, (const mpq_t *) &rhs,
												'R', (const mpq_t *) &rng, "c");
	r = mpq_QSopt_dual (p, &st);
	mpq_QSget_objval (p, &val);
	mpq_QSget_basis_array (p, cs, rs);
	printf ("solve 1: rval %d status %d value %g  cstat %c rstat %c\n", r, st,
					mpq_get_d (val), cs[0], rs[0]);

	r = mpq_QSchange_sense (p, 0, 'L');
	printf ("QSchange_sense(0,'L'): rval %d\n", r);

	r = mpq_QSopt_dual (p, &st);
	printf ("solve 2 (dual): rval %d status %d (expected rval 0, status 1, value -1)\n", r, st);
	if (r || st != QS_LP_OPTIMAL)
		bad = 1;
	r = mpq_QSopt_primal (p, &st);
	printf ("solve 3 (primal): rval %d status %d\n", r, st);
	if (r || st != QS_LP_OPTIMAL)
		bad = 1;
	if (!bad)
	{
		mpq_QSget_objval (p, &val);
		printf ("value %g\n", mpq_get_d (val));
		if (mpq_cmp_si (val, -1, 1))
			bad = 1;
	}
	mpq_QSfree_prob (p);
	mpq_clear (obj); mpq_clear (lo); mpq_clear (up); mpq_clear (rhs);
	mpq_clear (rng); mpq_clear (one); mpq_clear (val);
	QSexactClear ();
	printf (bad ? "DEFECT REPRODUCED\n" : "ok\n");
	return bad;
}
