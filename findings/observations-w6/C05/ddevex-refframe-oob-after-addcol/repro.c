/* Pre-existing defect (unchanged tree): heap out-of-bounds read in the
 * incremental dual simplex when the dual DEVEX norms are retained across
 * QSadd_col.  Run under valgrind:  valgrind --error-exitcode=9 ./repro
 *
 *   min x + 2y   s.t.  x + y >= 4,  x - y <= 2,  0<=x<=3, 0<=y<=10
 *   dual pricing = QS_PRICE_DDEVEX, scaling off (so that the first solve
 *   pivots on the problem itself and leaves its pricing data behind)
 *   solve (dual); add column z (cost 1/2, coefficient 1 in row 0, 0<=z<=10);
 *   rhs(row 0) := 9; solve (dual) again.
 *
 * QSadd_col keeps factorok == 1, so opt_work() re-enters ILLsimplex with the
 * old price_info: ILLprice_build_pricing_info() sees ddinfo.norms != 0 and
 * returns early, leaving ddinfo.refframe at its old length (the old ncols).
 * ILLprice_update_ddevex_norms (price.c:907) then reads refframe[new column].
 * (The answer happens to be right; the read is past the allocation.)
 */
#include <stdio.h>
#include <stdlib.h>
#include <gmp.h>
#include "QSopt_ex.h"

static void q (mpq_t x, long n, long d)
{
	mpq_set_si (x, n, d);
}

int main (void)
{
	mpq_QSprob p;
	mpq_t a, b, c, v[2];
	int ind[2] = { 0, 1 }, st = 0, r;

	QSexactStart ();
	mpq_init (a); mpq_init (b); mpq_init (c); mpq_init (v[0]); mpq_init (v[1]);
	p = mpq_QScreate_prob ("p", QS_MIN);
	q (a, 1, 1); q (b, 0, 1); q (c, 3, 1);
	mpq_QSnew_col (p, a, b, c, "x");
	q (a, 2, 1); q (c, 10, 1);
	mpq_QSnew_col (p, a, b, c, "y");
	q (v[0], 1, 1); q (v[1], 1, 1); q (a, 4, 1);
	mpq_QSadd_row (p, 2, ind, (const mpq_t *) v, (const mpq_t *) &a, 'G', "r0");
	q (v[1], -1, 1); q (a, 2, 1);
	mpq_QSadd_row (p, 2, ind, (const mpq_t *) v, (const mpq_t *) &a, 'L', "r1");
	mpq_QSset_param (p, QS_PARAM_DUAL_PRICING, QS_PRICE_DDEVEX);
	mpq_QSset_param (p, QS_PARAM_SIMPLEX_SCALING, 0);
	r = mpq_QSopt_dual (p, &st);
	printf ("solve 1: rval %d status %d\n", r, st);

	q (v[0], 1, 1); q (a, 1, 2); q (b, 0, 1); q (c, 10, 1);
	r = mpq_QSadd_col (p, 1, ind, v, a, b, c, "z");
	q (a, 9, 1);
	mpq_QSchange_rhscoef (p, 0, a);
	r = mpq_QSopt_dual (p, &st);	/* invalid read of size 4 here */
	mpq_QSget_objval (p, &a);
	printf ("solve 2: rval %d status %d value %g (9/2 expected)\n", r, st,
					mpq_get_d (a));
	mpq_QSfree_prob (p);
	mpq_clear (a); mpq_clear (b); mpq_clear (c); mpq_clear (v[0]); mpq_clear (v[1]);
	QSexactClear ();
	return 0;
}
