/* Pre-existing defect (unchanged tree): solve, QSchange_sense, re-solve with
 * mpq_QSopt_dual  ->  the process dies with SIGFPE (GMP division by zero) in
 * update_p_scaleinf (qsopt_ex/price.c:1280).
 *
 *   min -2 x0 + x1 - x2
 *    c0: -3 x0 - 2 x2 >= -8      c4:  x0 >= -1
 *    c1:   -x0 - 3 x2 <=  9      c5:  x0 <=  8
 *    c2:    x0        <=  9      c6:  x0 >= -2
 *    c3: -2 x0        >= -3      c7:  3 x2 >= -4
 *    0<=x0<=10, 0<=x1<=6, 0<=x2<=8
 *   solve (dual), then sense of c1 := 'G', solve (dual) again.
 *
 * exit 0 = second solve returned the optimum of the edited LP (checked against
 * a freshly built copy), 1 = wrong result; a crash shows as signal 8.
 */
#include <stdio.h>
#include <stdlib.h>
#include <gmp.h>
#include "QSopt_ex.h"

#define NR 8
#define NC 3
static const int A[NR][NC] = {
	{-3, 0, -2}, {-1, 0, -3}, {1, 0, 0}, {-2, 0, 0},
	{1, 0, 0}, {1, 0, 0}, {1, 0, 0}, {0, 0, 3}
};
static const char S[NR + 1] = "GLLGGLGG";
static const int RHS[NR] = { -8, 9, 9, -3, -1, 8, -2, -4 };
static const int OBJ[NC] = { -2, 1, -1 };
static const int UP[NC] = { 10, 6, 8 };

static mpq_QSprob build (const char *sense)
{
	mpq_QSprob p = mpq_QScreate_prob ("p", QS_MIN);
	mpq_t a, b, c, v[NC];
	int i, j, k, ind[NC];
	mpq_init (a); mpq_init (b); mpq_init (c);
	for (j = 0; j < NC; j++)
		mpq_init (v[j]);
	for (j = 0; j < NC; j++)
	{
		mpq_set_si (a, OBJ[j], 1); mpq_set_si (b, 0, 1); mpq_set_si (c, UP[j], 1);
		mpq_QSnew_col (p, a, b, c, 0);
	}
	for (i = 0; i < NR; i++)
	{
		for (j = 0, k = 0; j < NC; j++)
			if (A[i][j])
			{
				ind[k] = j;
				mpq_set_si (v[k], A[i][j], 1);
				k++;
			}
		mpq_set_si (a, RHS[i], 1);
		mpq_QSadd_row (p, k, ind, (const mpq_t *) v, (const mpq_t *) &a, sense[i], 0);
	}
	mpq_clear (a); mpq_clear (b); mpq_clear (c);
	for (j = 0; j < NC; j++)
		mpq_clear (v[j]);
	return p;
}

int main (void)
{
	mpq_QSprob p, q;
	mpq_t v1, v2;
	int st = 0, st2 = 0, r, r2;
	char s2[NR + 1] = "GGLGGLGG";

	QSexactStart ();
	mpq_init (v1); mpq_init (v2);
	p = build (S);
	r = mpq_QSopt_dual (p, &st);
	printf ("solve 1: rval %d status %d\n", r, st);
	r = mpq_QSchange_sense (p, 1, 'G');
	printf ("QSchange_sense(1,'G'): rval %d\n", r);
	fflush (stdout);
	r = mpq_QSopt_dual (p, &st);		/* SIGFPE here */
	printf ("solve 2: rval %d status %d\n", r, st);
	if (!r && st == QS_LP_OPTIMAL)
		mpq_QSget_objval (p, &v1);
	q = build (s2);
	r2 = QSexact_solver (q, 0, 0, 0, DUAL_SIMPLEX, &st2);
	if (!r2 && st2 == QS_LP_OPTIMAL)
		mpq_QSget_objval (q, &v2);
	printf ("fresh : rval %d status %d value %g; re-solve value %g\n", r2, st2,
					mpq_get_d (v2), mpq_get_d (v1));
	r = (r || r2 || st != st2 || !mpq_equal (v1, v2));
	mpq_QSfree_prob (p); mpq_QSfree_prob (q);
	mpq_clear (v1); mpq_clear (v2);
	QSexactClear ();
	return r;
}
