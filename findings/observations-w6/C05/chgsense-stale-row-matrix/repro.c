/* Pre-existing defect (unchanged tree): WRONG OPTIMAL VALUE after
 * QSchange_sense on a problem that was read from a file.
 *
 * A problem read with QSread_prob/QSget_prob carries a row-major copy of the
 * matrix (qslp->rA, built by ILLlp_add_logicals).  Every editing routine of
 * lib.c that touches the matrix drops it (addrow, delrows, delcols, chgcoef,
 * addcol) - except ILLlib_chgsense, which flips the sign of the row's logical
 * coefficient (L <-> G) in the column-major matrix only.  The next
 * mpq_QSopt_dual/primal then runs with build_internal_lpinfo() pointing
 * lp->rowval at the stale rA, so compute_zA3 (fct.c) prices the logical with
 * the wrong sign and the simplex stops at a non-optimal vertex which it
 * reports as QS_LP_OPTIMAL.
 *
 * exit 0 = re-solve equals a fresh solve of the edited LP, 1 = mismatch.
 */
#include <stdio.h>
#include <stdlib.h>
#include <gmp.h>
#include "QSopt_ex.h"

static const char *LP0 =
	"Minimize\n obj: - 4 x0 + 3 x1 - 2 x2\nSubject To\n"
	" c0: + 3 x0 - 1 x2 >= -6\n c1: - 1 x0 + 3 x1 - 2 x2 <= 3\n"
	" c2: - 2 x0 + 3 x1 >= -3\n c3: - 3 x2 >= -9\n c4: + 3 x0 >= -2\n"
	" c5: + 1 x1 <= 9\n c6: - 3 x0 + 2 x1 <= 3\n c7: - 1 x0 - 2 x1 >= -6\n"
	"Bounds\n 0 <= x0 <= 9\n 0 <= x1 <= 7\n 0 <= x2 <= 5\nEnd\n";
/* the same LP after: sense(c7) := L, sense(c3) := L, rhs(c3) := 0 */
static const char *LP1 =
	"Minimize\n obj: - 4 x0 + 3 x1 - 2 x2\nSubject To\n"
	" c0: + 3 x0 - 1 x2 >= -6\n c1: - 1 x0 + 3 x1 - 2 x2 <= 3\n"
	" c2: - 2 x0 + 3 x1 >= -3\n c3: - 3 x2 <= 0\n c4: + 3 x0 >= -2\n"
	" c5: + 1 x1 <= 9\n c6: - 3 x0 + 2 x1 <= 3\n c7: - 1 x0 - 2 x1 <= -6\n"
	"Bounds\n 0 <= x0 <= 9\n 0 <= x1 <= 7\n 0 <= x2 <= 5\nEnd\n";

static void put (const char *name, const char *txt)
{
	FILE *f = fopen (name, "w");
	fputs (txt, f);
	fclose (f);
}

int main (void)
{
	mpq_QSprob p, q;
	mpq_t v1, v2, zero;
	int st = 0, st2 = 0, r, r2;

	QSexactStart ();
	mpq_init (v1); mpq_init (v2); mpq_init (zero);
	put ("obs_lp0.lp", LP0);
	put ("obs_lp1.lp", LP1);
	p = mpq_QSread_prob ("obs_lp0.lp", "LP");
	r = mpq_QSopt_dual (p, &st);
	printf ("solve 1: rval %d status %d\n", r, st);
	mpq_QSchange_sense (p, 7, 'L');
	mpq_QSchange_sense (p, 3, 'L');
	mpq_QSchange_rhscoef (p, 3, zero);
	r = mpq_QSopt_dual (p, &st);
	if (!r && st == QS_LP_OPTIMAL)
		mpq_QSget_objval (p, &v1);
	printf ("re-solve after the edits: rval %d status %d value %g\n", r, st,
					mpq_get_d (v1));
	q = mpq_QSread_prob ("obs_lp1.lp", "LP");
	r2 = QSexact_solver (q, 0, 0, 0, DUAL_SIMPLEX, &st2);
	if (!r2 && st2 == QS_LP_OPTIMAL)
		mpq_QSget_objval (q, &v2);
	printf ("fresh solve of the edited LP: rval %d status %d value %g\n", r2,
					st2, mpq_get_d (v2));
	r = (r || r2 || st != st2 || !mpq_equal (v1, v2));
	mpq_QSfree_prob (p); mpq_QSfree_prob (q);
	mpq_clear (v1); mpq_clear (v2); mpq_clear (zero);
	QSexactClear ();
	printf (r ? "DEFECT REPRODUCED\n" : "ok\n");
	return r;
}
