/* Pre-existing defect (unchanged tree): a QSadd_cols call that fails on its
 * SECOND column has already appended the first one, but returns through the
 * error path of the wrapper (qsopt.c QSadd_cols: CHECKRVALG jumps over
 * free_cache).  The problem now has one more column while p->cache,
 * p->qstatus == QS_LP_OPTIMAL, p->basis (resized by ILLlib_addcol) and
 * factorok == 1 all survive:
 *   - mpq_QSget_status says OPTIMAL,
 *   - mpq_QSget_x_array/QSget_objval return 0 WITHOUT writing anything
 *     (ILLlib_solution: "cache mismatch", rval = 0),
 *   - mpq_QSopt_dual/primal return at once with the cached status: the
 *     edited LP is never solved.
 * The same happens with QSadd_ranged_rows/QSadd_rows when a later row has an
 * illegal sense letter.
 *
 *   max x + y   s.t. x + y <= 4, x - y <= 2, 0 <= x,y <= 10        -> 4
 *   QSadd_cols (2 columns: z1 = {row 0: 1}, obj 5, 0<=z1<=3  -- accepted
 *                          z2 = {row 7: 1}                   -- bad row index)
 *   current LP: max x + y + 5 z1 ...                               -> 16
 *
 * exit 0 = after the failed call the LP is either unchanged or solved anew,
 *          1 = stale solution served.
 */
#include <stdio.h>
#include <stdlib.h>
#include <gmp.h>
#include "QSopt_ex.h"

int main (void)
{
	mpq_QSprob p, q;
	mpq_t a, b, c, v[2], val, val2, x[3];
	int ind[2] = { 0, 1 }, st = 0, st2 = 0, r, i, bad = 0, n;

	QSexactStart ();
	mpq_init (a); mpq_init (b); mpq_init (c); mpq_init (v[0]); mpq_init (v[1]);
	mpq_init (val); mpq_init (val2);
	for (i = 0; i < 3; i++)
		mpq_init (x[i]);
	p = mpq_QScreate_prob ("p", QS_MAX);
	mpq_set_si (a, 1, 1); mpq_set_si (b, 0, 1); mpq_set_si (c, 10, 1);
	mpq_QSnew_col (p, a, b, c, "x");
	mpq_QSnew_col (p, a, b, c, "y");
	mpq_set_si (v[0], 1, 1); mpq_set_si (v[1], 1, 1); mpq_set_si (a, 4, 1);
	mpq_QSadd_row (p, 2, ind, (const mpq_t *) v, (const mpq_t *) &a, 'L', "r0");
	mpq_set_si (v[1], -1, 1); mpq_set_si (a, 2, 1);
	mpq_QSadd_row (p, 2, ind, (const mpq_t *) v, (const mpq_t *) &a, 'L', "r1");
	r = mpq_QSopt_dual (p, &st);
	mpq_QSget_objval (p, &val);
	printf ("solve 1: rval %d status %d value %g\n", r, st, mpq_get_d (val));

	{
		int cnt[2] = { 1, 1 }, beg[2] = { 0, 1 }, cind[2] = { 0, 7 };
		mpq_t cv[2], obj[2], lo[2], up[2];
		for (i = 0; i < 2; i++)
		{
			mpq_init (cv[i]); mpq_init (obj[i]); mpq_init (lo[i]); mpq_init (up[i]);
			mpq_set_si (cv[i], 1, 1); mpq_set_si (obj[i], 5, 1); mpq_set_si (up[i], 3, 1);
		}
		r = mpq_QSadd_cols (p, 2, cnt, beg, cind, cv, obj, lo, up, 0);
		printf ("QSadd_cols with a bad row index in its 2nd column: rval %d, "
						"columns now %d\n", r, mpq_QSget_colcount (p));
		for (i = 0; i < 2; i++)
		{
			mpq_clear (cv[i]); mpq_clear (obj[i]); mpq_clear (lo[i]); mpq_clear (up[i]);
		}
	}
	n = mpq_QSget_colcount (p);
	mpq_QSget_status (p, &st);
	for (i = 0; i < 3; i++)
		mpq_set_si (x[i], -777, 1);
	r = mpq_QSget_x_array (p, x);
	printf ("before re-solve: status %d, QSget_x_array rval %d x = %g %g %g\n", st,
					r, mpq_get_d (x[0]), mpq_get_d (x[1]), mpq_get_d (x[2]));
	if (n == 3 && r == 0 && mpq_cmp_si (x[0], -777, 1) == 0)
	{
		printf ("  accessor succeeded without returning a solution\n");
		bad = 1;
	}
	r = mpq_QSopt_dual (p, &st);
	mpq_set_si (val, -777, 1);
	mpq_QSget_objval (p, &val);
	printf ("re-solve: rval %d status %d value %g\n", r, st, mpq_get_d (val));
	q = mpq_QScopy_prob (p, "copy");
	r = QSexact_solver (q, 0, 0, 0, DUAL_SIMPLEX, &st2);
	mpq_QSget_objval (q, &val2);
	printf ("fresh copy: rval %d status %d value %g\n", r, st2, mpq_get_d (val2));
	if (st != st2 || !mpq_equal (val, val2))
		bad = 1;
	mpq_QSfree_prob (p); mpq_QSfree_prob (q);
	mpq_clear (a); mpq_clear (b); mpq_clear (c); mpq_clear (v[0]); mpq_clear (v[1]);
	mpq_clear (val); mpq_clear (val2);
	for (i = 0; i < 3; i++)
		mpq_clear (x[i]);
	QSexactClear ();
	printf (bad ? "DEFECT REPRODUCED\n" : "ok\n");
	return bad;
}
