/* Pre-existing defect (unchanged tree): QSnew_row after a solve, then
 * re-solve with mpq_QSopt_dual -> out-of-bounds read of p->basis->rownorms
 * (valgrind: invalid read in mpq_ILLprice_load_rownorms, price.c:1586) and,
 * on this input, the process dies with SIGFPE / returns garbage.
 *
 * QSnew_row (qsopt.c) -> ILLlib_newrow -> ILLlib_addrow grows B->rstat and
 * B->nrows but NOT B->rownorms (only ILLlib_addrows, used by QSadd_rows,
 * reallocates the norms).  The next solve has factorok == 0, hands p->basis to
 * ILLsimplex, and ILLprice_load_rownorms copies lp->nrows (= old nrows + 1)
 * entries out of an array of old nrows entries.
 *
 *   min x + 2y  s.t. x + y >= 4, x - y <= 2, 0<=x<=3, 0<=y<=10   (value 5)
 *   QSnew_row (rhs 7, 'G', "nr"); QSchange_coef (nr, y) := 1       (y >= 7)
 *   re-solve: expected optimal, value 14 (x = 0, y = 7)
 *
 * exit 0 = re-solve correct (still run it under valgrind), 1 = wrong answer,
 * signal = crash.
 */
#include <stdio.h>
#include <stdlib.h>
#include <gmp.h>
#include "QSopt_ex.h"

int main (void)
{
	mpq_QSprob p;
	mpq_t a, b, c, v[2];
	int ind[2] = { 0, 1 }, st = 0, r, bad;

	QSexactStart ();
	mpq_init (a); mpq_init (b); mpq_init (c); mpq_init (v[0]); mpq_init (v[1]);
	p = mpq_QScreate_prob ("p", QS_MIN);
	mpq_set_si (a, 1, 1); mpq_set_si (b, 0, 1); mpq_set_si (c, 3, 1);
	mpq_QSnew_col (p, a, b, c, "x");
	mpq_set_si (a, 2, 1); mpq_set_si (c, 10, 1);
	mpq_QSnew_col (p, a, b, c, "y");
	mpq_set_si (v[0], 1, 1); mpq_set_si (v[1], 1, 1); mpq_set_si (a, 4, 1);
	mpq_QSadd_row (p, 2, ind, (const mpq_t *) v, (const mpq_t *) &a, 'G', "r0");
	mpq_set_si (v[1], -1, 1); mpq_set_si (a, 2, 1);
	mpq_QSadd_row (p, 2, ind, (const mpq_t *) v, (const mpq_t *) &a, 'L', "r1");
	r = mpq_QSopt_dual (p, &st);
	mpq_QSget_objval (p, &a);
	printf ("solve 1: rval %d status %d value %g\n", r, st, mpq_get_d (a));

	mpq_set_si (a, 7, 1);
	r = mpq_QSnew_row (p, a, 'G', "nr");
	mpq_set_si (a, 1, 1);
	r = r || mpq_QSchange_coef (p, 2, 1, a);
	printf ("QSnew_row + QSchange_coef: rval %d\n", r);
	fflush (stdout);
	r = mpq_QSopt_dual (p, &st);
	mpq_set_si (a, 0, 1);
	if (!r && st == QS_LP_OPTIMAL)
		mpq_QSget_objval (p, &a);
	printf ("solve 2: rval %d status %d value %g (expected 0, 1, 14)\n", r, st,
					mpq_get_d (a));
	bad = (r || st != QS_LP_OPTIMAL || mpq_cmp_si (a, 14, 1));
	mpq_QSfree_prob (p);
	mpq_clear (a); mpq_clear (b); mpq_clear (c); mpq_clear (v[0]); mpq_clear (v[1]);
	QSexactClear ();
	return bad;
}
