#!/bin/sh
# usage: sh build.sh <worktree> <observation-dir>   builds and runs <dir>/repro.c; exit 1 = defect shown
W=$(cd "$1" && pwd); D=$(cd "$2" && pwd); cd "$D" || exit 2
gcc -O0 -g -o repro repro.c -I"$W" -I"$W/qsopt_ex" "$W/.libs/libqsopt_ex.a" -lgmp -lz -lbz2 -lm -lpthread || exit 2
./repro 2> repro.err
