/* In the Bounds section of an LP file, a bound that gives only a lower bound
 * ("3 <= x") followed, on the next line, by a bound on a column whose name
 * begins with "free" (any case) is misread: the name prefix is taken for the
 * keyword FREE that may follow a column. */
#include "common.h"
int main (void)
{
	mpq_QSprob p;
	int bad = 0;
	const char *fmt = "Minimize\n obj: x + %s\nSubject To\n c1: x + %s >= 1\nBounds\n%sEnd\n";
	char text[1024], b[256];

	QSexactStart ();
	sprintf (b, " 3 <= x\n %s <= 4\n", "gamma");
	sprintf (text, fmt, "gamma", "gamma", b);
	p = read_text ("gamma.lp", "LP", text);
	printf ("\"3 <= x\" then \"gamma <= 4\"   : %s\n", p ? "read" : "REJECTED");
	if (p) mpq_QSfree_prob (p);
	sprintf (b, " %s <= 4\n 3 <= x\n", "freedom");
	sprintf (text, fmt, "freedom", "freedom", b);
	p = read_text ("freedom1.lp", "LP", text);
	printf ("\"freedom <= 4\" then \"3 <= x\" : %s\n", p ? "read" : "REJECTED");
	if (p) mpq_QSfree_prob (p);
	sprintf (b, " 3 <= x\n %s <= 4\n", "freedom");
	sprintf (text, fmt, "freedom", "freedom", b);
	p = read_text ("freedom2.lp", "LP", text);
	printf ("\"3 <= x\" then \"freedom <= 4\" : %s\n", p ? "read" : "REJECTED");
	if (p) mpq_QSfree_prob (p); else bad = 1;
	/* with a second column called "dom" the misreading is silent */
	p = read_text ("freedom3.lp", "LP", "Minimize\n obj: x + freedom + dom\nSubject To\n c1: x + freedom + dom >= 1\nBounds\n 3 <= x\n freedom <= 4\nEnd\n");
	printf ("columns freedom and dom, \"3 <= x\" then \"freedom <= 4\": %s\n", p ? "read" : "REJECTED");
	if (p)
	{
		mpq_t u; int ci;
		mpq_init (u);
		mpq_QSget_column_index (p, "freedom", &ci); mpq_QSget_bound (p, ci, 'U', &u);
		if (mpq_cmp (u, mpq_ILL_MAXDOUBLE) >= 0) { printf ("   upper bound of freedom: +inf (text says 4)\n"); bad = 1; }
		mpq_QSget_column_index (p, "dom", &ci); mpq_QSget_bound (p, ci, 'U', &u);
		if (mpq_cmp (u, mpq_ILL_MAXDOUBLE) < 0) { gmp_printf ("   upper bound of dom    : %Qd (text gives none)\n", u); bad = 1; }
		mpq_QSfree_prob (p);
	}
	QSexactClear ();
	return bad;
}
