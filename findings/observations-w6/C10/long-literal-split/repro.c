/* A numeric literal with more digits than the line buffer holds
 * (ILL_namebufsize - 2 = 131070 characters per chunk) is cut in two: the
 * file is rejected although the property promises literals "with arbitrary
 * many digits". */
#include "common.h"
static int try (int ndig)
{
	char *text = malloc ((size_t) ndig + 256), *q;
	mpq_QSprob p;
	int i, ok = 0;

	q = text + sprintf (text, "Minimize\n obj: x + y\nSubject To\n c1: x + ");
	for (i = 0; i < ndig; i++) *q++ = '1';
	strcpy (q, " y >= 1\n c2: x - y <= 3\nEnd\n");
	p = read_text ("long.lp", "LP", text);
	if (p)
	{
		mpq_t c; mpz_t want; int ci, ri;
		char *digits = malloc ((size_t) ndig + 1);
		mpq_init (c); mpz_init (want);
		memset (digits, '1', (size_t) ndig); digits[ndig] = 0;
		mpz_set_str (want, digits, 10);
		mpq_QSget_column_index (p, "y", &ci); mpq_QSget_row_index (p, "c1", &ri);
		mpq_QSget_coef (p, ri, ci, &c);
		ok = (mpz_cmp (mpq_numref (c), want) == 0 && mpz_cmp_ui (mpq_denref (c), 1) == 0);
		printf ("%7d digits: read, coefficient %s\n", ndig, ok ? "exact" : "WRONG");
		mpq_QSfree_prob (p);
	}
	else
		printf ("%7d digits: REJECTED\n", ndig);
	free (text);
	return ok;
}
int main (void)
{
	int bad = 0;
	QSexactStart ();
	if (!try (1000)) bad = 1;
	if (!try (100000)) bad = 1;
	if (!try (200000)) bad = 1;
	QSexactClear ();
	return bad;
}
