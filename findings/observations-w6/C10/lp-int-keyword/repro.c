/* The LP reader lists "INT" next to "INTEGER" as spelling of the integer
 * section header (lp.c: integer[] = {"INTEGER","INT"}), but a file that uses
 * "Int" is rejected. */
#include "common.h"
int main (void)
{
	mpq_QSprob p;
	int bad = 0;
	const char *fmt = "Minimize\n obj: x + y\nSubject To\n c1: x + y >= 1\nBounds\n x <= 4\n%s\n y\nEnd\n";
	char text[1024];

	QSexactStart ();
	sprintf (text, fmt, "Integer");
	p = read_text ("integer.lp", "LP", text);
	printf ("section \"Integer\": %s\n", p ? "read" : "REJECTED");
	if (p) mpq_QSfree_prob (p);
	sprintf (text, fmt, "Int");
	p = read_text ("int.lp", "LP", text);
	printf ("section \"Int\"    : %s\n", p ? "read" : "REJECTED");
	if (p) mpq_QSfree_prob (p); else bad = 1;
	/* without a Bounds section in front it fails as well */
	p = read_text ("int2.lp", "LP", "Minimize\n obj: x + y\nSubject To\n c1: x + y >= 1\nInt\n y\nEnd\n");
	printf ("\"Int\" right after the constraints: %s\n", p ? "read" : "REJECTED");
	if (p) mpq_QSfree_prob (p); else bad = 1;
	QSexactClear ();
	return bad;
}
