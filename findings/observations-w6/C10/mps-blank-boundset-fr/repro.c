/* MPS BOUNDS records without a bound-set name are supported ("assume a blank
 * bound ident" in ILLmps_possibly_blank_name), but only for the bound types
 * that carry a number.  For FR / MI / PL / BV the column name is taken for
 * the name of a second bound set and the record is silently skipped. */
#include "common.h"
static void show (mpq_QSprob p, const char *col)
{
	mpq_t lo, up; int ci;
	mpq_init (lo); mpq_init (up);
	mpq_QSget_column_index (p, col, &ci);
	mpq_QSget_bound (p, ci, 'L', &lo); mpq_QSget_bound (p, ci, 'U', &up);
	printf ("   %s in ", col);
	if (mpq_cmp (lo, mpq_ILL_MINDOUBLE) <= 0) printf ("(-inf, "); else gmp_printf ("[%Qd, ", lo);
	if (mpq_cmp (up, mpq_ILL_MAXDOUBLE) >= 0) printf ("+inf)\n"); else gmp_printf ("%Qd]\n", up);
	mpq_clear (lo); mpq_clear (up);
}
int main (void)
{
	const char *head = "NAME  foo\nROWS\n N  cost\n L  c1\nCOLUMNS\n    x  cost  1  c1  2\n    y  cost  1  c1  1\nRHS\n    RHS  c1  10\nBOUNDS\n";
	char text[2048];
	mpq_QSprob p;
	mpq_t lo; int ci, bad = 0;

	QSexactStart ();
	mpq_init (lo);
	sprintf (text, "%s UP BND  x  4\n FR BND  y\nENDATA\n", head);
	p = read_text ("named.mps", "MPS", text);
	printf ("with a set name (UP BND x 4 / FR BND y):\n"); show (p, "x"); show (p, "y");
	mpq_QSfree_prob (p);
	sprintf (text, "%s UP  x  4\n FR  y\nENDATA\n", head);
	p = read_text ("blank.mps", "MPS", text);
	printf ("without set name (UP x 4 / FR y):\n"); show (p, "x"); show (p, "y");
	mpq_QSget_column_index (p, "y", &ci); mpq_QSget_bound (p, ci, 'L', &lo);
	if (mpq_cmp (lo, mpq_ILL_MINDOUBLE) > 0) { printf ("   -> the FR record was ignored, no error reported\n"); bad = 1; }
	mpq_QSfree_prob (p);
	QSexactClear ();
	return bad;
}
