/* helper for the reproducers: write a text, read it with the public API */
#include <stdio.h>
#include <stdlib.h>
#include <string.h>
#include <gmp.h>
#include "QSopt_ex.h"
static mpq_QSprob read_text (const char *fname, const char *type, const char *text)
{
	FILE *f = fopen (fname, "w");
	fputs (text, f);
	fclose (f);
	return mpq_QSread_prob (fname, type);
}
