/* A '$' comment after the last number of a COLUMNS / RHS / RANGES data line
 * makes the MPS reader reject the file; the same comment on a BOUNDS line is
 * accepted. */
#include "common.h"
static const char *head =
	"NAME          foo\nROWS\n N  cost\n L  c1\n G  c2\n";
int main (void)
{
	char text[4096];
	mpq_QSprob p;
	int bad = 0;

	QSexactStart ();
	/* reference: no comments */
	sprintf (text, "%sCOLUMNS\n    x  cost  1  c1  2\n    y  cost  1  c2  1\nRHS\n    RHS  c1  10\nBOUNDS\n UP BND  x  4\nENDATA\n", head);
	p = read_text ("ok.mps", "MPS", text);
	printf ("no comment            : %s\n", p ? "read" : "REJECTED");
	if (p) mpq_QSfree_prob (p);
	sprintf (text, "%sCOLUMNS\n    x  cost  1  c1  2\n    y  cost  1  c2  1\nRHS\n    RHS  c1  10\nBOUNDS\n UP BND  x  4   $ comment\nENDATA\n", head);
	p = read_text ("bounds.mps", "MPS", text);
	printf ("$ comment in BOUNDS   : %s\n", p ? "read" : "REJECTED");
	if (p) mpq_QSfree_prob (p);
	sprintf (text, "%sCOLUMNS\n    x  cost  1  c1  2\n    y  cost  1   $ comment\n    y  c2  1\nRHS\n    RHS  c1  10\nENDATA\n", head);
	p = read_text ("columns.mps", "MPS", text);
	printf ("$ comment in COLUMNS  : %s\n", p ? "read" : "REJECTED");
	if (p) mpq_QSfree_prob (p); else bad = 1;
	sprintf (text, "%sCOLUMNS\n    x  cost  1  c1  2\n    y  cost  1  c2  1\nRHS\n    RHS  c1  10   $ comment\nENDATA\n", head);
	p = read_text ("rhs.mps", "MPS", text);
	printf ("$ comment in RHS      : %s\n", p ? "read" : "REJECTED");
	if (p) mpq_QSfree_prob (p); else bad = 1;
	QSexactClear ();
	return bad;
}
