/* A coefficient whose decimal expansion is longer than ILL_namebufsize
 * (0x20000 = 131072) characters.  Exact rationals have no length limit, but
 * every line of the MPS (and LP) writer goes through a stack buffer of
 * ILL_namebufsize bytes (lpdata.c:714-717, wr_line: vsnprintf silently cuts the
 * line, the '\n' is lost too) and the readers fetch lines with a buffer of
 * ILL_namebufsize-2 bytes (read_mps.c:100).  Public API only.
 * usage: repro [ndigits]   (default 140000) */
#include <stdio.h>
#include <stdlib.h>
#include <gmp.h>
#include "QSopt_ex.h"

int main (int argc, char **argv)
{
	mpq_QSprob p, q;
	mpq_t o, l, u, v, rhs, back;
	int ind = 0, rc;
	unsigned long nd = (argc > 1) ? strtoul (argv[1], 0, 10) : 140000UL;

	QSexactStart ();
	mpq_init (o); mpq_init (l); mpq_init (u); mpq_init (v); mpq_init (rhs); mpq_init (back);
	p = mpq_QScreate_prob ("big", QS_MIN);
	mpq_set_si (rhs, 4, 1);
	mpq_QSnew_row (p, rhs, 'G', "r1");
	mpq_set_si (o, 1, 1); mpq_set_si (l, 0, 1); mpq_set (u, mpq_ILL_MAXDOUBLE);
	mpz_ui_pow_ui (mpq_numref (v), 10, nd);
	mpz_add_ui (mpq_numref (v), mpq_numref (v), 7);	/* 10^nd + 7 */
	mpq_QSadd_col (p, 1, &ind, &v, o, l, u, "x");
	mpq_QSnew_col (p, o, l, u, "y");
	if (mpq_QSwrite_prob (p, "out.mps", "MPS")) return 2;
	q = mpq_QSread_prob ("out.mps", "MPS");
	if (!q) { printf ("MPS text REJECTED\n"); return 1; }
	rc = mpq_QSget_coef (q, 0, 0, &back);
	printf ("columns read back: %d (written: 2); coefficient (r1,x) %s\n",
					mpq_QSget_colcount (q), (!rc && mpq_equal (back, v)) ? "equal" : "DIFFERENT");
	return (!rc && mpq_equal (back, v) && mpq_QSget_colcount (q) == 2) ? 0 : 1;
}
