/* QSexact_verify (useprestep=1, dbl_p_sol, dbl_d_sol): the primal vector is
 * read up to nstruct + nrows entries although it is documented (and used by
 * QSexact_optimal_test) as the primal solution of the nstruct structural
 * variables.  A caller that passes an array of nstruct doubles gets a heap /
 * stack over-read of nrows doubles.
 *
 *   min x0 + x1  s.t. r0: x0 + x1 >= 1, r1: x0 - x1 >= -4, x >= 0
 *   basis: x0 basic, r1 basic, x1 at lower, r0 at lower   (optimal, x = (1,0), y = (1,0))
 */
#include <stdio.h>
#include <stdlib.h>
#include <string.h>
#include <gmp.h>
#include "QSopt_ex.h"

int main (void)
{
	mpq_QSdata *p;
	mpq_t c, lo, up, v[2], rhs, dob;
	int ind[2] = { 0, 1 };
	char cs[3] = { QS_COL_BSTAT_BASIC, QS_COL_BSTAT_LOWER, 0 };
	char rs[3] = { QS_ROW_BSTAT_LOWER, QS_ROW_BSTAT_BASIC, 0 };
	QSbasis B;
	char res = 9;
	int rv;
	double *xd = (double *) malloc (2 * sizeof (double));	/* nstruct entries */
	double *yd = (double *) malloc (2 * sizeof (double));	/* nrows entries */

	QSexactStart ();
	mpq_init (c); mpq_init (lo); mpq_init (up); mpq_init (v[0]); mpq_init (v[1]);
	mpq_init (rhs); mpq_init (dob);
	mpq_set_si (c, 1, 1);
	mpq_set_si (lo, 0, 1);
	mpq_set (up, mpq_ILL_MAXDOUBLE);
	p = mpq_QScreate_prob ("overread", QS_MIN);
	mpq_QSnew_col (p, c, lo, up, "x0");
	mpq_QSnew_col (p, c, lo, up, "x1");
	mpq_set_si (v[0], 1, 1); mpq_set_si (v[1], 1, 1); mpq_set_si (rhs, 1, 1);
	mpq_QSadd_row (p, 2, ind, (const mpq_t *) v, (const mpq_t *) &rhs, 'G', "r0");
	mpq_set_si (v[1], -1, 1); mpq_set_si (rhs, -4, 1);
	mpq_QSadd_row (p, 2, ind, (const mpq_t *) v, (const mpq_t *) &rhs, 'G', "r1");
	B.nstruct = 2; B.nrows = 2; B.cstat = cs; B.rstat = rs;
	xd[0] = 1.0; xd[1] = 0.0;
	yd[0] = 1.0; yd[1] = 0.0;

	rv = QSexact_verify (p, &B, 1, xd, yd, &res, &dob, 1);
	gmp_printf ("QSexact_verify rv=%d result=%d dobjval=%Qd\n", rv, res, dob);
	free (xd);
	free (yd);
	mpq_QSfree_prob (p);
	mpq_clear (c); mpq_clear (lo); mpq_clear (up); mpq_clear (v[0]); mpq_clear (v[1]);
	mpq_clear (rhs); mpq_clear (dob);
	QSexactClear ();
	return 0;
}
