/* Independent exact oracle for bases of small LPs (GMP rationals only).
 *
 *   min/max c.x   s.t.  row i:  a_i.x  {<=,>=,=} rhs_i   or  rhs_i <= a_i.x <= rhs_i+range_i
 *                       lo_j <= x_j <= up_j   (either bound may be infinite)
 *
 * A basis is given as the public QSbasis status letters.  Nothing in here
 * calls the library except for building the problem.
 */
#ifndef ORACLE_H
#define ORACLE_H
#include <stdio.h>
#include <stdlib.h>
#include <string.h>
#include <gmp.h>
#include "QSopt_ex.h"

#define MAXN 8
#define MAXM 8

typedef struct
{
	int n, m;
	int objsense;									/* QS_MIN / QS_MAX */
	mpq_t c[MAXN], lo[MAXN], up[MAXN];
	int lo_inf[MAXN], up_inf[MAXN];
	mpq_t A[MAXM][MAXN];
	mpq_t rhs[MAXM], range[MAXM];
	char rsense[MAXM];						/* L G E R */
} LP;

typedef struct
{
	int singular;
	int pfeas, dfeas;
	mpq_t x[MAXN];								/* structural values */
	mpq_t r[MAXM];								/* row activities */
	mpq_t y[MAXM];								/* duals, internal minimisation form */
	mpq_t d[MAXN];								/* reduced costs, internal minimisation form */
	mpq_t obj;										/* c.x in the user's sense */
	mpq_t iobj;										/* objective in internal minimisation form */
} BSOL;

static void lp_init (LP * L)
{
	int i, j;
	memset (L, 0, sizeof (LP));
	for (j = 0; j < MAXN; j++)
	{
		mpq_init (L->c[j]);
		mpq_init (L->lo[j]);
		mpq_init (L->up[j]);
	}
	for (i = 0; i < MAXM; i++)
	{
		mpq_init (L->rhs[i]);
		mpq_init (L->range[i]);
		for (j = 0; j < MAXN; j++)
			mpq_init (L->A[i][j]);
	}
}

static void lp_clear (LP * L)
{
	int i, j;
	for (j = 0; j < MAXN; j++)
	{
		mpq_clear (L->c[j]);
		mpq_clear (L->lo[j]);
		mpq_clear (L->up[j]);
	}
	for (i = 0; i < MAXM; i++)
	{
		mpq_clear (L->rhs[i]);
		mpq_clear (L->range[i]);
		for (j = 0; j < MAXN; j++)
			mpq_clear (L->A[i][j]);
	}
}

static void bsol_init (BSOL * S)
{
	int i;
	memset (S, 0, sizeof (BSOL));
	for (i = 0; i < MAXN; i++)
	{
		mpq_init (S->x[i]);
		mpq_init (S->d[i]);
	}
	for (i = 0; i < MAXM; i++)
	{
		mpq_init (S->r[i]);
		mpq_init (S->y[i]);
	}
	mpq_init (S->obj);
	mpq_init (S->iobj);
}

static void bsol_clear (BSOL * S)
{
	int i;
	for (i = 0; i < MAXN; i++)
	{
		mpq_clear (S->x[i]);
		mpq_clear (S->d[i]);
	}
	for (i = 0; i < MAXM; i++)
	{
		mpq_clear (S->r[i]);
		mpq_clear (S->y[i]);
	}
	mpq_clear (S->obj);
	mpq_clear (S->iobj);
}

/* build the library problem through the public API */
static mpq_QSdata *lp_build (const LP * L, const char *name)
{
	int i, j, cnt, ind[MAXN];
	mpq_t val[MAXN], lo, up;
	char nm[32];
	mpq_QSdata *p = mpq_QScreate_prob (name, L->objsense);
	if (!p)
		return 0;
	mpq_init (lo);
	mpq_init (up);
	for (j = 0; j < MAXN; j++)
		mpq_init (val[j]);
	for (j = 0; j < L->n; j++)
	{
		if (L->lo_inf[j])
			mpq_set (lo, mpq_ILL_MINDOUBLE);
		else
			mpq_set (lo, L->lo[j]);
		if (L->up_inf[j])
			mpq_set (up, mpq_ILL_MAXDOUBLE);
		else
			mpq_set (up, L->up[j]);
		snprintf (nm, sizeof nm, "x%d", j);
		if (mpq_QSnew_col (p, L->c[j], lo, up, nm))
		{
			mpq_QSfree_prob (p);
			p = 0;
			goto DONE;
		}
	}
	for (i = 0; i < L->m; i++)
	{
		cnt = 0;
		for (j = 0; j < L->n; j++)
			if (mpq_sgn (L->A[i][j]))
			{
				ind[cnt] = j;
				mpq_set (val[cnt], L->A[i][j]);
				cnt++;
			}
		snprintf (nm, sizeof nm, "r%d", i);
		if (mpq_QSadd_ranged_row (p, cnt, ind, (const mpq_t *) val, &L->rhs[i],
															L->rsense[i], &L->range[i], nm))
		{
			mpq_QSfree_prob (p);
			p = 0;
			goto DONE;
		}
	}
	mpq_QSset_param (p, QS_PARAM_SIMPLEX_DISPLAY, 0);
DONE:
	mpq_clear (lo);
	mpq_clear (up);
	for (j = 0; j < MAXN; j++)
		mpq_clear (val[j]);
	return p;
}

/* Gaussian elimination on a k x k system M z = b (in place); returns 1 if singular */
static int gauss (int k, mpq_t M[MAXM][MAXM], mpq_t * b, mpq_t * z)
{
	int i, j, c, piv;
	mpq_t f, t;
	mpq_init (f);
	mpq_init (t);
	for (c = 0; c < k; c++)
	{
		piv = -1;
		for (i = c; i < k; i++)
			if (mpq_sgn (M[i][c]))
			{
				piv = i;
				break;
			}
		if (piv < 0)
		{
			mpq_clear (f);
			mpq_clear (t);
			return 1;
		}
		if (piv != c)
		{
			for (j = 0; j < k; j++)
				mpq_swap (M[piv][j], M[c][j]);
			mpq_swap (b[piv], b[c]);
		}
		for (i = 0; i < k; i++)
		{
			if (i == c || !mpq_sgn (M[i][c]))
				continue;
			mpq_div (f, M[i][c], M[c][c]);
			for (j = c; j < k; j++)
			{
				mpq_mul (t, f, M[c][j]);
				mpq_sub (M[i][j], M[i][j], t);
			}
			mpq_mul (t, f, b[c]);
			mpq_sub (b[i], b[i], t);
		}
	}
	for (c = 0; c < k; c++)
		mpq_div (z[c], b[c], M[c][c]);
	mpq_clear (f);
	mpq_clear (t);
	return 0;
}

/* is the status assignment a valid basis description for this LP? */
static int basis_valid (const LP * L, const char *cstat, const char *rstat)
{
	int i, j, nb = 0;
	for (j = 0; j < L->n; j++)
	{
		switch (cstat[j])
		{
		case QS_COL_BSTAT_BASIC:
			nb++;
			break;
		case QS_COL_BSTAT_LOWER:
			if (L->lo_inf[j])
				return 0;
			break;
		case QS_COL_BSTAT_UPPER:
			if (L->up_inf[j])
				return 0;
			break;
		case QS_COL_BSTAT_FREE:
			if (!L->lo_inf[j] || !L->up_inf[j])
				return 0;
			break;
		default:
			return 0;
		}
	}
	for (i = 0; i < L->m; i++)
	{
		switch (rstat[i])
		{
		case QS_ROW_BSTAT_BASIC:
			nb++;
			break;
		case QS_ROW_BSTAT_LOWER:
			break;
		case QS_ROW_BSTAT_UPPER:
			if (L->rsense[i] != 'R')
				return 0;
			break;
		default:
			return 0;
		}
	}
	return nb == L->m;
}

/* exact basic solution of a basis; S->singular set when the basis matrix is singular */
static void basis_solve (const LP * L, const char *cstat, const char *rstat,
												 BSOL * S)
{
	int i, j, k = 0, kk = 0, a, b;
	int bcol[MAXM], nrow[MAXM];
	mpq_t M[MAXM][MAXM], rh[MAXM], z[MAXM], t, cj;
	mpq_init (t);
	mpq_init (cj);
	for (i = 0; i < MAXM; i++)
	{
		mpq_init (rh[i]);
		mpq_init (z[i]);
		for (j = 0; j < MAXM; j++)
			mpq_init (M[i][j]);
	}
	S->singular = 0;
	S->pfeas = S->dfeas = 0;
	for (j = 0; j < L->n; j++)
	{
		mpq_set_ui (S->x[j], 0, 1);
		if (cstat[j] == QS_COL_BSTAT_BASIC)
			bcol[k++] = j;
		else if (cstat[j] == QS_COL_BSTAT_LOWER)
			mpq_set (S->x[j], L->lo[j]);
		else if (cstat[j] == QS_COL_BSTAT_UPPER)
			mpq_set (S->x[j], L->up[j]);
	}
	for (i = 0; i < L->m; i++)
		if (rstat[i] != QS_ROW_BSTAT_BASIC)
			nrow[kk++] = i;
	if (k != kk)
	{
		S->singular = 1;
		goto DONE;
	}
	/* primal: rows that are non-basic are tight */
	for (a = 0; a < k; a++)
	{
		i = nrow[a];
		mpq_set (rh[a], L->rhs[i]);
		if (rstat[i] == QS_ROW_BSTAT_UPPER)
			mpq_add (rh[a], rh[a], L->range[i]);
		for (j = 0; j < L->n; j++)
			if (cstat[j] != QS_COL_BSTAT_BASIC)
			{
				mpq_mul (t, L->A[i][j], S->x[j]);
				mpq_sub (rh[a], rh[a], t);
			}
		for (b = 0; b < k; b++)
			mpq_set (M[a][b], L->A[i][bcol[b]]);
	}
	if (gauss (k, M, rh, z))
	{
		S->singular = 1;
		goto DONE;
	}
	for (b = 0; b < k; b++)
		mpq_set (S->x[bcol[b]], z[b]);
	for (i = 0; i < L->m; i++)
	{
		mpq_set_ui (S->r[i], 0, 1);
		for (j = 0; j < L->n; j++)
		{
			mpq_mul (t, L->A[i][j], S->x[j]);
			mpq_add (S->r[i], S->r[i], t);
		}
	}
	/* dual: transposed system, internal minimisation form */
	for (b = 0; b < k; b++)
	{
		mpq_set (rh[b], L->c[bcol[b]]);
		if (L->objsense == QS_MAX)
			mpq_neg (rh[b], rh[b]);
		for (a = 0; a < k; a++)
			mpq_set (M[b][a], L->A[nrow[a]][bcol[b]]);
	}
	if (gauss (k, M, rh, z))
	{
		S->singular = 1;
		goto DONE;
	}
	for (i = 0; i < L->m; i++)
		mpq_set_ui (S->y[i], 0, 1);
	for (a = 0; a < k; a++)
		mpq_set (S->y[nrow[a]], z[a]);
	mpq_set_ui (S->obj, 0, 1);
	for (j = 0; j < L->n; j++)
	{
		mpq_set (cj, L->c[j]);
		mpq_mul (t, cj, S->x[j]);
		mpq_add (S->obj, S->obj, t);
		if (L->objsense == QS_MAX)
			mpq_neg (cj, cj);
		mpq_set (S->d[j], cj);
		for (i = 0; i < L->m; i++)
		{
			mpq_mul (t, S->y[i], L->A[i][j]);
			mpq_sub (S->d[j], S->d[j], t);
		}
	}
	mpq_set (S->iobj, S->obj);
	if (L->objsense == QS_MAX)
		mpq_neg (S->iobj, S->iobj);
	/* primal feasibility */
	S->pfeas = 1;
	for (j = 0; j < L->n; j++)
	{
		if (!L->lo_inf[j] && mpq_cmp (S->x[j], L->lo[j]) < 0)
			S->pfeas = 0;
		if (!L->up_inf[j] && mpq_cmp (S->x[j], L->up[j]) > 0)
			S->pfeas = 0;
	}
	for (i = 0; i < L->m; i++)
	{
		int cl = mpq_cmp (S->r[i], L->rhs[i]);
		switch (L->rsense[i])
		{
		case 'L':
			if (cl > 0)
				S->pfeas = 0;
			break;
		case 'G':
			if (cl < 0)
				S->pfeas = 0;
			break;
		case 'E':
			if (cl != 0)
				S->pfeas = 0;
			break;
		case 'R':
			mpq_add (t, L->rhs[i], L->range[i]);
			if (cl < 0 || mpq_cmp (S->r[i], t) > 0)
				S->pfeas = 0;
			break;
		}
	}
	/* dual feasibility */
	S->dfeas = 1;
	for (j = 0; j < L->n; j++)
	{
		int fixed = !L->lo_inf[j] && !L->up_inf[j] && mpq_equal (L->lo[j], L->up[j]);
		int sg = mpq_sgn (S->d[j]);
		if (cstat[j] == QS_COL_BSTAT_BASIC || fixed)
			continue;
		if (cstat[j] == QS_COL_BSTAT_LOWER && sg < 0)
			S->dfeas = 0;
		if (cstat[j] == QS_COL_BSTAT_UPPER && sg > 0)
			S->dfeas = 0;
		if (cstat[j] == QS_COL_BSTAT_FREE && sg != 0)
			S->dfeas = 0;
	}
	for (i = 0; i < L->m; i++)
	{
		int sg = mpq_sgn (S->y[i]);
		if (rstat[i] == QS_ROW_BSTAT_BASIC)
			continue;
		switch (L->rsense[i])
		{
		case 'L':										/* the activity sits at its upper limit */
			if (sg > 0)
				S->dfeas = 0;
			break;
		case 'G':										/* the activity sits at its lower limit */
			if (sg < 0)
				S->dfeas = 0;
			break;
		case 'E':
			break;
		case 'R':
			if (!mpq_sgn (L->range[i]))
				break;
			if (rstat[i] == QS_ROW_BSTAT_LOWER && sg < 0)
				S->dfeas = 0;
			if (rstat[i] == QS_ROW_BSTAT_UPPER && sg > 0)
				S->dfeas = 0;
			break;
		}
	}
DONE:
	mpq_clear (t);
	mpq_clear (cj);
	for (i = 0; i < MAXM; i++)
	{
		mpq_clear (rh[i]);
		mpq_clear (z[i]);
		for (j = 0; j < MAXM; j++)
			mpq_clear (M[i][j]);
	}
}

static QSbasis *basis_make (const LP * L, const char *cstat, const char *rstat)
{
	QSbasis *B = (QSbasis *) malloc (sizeof (QSbasis));
	B->nstruct = L->n;
	B->nrows = L->m;
	B->cstat = (char *) malloc (L->n + 1);
	B->rstat = (char *) malloc (L->m + 1);
	memcpy (B->cstat, cstat, L->n);
	memcpy (B->rstat, rstat, L->m);
	B->cstat[L->n] = 0;
	B->rstat[L->m] = 0;
	return B;
}

static void basis_drop (QSbasis * B)
{
	if (!B)
		return;
	free (B->cstat);
	free (B->rstat);
	free (B);
}

static int eq_upto_sign (mpq_t a, mpq_t b)
{
	int r;
	mpq_t t;
	if (mpq_equal (a, b))
		return 1;
	mpq_init (t);
	mpq_neg (t, b);
	r = mpq_equal (a, t);
	mpq_clear (t);
	return r;
}

#endif
