#include "oracle.h"

static unsigned long long rs = 12345;
static int rnd (int k)
{
	rs = rs * 6364136223846793005ULL + 1442695040888963407ULL;
	return (int) ((rs >> 33) % (unsigned) k);
}

static mpq_t *qarr (int k)
{
	int i;
	mpq_t *a = (mpq_t *) malloc (sizeof (mpq_t) * k);
	for (i = 0; i < k; i++)
		mpq_init (a[i]);
	return a;
}
static void qfree (mpq_t * a, int k)
{
	int i;
	for (i = 0; i < k; i++)
		mpq_clear (a[i]);
	free (a);
}

static int nfail = 0, nchecked = 0, nsing = 0;

static void gen_lp (LP * L)
{
	int i, j;
	L->n = 2 + rnd (3);
	L->m = 1 + rnd (3);
	L->objsense = rnd (3) ? QS_MIN : QS_MAX;
	for (j = 0; j < L->n; j++)
	{
		int t = rnd (8);
		mpq_set_si (L->c[j], rnd (7) - 3, 1);
		L->lo_inf[j] = L->up_inf[j] = 0;
		mpq_set_si (L->lo[j], rnd (4) - 1, 1 + rnd (2));
		mpq_canonicalize (L->lo[j]);
		mpq_set_si (L->up[j], rnd (4) + 2, 1);
		if (t == 0)
			L->lo_inf[j] = L->up_inf[j] = 1;
		else if (t == 1)
			L->lo_inf[j] = 1;
		else if (t <= 4)
			L->up_inf[j] = 1;
		else if (t == 5)
			mpq_set (L->up[j], L->lo[j]);
	}
	for (i = 0; i < L->m; i++)
	{
		int s = rnd (6);
		L->rsense[i] = s < 2 ? 'L' : s < 4 ? 'G' : s == 4 ? 'E' : 'R';
		mpq_set_si (L->rhs[i], rnd (9) - 3, 1 + rnd (3));
		mpq_canonicalize (L->rhs[i]);
		mpq_set_si (L->range[i], L->rsense[i] == 'R' ? rnd (4) : 0, 1);
		for (j = 0; j < L->n; j++)
		{
			mpq_set_si (L->A[i][j], rnd (3) ? rnd (7) - 3 : 0, 1);
		}
	}
}

static void pr_basis (const LP * L, const char *cs, const char *rs_)
{
	printf ("  basis c=%.*s r=%.*s\n", L->n, cs, L->m, rs_);
}

static void dump_lp (const LP * L)
{
	int i, j;
	printf ("LP %s n=%d m=%d\n", L->objsense == QS_MIN ? "min" : "max", L->n, L->m);
	for (j = 0; j < L->n; j++)
		gmp_printf ("  x%d c=%Qd lo=%s%Qd up=%s%Qd\n", j, L->c[j],
								L->lo_inf[j] ? "-inf " : "", L->lo[j], L->up_inf[j] ? "inf " : "",
								L->up[j]);
	for (i = 0; i < L->m; i++)
	{
		printf ("  r%d:", i);
		for (j = 0; j < L->n; j++)
			gmp_printf (" %Qd", L->A[i][j]);
		gmp_printf (" %c %Qd range %Qd\n", L->rsense[i], L->rhs[i], L->range[i]);
	}
}

static int check_basis (const LP * L, mpq_QSdata * p, const char *cs,
												const char *rsx, int prestep)
{
	BSOL S;
	QSbasis *B;
	char res = 9;
	mpq_t dob;
	int bad = 0, rv;
	bsol_init (&S);
	mpq_init (dob);
	basis_solve (L, cs, rsx, &S);
	if (S.singular)
	{
		nsing++;
		goto DONE;
	}
	nchecked++;
	B = basis_make (L, cs, rsx);
	rv = QSexact_basis_optimalstatus (p, B, &res, 1);
	if (rv || res != (S.pfeas && S.dfeas))
	{
		printf ("optimalstatus rv=%d res=%d expected %d\n", rv, res,
						S.pfeas && S.dfeas);
		bad = 1;
	}
	res = 9;
	mpq_set_si (dob, 777, 1);
	rv = QSexact_basis_dualstatus (p, B, &res, &dob, 1);
	if (rv || res != S.dfeas)
	{
		printf ("dualstatus rv=%d res=%d expected %d\n", rv, res, S.dfeas);
		bad = 1;
	}
	else if (S.dfeas && !eq_upto_sign (dob, S.iobj))
	{
		gmp_printf ("dualstatus dobj=%Qd expected %Qd\n", dob, S.iobj);
		bad = 1;
	}
	res = 9;
	mpq_set_si (dob, 777, 1);
	rv = QSexact_verify (p, B, prestep, 0, 0, &res, &dob, 1);
	if (rv || res != S.dfeas)
	{
		printf ("verify(prestep=%d) rv=%d res=%d expected %d\n", prestep, rv, res,
						S.dfeas);
		bad = 1;
	}
	else if (S.dfeas && !eq_upto_sign (dob, S.iobj))
	{
		gmp_printf ("verify(prestep=%d) dobj=%Qd expected %Qd\n", prestep, dob,
								S.iobj);
		bad = 1;
	}
	basis_drop (B);
DONE:
	if (bad)
	{
		pr_basis (L, cs, rsx);
		nfail++;
	}
	mpq_clear (dob);
	bsol_clear (&S);
	return bad;
}

static int enumerate (const LP * L, mpq_QSdata * p, int prestep)
{
	char cs[MAXN + 1], rsx[MAXM + 1];
	int tot = L->n + L->m, idx[MAXN + MAXM], k, bad = 0;
	static const char cl[4] = { QS_COL_BSTAT_LOWER, QS_COL_BSTAT_BASIC,
		QS_COL_BSTAT_UPPER, QS_COL_BSTAT_FREE
	};
	static const char rl[3] = { QS_ROW_BSTAT_LOWER, QS_ROW_BSTAT_BASIC,
		QS_ROW_BSTAT_UPPER
	};
	memset (idx, 0, sizeof idx);
	for (;;)
	{
		for (k = 0; k < L->n; k++)
			cs[k] = cl[idx[k]];
		for (k = 0; k < L->m; k++)
			rsx[k] = rl[idx[L->n + k]];
		if (basis_valid (L, cs, rsx))
			bad |= check_basis (L, p, cs, rsx, prestep);
		for (k = 0; k < tot; k++)
		{
			int lim = k < L->n ? 4 : 3;
			if (++idx[k] < lim)
				break;
			idx[k] = 0;
		}
		if (k == tot)
			break;
	}
	return bad;
}

static int solve_cfg (const LP * L, int algo, int ppr, int dpr, int scal)
{
	mpq_QSdata *p = lp_build (L, "cfg");
	mpq_t *x, *y, obj, obj2;
	QSbasis eb, *gb = 0;
	int status = 0, rv, j, i, bad = 0;
	BSOL S;
	char res;
	mpq_t dob;
	memset (&eb, 0, sizeof eb);
	bsol_init (&S);
	mpq_init (obj);
	mpq_init (obj2);
	mpq_init (dob);
	x = qarr (MAXN);
	y = qarr (MAXM);
	mpq_QSset_param (p, QS_PARAM_PRIMAL_PRICING, ppr);
	mpq_QSset_param (p, QS_PARAM_DUAL_PRICING, dpr);
	mpq_QSset_param (p, QS_PARAM_SIMPLEX_SCALING, scal);
	rv = QSexact_solver (p, x, y, &eb, algo, &status);
	if (rv || status != QS_LP_OPTIMAL)
		goto DONE;
	if (!eb.cstat || !eb.rstat || eb.nstruct != L->n || eb.nrows != L->m)
	{
		printf ("no basis handed back\n");
		bad = 1;
		goto DONE;
	}
	if (!basis_valid (L, eb.cstat, eb.rstat))
	{
		printf ("returned basis not valid: ");
		pr_basis (L, eb.cstat, eb.rstat);
		bad = 1;
		goto DONE;
	}
	gb = mpq_QSget_basis (p);
	if (!gb || memcmp (gb->cstat, eb.cstat, L->n) || memcmp (gb->rstat, eb.rstat, L->m))
	{
		printf ("QSget_basis differs from the handed back basis\n");
		bad = 1;
	}
	basis_solve (L, eb.cstat, eb.rstat, &S);
	if (S.singular)
		goto DONE;
	if (!S.pfeas || !S.dfeas)
	{
		printf ("returned basis pfeas=%d dfeas=%d\n", S.pfeas, S.dfeas);
		bad = 1;
	}
	for (j = 0; j < L->n; j++)
		if (!mpq_equal (x[j], S.x[j]))
		{
			gmp_printf ("x[%d]=%Qd basis says %Qd\n", j, x[j], S.x[j]);
			bad = 1;
		}
	for (i = 0; i < L->m; i++)
	{
		/* y is reported in the user's sense */
		mpq_set (obj2, S.y[i]);
		if (L->objsense == QS_MAX)
			mpq_neg (obj2, obj2);
		if (!mpq_equal (y[i], obj2))
		{
			gmp_printf ("(info) y[%d]=%Qd basis says %Qd\n", i, y[i], obj2);
		}
	}
	mpq_QSget_objval (p, &obj);
	if (!mpq_equal (obj, S.obj))
	{
		gmp_printf ("objval %Qd basis says %Qd\n", obj, S.obj);
		bad = 1;
	}
	rv = QSexact_basis_optimalstatus (p, &eb, &res, 1);
	if (rv || res != 1)
	{
		printf ("optimalstatus of the returned basis: rv=%d res=%d\n", rv, res);
		bad = 1;
	}
	rv = QSexact_basis_dualstatus (p, &eb, &res, &dob, 1);
	if (rv || res != 1 || !eq_upto_sign (dob, S.iobj))
	{
		gmp_printf ("dualstatus of the returned basis: rv=%d res=%d dob=%Qd\n", rv,
								res, dob);
		bad = 1;
	}
	/* warm start */
	rv = QSexact_solver (p, x, y, &eb, algo, &status);
	if (rv || status != QS_LP_OPTIMAL)
	{
		printf ("warm start rv=%d status=%d\n", rv, status);
		bad = 1;
	}
	else
	{
		mpq_QSget_objval (p, &obj2);
		if (!mpq_equal (obj, obj2))
		{
			gmp_printf ("warm start objective %Qd vs %Qd\n", obj2, obj);
			bad = 1;
		}
		basis_solve (L, eb.cstat, eb.rstat, &S);
		if (!basis_valid (L, eb.cstat, eb.rstat)
				|| (!S.singular && (!S.pfeas || !S.dfeas)))
		{
			printf ("warm start basis not optimal\n");
			bad = 1;
		}
	}
DONE:
	if (bad)
	{
		printf ("  cfg algo=%d ppr=%d dpr=%d scal=%d\n", algo, ppr, dpr, scal);
		nfail++;
	}
	if (gb)
		mpq_QSfree_basis (gb);
	free (eb.cstat);
	free (eb.rstat);
	qfree (x, MAXN);
	qfree (y, MAXM);
	mpq_clear (obj);
	mpq_clear (obj2);
	mpq_clear (dob);
	bsol_clear (&S);
	mpq_QSfree_prob (p);
	return bad;
}

int main (int argc, char **argv)
{
	int it, nlp = argc > 1 ? atoi (argv[1]) : 50;
	int prestep = argc > 2 ? atoi (argv[2]) : 0;
	LP L;
	if (argc > 3)
		rs = strtoull (argv[3], 0, 10);
	QSexactStart ();
	lp_init (&L);
	for (it = 0; it < nlp; it++)
	{
		mpq_QSdata *p;
		int bad = 0;
		static const int ppr[] = { QS_PRICE_PDANTZIG, QS_PRICE_PDEVEX, QS_PRICE_PSTEEP,
			QS_PRICE_PMULTPARTIAL
		};
		static const int dpr[] = { QS_PRICE_DDANTZIG, QS_PRICE_DSTEEP,
			QS_PRICE_DMULTPARTIAL, QS_PRICE_DDEVEX
		};
		int a, k, s;
		gen_lp (&L);
		p = lp_build (&L, "t");
		if (!p)
		{
			printf ("build failed\n");
			return 2;
		}
		bad |= enumerate (&L, p, prestep);
		mpq_QSfree_prob (p);
		for (a = 0; a < 2; a++)
			for (k = 0; k < 4; k++)
				for (s = 0; s < 2; s++)
					bad |= solve_cfg (&L, a ? DUAL_SIMPLEX : PRIMAL_SIMPLEX, ppr[k], dpr[k], s);
		if (bad)
			dump_lp (&L);
	}
	lp_clear (&L);
	QSexactClear ();
	printf ("checked %d bases (%d singular skipped), failures %d\n", nchecked, nsing,
					nfail);
	return nfail ? 1 : 0;
}
