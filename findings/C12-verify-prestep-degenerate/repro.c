/* QSexact_verify (useprestep=1) accepts a dual INFEASIBLE basis of a
 * primal degenerate vertex.
 *
 *   min -x   s.t.  r0: x <= 0,   0 <= x
 *
 * basis under test: x non-basic at its lower bound, slack of r0 basic.
 * Its basic dual solution is y = 0, reduced cost of x = -1 < 0 at a lower
 * bound: dual infeasible.  QSexact_basis_dualstatus says 0 (correct),
 * QSexact_verify with the prestep says 1.
 */
#include <stdio.h>
#include <string.h>
#include <gmp.h>
#include "QSopt_ex.h"

int main (void)
{
	mpq_QSdata *p;
	mpq_t c, lo, up, one, rhs, dob;
	int ind[1] = { 0 };
	char cs[2] = { QS_COL_BSTAT_LOWER, 0 }, rs[2] = { QS_ROW_BSTAT_BASIC, 0 };
	QSbasis B;
	char r_dual = 9, r_ver0 = 9, r_ver1 = 9, r_ver2 = 9;
	double xd[2] = { 0.0, 0.0 }, yd[1] = { -1.0 };	/* xd: nstruct + nrows entries are read */
	int rv;

	QSexactStart ();
	mpq_init (c); mpq_init (lo); mpq_init (up); mpq_init (one); mpq_init (rhs); mpq_init (dob);
	mpq_set_si (c, -1, 1);
	mpq_set_si (lo, 0, 1);
	mpq_set (up, mpq_ILL_MAXDOUBLE);
	mpq_set_si (one, 1, 1);
	mpq_set_si (rhs, 0, 1);
	p = mpq_QScreate_prob ("degen", QS_MIN);
	mpq_QSnew_col (p, c, lo, up, "x");
	mpq_QSadd_row (p, 1, ind, (const mpq_t *) &one, (const mpq_t *) &rhs, 'L', "r0");
	B.nstruct = 1; B.nrows = 1; B.cstat = cs; B.rstat = rs;

	rv = QSexact_basis_dualstatus (p, &B, &r_dual, &dob, 1);
	printf ("QSexact_basis_dualstatus        rv=%d result=%d   (exact: 0)\n", rv, r_dual);
	rv = QSexact_verify (p, &B, 0, 0, 0, &r_ver0, &dob, 1);
	printf ("QSexact_verify prestep=0        rv=%d result=%d   (exact: 0)\n", rv, r_ver0);
	rv = QSexact_verify (p, &B, 1, 0, 0, &r_ver1, &dob, 1);
	gmp_printf ("QSexact_verify prestep=1        rv=%d result=%d dobjval=%Qd  (exact: 0)\n", rv, r_ver1, dob);
	rv = QSexact_verify (p, &B, 1, xd, yd, &r_ver2, &dob, 1);
	gmp_printf ("QSexact_verify prestep=1 (x,y)  rv=%d result=%d dobjval=%Qd  (exact: 0)\n", rv, r_ver2, dob);
	mpq_QSfree_prob (p);
	mpq_clear (c); mpq_clear (lo); mpq_clear (up); mpq_clear (one); mpq_clear (rhs); mpq_clear (dob);
	QSexactClear ();
	return (r_dual == 0 && r_ver0 == 0 && r_ver1 == 0 && r_ver2 == 0) ? 0 : 1;
}
