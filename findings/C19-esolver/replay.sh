#!/bin/bash
# usage: replay.sh <built tree of jonls/qsopt-ex>   (run in a scratch copy; writes only under $TMPDIR)
# Replays the three esolver / basis defects found by R-OPENCHK, R-EXIT and R-BASISSHELL.
# On the pinned tree before the fixes (397bb62, 12f56f6, b1936b2): crash (139), crash (139), exit 0 without solving.
W=${1:-/repo}; D=$(dirname "$(readlink -f "$0")"); T=$(mktemp -d); E="$W/esolver/esolver"; bad=0
"$E" -L -O /nonexistent_dir/x.sol "$D/t1.lp" >/dev/null 2>&1; r=$?
echo "1. unwritable -O path:            exit=$r (fixed: 1, defect: 139 SIGSEGV)"; [ $r -eq 1 ] || bad=1
"$E" -L -B "$D/bad.bas" -b "$T/o.bas" "$D/t1.lp" >/dev/null 2>&1; r=$?
echo "2. malformed -B basis with -b:    exit=$r (fixed: 1, defect: 139 SIGSEGV in ILLlib_writebasis)"; [ $r -eq 1 ] || bad=1
"$E" -L -B "$D/good.bas" -b "$T/o2.bas" -O "$T/s.sol" -p 99 "$D/t1.lp" >/dev/null 2>&1; r=$?
echo "3. illegal -p value with -B/-b:   exit=$r, solution file $( [ -f "$T/s.sol" ] && echo present || echo absent ) (fixed: 1, defect: 0)"; [ $r -ne 0 ] || bad=1
rm -rf "$T"; exit $bad
