NAME    unnamed
 XL x nosuchrow
 XL y c2
ENDATA
