NAME    unnamed
 XL x c1
 XL y c2
ENDATA
