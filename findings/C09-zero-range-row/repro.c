/* A ranged row whose range is 0 (rhs <= a.x <= rhs, i.e. an equation) is
 * written as a plain G row: the RANGES entry is left out because it is zero.
 * Read back, the row is  a.x >= rhs.  Public API only.
 *   exit 0: row preserved;  exit 1: row changed. */
#include <stdio.h>
#include <stdlib.h>
#include "qsopt_ex/QSopt_ex.h"

static const char *mps_text =
	"NAME z\nROWS\n N obj\n E r0\n L r1\nCOLUMNS\n x obj 1 r0 1\n x r1 1\n y obj 1 r0 1\n"
	"RHS\n RHS r0 2 r1 9\nRANGES\n RNG r0 0\nENDATA\n";

static void show (mpq_QSprob p, const char *tag, char *sense0)
{
	int *cnt, *beg, *ind;
	mpq_t *val, *rhs, *range;
	char *sense, **names;

	mpq_QSget_ranged_rows (p, &cnt, &beg, &ind, &val, &rhs, &sense, &range,
												 &names);
	gmp_printf ("%s: row %s sense %c rhs %Qd range %Qd\n", tag, names[0],
							sense[0], rhs[0], range[0]);
	*sense0 = sense[0];
}

int main (void)
{
	FILE *f = fopen ("in.mps", "w");
	mpq_QSprob p, q;
	char s0, s1;

	fputs (mps_text, f);
	fclose (f);
	QSexactStart ();
	p = mpq_QSread_prob ("in.mps", "MPS");
	if (!p || mpq_QSwrite_prob (p, "out.mps", "MPS"))
		return 2;
	q = mpq_QSread_prob ("out.mps", "MPS");
	if (!q)
		return 2;
	show (p, "in memory", &s0);
	show (q, "read back", &s1);
	return s0 != s1;
}
