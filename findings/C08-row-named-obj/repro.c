/* a row called "obj" in a problem built through the API (no objective name) */
#include "common.h"
int main (void)
{
	mpq_QSprob p; mpq_t one, zero, c[2]; int ind[2] = { 0, 1 }, rc;
	QSexactStart ();
	mpq_init (one); mpq_init (zero); mpq_init (c[0]); mpq_init (c[1]);
	setq (one, 1, 1); setq (zero, 0, 1); setq (c[0], 1, 1); setq (c[1], 1, 1);
	p = mpq_QScreate_prob ("p", QS_MIN);
	mpq_QSnew_col (p, one, zero, mpq_ILL_MAXDOUBLE, "x");
	mpq_QSnew_col (p, one, zero, mpq_ILL_MAXDOUBLE, "y");
	mpq_QSadd_row (p, 2, ind, (const mpq_t *) c, (const mpq_t *) &one, 'G', "obj");
	rc = write_and_read (p, "rowname-obj.lp");
	mpq_QSfree_prob (p); QSexactClear ();
	return rc;
}
