/* mpq_QSset_reporter() with skip < 10: the next solve divides by zero in
 * report_value() (simplex.c), "it->itercnt % (lp->iterskip / 10)". */
#include <stdio.h>
#include <string.h>
#include "QSopt_ex.h"

static int my_report (void *dest, const char *s) { (void) dest; (void) s; return 0; }
static void handler (const char *m, void *d) { (void) m; (void) d; }

int main (void)
{
	int cmatcnt[2] = { 1, 1 }, cmatbeg[2] = { 0, 1 }, cmatind[2] = { 0, 0 };
	char sense[1] = { 'L' };
	const char *cn[2] = { "x", "y" }, *rn[1] = { "c" };
	mpq_t val[2], obj[2], rhs[1], lo[2], up[2];
	mpq_QSprob p;
	int i, status = 0, rval;

	QSexactStart ();
	QSlog_set_handler (handler, NULL);
	for (i = 0; i < 2; i++)
	{
		mpq_init (val[i]); mpq_set_si (val[i], 1, 1);
		mpq_init (obj[i]); mpq_set_si (obj[i], 1 + i, 1);
		mpq_init (lo[i]);  mpq_set_si (lo[i], 0, 1);
		mpq_init (up[i]);  mpq_set_si (up[i], 5, 1);
	}
	mpq_init (rhs[0]); mpq_set_si (rhs[0], 4, 1);
	p = mpq_QSload_prob ("tiny", 2, 1, cmatcnt, cmatbeg, cmatind, val, QS_MAX,
											 obj, rhs, sense, lo, up, cn, rn);
	mpq_QSset_param (p, QS_PARAM_SIMPLEX_SCALING, 0);	/* solve p itself, not a scaled copy */
	mpq_QSset_reporter (p, 5, (void *) my_report, NULL);	/* report every 5 iterations */
	fprintf (stderr, "solving...\n");
	rval = mpq_QSopt_primal (p, &status);
	fprintf (stderr, "survived: rval=%d status=%d\n", rval, status);
	mpq_QSfree_prob (p);
	QSexactClear ();
	return 0;
}
