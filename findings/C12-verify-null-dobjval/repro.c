/* QSexact_verify (..., dobjval = NULL, msg_lvl = 0) dereferences the NULL
 * pointer although the documentation says dobjval may be NULL.
 *
 *   min x  s.t. r0: x >= 1, x >= 0;  basis: x basic, r0 non-basic (optimal).
 */
#include <stdio.h>
#include <string.h>
#include <gmp.h>
#include "QSopt_ex.h"

int main (int argc, char **argv)
{
	mpq_QSdata *p;
	mpq_t c, lo, up, one, rhs;
	int ind[1] = { 0 };
	char cs[2] = { QS_COL_BSTAT_BASIC, 0 }, rs[2] = { QS_ROW_BSTAT_LOWER, 0 };
	QSbasis B;
	char res = 9;
	int rv, msg_lvl = argc > 1 ? atoi (argv[1]) : 0;

	QSexactStart ();
	mpq_init (c); mpq_init (lo); mpq_init (up); mpq_init (one); mpq_init (rhs);
	mpq_set_si (c, 1, 1);
	mpq_set_si (lo, 0, 1);
	mpq_set (up, mpq_ILL_MAXDOUBLE);
	mpq_set_si (one, 1, 1);
	mpq_set_si (rhs, 1, 1);
	p = mpq_QScreate_prob ("nulldobj", QS_MIN);
	mpq_QSnew_col (p, c, lo, up, "x");
	mpq_QSadd_row (p, 1, ind, (const mpq_t *) &one, (const mpq_t *) &rhs, 'G', "r0");
	B.nstruct = 1; B.nrows = 1; B.cstat = cs; B.rstat = rs;

	rv = QSexact_basis_dualstatus (p, &B, &res, NULL, msg_lvl);
	printf ("QSexact_basis_dualstatus (dobjval=NULL, msg_lvl=%d): rv=%d result=%d\n", msg_lvl, rv, res);
	fflush (stdout);
	rv = QSexact_verify (p, &B, 0, 0, 0, &res, NULL, msg_lvl);
	printf ("QSexact_verify           (dobjval=NULL, msg_lvl=%d): rv=%d result=%d\n", msg_lvl, rv, res);
	mpq_QSfree_prob (p);
	mpq_clear (c); mpq_clear (lo); mpq_clear (up); mpq_clear (one); mpq_clear (rhs);
	QSexactClear ();
	return 0;
}
