#!/bin/sh
# usage: sh build.sh <worktree> ; builds and runs every reproducer
W=${1:?usage: sh build.sh <worktree>}
D=$(cd "$(dirname "$0")" && pwd)
for d in dollar-name chgsense-R-no-ranges long-record empty-column; do
  cd "$D/$d" || exit 2
  cc -O0 -g -I"$W" -I"$W/qsopt_ex" repro.c -o repro "$W/.libs/libqsopt_ex.a" -lgmp -lz -lbz2 -lm -lpthread || exit 2
  echo "=== $d"; ./repro > out.txt 2> err.txt; echo "exit $?" >> out.txt; cat out.txt
done
