/* a row made ranged with QSchange_sense in a problem that never had a ranged row */
#include "../common.h"
int main (void)
{
	mpq_t o, l, u, v[2], rhs; int ind[2], r;
	mpq_QSprob p;
	QSexactStart ();
	mpq_init (o); mpq_init (l); mpq_init (u); mpq_init (rhs); mpq_init (v[0]); mpq_init (v[1]);
	p = mpq_QScreate_prob ("chgR", QS_MIN);
	mpq_set_si (o, 1, 1); mpq_set_si (l, 0, 1); mpq_set_si (u, 4, 1);
	mpq_QSnew_col (p, o, l, u, "x");
	mpq_QSnew_col (p, o, l, mpq_ILL_MAXDOUBLE, "y");
	ind[0] = 0; ind[1] = 1; mpq_set_si (v[0], 1, 1); mpq_set_si (v[1], 2, 1); mpq_set_si (rhs, 3, 1);
	mpq_QSadd_row (p, 2, ind, (const mpq_t *) v, (const mpq_t *) &rhs, 'G', "r");
	mpq_QSchange_sense (p, 0, 'R');	/* now 3 <= x + 2y <= 3 + 0 */
	r = roundtrip (p, "chgR.mps");
	if (r == 0)
	{
		char s1[1], s2[1];
		mpq_QSprob q = mpq_QSread_prob ("chgR.mps", "MPS");
		mpq_QSget_senses (p, s1);
		mpq_QSget_senses (q, s2);
		if (s1[0] != s2[0]) { printf ("sense of row r: %c written, %c read back\n", s1[0], s2[0]); r = 1; }
		mpq_QSfree_prob (q);
	}
	printf ("LP rendering of the same problem: QSwrite_prob returns %d\n", mpq_QSwrite_prob (p, "chgR.lp", "LP"));
	mpq_QSfree_prob (p);
	QSexactClear ();
	return r;
}
