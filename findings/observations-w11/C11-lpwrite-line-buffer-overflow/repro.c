/* Stand-alone reproducer (public API only): a problem read from a valid MPS
 * file of 45 KiB cannot be written in LP format - the process dies in the LP
 * writer (stack buffer overflow).
 *
 *   cc -I$W -I$W/qsopt_ex repro.c $W/.libs/libqsopt_ex.a -lgmp -lz -lbz2 -lm -lpthread -o repro
 *   ./repro ranged      (MPS file: ranged row with a 45000-digit right hand side)
 *   ./repro bounds      (LP file: two long rationals on one Bounds line)
 */
#include <stdio.h>
#include <stdlib.h>
#include <string.h>
#include "QSopt_ex.h"

static void digits (FILE *f, int n, char c) { while (n--) fputc (c, f); }

int main (int argc, char **argv)
{
	const char *in, *type;
	FILE *f;
	mpq_QSprob p;
	int rval;

	if (argc > 1 && !strcmp (argv[1], "bounds"))
	{
		in = "repro_in.lp"; type = "LP";
		f = fopen (in, "w");
		fprintf (f, "Minimize\n obj: x\nSubject To\n c1: x >= 1\nBounds\n 1.");
		digits (f, 29000, '7');
		fprintf (f, "e-9999 <= x <= 2.");
		digits (f, 29000, '7');
		fprintf (f, "e-9999\nEnd\n");
		fclose (f);
	}
	else
	{
		in = "repro_in.mps"; type = "MPS";
		f = fopen (in, "w");
		fprintf (f, "NAME t\nROWS\n N obj\n G r1\nCOLUMNS\n x obj 1\n x r1 1\nRHS\n RHS r1 ");
		digits (f, 45000, '1');
		fprintf (f, "\nRANGES\n RNG r1 5\nENDATA\n");
		fclose (f);
	}
	QSexactStart ();
	p = mpq_QSread_prob (in, type);
	if (!p) { printf ("not read\n"); return 2; }
	printf ("read ok; writing MPS\n");
	rval = mpq_QSwrite_prob (p, "repro_out.mps", "MPS");
	printf ("MPS written, rval %d; writing LP\n", rval);
	fflush (stdout);
	rval = mpq_QSwrite_prob (p, "repro_out.lp", "LP");	/* SIGSEGV here */
	printf ("LP written, rval %d\n", rval);
	mpq_QSfree_prob (p);
	QSexactClear ();
	return 0;
}
