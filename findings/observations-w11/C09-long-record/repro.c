/* a coefficient with argv[1] decimal digits (default 131060) */
#include "../common.h"
int main (int argc, char **argv)
{
	int nd = argc > 1 ? atoi (argv[1]) : 131060, r;
	mpq_t o, l, u, v[2], rhs; int ind[2];
	mpq_QSprob p;
	QSexactStart ();
	mpq_init (o); mpq_init (l); mpq_init (u); mpq_init (rhs); mpq_init (v[0]); mpq_init (v[1]);
	p = mpq_QScreate_prob ("big", QS_MIN);
	mpq_set_si (o, 1, 1); mpq_set_si (l, 0, 1); mpq_set_si (u, 4, 1);
	mpq_QSnew_col (p, o, l, u, "x");
	mpq_QSnew_col (p, o, l, mpq_ILL_MAXDOUBLE, "y");
	ind[0] = 0; ind[1] = 1;
	mpz_ui_pow_ui (mpq_numref (v[0]), 10, nd - 1); mpz_add_ui (mpq_numref (v[0]), mpq_numref (v[0]), 7);
	mpq_set_si (v[1], 2, 1); mpq_set_si (rhs, 3, 1);
	mpq_QSadd_row (p, 2, ind, (const mpq_t *) v, (const mpq_t *) &rhs, 'G', "r");
	r = roundtrip (p, "big.mps");
	mpq_QSfree_prob (p);
	QSexactClear ();
	return r;
}
