/* mpq_QSopt_dual does not return on this 6x5 LP (dual Dantzig pricing,
 * scaling off).  Public API only.
 *   cc repro.c -I$W -I$W/qsopt_ex $W/.libs/libqsopt_ex.a -lgmp -lz -lbz2 -lm -lpthread
 *   ./a.out [pricing] [maxiter]     (pricing: 6 DDANTZIG (default here), 7 DSTEEP, 9 DDEVEX)
 */
#include <stdio.h>
#include <stdlib.h>
#include "QSopt_ex.h"

#define N 5
#define M 6
/* max 1/2 x0 - 4 x1 - x2 - 3/2 x3 - 4 x4 */
static const char *c[N] = { "1/2", "-4", "-1", "-3/2", "-4" };
static const char *lb[N] = { 0, 0, "-1", 0, 0 };	/* 0: -infinity */
static const char *ub[N] = { "3", "-1", 0, "2", 0 };	/* 0: +infinity */
static const char *A[M][N] = {
	{"1", "0", "-2", "-1/2", "0"},
	{"-1", "1", "-3/2", "-1", "0"},
	{"-1", "0", "0", "2", "1"},
	{"0", "-4", "0", "0", "0"},
	{"-1/2", "4", "0", "0", "-1"},
	{"-2", "0", "-1", "2", "0"}
};
static const char sense[M] = { 'G', 'L', 'L', 'L', 'L', 'G' };
static const char *rhs[M] = { "4", "4", "2", "4", "-2", "-6" };

int main (int argc, char **argv)
{
	int i, j, status = 0, rval, pricing = argc > 1 ? atoi (argv[1]) : QS_PRICE_DDANTZIG;
	int maxit = argc > 2 ? atoi (argv[2]) : 0;
	mpq_t v, l, u, val[N];
	int ind[N];
	mpq_QSdata *p;
	QSexactStart ();
	mpq_init (v); mpq_init (l); mpq_init (u);
	for (j = 0; j < N; j++) mpq_init (val[j]);
	p = mpq_QScreate_prob ("hang", QS_MAX);
	for (j = 0; j < N; j++)
	{
		mpq_set_str (v, c[j], 10);
		if (lb[j]) mpq_set_str (l, lb[j], 10); else mpq_set (l, mpq_ILL_MINDOUBLE);
		if (ub[j]) mpq_set_str (u, ub[j], 10); else mpq_set (u, mpq_ILL_MAXDOUBLE);
		if (mpq_QSnew_col (p, v, l, u, 0)) return 2;
	}
	for (i = 0; i < M; i++)
	{
		int cnt = 0;
		for (j = 0; j < N; j++)
		{
			mpq_set_str (v, A[i][j], 10);
			if (mpq_sgn (v)) { ind[cnt] = j; mpq_set (val[cnt], v); cnt++; }
		}
		mpq_set_str (v, rhs[i], 10);
		if (mpq_QSadd_row (p, cnt, ind, (const mpq_t *) val, (const mpq_t *) &v, sense[i], 0)) return 2;
	}
	mpq_QSset_param (p, QS_PARAM_SIMPLEX_SCALING, 0);
	mpq_QSset_param (p, QS_PARAM_DUAL_PRICING, pricing);
	if (maxit) mpq_QSset_param (p, QS_PARAM_SIMPLEX_MAX_ITERATIONS, maxit);
	mpq_QSset_param (p, QS_PARAM_SIMPLEX_DISPLAY, argc > 3 ? atoi (argv[3]) : 0);
	rval = mpq_QSopt_dual (p, &status);
	printf ("mpq_QSopt_dual returned %d, status %d\n", rval, status);
	return 0;
}
