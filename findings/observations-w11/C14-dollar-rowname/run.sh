#!/bin/sh
# usage: sh run.sh <worktree>   (exit 0 = basis file reads back, 1 = defect)
W=${1:?usage: sh run.sh <worktree>}
D=$(cd "$(dirname "$0")" && pwd)
cd "$D" || exit 99
gcc -g -O0 -I"$W" -I"$W/qsopt_ex" repro.c "$W/.libs/libqsopt_ex.a" \
    -lgmp -lz -lbz2 -lm -lpthread -o repro || exit 99
./repro
