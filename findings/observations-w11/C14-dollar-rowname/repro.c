/* A row whose name starts with '$' (a legal LP-format name, written by
 * QSwrite_prob "LP" without any repair) and that is non-basic makes the basis
 * file written by QSwrite_basis unreadable by QSread_basis /
 * QSread_and_load_basis on the very same problem.
 *
 *   min x + y   s.t.  $r1: x + y >= 2,  r2: x - y <= 1,  x, y >= 0
 *
 * exit 0: the basis file reads back as the basis written
 * exit 1: it does not (the defect)                                        */
#include <stdio.h>
#include <stdlib.h>
#include <string.h>
#include <gmp.h>
#include "QSopt_ex.h"

int main (int argc, char **argv)
{
	const char *rname = argc > 1 ? argv[1] : "$r1";
	const char *file = argc > 2 ? argv[2] : "dollar.bas";
	mpq_QSprob p;
	mpq_t a, z, v[2];
	int ind[2] = { 0, 1 }, status = 0, rval, bad;
	char c[3] = "", r[3] = "";
	QSbasis *B;

	QSexactStart ();
	mpq_init (a); mpq_init (z); mpq_init (v[0]); mpq_init (v[1]);
	p = mpq_QScreate_prob ("dollar", QS_MIN);
	mpq_set_si (a, 1, 1); mpq_set_si (z, 0, 1);
	mpq_QSnew_col (p, a, z, mpq_ILL_MAXDOUBLE, "x");
	mpq_QSnew_col (p, a, z, mpq_ILL_MAXDOUBLE, "y");
	mpq_set_si (v[0], 1, 1); mpq_set_si (v[1], 1, 1); mpq_set_si (a, 2, 1);
	rval = mpq_QSadd_row (p, 2, ind, (const mpq_t *) v, (const mpq_t *) &a, 'G', rname);
	mpq_set_si (v[0], 1, 1); mpq_set_si (v[1], -1, 1); mpq_set_si (a, 1, 1);
	rval |= mpq_QSadd_row (p, 2, ind, (const mpq_t *) v, (const mpq_t *) &a, 'L', "r2");
	printf ("build rval=%d\n", rval);
	rval = mpq_QSopt_primal (p, &status);
	printf ("solve rval=%d status=%d\n", rval, status);
	mpq_QSget_basis_array (p, c, r);
	printf ("basis in place: cstat=%s rstat=%s\n", c, r);
	rval = mpq_QSwrite_prob (p, "dollar.lp", "LP");
	printf ("QSwrite_prob LP rval=%d (the row keeps its name in dollar.lp)\n", rval);
	rval = mpq_QSwrite_basis (p, 0, file);
	printf ("QSwrite_basis rval=%d\n", rval);
	B = mpq_QSread_basis (p, file);
	if (!B)
		printf ("QSread_basis FAILED on the file just written\n");
	else
		printf ("QSread_basis: cstat=%.2s rstat=%.2s\n", B->cstat, B->rstat);
	bad = !B || strncmp (B->cstat, c, 2) || strncmp (B->rstat, r, 2);
	if (B) mpq_QSfree_basis (B);
	rval = mpq_QSread_and_load_basis (p, file);
	printf ("QSread_and_load_basis rval=%d\n", rval);
	mpq_QSfree_prob (p);
	mpq_clear (a); mpq_clear (z); mpq_clear (v[0]); mpq_clear (v[1]);
	QSexactClear ();
	return bad ? 1 : 0;
}
