/* A parse error of the LP reader, read without an error collector, reaches the
 * log handler in pieces: the offending token is handed over one character per
 * message.  Public API only. */
#include <stdio.h>
#include <string.h>
#include "qsopt_ex/QSopt_ex.h"

static int n = 0, single = 0;

static void handler (const char *msg, void *data)
{
	(void) data;
	n++;
	printf ("msg %2d (%2zu bytes): [%s]\n", n, strlen (msg), msg);
	if (strlen (msg) == 1)
		single++;
}

int main (void)
{
	mpq_QSprob p;

	QSexactStart ();
	QSlog_set_handler (handler, NULL);
	p = mpq_QSread_prob ("bad.lp", "LP");	/* line 5: "c2: 3 x + y <= six" */
	if (p)
		mpq_QSfree_prob (p);
	QSexactClear ();
	printf ("%d messages, %d of them one character long\n", n, single);
	return (single == 0) ? 0 : 1;
}
