/* QSread_prob / QSwrite_basis / QSread_basis with a NULL file name: the call
 * does not come back (SIGSEGV) instead of reporting a rejected argument to
 * the log handler.  Public API only.  argv[1] selects the call. */
#include <stdio.h>
#include <stdlib.h>
#include "qsopt_ex/QSopt_ex.h"

static void handler (const char *msg, void *data)
{
	(void) data;
	printf ("[log] %s\n", msg);
	fflush (stdout);
}

int main (int ac, char **av)
{
	int which = (ac > 1) ? atoi (av[1]) : 0;
	mpq_QSprob p;
	mpq_t one, zero;
	int status = 0;

	QSexactStart ();
	QSlog_set_handler (handler, NULL);
	if (which == 0)
	{
		p = mpq_QSread_prob (NULL, "LP");
		printf ("QSread_prob (NULL) returned %p\n", (void *) p);
	}
	else
	{
		mpq_init (one); mpq_init (zero);
		mpq_set_si (one, 1, 1);
		p = mpq_QScreate_prob ("t", QS_MIN);
		mpq_QSnew_col (p, one, zero, one, "x");
		mpq_QSnew_row (p, one, 'L', "r");
		mpq_QSchange_coef (p, 0, 0, one);
		mpq_QSopt_primal (p, &status);
		if (which == 1)
			printf ("QSwrite_basis (NULL name) returned %d\n",
							mpq_QSwrite_basis (p, NULL, NULL));
		else
			printf ("QSread_and_load_basis (NULL name) returned %d\n",
							mpq_QSread_and_load_basis (p, NULL));
		mpq_QSfree_prob (p);
		mpq_clear (one); mpq_clear (zero);
	}
	QSexactClear ();
	return 0;
}
