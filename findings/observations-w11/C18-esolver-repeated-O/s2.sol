status = OPTIMAL
status OPTIMAL
	Value = 14/5
VARS:
x = 8/5
y = 6/5
REDUCED COST:
PI:
c1 = 2/5
c2 = 1/5
SLACK:
