/* a column whose (valid LP) name starts with '$' and that has a non-default bound */
#include "../common.h"
int main (void)
{
	mpq_t o, l, u, v[2], rhs; int ind[2], r;
	mpq_QSprob p;
	QSexactStart ();
	mpq_init (o); mpq_init (l); mpq_init (u); mpq_init (rhs); mpq_init (v[0]); mpq_init (v[1]);
	p = mpq_QScreate_prob ("dollar", QS_MIN);
	mpq_set_si (o, 1, 1); mpq_set_si (l, 0, 1); mpq_set_si (u, 4, 1);
	mpq_QSnew_col (p, o, l, u, "$x");
	mpq_QSnew_col (p, o, l, mpq_ILL_MAXDOUBLE, "y");
	ind[0] = 0; ind[1] = 1; mpq_set_si (v[0], 1, 1); mpq_set_si (v[1], 2, 1); mpq_set_si (rhs, 3, 1);
	mpq_QSadd_row (p, 2, ind, (const mpq_t *) v, (const mpq_t *) &rhs, 'G', "$r");
	r = roundtrip (p, "dollar.mps");
	mpq_QSfree_prob (p);
	QSexactClear ();
	return r;
}
