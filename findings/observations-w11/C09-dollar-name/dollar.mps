NAME    dollar
OBJSENSE
  MIN
OBJNAME
  obj
ROWS
 N  obj
 G  $r
COLUMNS
  $x    obj    1
  $x    $r    1
  y    obj    1
  y    $r    2
RHS
 RHS    $r    3
BOUNDS
 UP BOUND    $x    4
ENDATA
