#!/bin/sh
# sh repro.sh <worktree>   (CLI only; there is no library entry point involved)
W=${1:-/tmp/seed/C11}
"$W/esolver/esolver" . > /dev/null 2>&1;   echo "esolver .    exit $?"    # 139 (SIGSEGV)
"$W/esolver/esolver" ... > /dev/null 2>&1; echo "esolver ...  exit $?"    # 139 (SIGSEGV)
"$W/esolver/esolver" -L . > /dev/null 2>&1; echo "esolver -L . exit $?"   # clean failure (file type forced, get_ftype not called)
