/* shared by the reproducers: write as MPS, read back, print both problems */
#include <stdio.h>
#include <stdlib.h>
#include <string.h>
#include <gmp.h>
#include "QSopt_ex.h"

static void show (mpq_QSprob p, const char *what)
{
	int nc = mpq_QSget_colcount (p), nr = mpq_QSget_rowcount (p), i, k;
	char **cn = calloc (nc + 1, sizeof (char *));
	int *rcnt, *rbeg, *rind; mpq_t *rval, *rhs, *rng, *lo, *up; char *sense, **rn;
	lo = malloc (sizeof (mpq_t) * (nc + 1)); up = malloc (sizeof (mpq_t) * (nc + 1));
	for (i = 0; i < nc; i++) { mpq_init (lo[i]); mpq_init (up[i]); }
	mpq_QSget_colnames (p, cn);
	mpq_QSget_bounds (p, lo, up);
	mpq_QSget_ranged_rows (p, &rcnt, &rbeg, &rind, &rval, &rhs, &sense, &rng, &rn);
	printf ("%s: %d rows, %d columns\n", what, nr, nc);
	for (i = 0; i < nc; i++)
	{
		printf ("   column %s  lower ", cn[i]);
		if (mpq_equal (lo[i], mpq_ILL_MINDOUBLE)) printf ("-inf"); else gmp_printf ("%Qd", lo[i]);
		printf ("  upper ");
		if (mpq_equal (up[i], mpq_ILL_MAXDOUBLE)) printf ("+inf"); else gmp_printf ("%Qd", up[i]);
		printf ("\n");
	}
	for (i = 0; i < nr; i++)
	{
		printf ("   row %s  sense %c  ", rn[i], sense[i]);
		if (mpz_sizeinbase (mpq_numref (rhs[i]), 10) > 40) printf ("rhs <%zu digits>", mpz_sizeinbase (mpq_numref (rhs[i]), 10));
		else gmp_printf ("rhs %Qd", rhs[i]);
		gmp_printf ("  range %Qd :", rng[i]);
		for (k = 0; k < rcnt[i]; k++)
		{
			if (mpz_sizeinbase (mpq_numref (rval[rbeg[i] + k]), 10) > 40) printf (" <%zu digits> %s", mpz_sizeinbase (mpq_numref (rval[rbeg[i] + k]), 10), cn[rind[rbeg[i] + k]]);
			else gmp_printf (" %Qd %s", rval[rbeg[i] + k], cn[rind[rbeg[i] + k]]);
		}
		printf ("\n");
	}
}

static int roundtrip (mpq_QSprob p, const char *fn)
{
	mpq_QSprob q;
	show (p, "written");
	if (mpq_QSwrite_prob (p, fn, "MPS")) { printf ("QSwrite_prob failed\n"); return 2; }
	q = mpq_QSread_prob (fn, "MPS");
	if (!q) { printf ("read back: QSread_prob REJECTS the file the library has just written\n"); return 1; }
	show (q, "read back");
	mpq_QSfree_prob (q);
	return 0;
}
