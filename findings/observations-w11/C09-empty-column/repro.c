/* a column with objective coefficient 0 and no matrix entry, but with bounds */
#include "../common.h"
int main (void)
{
	mpq_t o, l, u, v[2], rhs; int ind[2], r;
	mpq_QSprob p;
	QSexactStart ();
	mpq_init (o); mpq_init (l); mpq_init (u); mpq_init (rhs); mpq_init (v[0]); mpq_init (v[1]);
	p = mpq_QScreate_prob ("emptycol", QS_MIN);
	mpq_set_si (o, 1, 1); mpq_set_si (l, 0, 1); mpq_set_si (u, 4, 1);
	mpq_QSnew_col (p, o, l, mpq_ILL_MAXDOUBLE, "x");
	mpq_set_si (o, 0, 1);
	mpq_QSnew_col (p, o, l, u, "y");
	ind[0] = 0; mpq_set_si (v[0], 1, 1); mpq_set_si (rhs, 3, 1);
	mpq_QSadd_row (p, 1, ind, (const mpq_t *) v, (const mpq_t *) &rhs, 'G', "r");
	r = roundtrip (p, "emptycol.mps");
	mpq_QSfree_prob (p);
	QSexactClear ();
	return r;
}
