NAME    emptycol
OBJSENSE
  MIN
OBJNAME
  obj
ROWS
 N  obj
 G  r
COLUMNS
  x    obj    1
  x    r    1
RHS
 RHS    r    3
BOUNDS
 UP BOUND    y    4
ENDATA
