/* Reproducer (public API only): NULL dereference in ILLheap_build when the
 * multiple partial pricing rule is selected.
 *   gcc -g -I$W -I$W/qsopt_ex repro.c $W/.libs/libqsopt_ex.a -lgmp -lz -lbz2 -lm -lpthread -o repro
 *   ./repro        -> SIGSEGV in the unchanged tree
 */
#include <stdio.h>
#include <stdlib.h>
#include <gmp.h>
#include "QSopt_ex.h"

static mpq_QSprob p;
static mpq_t a, b, c, v[4];

static void col (int obj, const char *lo, const char *up)
{
	mpq_set_si (a, obj, 1);
	if (lo) mpq_set_str (b, lo, 10); else mpq_set (b, mpq_ILL_MINDOUBLE);
	if (up) mpq_set_str (c, up, 10); else mpq_set (c, mpq_ILL_MAXDOUBLE);
	mpq_QSnew_col (p, a, b, c, NULL);
}

static void row (char sense, const char *rhs, const char *range, int k, int i0, int v0)
{
	int ind[1];
	ind[0] = i0;
	mpq_set_si (v[0], v0, 1);
	mpq_set_str (a, rhs, 10);
	mpq_canonicalize (a);
	mpq_set_str (b, range, 10);
	if (sense == 'R')
		mpq_QSadd_ranged_row (p, k, ind, (const mpq_t *) v, &a, 'R', &b, NULL);
	else
		mpq_QSadd_row (p, k, ind, (const mpq_t *) v, &a, sense, NULL);
}

int main (void)
{
	int status = 0, rval, i, ind[3] = { 0, 1, 4 };

	QSexactStart ();
	QSexact_set_precision (128);
	mpq_init (a); mpq_init (b); mpq_init (c);
	for (i = 0; i < 4; i++) mpq_init (v[i]);

	p = mpq_QScreate_prob ("pp", QS_MIN);
	col (3, "0", "1");                 /* x0 in [0,1],   obj 3 */
	col (2, "-4", NULL);               /* x1 >= -4,      obj 2 */
	row ('R', "7/2", "1", 1, 1, 3);    /* 7/2 <= 3 x1 <= 9/2 */
	row ('G', "7/3", "1", 1, 1, -3);   /* -3 x1 >= 7/3 */
	row ('R', "4", "2", 1, 0, 2);      /* 4 <= 2 x0 <= 6 */
	row ('G', "0", "4", 0, 0, 0);      /* empty row: 0 >= 0 */
	row ('G', "7/3", "2", 1, 1, -3);   /* -3 x1 >= 7/3 */
	/* free column x2, obj -5, entries in rows 0, 1, 4 */
	mpq_set_si (v[0], 1, 1); mpq_set_si (v[1], 1, 1); mpq_set_si (v[2], 4, 1);
	mpq_set_si (a, -5, 1);
	mpq_set (b, mpq_ILL_MINDOUBLE); mpq_set (c, mpq_ILL_MAXDOUBLE);
	mpq_QSadd_col (p, 3, ind, v, a, b, c, "v8");

	rval = mpq_QSset_param (p, QS_PARAM_DUAL_PRICING, QS_PRICE_DMULTPARTIAL);
	printf ("set_param rval=%d\n", rval);
	rval = mpq_QSopt_primal (p, &status);
	printf ("primal: rval=%d status=%d\n", rval, status);
	mpq_set_si (a, 0, 1);
	mpq_QSchange_coef (p, 1, 2, a);
	rval = mpq_QSopt_dual (p, &status);      /* crashes here */
	printf ("dual: rval=%d status=%d\n", rval, status);
	mpq_QSfree_prob (p);
	QSexactClear ();
	return 0;
}
