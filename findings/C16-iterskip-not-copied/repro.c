/* QSset_reporter (p, skip, fct, dest) stores fct/dest in p->qslp->reporter and
 * skip in p->lp->iterskip.  QScopy_prob copies the reporter but not iterskip:
 * the copy calls the same callback with the default period (100). */
#include <stdio.h>
#include <stdlib.h>
#include <string.h>
#include <gmp.h>
#include "qsopt_ex/QSopt_ex.h"

static int ncalls, nlines;
static int cb (void *dest, const char *s)
{
	(void) dest;
	ncalls++;
	if (s) nlines++;
	return 0;
}

#define N 40
int main (void)
{
	mpq_QSprob p, q;
	mpq_t o, l, u, v[N], rhs;
	int i, j, ind[N], st, c0, l0;
	QSexactStart ();
	mpq_init (o); mpq_init (l); mpq_init (u); mpq_init (rhs);
	p = mpq_QScreate_prob ("rep", QS_MAX);
	for (j = 0; j < N; j++)
	{
		mpq_set_si (o, 1 + (j * 7) % 5, 1); mpq_set_si (l, 0, 1); mpq_set_si (u, 10, 1);
		mpq_QSnew_col (p, o, l, u, 0);
		mpq_init (v[j]);
		ind[j] = j;
	}
	for (i = 0; i < N; i++)
	{
		for (j = 0; j < N; j++)
			mpq_set_si (v[j], 1 + ((i + 1) * (j + 3)) % 7, 1);
		mpq_set_si (rhs, 100 + i, 1);
		mpq_QSadd_row (p, N, ind, (const mpq_t *) v, (const mpq_t *) &rhs, 'L', 0);
	}
	mpq_QSset_param (p, QS_PARAM_SIMPLEX_DISPLAY, 1);
	mpq_QSset_param (p, QS_PARAM_SIMPLEX_SCALING, 0);
	mpq_QSset_reporter (p, 1, (void *) cb, 0);	/* report every iteration */
	q = mpq_QScopy_prob (p, "copy");

	ncalls = nlines = 0;
	mpq_QSopt_primal (p, &st);
	c0 = ncalls; l0 = nlines;
	printf ("original: status %d, callback called %d times, %d lines\n", st, c0, l0);
	ncalls = nlines = 0;
	mpq_QSopt_primal (q, &st);
	printf ("copy    : status %d, callback called %d times, %d lines\n", st, ncalls, nlines);
	return !(c0 == ncalls && l0 == nlines);
}
