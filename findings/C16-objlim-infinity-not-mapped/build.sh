#!/bin/sh
# usage: sh build.sh <worktree> <dir>   -- compiles <dir>/repro.c and runs it inside <dir>
W=${1:?worktree}; D=${2:?dir}
cd "$D" || exit 99
cc -O1 -g -o repro repro.c -I"$W" -I"$W/qsopt_ex" "$W/.libs/libqsopt_ex.a" -lgmp -lz -lbz2 -lm -lpthread || exit 98
./repro 2>repro.err
