/* The default (infinite) objective limits of a rational problem are not
 * mapped to the infinity of the target type by QScopy_prob_mpq_dbl /
 * QScopy_prob_mpq_mpf. */
#include <stdio.h>
#include "QSopt_ex.h"
#include "except.h"
int main (void)
{
	mpq_QSdata *p;
	dbl_QSdata *d, *d0;
	mpf_QSdata *f;
	double u, l, u0;
	mpf_t fu;
	mpq_t one;
	int bad;
	QSexactStart ();
	QSexact_set_precision (128);
	mpq_init (one);
	mpq_set_ui (one, 1, 1);
	p = mpq_QScreate_prob ("p", QS_MIN);
	mpq_QSnew_col (p, one, one, mpq_ILL_MAXDOUBLE, "x");
	d = QScopy_prob_mpq_dbl (p, "d");
	f = QScopy_prob_mpq_mpf (p, "f");
	d0 = dbl_QScreate_prob ("fresh", QS_MIN);
	dbl_QSget_param_EGlpNum (d, QS_PARAM_OBJULIM, &u);
	dbl_QSget_param_EGlpNum (d, QS_PARAM_OBJLLIM, &l);
	dbl_QSget_param_EGlpNum (d0, QS_PARAM_OBJULIM, &u0);
	mpf_init (fu);
	mpf_QSget_param_EGlpNum (f, QS_PARAM_OBJULIM, &fu);
	printf ("dbl_ILL_MAXDOUBLE        = %.17g\n", dbl_ILL_MAXDOUBLE);
	printf ("fresh dbl problem OBJULIM= %.17g\n", u0);
	printf ("dbl copy OBJULIM         = %.17g  (infinite? %d)\n", u,
					u == dbl_ILL_MAXDOUBLE);
	printf ("dbl copy OBJLLIM         = %.17g  (infinite? %d)\n", l,
					l == dbl_ILL_MINDOUBLE);
	printf ("mpf copy OBJULIM infinite? %d\n",
					mpf_cmp (fu, mpf_ILL_MAXDOUBLE) == 0);
	printf ("dbl copy upper bound of x infinite? %d (bounds are mapped)\n",
					({ double b; dbl_QSget_bound (d, 0, 'U', &b); b == dbl_ILL_MAXDOUBLE; }));
	bad = !(u == dbl_ILL_MAXDOUBLE) || !(l == dbl_ILL_MINDOUBLE)
		|| mpf_cmp (fu, mpf_ILL_MAXDOUBLE) != 0;
	mpf_clear (fu);
	mpq_clear (one);
	dbl_QSfree_prob (d); dbl_QSfree_prob (d0); mpf_QSfree_prob (f);
	mpq_QSfree_prob (p);
	QSexactClear ();
	return bad;
}
