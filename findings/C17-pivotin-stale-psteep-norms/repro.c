/* Pre-existing defect (unchanged tree): mpq_QSopt_pivotin_row updates primal
 * steepest-edge norms that were sized for the column count of an EARLIER
 * solve.  Public API calls only.
 *
 *   max x0 + 2 x1 + 3 x2   s.t.  row i:  sum_j a_ij x_j <= 10,  0 <= x <= 4
 *   1. scaling off, mpq_QSopt_primal (default primal pricing: steepest edge ->
 *                                   p->pricing->psinfo.norms has nnbasic entries)
 *   2. mpq_QSadd_col x 6           (factorization is kept: factorok stays 1,
 *                                   the pricing structure is kept too)
 *   3. dual pricing := Dantzig, mpq_QSopt_dual   (continues from the kept
 *                                   factorization, keeps p->pricing: the primal
 *                                   norms still have the OLD length)
 *   4. mpq_QSopt_pivotin_row       (no dual steepest-edge norms -> falls into the
 *                                   primal steepest-edge branch -> indexes the
 *                                   old array with the new non-basic indices)
 */
#include <stdio.h>
#include <stdlib.h>
#include <gmp.h>
#include "QSopt_ex.h"

#define M 3
int main (void)
{
	mpq_QSprob p;
	mpq_t lo, up, ob, rhs, val[M];
	int i, j, st = 0, rval, ind[M], r;

	QSexactStart ();
	QSexact_set_precision (128);
	mpq_init (lo); mpq_init (up); mpq_init (ob); mpq_init (rhs);
	for (i = 0; i < M; i++) mpq_init (val[i]);
	mpq_set_si (lo, 0, 1); mpq_set_si (up, 4, 1); mpq_set_si (rhs, 10, 1);
	p = mpq_QScreate_prob ("obs", QS_MAX);
	for (j = 0; j < 3; j++) { mpq_set_si (ob, j + 1, 1); mpq_QSnew_col (p, ob, lo, up, NULL); }
	for (i = 0; i < M; i++)
	{
		for (j = 0; j < 3; j++) { ind[j] = j; mpq_set_si (val[j], 1 + ((i + j) % 3), 1); }
		mpq_QSadd_row (p, 3, ind, (const mpq_t *) val, (const mpq_t *) &rhs, 'L', NULL);
	}
	mpq_QSset_param (p, QS_PARAM_SIMPLEX_SCALING, 0);
	rval = mpq_QSopt_primal (p, &st);
	printf ("primal: rval %d status %d\n", rval, st);
	for (j = 0; j < 6; j++)
	{
		for (i = 0; i < M; i++) { ind[i] = i; mpq_set_si (val[i], 1 + ((i + 2 * j) % 4), 1); }
		mpq_set_si (ob, 1, 1);
		rval = mpq_QSadd_col (p, M, ind, val, ob, lo, up, NULL);
		if (rval) printf ("add_col rval %d\n", rval);
	}
	mpq_QSset_param (p, QS_PARAM_DUAL_PRICING, QS_PRICE_DDANTZIG);
	rval = mpq_QSopt_dual (p, &st);
	printf ("dual after add_col: rval %d status %d\n", rval, st);
	{
		char cs[16], rsx[8];
		mpq_QSget_basis_array (p, cs, rsx);
		printf ("cstat:"); for (j = 0; j < 9; j++) printf (" %d", cs[j]);
		printf ("  rstat:"); for (i = 0; i < M; i++) printf (" %d", rsx[i]);
		printf ("\n");
	}
	for (r = 0; r < M; r++)
	{
		rval = mpq_QSopt_pivotin_row (p, 1, &r);
		printf ("pivotin_row %d: rval %d\n", r, rval);
	}
	mpq_QSfree_prob (p);
	QSexactClear ();
	printf ("done\n");
	return 0;
}
