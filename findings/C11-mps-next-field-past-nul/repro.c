/* Pre-existing defect (unchanged tree): ILLmps_next_field steps over the
 * terminating NUL of the line buffer when the field it returns is the last
 * thing in the buffer, i.e. on a final line that has no '\n'.
 *
 *   read_mps.c:188-191
 *       if (sscanf (state->p, "%s", state->field) == 1)
 *       {
 *           state->p += strlen (state->field) + 1;
 *
 * The "+ 1" is meant to skip the blank / newline behind the field.  When the
 * field is followed directly by '\0' (last line of a file without trailing
 * newline) state->p ends up one past the terminator, and everything that
 * looks at the rest of the line afterwards (mps_skip_comment, get_double,
 * ILLmps_check_end_of_line, ILLmps_next_bound ...) reads what an earlier,
 * longer line left in the buffer - or, if no longer line was read before,
 * bytes of the on-stack state that were never written.
 *
 * Two effects are shown:
 *  (a) stale.mps : the last line is " UP BND x" (a bound without a value).
 *      With a trailing newline the file is refused ("Missing/Bad bound
 *      field"); without it the reader takes the "5" that the previous line
 *      " UP BND y 5" left at that offset and returns a problem in which x has
 *      the upper bound 5 - data that is not in the file.
 *  (b) uninit.mps : "NAME t\nROWS\n N  objective" - the residue lies beyond
 *      anything written so far; valgrind reports conditional jumps on
 *      uninitialised values in mps_skip_comment / ILLmps_check_end_of_line.
 *
 * The basis-file reader (lib.c, ILLlib_readbasis) uses the same scanner.
 */
#include <stdio.h>
#include <string.h>
#include <gmp.h>
#include "QSopt_ex.h"

static void put (const char *name, const char *text)
{
	FILE *f = fopen (name, "w");

	fputs (text, f);
	fclose (f);
}

static int show (const char *name)
{
	mpq_QSprob p = mpq_QSread_prob (name, "MPS");
	mpq_t up;
	int i, n, got5 = 0;

	if (!p)
	{
		printf ("%s: refused\n", name);
		return 0;
	}
	mpq_init (up);
	n = mpq_QSget_colcount (p);
	for (i = 0; i < n; i++)
	{
		mpq_QSget_bound (p, i, 'U', &up);
		gmp_printf ("%s: column %d upper bound %Qd\n", name, i, up);
		if (i == 0 && mpq_cmp_ui (up, 5UL, 1UL) == 0)
			got5 = 1;
	}
	mpq_clear (up);
	mpq_QSfree_prob (p);
	return got5;
}

#define BODY \
	"NAME          stale\n" \
	"ROWS\n" \
	" N  obj\n" \
	" L  c1\n" \
	"COLUMNS\n" \
	"    x         obj       1.0   c1   1.0\n" \
	"    y         obj       1.0   c1   1.0\n" \
	"RHS\n" \
	"    RHS       c1        10.0\n" \
	"BOUNDS\n" \
	" UP BND y 5\n" \
	" UP BND x"

int main (void)
{
	int bad;

	QSexactStart ();
	put ("stale_nl.mps", BODY "\n");
	put ("stale.mps", BODY);
	put ("uninit.mps", "NAME t\nROWS\n N  objective");
	show ("stale_nl.mps");				/* refused: the bound value is missing */
	bad = show ("stale.mps");			/* accepted, x <= 5 out of thin air    */
	show ("uninit.mps");					/* valgrind: uninitialised reads       */
	QSexactClear ();
	printf (bad ? "DEFECT: x got the bound of the previous line\n" : "ok\n");
	return bad;
}
