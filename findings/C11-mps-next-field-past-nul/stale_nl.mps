NAME          stale
ROWS
 N  obj
 L  c1
COLUMNS
    x         obj       1.0   c1   1.0
    y         obj       1.0   c1   1.0
RHS
    RHS       c1        10.0
BOUNDS
 UP BND y 5
 UP BND x
