NAME t
ROWS
 N  objective