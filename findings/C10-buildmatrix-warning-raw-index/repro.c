/* MPS: a column with two coefficients in the same row, preceded by columns that
 * only occur in a non objective N row.  The "Multiple coefficients" warning
 * indexes lp->colnames with the raw column index: heap read out of bounds
 * (run under valgrind).  Public API only. */
#include <stdio.h>
#include "QSopt_ex.h"
int main (void)
{
	FILE *f = fopen ("dup.mps", "w");
	mpq_QSprob p;

	fputs ("NAME dup\nROWS\n N cost\n N other\n L r1\nCOLUMNS\n"
				 "    u1  other  1\n    u2  other  1\n    u3  other  1\n    u4  other  1\n"
				 "    x   cost   1   r1  1/3\n    x   r1     2/3\n" "RHS\n    rhs r1 4\nENDATA\n", f);
	fclose (f);
	QSexactStart ();
	p = mpq_QSread_prob ("dup.mps", "MPS");
	printf ("%s\n", p ? "read" : "rejected");
	if (p)
		mpq_QSfree_prob (p);
	QSexactClear ();
	return 0;
}
