/* a problem with an SOS set is read, a column is deleted, the problem is written: the set still refers to the old column numbers */
#include <stdio.h>
#include <stdlib.h>
#include "QSopt_ex.h"
#include "except.h"
int main (void)
{
	mpq_QSdata *p;
	int rval, del[2] = {0, 1};
	QSexactStart ();
	p = mpq_QSread_prob ("sos3.mps", "MPS");
	if (!p)
		return 2;
	rval = mpq_QSdelete_cols (p, 2, del);        /* w and x go: y, z are columns 0 and 1 now */
	printf ("delete: %d, columns left %d\n", rval, mpq_QSget_colcount (p));
	rval = mpq_QSwrite_prob (p, "after.mps", "MPS");
	printf ("write: %d\n", rval);
	mpq_QSfree_prob (p);
	QSexactClear ();
	return system ("cat after.mps");
}
