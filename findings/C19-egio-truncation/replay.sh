#!/bin/sh
# EGioPrintf / EGioWrite format into a 4096-byte stack buffer and ignore truncation: any single output line of 4096 characters or
# more loses its tail (and its newline).  A solution value / coefficient of more than ~4090 digits is written wrong.
W=${1:-/tmp/seed/R}
D=$(mktemp -d /var/tmp/egio-XXXX)
python3 - "$D" <<'PY'
import sys
d=sys.argv[1]
from math import gcd
n = int("7" + "3"*2600); q = int("9" + "1"*2600 + "7")
g = gcd(n, q); n //= g; q //= g
big = "%d/%d" % (n, q)                      # a value of ordinary size (about 0.8) whose exact fraction needs ~5200 characters
open(d+"/big.lp","w").write("Minimize\n obj: x + y\nSubject To\n c1: x >= %s\n c2: y >= 2\nEnd\n" % big)
open(d+"/expect.txt","w").write(big)
PY
"$W/esolver/esolver" -O "$D/big.sol" "$D/big.lp" >/dev/null 2>&1; echo "esolver exit=$?"
python3 - "$D" <<'PY'
import sys,re
d=sys.argv[1]
big=open(d+"/expect.txt").read()
s=open(d+"/big.sol").read()
m=re.search(r"^x = ([0-9/]+)", s, re.M)
print("status line:", s.splitlines()[0])
print("characters of x expected %d, written %d, equal: %s" % (len(big), len(m.group(1)) if m else -1, bool(m) and m.group(1)==big))
print("y listed:", bool(re.search(r"^y = 2$", s, re.M)))
sys.exit(0 if (m and m.group(1)==big and re.search(r"^y = 2$", s, re.M)) else 1)
PY
rc=$?; rm -rf "$D"; exit $rc
