/* Reproducer (public API only): QSget_basis_order / QSget_binv_row /
 * QSget_tableau_row after a successful QSexact_solver.
 * LP = the one of tests/test_qs.c:
 *   max 3x + 2y + 4z  s.t. 3x + 2y + z <= 12, 5x + y = 10, x >= 2, y free, 1 <= z <= 10
 */
#include <stdio.h>
#include <stdlib.h>
#include <gmp.h>
#include "QSopt_ex.h"

int main (int ac, char **av)
{
	int i, rval, status = 0, which = ac > 1 ? atoi (av[1]) : 0;
	int cmatcnt[3] = { 2, 2, 1 }, cmatbeg[3] = { 0, 2, 4 }, cmatind[5] = { 0, 1, 0, 1, 0 };
	char sense[2] = { 'L', 'E' };
	const char *cn[3] = { "x", "y", "z" }, *rn[2] = { "c1", "c2" };
	mpq_t val[5], obj[3], rhs[2], lo[3], up[3], row[5];
	int order[2];
	mpq_QSprob p;

	QSexactStart ();
	QSexact_set_precision (128);
	for (i = 0; i < 5; i++) { mpq_init (val[i]); mpq_init (row[i]); }
	for (i = 0; i < 3; i++) { mpq_init (obj[i]); mpq_init (lo[i]); mpq_init (up[i]); }
	for (i = 0; i < 2; i++) mpq_init (rhs[i]);
	mpq_set_si (val[0], 3, 1); mpq_set_si (val[1], 5, 1); mpq_set_si (val[2], 2, 1);
	mpq_set_si (val[3], 1, 1); mpq_set_si (val[4], 1, 1);
	mpq_set_si (obj[0], 3, 1); mpq_set_si (obj[1], 2, 1); mpq_set_si (obj[2], 4, 1);
	mpq_set_si (rhs[0], 12, 1); mpq_set_si (rhs[1], 10, 1);
	mpq_set_si (lo[0], 2, 1); mpq_set (lo[1], mpq_ILL_MINDOUBLE); mpq_set_si (lo[2], 1, 1);
	mpq_set (up[0], mpq_ILL_MAXDOUBLE); mpq_set (up[1], mpq_ILL_MAXDOUBLE); mpq_set_si (up[2], 10, 1);
	p = mpq_QSload_prob ("small", 3, 2, cmatcnt, cmatbeg, cmatind, val, QS_MAX, obj, rhs, sense, lo, up, cn, rn);
	if (!p) return 2;

	rval = QSexact_solver (p, NULL, NULL, NULL, DUAL_SIMPLEX, &status);
	printf ("QSexact_solver: rval=%d status=%d\n", rval, status);
	fflush (stdout);
	if (which == 0)
	{
		rval = mpq_QSget_basis_order (p, order);
		printf ("QSget_basis_order: rval=%d order = %d %d ...\n", rval, order[0], order[1]);
	}
	else if (which == 1)
	{
		rval = mpq_QSget_binv_row (p, 0, row);
		printf ("QSget_binv_row: rval=%d\n", rval);
	}
	else
	{
		rval = mpq_QSget_tableau_row (p, 0, row);
		printf ("QSget_tableau_row: rval=%d\n", rval);
	}
	mpq_QSfree_prob (p);
	QSexactClear ();
	return 0;
}
