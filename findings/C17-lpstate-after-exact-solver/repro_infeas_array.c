/* Reproducer (public API only): mpq_QSget_infeas_array after QSexact_solver has
 * reported QS_LP_INFEASIBLE.
 *   mode 0: fresh problem            -> decision on uninitialised lp->basisstat
 *   mode 1: problem solved before by the rational simplex, then shrunk
 *                                     -> heap overflow in the caller's array
 *   min x, x >= 0;  r0: x >= 2, r1: x <= 1 (infeasible) [, r2..r4: x <= 5,6,7]
 */
#include <stdio.h>
#include <stdlib.h>
#include <gmp.h>
#include "QSopt_ex.h"

int main (int ac, char **av)
{
	int mode = ac > 1 ? atoi (av[1]) : 0, i, rval, status = 0, nr;
	int ind[1] = { 0 }, del[3] = { 2, 3, 4 };
	mpq_t c, l, u, v[1], rhs, *y;
	mpq_QSprob p;

	QSexactStart ();
	QSexact_set_precision (128);
	mpq_init (c); mpq_init (l); mpq_init (u); mpq_init (v[0]); mpq_init (rhs);
	p = mpq_QScreate_prob ("inf", QS_MIN);
	mpq_set_si (c, 1, 1); mpq_set (u, mpq_ILL_MAXDOUBLE);
	mpq_QSnew_col (p, c, l, u, "x");
	mpq_set_si (v[0], 1, 1);
	mpq_set_si (rhs, 2, 1); mpq_QSadd_row (p, 1, ind, (const mpq_t *) v, &rhs, 'G', "r0");
	mpq_set_si (rhs, 1, 1); mpq_QSadd_row (p, 1, ind, (const mpq_t *) v, &rhs, 'L', "r1");
	if (mode == 1)
	{
		for (i = 0; i < 3; i++)
		{
			mpq_set_si (rhs, 5 + i, 1);
			mpq_QSadd_row (p, 1, ind, (const mpq_t *) v, &rhs, 'L', NULL);
		}
		rval = mpq_QSopt_dual (p, &status);
		printf ("QSopt_dual (5 rows): rval=%d status=%d\n", rval, status);
		rval = mpq_QSdelete_rows (p, 3, del);
		printf ("QSdelete_rows: rval=%d rows=%d\n", rval, mpq_QSget_rowcount (p));
	}
	rval = QSexact_solver (p, NULL, NULL, NULL, DUAL_SIMPLEX, &status);
	printf ("QSexact_solver: rval=%d status=%d\n", rval, status);
	mpq_QSget_status (p, &status);
	printf ("QSget_status: %d (QS_LP_INFEASIBLE=%d)\n", status, QS_LP_INFEASIBLE);
	fflush (stdout);
	nr = mpq_QSget_rowcount (p);
	y = malloc (nr * sizeof (mpq_t));
	for (i = 0; i < nr; i++) mpq_init (y[i]);
	rval = mpq_QSget_infeas_array (p, y);
	printf ("QSget_infeas_array: rval=%d\n", rval);
	for (i = 0; i < nr; i++) mpq_clear (y[i]);
	free (y);
	mpq_QSfree_prob (p);
	QSexactClear ();
	return 0;
}
