/* QScompute_row_norms / QSopt_pivotin_row on a problem whose own simplex never ran (public API only).
 * argv[1]: 0 = QScompute_row_norms, 1 = QSopt_pivotin_row, 2 = QSopt_pivotin_col */
#include <stdio.h>
#include <stdlib.h>
#include "QSopt_ex.h"
int main (int argc, char **argv)
{
	int mode = argc > 1 ? atoi (argv[1]) : 0, rval, ind[2] = { 0, 1 }, one[1] = { 0 };
	mpq_t v[2], rhs, obj, lo, up;
	mpq_QSprob p;
	QSexactStart ();
	mpq_init (v[0]); mpq_init (v[1]); mpq_init (rhs); mpq_init (obj); mpq_init (lo); mpq_init (up);
	p = mpq_QScreate_prob ("fresh", QS_MIN);
	mpq_set_si (obj, 1, 1); mpq_set_si (lo, 0, 1); mpq_set (up, mpq_ILL_MAXDOUBLE);
	mpq_QSnew_col (p, obj, lo, up, "x");
	mpq_QSnew_col (p, obj, lo, up, "y");
	mpq_set_si (v[0], 1, 1); mpq_set_si (v[1], 1, 1); mpq_set_si (rhs, 2, 1);
	mpq_QSadd_row (p, 2, ind, (const mpq_t *) v, &rhs, 'G', "r");
	if (mode == 0) rval = mpq_QScompute_row_norms (p);
	else if (mode == 1) rval = mpq_QSopt_pivotin_row (p, 1, one);
	else rval = mpq_QSopt_pivotin_col (p, 1, one);
	printf ("mode %d rval=%d\n", mode, rval);
	mpq_QSfree_prob (p);
	QSexactClear ();
	return 0;
}
