/* usage: repro MPS|LP [lower upper].  Column "e" has objective coefficient 0
 * and no entry in any row.  With default bounds it is silently missing from
 * the written file; with other bounds the file has a bound record for a column
 * it never declares and the reader rejects it.
 * exit 0 = round trip fine, 1 = defect shown */
#include <stdio.h>
#include <string.h>
#include <gmp.h>
#include "QSopt_ex.h"
int main (int ac, char **av)
{
	const char *fmt = ac > 1 ? av[1] : "MPS";
	mpq_QSprob p, q; mpq_t o, l, u, v, rhs; int ind = 0;
	QSexactStart ();
	mpq_init (o); mpq_init (l); mpq_init (u); mpq_init (v); mpq_init (rhs);
	p = mpq_QScreate_prob ("empty", QS_MIN);
	mpq_set_si (o, 1, 1); mpq_set_si (u, 10, 1);
	mpq_QSnew_col (p, o, l, u, "x");
	mpq_set_si (o, 0, 1);
	if (ac > 3) { mpq_set_str (l, av[2], 10); mpq_set_str (u, av[3], 10); }
	else { mpq_set_si (l, 0, 1); mpq_set (u, mpq_ILL_MAXDOUBLE); }
	mpq_QSnew_col (p, o, l, u, "e");
	mpq_set_si (v, 1, 1); mpq_set_si (rhs, 1, 1);
	mpq_QSadd_row (p, 1, &ind, (const mpq_t *) &v, (const mpq_t *) &rhs, 'G', "r");
	if (mpq_QSwrite_prob (p, "empty.out", fmt)) return 2;
	q = mpq_QSread_prob ("empty.out", fmt);
	if (!q) { printf ("%s: file REJECTED by the reader\n", fmt); return 1; }
	printf ("%s: %d columns written from, %d columns read back\n", fmt, mpq_QSget_colcount (p), mpq_QSget_colcount (q));
	return mpq_QSget_colcount (p) != mpq_QSget_colcount (q);
}
