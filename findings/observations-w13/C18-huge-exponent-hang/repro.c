/* A 12 character number in an LP (or MPS) text keeps the reader busy for
 * hours and makes it allocate without bound: the exponent is expanded by
 * repeated multiplication by 10.  Public API calls only.  The alarm is the
 * only way out: exit status 0 = the read returned within 20 s. */
#include <stdio.h>
#include <stdlib.h>
#include <string.h>
#include <signal.h>
#include <unistd.h>
#include <gmp.h>
#include "QSopt_ex.h"

struct src { const char *s; };
static char *gets_str (char *buf, int size, void *v)
{
	struct src *src = (struct src *) v; int n = 0;
	if (!*src->s) return NULL;
	while (*src->s && n < size - 1) { buf[n++] = *src->s; if (*src->s++ == '\n') break; }
	buf[n] = 0; return buf;
}
static void on_alarm (int sig) { (void) sig; write (1, "still reading after 20 s: HANG\n", 31); _exit (3); }

int main (void)
{
	struct src src = { "Minimize\n obj: x\nSubject To\n c1: x >= 1\nBounds\n x <= 1e999999990\nEnd\n" };
	mpq_QSline_reader lr; mpq_QSprob p;
	QSexactStart (); QSexact_set_precision (128);
	signal (SIGALRM, on_alarm); alarm (20);
	lr = mpq_QSline_reader_new ((void *) gets_str, &src);
	p = mpq_QSget_prob (lr, "p", "LP");
	printf ("read returned: %s\n", p ? "problem" : "NULL");
	if (p) mpq_QSfree_prob (p);
	mpq_QSline_reader_free (lr);
	QSexactClear ();
	return 0;
}
