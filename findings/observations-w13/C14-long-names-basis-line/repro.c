/* A basis line " XL <column> <row>" longer than the reader's line buffer
 * (ILL_namebufsize - 2 = 131070 characters) cannot be read back, although
 * each of the two names is a valid name for the library (a name may have up
 * to ILL_namebufsize - 1 = 131071 characters, ILLlib_findName).
 *
 * usage: repro [len]     (length of each of the names, default 65540)
 * exit 0: the basis came back;  exit 1: QSread_basis failed / differs */
#include <stdio.h>
#include <stdlib.h>
#include <string.h>
#include <gmp.h>
#include "QSopt_ex.h"

int main (int ac, char **av)
{
	int L = ac > 1 ? atoi (av[1]) : 65540, ind[1] = { 0 }, bad = 0;
	char *cn = malloc ((size_t) L + 1), *rn = malloc ((size_t) L + 1);
	char cs[2] = { QS_COL_BSTAT_BASIC, 0 }, rs[2] = { QS_ROW_BSTAT_LOWER, 0 };
	QSbasis B = { 1, 1, cs, rs }, *R;
	mpq_QSprob p;
	mpq_t one, zero, ten, v[1];

	QSexactStart ();
	mpq_init (one); mpq_init (zero); mpq_init (ten); mpq_init (v[0]);
	mpq_set_si (one, 1, 1); mpq_set_si (ten, 10, 1); mpq_set_si (v[0], 1, 1);
	memset (cn, 'a', (size_t) L); cn[0] = 'x'; cn[L] = 0;
	memset (rn, 'a', (size_t) L); rn[0] = 'c'; rn[L] = 0;

	p = mpq_QScreate_prob ("longnames", QS_MIN);
	if (mpq_QSnew_row (p, ten, 'L', rn) ||
			mpq_QSadd_col (p, 1, ind, v, one, zero, ten, cn))
	{
		printf ("cannot build the problem\n");
		return 2;
	}
	if (mpq_QSwrite_basis (p, &B, "long.bas"))
	{
		printf ("QSwrite_basis failed\n");
		return 1;
	}
	R = mpq_QSread_basis (p, "long.bas");
	if (!R)
	{
		printf ("name length %d: QSread_basis FAILED on the file QSwrite_basis wrote\n", L);
		bad = 1;
	}
	else
	{
		if (R->cstat[0] != cs[0] || R->rstat[0] != rs[0])
		{
			printf ("name length %d: basis differs (%c/%c)\n", L, R->cstat[0], R->rstat[0]);
			bad = 1;
		}
		else
			printf ("name length %d: ok\n", L);
		mpq_QSfree_basis (R);
	}
	mpq_QSfree_prob (p);
	QSexactClear ();
	return bad;
}
