#!/bin/sh
WT=${1:?usage: sh run.sh <worktree>}
cd "$(dirname "$0")" || exit 2
cc -g -I"$WT" -I"$WT/qsopt_ex" -o repro repro.c "$WT/.libs/libqsopt_ex.a" -lgmp -lz -lbz2 -lm -lpthread || exit 2
./repro 65530 2>/dev/null
./repro 65540 2>/dev/null
