/* usage: repro <digits>.  One coefficient 1/(10^digits + 7).  The MPS writer
 * writes the line whole whatever its length; the MPS reader fetches lines with
 * a buffer of ILL_namebufsize - 2 = 131070 bytes, so a line longer than that
 * comes back in pieces and the file is rejected.
 * exit 0 = round trip fine, 1 = defect shown */
#include <stdio.h>
#include <stdlib.h>
#include <gmp.h>
#include "QSopt_ex.h"
int main (int ac, char **av)
{
	int nd = ac > 1 ? atoi (av[1]) : 140000, ind = 0;
	mpq_QSprob p, q; mpq_t o, l, u, v, rhs, *back = 0;
	QSexactStart ();
	mpq_init (o); mpq_init (l); mpq_init (u); mpq_init (v); mpq_init (rhs);
	p = mpq_QScreate_prob ("long", QS_MIN);
	mpq_set_ui (o, 1, 1); mpq_set_ui (u, 10, 1);
	mpq_QSnew_col (p, o, l, u, "x");
	mpz_ui_pow_ui (mpq_numref (v), 10, nd); mpz_add_ui (mpq_numref (v), mpq_numref (v), 7);
	mpq_inv (v, v);
	mpq_set_ui (rhs, 1, 1);
	mpq_QSadd_row (p, 1, &ind, (const mpq_t *) &v, (const mpq_t *) &rhs, 'L', "r");
	if (mpq_QSwrite_prob (p, "long.mps", "MPS")) return 2;
	q = mpq_QSread_prob ("long.mps", "MPS");
	if (!q) { printf ("%d digits: MPS REJECTED by the reader\n", nd); return 1; }
	mpq_init (rhs);
	if (mpq_QSget_coef (q, 0, 0, &o) || !mpq_equal (o, v)) { printf ("%d digits: coefficient differs\n", nd); return 1; }
	printf ("%d digits: read back equal\n", nd);
	(void) back;
	return 0;
}
