/* A column whose name starts with '$' (a legal LP-format name character, the LP
 * round trip of the same problem works) and that has a non-default bound:
 * the MPS file written by QSwrite_prob is rejected by QSread_prob.
 * exit 0 = round trip fine, 1 = defect shown */
#include <stdio.h>
#include <string.h>
#include <gmp.h>
#include "QSopt_ex.h"
int main (void)
{
	mpq_QSprob p, q;
	mpq_t o, l, u, v, rhs; int ind = 0, bad = 0;
	QSexactStart ();
	mpq_init (o); mpq_init (l); mpq_init (u); mpq_init (v); mpq_init (rhs);
	p = mpq_QScreate_prob ("dollar", QS_MIN);
	mpq_set_si (o, 1, 1); mpq_set_si (l, 1, 1); mpq_set_si (u, 5, 1);
	mpq_QSnew_col (p, o, l, u, "$x");
	mpq_set_si (v, 1, 1); mpq_set_si (rhs, 2, 1);
	mpq_QSadd_row (p, 1, &ind, (const mpq_t *) &v, (const mpq_t *) &rhs, 'G', "r");
	if (mpq_QSwrite_prob (p, "dollar.lp", "LP")) return 2;
	q = mpq_QSread_prob ("dollar.lp", "LP");
	printf ("LP  round trip: %s\n", q ? "read back" : "REJECTED");
	if (!q) bad = 1; else mpq_QSfree_prob (q);
	if (mpq_QSwrite_prob (p, "dollar.mps", "MPS")) return 2;
	q = mpq_QSread_prob ("dollar.mps", "MPS");
	printf ("MPS round trip: %s\n", q ? "read back" : "REJECTED");
	if (!q) bad = 1; else mpq_QSfree_prob (q);
	return bad;
}
