/* mpq_QSopt_primal / mpq_QSopt_dual report QS_LP_OPTIMAL for an LP that has a
 * column with lower bound > upper bound (an empty domain, i.e. an infeasible
 * LP); the x they hand out violates one of the two bounds.
 *
 *   min x + y   s.t.  x + y >= 2,   x >= 0,   5 <= y <= -1
 *
 * usage: repro [0|1|2]   0 = mpq_QSopt_primal, 1 = mpq_QSopt_dual,
 *                        2 = QSexact_solver (control: does not say OPTIMAL)
 * exit 1 when OPTIMAL is reported with y outside [lower, upper].
 */
#include <stdio.h>
#include <stdlib.h>
#include <gmp.h>
#include "QSopt_ex.h"

int main (int ac, char **av)
{
	int how = ac > 1 ? atoi (av[1]) : 0, st = 0, rval, ind[2] = { 0, 1 }, bad = 0;
	mpq_t a, b, c, val[2], rhs, x[2], lo[2], up[2];
	mpq_QSprob p;

	QSexactStart ();
	mpq_init (a); mpq_init (b); mpq_init (c); mpq_init (val[0]); mpq_init (val[1]); mpq_init (rhs);
	mpq_init (x[0]); mpq_init (x[1]); mpq_init (lo[0]); mpq_init (lo[1]); mpq_init (up[0]); mpq_init (up[1]);
	p = mpq_QScreate_prob ("empty", QS_MIN);
	mpq_set_si (c, 1, 1); mpq_set_si (a, 0, 1); mpq_set (b, mpq_ILL_MAXDOUBLE);
	mpq_QSnew_col (p, c, a, b, "x");
	mpq_set_si (c, 1, 1); mpq_set_si (a, 5, 1); mpq_set_si (b, -1, 1);	/* lower 5 > upper -1 */
	rval = mpq_QSnew_col (p, c, a, b, "y");
	printf ("QSnew_col with lower 5 > upper -1 returns %d\n", rval);
	mpq_set_si (val[0], 1, 1); mpq_set_si (val[1], 1, 1); mpq_set_si (rhs, 2, 1);
	mpq_QSadd_row (p, 2, ind, (const mpq_t *) val, (const mpq_t *) &rhs, 'G', "r");

	if (how == 0) rval = mpq_QSopt_primal (p, &st);
	else if (how == 1) rval = mpq_QSopt_dual (p, &st);
	else rval = QSexact_solver (p, 0, 0, 0, DUAL_SIMPLEX, &st);
	printf ("how %d: rval %d status %d (1 = QS_LP_OPTIMAL, 2 = INFEASIBLE, 6 = UNSOLVED)\n", how, rval, st);
	if (!rval && st == QS_LP_OPTIMAL)
	{
		mpq_QSget_x_array (p, x);
		mpq_QSget_bounds (p, lo, up);
		printf ("x = %g  y = %g   bounds of y: [%g, %g]\n", mpq_get_d (x[0]), mpq_get_d (x[1]),
						mpq_get_d (lo[1]), mpq_get_d (up[1]));
		if (mpq_cmp (x[1], lo[1]) < 0 || mpq_cmp (x[1], up[1]) > 0)
		{
			printf ("OPTIMAL reported, y violates a bound\n");
			bad = 1;
		}
	}
	mpq_QSfree_prob (p);
	QSexactClear ();
	return bad;
}
