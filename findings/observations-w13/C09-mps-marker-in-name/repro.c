/* A column whose name contains the text 'MARKER' between apostrophes (the
 * apostrophe is a legal LP-format name character; the LP round trip works):
 * every COLUMNS line of that column is taken for a marker line by the MPS
 * reader and the file written by QSwrite_prob is rejected.
 * exit 0 = round trip fine, 1 = defect shown */
#include <stdio.h>
#include <gmp.h>
#include "QSopt_ex.h"
int main (void)
{
	mpq_QSprob p, q; mpq_t o, l, u, v, rhs; int ind = 0, bad = 0;
	QSexactStart ();
	mpq_init (o); mpq_init (l); mpq_init (u); mpq_init (v); mpq_init (rhs);
	p = mpq_QScreate_prob ("marker", QS_MIN);
	mpq_set_si (o, 1, 1); mpq_set_si (u, 5, 1);
	mpq_QSnew_col (p, o, l, u, "a'MARKER'");
	mpq_set_si (v, 1, 1); mpq_set_si (rhs, 2, 1);
	mpq_QSadd_row (p, 1, &ind, (const mpq_t *) &v, (const mpq_t *) &rhs, 'G', "r");
	if (mpq_QSwrite_prob (p, "marker.lp", "LP")) return 2;
	q = mpq_QSread_prob ("marker.lp", "LP");
	printf ("LP  round trip: %s\n", q ? "read back" : "REJECTED");
	if (!q) bad = 1;
	if (mpq_QSwrite_prob (p, "marker.mps", "MPS")) return 2;
	q = mpq_QSread_prob ("marker.mps", "MPS");
	printf ("MPS round trip: %s\n", q ? "read back" : "REJECTED");
	if (!q) bad = 1;
	return bad;
}
