NAME    unnamed
OBJSENSE
  MIN
OBJNAME
  obj
ROWS
 N  obj
 G  c2
COLUMNS
  x    obj    1
  x    c2    1
  y    obj    1
  y    c2    1
RHS
 RHS    c2    2
ENDATA
