/* An LP file with a constraint that has no terms ("c1: >= 1") is accepted by
 * the reader (with a warning) and is infeasible (0 >= 1).  Writing the
 * returned problem (LP or MPS format) and reading the written file back gives
 * a feasible problem: both writers drop rows without coefficients, together
 * with their right hand side.
 * build: cc -I<wt> -I<wt>/qsopt_ex repro.c <wt>/.libs/libqsopt_ex.a -lgmp -lz -lbz2 -lm -lpthread
 * exit 0 iff original and written-and-reread problems have the same status */
#include <stdio.h>
#include <stdlib.h>
#include <gmp.h>
#include "qsopt_ex/QSopt_ex.h"

static void quiet (const char *s, void *d) { (void) s; (void) d; }

static int status_of (const char *fname, const char *type, const char *wname, const char *wtype)
{
	mpq_QSprob p = mpq_QSread_prob (fname, type);
	int status = -1;

	if (!p) return -1;
	if (wname && mpq_QSwrite_prob (p, wname, wtype)) { printf ("write failed\n"); }
	if (QSexact_solver (p, NULL, NULL, NULL, DUAL_SIMPLEX, &status)) status = -2;
	mpq_QSfree_prob (p);
	return status;
}

int main (void)
{
	FILE *f = fopen ("empty_row.lp", "w");
	int s0, s1, s2;

	fprintf (f, "Minimize\n obj: x + y\nSubject To\n c1: >= 1\n c2: x + y >= 2\nEnd\n");
	fclose (f);
	QSlog_set_handler (quiet, NULL);
	QSexactStart ();
	s0 = status_of ("empty_row.lp", "LP", "empty_row_w.lp", "LP");
	(void) status_of ("empty_row.lp", "LP", "empty_row_w.mps", "MPS");
	s1 = status_of ("empty_row_w.lp", "LP", NULL, NULL);
	s2 = status_of ("empty_row_w.mps", "MPS", NULL, NULL);
	printf ("status original=%d  rewritten LP=%d  rewritten MPS=%d   (1 = optimal, 2 = infeasible)\n", s0, s1, s2);
	QSexactClear ();
	return (s0 == s1 && s0 == s2) ? 0 : 1;
}
