/* mpq_QSwrite_basis reports success although not a byte of the basis could be
 * stored (ENOSPC at the flush done by fclose).  Public API only.
 * build: cc repro.c -I<wt> -I<wt>/qsopt_ex <wt>/.libs/libqsopt_ex.a -lgmp -lz -lbz2 -lm -lpthread
 * exit 1 = defect present (save to /dev/full returned 0 and logged nothing) */
#include <stdio.h>
#include "QSopt_ex.h"
static int nmsg = 0;
static void h (const char *m, void *d) { (void) d; nmsg++; fprintf (stdout, "handler: %s\n", m); }
int main (void)
{
	mpq_QSdata *p;
	mpq_t one, zero, rhs, v[1];
	int ind[1] = { 0 }, status = 0, rc;
	QSexactStart ();
	QSlog_set_handler (h, 0);
	p = mpq_QScreate_prob ("t", QS_MAX);
	mpq_init (one); mpq_init (zero); mpq_init (rhs); mpq_init (v[0]);
	mpq_set_si (one, 1, 1); mpq_set_si (rhs, 3, 1); mpq_set_si (v[0], 1, 1);
	mpq_QSnew_col (p, one, zero, mpq_ILL_MAXDOUBLE, "x");
	mpq_QSadd_row (p, 1, ind, (const mpq_t *) v, (const mpq_t *) &rhs, 'L', "r");
	QSexact_solver (p, 0, 0, 0, DUAL_SIMPLEX, &status);
	nmsg = 0;
	rc = mpq_QSwrite_basis (p, 0, "/dev/full");
	printf ("status %d, write_basis(/dev/full) = %d, %d message(s)\n", status, rc, nmsg);
	mpq_clear (one); mpq_clear (zero); mpq_clear (rhs); mpq_clear (v[0]);
	mpq_QSfree_prob (p);
	return (rc == 0 && nmsg == 0) ? 1 : 0;
}
