#include <stdio.h>
#include "QSopt_ex.h"
int main(){ QSexactStart(); mpq_QSprob p=mpq_QSread_prob("/tmp/rp/div1.lp","LP"); printf("read returned %p\n",(void*)p); return 0; }
