/* an unnamed objective takes the name "obj" even if a constraint has it */
#include "common.h"
static const char *TEXT =
	"Minimize\n x + y\nSubject To\n obj: x + y >= 2\n lim: x <= 5\nEnd\n";
int main (void)
{
	mpq_QSprob p;
	int bad = 0;

	QSexactStart ();
	write_text ("clash.lp", TEXT);
	p = mpq_QSread_prob ("clash.lp", "LP");
	printf ("unnamed objective + constraint called obj: %s\n", p ? "read" : "REJECTED");
	if (p) { show (p); mpq_QSfree_prob (p); } else bad = 1;
	QSexactClear ();
	return bad;
}
