#!/bin/sh
# usage: sh run.sh <worktree> ; exit 0 iff valgrind is clean
W="${1:?usage: sh run.sh <worktree>}"
D="$(cd "$(dirname "$0")" && pwd)"
cd "$D" || exit 2
cc -O1 -g -o repro repro.c -I"$W" -I"$W/qsopt_ex" "$W/.libs/libqsopt_ex.a" -lgmp -lz -lbz2 -lm -lpthread || exit 2
valgrind -q --error-exitcode=9 ./repro
