/* Uninitialised read in the LU update of a warm-started mpq_QSopt_primal.
 * Public API only.  Run under valgrind:
 *   valgrind -q --error-exitcode=9 ./repro        (explicit zero, as in the history)
 *   valgrind -q --error-exitcode=9 ./repro nozero (same LP without the stored zero)
 */
#include <stdio.h>
#include <stdlib.h>
#include <string.h>
#include <gmp.h>
#include "qsopt_ex/QSopt_ex.h"

int main (int ac, char **av)
{
	int nozero = ac > 1 && !strcmp (av[1], "nozero");
	int status = -1, rval, i;
	mpq_QSdata *p;
	mpq_t v, w, lo, up;
	mpq_t val[2];
	int ind[2];
	char cstat[2] = { QS_COL_BSTAT_LOWER, QS_COL_BSTAT_BASIC };
	char rstat[5] = { QS_ROW_BSTAT_LOWER, QS_ROW_BSTAT_BASIC, QS_ROW_BSTAT_BASIC,
		QS_ROW_BSTAT_BASIC, QS_ROW_BSTAT_BASIC
	};

	QSexactStart ();
	mpq_init (v); mpq_init (w); mpq_init (lo); mpq_init (up);
	mpq_init (val[0]); mpq_init (val[1]);
	p = mpq_QScreate_prob ("repro", QS_MIN);
	mpq_set_si (lo, -2, 1);
	mpq_set_si (v, 1, 1); mpq_set_si (up, 4, 1);
	mpq_QSnew_col (p, v, lo, up, "x1");
	mpq_set_si (v, -3, 2); mpq_set_si (up, 2, 1);
	mpq_QSnew_col (p, v, lo, up, "x2");

	ind[0] = 0; ind[1] = 1;
	/* c1: -x1 - x2 >= 1 */
	mpq_set_si (val[0], -1, 1); mpq_set_si (val[1], -1, 1); mpq_set_si (v, 1, 1);
	mpq_QSadd_row (p, 2, ind, (const mpq_t *) val, &v, 'G', "c1");
	/* c2: -2 x1 (+ 1 x2, zeroed below) >= -3 */
	mpq_set_si (val[0], -2, 1); mpq_set_si (val[1], 1, 1); mpq_set_si (v, -3, 1);
	mpq_QSadd_row (p, nozero ? 1 : 2, ind, (const mpq_t *) val, &v, 'G', "c2");
	/* c3: 3 x1 <= -3 */
	mpq_set_si (val[0], 3, 1); mpq_set_si (v, -3, 1);
	mpq_QSadd_row (p, 1, ind, (const mpq_t *) val, &v, 'L', "c3");
	/* c4: -3 x1 - 1/2 x2 = -3 */
	mpq_set_si (val[0], -3, 1); mpq_set_si (val[1], -1, 2); mpq_set_si (v, -3, 1);
	mpq_QSadd_row (p, 2, ind, (const mpq_t *) val, &v, 'E', "c4");
	/* c5: -x2 >= 3 */
	ind[0] = 1; mpq_set_si (val[0], -1, 1); mpq_set_si (v, 3, 1);
	mpq_QSadd_row (p, 1, ind, (const mpq_t *) val, &v, 'G', "c5");

	if (!nozero)
	{
		/* mpq_QSchange_coef (.., 0) keeps the entry and stores a zero */
		mpq_set_si (w, 0, 1);
		mpq_QSchange_coef (p, 1, 1, w);
	}
	mpq_QSset_param (p, QS_PARAM_SIMPLEX_DISPLAY, 0);
	rval = mpq_QSload_basis_array (p, cstat, rstat);
	printf ("load basis rval %d\n", rval);
	rval = mpq_QSopt_primal (p, &status);
	printf ("mpq_QSopt_primal rval %d status %d\n", rval, status);
	mpq_QSfree_prob (p);
	(void) i;
	QSexactClear ();
	return 0;
}
