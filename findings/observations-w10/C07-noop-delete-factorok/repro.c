/* mpq_QSdelete_rows (p, 0, ...) and (p, -1, ...) return 0, delete nothing, and
 * still clear the "simplex data are current" flag: mpq_QSget_tableau_row works
 * before and fails after.  mpq_QSdelete_cols with the same counts returns 0,
 * deletes nothing and drops the stored solution (status 1 -> 100).
 * exit 1 when the defect shows. */
#include "common.h"
int main(void)
{
    int status, k, bad = 0, num[2] = {0, -1};
    QSexactStart();
    for (k = 0; k < 2; k++) {
        mpq_QSprob p = load_small(); mpq_t row[5]; int i, b, a, r;
        for (i = 0; i < 5; i++) mpq_init(row[i]);
        if (mpq_QSopt_dual(p, &status) || status != QS_LP_OPTIMAL) return 2;
        b = mpq_QSget_tableau_row(p, 0, row);
        r = mpq_QSdelete_rows(p, num[k], NULL);
        a = mpq_QSget_tableau_row(p, 0, row);
        printf("QSdelete_rows(num=%d) rval=%d rows=%d; get_tableau_row before=%d after=%d\n", num[k], r, mpq_QSget_rowcount(p), b, a);
        if (a != b) bad = 1;
        for (i = 0; i < 5; i++) mpq_clear(row[i]);
        mpq_QSfree_prob(p);
    }
    for (k = 0; k < 2; k++) {
        mpq_QSprob p = load_small(); mpq_t x[3]; int i, b, a, r, sb = 0, sa = 0;
        for (i = 0; i < 3; i++) mpq_init(x[i]);
        if (mpq_QSopt_dual(p, &status) || status != QS_LP_OPTIMAL) return 2;
        b = mpq_QSget_x_array(p, x); mpq_QSget_status(p, &sb);
        r = mpq_QSdelete_cols(p, num[k], NULL);
        a = mpq_QSget_x_array(p, x); mpq_QSget_status(p, &sa);
        printf("QSdelete_cols(num=%d) rval=%d cols=%d; get_x_array before=%d after=%d; status before=%d after=%d\n", num[k], r, mpq_QSget_colcount(p), b, a, sb, sa);
        if (a != b || sa != sb) bad = 1;
        for (i = 0; i < 3; i++) mpq_clear(x[i]);
        mpq_QSfree_prob(p);
    }
    QSexactClear();
    return bad;
}
