#!/bin/sh
# usage: sh build.sh <worktree> <dir>   -- builds and runs <dir>/repro.c against the library as built
W=${1:?worktree}; d=${2:?dir}
D=$(cd "$(dirname "$0")" && pwd)
cc -O0 -g -I"$W" -I"$W/qsopt_ex" -I"$D" "$D/$d/repro.c" "$W/.libs/libqsopt_ex.a" -lgmp -lz -lbz2 -lm -lpthread -o "$D/$d/repro" || exit 3
cd "$D/$d" && ./repro
