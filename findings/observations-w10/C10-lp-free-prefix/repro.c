/* a column whose name starts with "free" cannot follow a "l <= x" bound */
#include "common.h"
static const char *TEXT =
	"Minimize\n cost: x + freedom\nSubject To\n c1: x + freedom >= 2\n"
	"Bounds\n 1 <= x\n freedom <= 3\nEnd\n";
static const char *CONTROL =
	"Minimize\n cost: x + liberty\nSubject To\n c1: x + liberty >= 2\n"
	"Bounds\n 1 <= x\n liberty <= 3\nEnd\n";
int main (void)
{
	mpq_QSprob p;
	int bad = 0;

	QSexactStart ();
	write_text ("control.lp", CONTROL);
	p = mpq_QSread_prob ("control.lp", "LP");
	printf ("column named liberty: %s\n", p ? "read" : "REJECTED");
	if (p) { show (p); mpq_QSfree_prob (p); } else bad = 2;
	write_text ("free.lp", TEXT);
	p = mpq_QSread_prob ("free.lp", "LP");
	printf ("column named freedom: %s\n", p ? "read" : "REJECTED");
	if (p) { show (p); mpq_QSfree_prob (p); } else bad = 1;
	QSexactClear ();
	return bad;
}
