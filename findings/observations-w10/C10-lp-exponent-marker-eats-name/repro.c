/* "3ex" : the exact reader takes the 'e' for an exponent marker without an
 * exponent and attaches the coefficient to a variable "x" */
#include "common.h"
static const char *TEXT =
	"Minimize\n cost: x + ex\nSubject To\n c1: 2 x + 3ex >= 2\nEnd\n";
int main (void)
{
	mpq_QSprob p;
	dbl_QSprob d;
	mpq_t q;
	double dv = 0.0;
	int ci = -1, ri = -1, bad = 0;

	QSexactStart ();
	mpq_init (q);
	write_text ("eats.lp", TEXT);
	p = mpq_QSread_prob ("eats.lp", "LP");
	if (!p) { printf ("rejected\n"); return 2; }
	show (p);
	mpq_QSget_column_index (p, "ex", &ci);
	mpq_QSget_row_index (p, "c1", &ri);
	mpq_QSget_coef (p, ri, ci, &q);
	gmp_printf ("exact reader : coefficient of ex in c1 = %Qd (the text says 3)\n", q);
	if (mpq_cmp_ui (q, 3, 1)) bad = 1;
	mpq_QSfree_prob (p);
	/* the double reader of the same library reads the same text differently */
	d = dbl_QSread_prob ("eats.lp", "LP");
	if (d)
	{
		dbl_QSget_column_index (d, "ex", &ci);
		dbl_QSget_row_index (d, "c1", &ri);
		dbl_QSget_coef (d, ri, ci, &dv);
		printf ("double reader: coefficient of ex in c1 = %g\n", dv);
		dbl_QSfree_prob (d);
	}
	QSexactClear ();
	return bad;
}
