/* Pre-existing (unchanged tree): QScopy_array_mpf_mpq (exact.h) does not keep
 * infinity: the assignment of mpq_ILL_MAXDOUBLE / mpq_ILL_MINDOUBLE is followed
 * by an unconditional mpq_set_f (the final `else` is missing), and the rational
 * infinity (a continued-fraction approximation of 1e150) is not the rational
 * value of the mpf infinity (the double 1e150).  The sister macros (mpq->dbl, mpq->mpf, dbl->mpq) all keep it.
 * Exit 0 iff infinity survives the conversion. */
#include <stdio.h>
#include <gmp.h>
#include "QSopt_ex.h"
#include "logging-private.h"

int main (void)
{
	mpf_t *f;
	mpq_t *q, *q2;
	double *d;
	int bad = 0;
	QSexactStart ();
	f = mpf_EGlpNumAllocArray (2);
	mpf_set (f[0], mpf_ILL_MAXDOUBLE);
	mpf_set (f[1], mpf_ILL_MINDOUBLE);
	q = QScopy_array_mpf_mpq (f);
	printf ("mpf +inf -> mpq +inf: %s\n", mpq_equal (q[0], mpq_ILL_MAXDOUBLE) ? "yes" : "NO");
	printf ("mpf -inf -> mpq -inf: %s\n", mpq_equal (q[1], mpq_ILL_MINDOUBLE) ? "yes" : "NO");
	bad += !mpq_equal (q[0], mpq_ILL_MAXDOUBLE) + !mpq_equal (q[1], mpq_ILL_MINDOUBLE);
	/* for comparison: the double arrays keep it */
	d = dbl_EGlpNumAllocArray (2);
	d[0] = dbl_ILL_MAXDOUBLE; d[1] = dbl_ILL_MINDOUBLE;
	q2 = QScopy_array_dbl_mpq (d);
	printf ("dbl +-inf -> mpq +-inf: %s\n",
					mpq_equal (q2[0], mpq_ILL_MAXDOUBLE) && mpq_equal (q2[1], mpq_ILL_MINDOUBLE) ? "yes" : "NO");
	mpf_EGlpNumFreeArray (f); mpq_EGlpNumFreeArray (q); mpq_EGlpNumFreeArray (q2); dbl_EGlpNumFreeArray (d);
	QSexactClear ();
	return bad ? 1 : 0;
}
