#!/bin/sh
W=${1:?usage: sh run.sh <worktree>}
D=$(cd "$(dirname "$0")" && pwd)
gcc -g -w -DHAVE_CONFIG_H -I"$W" -I"$W/qsopt_ex" -o "$D/repro" "$D/repro.c" \
	"$W/.libs/libqsopt_ex.a" -lgmp -lz -lbz2 -lm -lpthread || exit 99
"$D/repro" 2> "$D/repro.err"
