NAME          dollar
ROWS
 N  cost
 L  r1
 G  r2
COLUMNS
    x         cost       1     r1         1
    y         cost       2     r2         1
RHS
    rhs       r1         10
    rhs       r2         1
BOUNDS
 UP bnd       x          4     $ this one is accepted
ENDATA
