/* '$' comments of the MPS format are only recognised in the BOUNDS section */
#include "common.h"
static const char *HEAD =
	"NAME          dollar\nROWS\n N  cost\n L  r1\n G  r2\nCOLUMNS\n";
static const char *TAIL =
	"RHS\n    rhs       r1         10\n    rhs       r2         1\n"
	"BOUNDS\n UP bnd       x          4     $ this one is accepted\nENDATA\n";
int main (void)
{
	char text[4096];
	mpq_QSprob p;
	int bad = 0;

	QSexactStart ();
	/* control: no comment in COLUMNS */
	snprintf (text, sizeof text, "%s%s%s", HEAD,
						"    x         cost       1     r1         1\n"
						"    y         cost       2     r2         1\n", TAIL);
	write_text ("ok.mps", text);
	p = mpq_QSread_prob ("ok.mps", "MPS");
	printf ("without a comment in COLUMNS: %s\n", p ? "read" : "REJECTED");
	if (p) { show (p); mpq_QSfree_prob (p); } else bad = 2;
	/* field 5 of a COLUMNS record starts with '$': rest of the line is a comment */
	snprintf (text, sizeof text, "%s%s%s", HEAD,
						"    x         cost       1     r1         1\n"
						"    y         cost       2     $ cost of y\n"
						"    y         r2         1\n", TAIL);
	write_text ("dollar.mps", text);
	p = mpq_QSread_prob ("dollar.mps", "MPS");
	printf ("with '$ cost of y' in field 5 of a COLUMNS record: %s\n", p ? "read" : "REJECTED");
	if (p) { show (p); mpq_QSfree_prob (p); } else bad = 1;
	QSexactClear ();
	return bad;
}
