/* the file-type selector of mpq_QSwrite_prob: NULL crashes, an unknown type is
 * refused only after the output file has been created/truncated. */
#include "common.h"
#include <unistd.h>
#include <sys/wait.h>
int main(void)
{
    mpq_QSprob p; int rval, st, bad = 0; pid_t c;
    QSexactStart();
    p = load_small();
    unlink("obs_out.xyz");
    rval = mpq_QSwrite_prob(p, "obs_out.xyz", "XYZ");
    printf("QSwrite_prob(type \"XYZ\") rval=%d, file exists afterwards: %d\n", rval, access("obs_out.xyz", F_OK) == 0);
    if (access("obs_out.xyz", F_OK) == 0) bad = 1;
    fflush(stdout);
    c = fork();
    if (!c) { freopen("/dev/null", "w", stderr); rval = mpq_QSwrite_prob(p, "obs_out.null", NULL); _exit(rval ? 0 : 3); }
    waitpid(c, &st, 0);
    if (WIFSIGNALED(st)) { printf("QSwrite_prob(type NULL): killed by signal %d\n", WTERMSIG(st)); bad = 1; }
    mpq_QSfree_prob(p);
    return bad;
}
