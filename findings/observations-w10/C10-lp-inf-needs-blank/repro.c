/* "-inf<=x": an infinite bound is only recognised when a blank follows it */
#include "common.h"
static const char *HEAD = "Minimize\n cost: x + y\nSubject To\n c1: x + y >= 2\nBounds\n";
int main (void)
{
	char text[1024];
	mpq_QSprob p;
	int bad = 0;

	QSexactStart ();
	snprintf (text, sizeof text, "%s -inf <= x<=4\n y<=3\nEnd\n", HEAD);
	write_text ("blank.lp", text);
	p = mpq_QSread_prob ("blank.lp", "LP");
	printf ("\"-inf <= x<=4\": %s\n", p ? "read" : "REJECTED");
	if (p) { show (p); mpq_QSfree_prob (p); } else bad = 2;
	snprintf (text, sizeof text, "%s -inf<=x<=4\n y<=3\nEnd\n", HEAD);
	write_text ("noblank.lp", text);
	p = mpq_QSread_prob ("noblank.lp", "LP");
	printf ("\"-inf<=x<=4\": %s\n", p ? "read" : "REJECTED");
	if (p) { show (p); mpq_QSfree_prob (p); } else bad = 1;
	QSexactClear ();
	return bad;
}
