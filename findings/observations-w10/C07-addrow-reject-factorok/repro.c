/* A rejected mpq_QSadd_row changes what the problem answers afterwards:
 * after mpq_QSopt_primal, mpq_QSget_tableau_row / mpq_QSget_binv_row /
 * mpq_QSget_basis_order work; after an add_row that is REJECTED (duplicate
 * name, illegal sense, column listed twice) they fail with "the simplex data
 * of the problem are not current".  exit 1 when the defect shows. */
#include "common.h"
static int probe(mpq_QSprob p)
{
    mpq_t row[5]; int i, r, order[2];
    for (i = 0; i < 5; i++) mpq_init(row[i]);
    r = mpq_QSget_tableau_row(p, 0, row);
    r = r * 10 + mpq_QSget_binv_row(p, 0, row);
    r = r * 10 + mpq_QSget_basis_order(p, order);
    for (i = 0; i < 5; i++) mpq_clear(row[i]);
    return r;
}
int main(void)
{
    int status, k, bad = 0;
    QSexactStart();
    for (k = 0; k < 3; k++) {
        mpq_QSprob p = load_small();
        int ind[2] = {0, 0}, before, after, rval; mpq_t val[2], rhs;
        mpq_init(val[0]); mpq_init(val[1]); mpq_init(rhs);
        mpq_set_ui(val[0],1,1); mpq_set_ui(val[1],1,1);
        if (mpq_QSopt_primal(p, &status) || status != QS_LP_OPTIMAL) return 2;
        before = probe(p);
        if (k == 0) rval = mpq_QSadd_row(p, 1, ind, val, &rhs, 'L', "c1");   /* duplicate name */
        else if (k == 1) rval = mpq_QSadd_row(p, 1, ind, val, &rhs, 'X', "n1"); /* illegal sense */
        else rval = mpq_QSadd_row(p, 2, ind, val, &rhs, 'L', "n2");          /* column twice */
        after = probe(p);
        printf("variant %d: add_row rval=%d rows=%d  tableau/binv/order rvals before=%03d after=%03d\n",
               k, rval, mpq_QSget_rowcount(p), before, after);
        if (rval != 0 && before != after) bad = 1;
        mpq_clear(val[0]); mpq_clear(val[1]); mpq_clear(rhs);
        mpq_QSfree_prob(p);
    }
    QSexactClear();
    return bad;
}
