#include <stdio.h>
#include <stdlib.h>
#include <string.h>
#include <gmp.h>
#include "QSopt_ex.h"

static mpq_QSprob load_small(void)
{
    int i;
    int cmatcnt[3] = { 2, 2, 1 };
    int cmatbeg[3] = { 0, 2, 4 };
    int cmatind[5] = { 0, 1, 0, 1, 0 };
    char sense[2] = { 'L', 'E' };
    const char *colnames[3] = { "x", "y", "z" };
    const char *rownames[2] = { "c1", "c2"};
    mpq_t cmatval[5], obj[3], rhs[2], lower[3], upper[3];
    mpq_QSprob p;
    for (i = 0; i < 5; i++) mpq_init (cmatval[i]);
    mpq_set_d (cmatval[0], 3.0); mpq_set_d (cmatval[1], 5.0); mpq_set_d (cmatval[2], 2.0);
    mpq_set_d (cmatval[3], 1.0); mpq_set_d (cmatval[4], 1.0);
    for (i = 0; i < 3; i++) mpq_init (obj[i]);
    mpq_set_d (obj[0], 3.0); mpq_set_d (obj[1], 2.0); mpq_set_d (obj[2], 4.0);
    for (i = 0; i < 2; i++) mpq_init (rhs[i]);
    mpq_set_d (rhs[0], 12.0); mpq_set_d (rhs[1], 10.0);
    for (i = 0; i < 3; i++) mpq_init (lower[i]);
    mpq_set_d (lower[0], 2.0); mpq_set (lower[1], mpq_ILL_MINDOUBLE); mpq_set_d (lower[2], 1.0);
    for (i = 0; i < 3; i++) mpq_init (upper[i]);
    mpq_set (upper[0], mpq_ILL_MAXDOUBLE); mpq_set (upper[1], mpq_ILL_MAXDOUBLE); mpq_set_d (upper[2], 10.0);
    p = mpq_QSload_prob ("small", 3, 2, cmatcnt, cmatbeg, cmatind, cmatval, QS_MAX, obj, rhs, sense, lower, upper, colnames, rownames);
    for (i = 0; i < 5; i++) mpq_clear (cmatval[i]);
    for (i = 0; i < 3; i++) mpq_clear (obj[i]);
    for (i = 0; i < 2; i++) mpq_clear (rhs[i]);
    for (i = 0; i < 3; i++) mpq_clear (lower[i]);
    for (i = 0; i < 3; i++) mpq_clear (upper[i]);
    return p;
}
