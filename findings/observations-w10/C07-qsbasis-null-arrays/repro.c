/* mpq_QSload_basis / mpq_QSwrite_basis dereference a missing basis or missing
 * status arrays: SIGSEGV instead of an error code.  Each case runs in a child. */
#include "common.h"
#include <unistd.h>
#include <sys/wait.h>
static void child(int k)
{
    mpq_QSprob p = load_small(); QSbasis B; int rval = -99;
    B.nstruct = 3; B.nrows = 2; B.cstat = 0; B.rstat = 0;
    if (k == 0) rval = mpq_QSload_basis(p, NULL);
    if (k == 1) rval = mpq_QSload_basis(p, &B);
    if (k == 2) rval = mpq_QSwrite_basis(p, &B, "obs_out.bas");
    printf("case %d returned %d\n", k, rval); fflush(stdout);
    _exit(rval == 0 ? 3 : 0);
}
int main(void)
{
    int k, bad = 0; const char *what[3] = { "QSload_basis(p, NULL)", "QSload_basis(p, B{3,2,NULL,NULL})", "QSwrite_basis(p, B{3,2,NULL,NULL}, file)" };
    QSexactStart();
    for (k = 0; k < 3; k++) {
        pid_t c; int st; fflush(stdout); c = fork();
        if (!c) { freopen("/dev/null", "w", stderr); child(k); }
        waitpid(c, &st, 0);
        if (WIFSIGNALED(st)) { printf("%s: killed by signal %d\n", what[k], WTERMSIG(st)); bad = 1; }
        else if (WEXITSTATUS(st)) { printf("%s: accepted\n", what[k]); bad = 1; }
    }
    return bad;
}
