/* A matrix coefficient (or a right hand side) whose value is exactly the
 * library's "infinity" constant mpq_ILL_MAXDOUBLE / mpq_ILL_MINDOUBLE is
 * written as the word "inf" / "-inf" by the LP writer; the reader does not
 * take that word as a number outside the Bounds section.
 * build: cc repro.c -I$W -I$W/qsopt_ex $W/.libs/libqsopt_ex.a -lgmp -lz -lbz2 -lm -lpthread
 * exit 0: the text was read back; exit 1: the reader refused it */
#include <stdio.h>
#include "QSopt_ex.h"

static int trip (int in_rhs, const char *path)
{
	mpq_QSprob p = mpq_QScreate_prob ("p", QS_MIN), q;
	mpq_t one, zero, five;
	int ind[2] = { 0, 1 };
	mpq_t val[2], rhs;
	int rval;

	mpq_init (one); mpq_init (zero); mpq_init (five); mpq_init (rhs);
	mpq_init (val[0]); mpq_init (val[1]);
	mpq_set_ui (one, 1, 1); mpq_set_ui (five, 5, 1);
	mpq_QSnew_col (p, one, zero, five, "x");
	mpq_QSnew_col (p, one, zero, five, "y");
	mpq_set_ui (val[0], 1, 1);
	mpq_set_ui (val[1], 1, 1);
	mpq_set_ui (rhs, 15, 1);
	if (in_rhs)
		mpq_set (rhs, mpq_ILL_MAXDOUBLE);
	else
		mpq_set (val[1], mpq_ILL_MAXDOUBLE);
	mpq_QSadd_row (p, 2, ind, (const mpq_t *) val, (const mpq_t *) &rhs, 'L', "r");
	rval = mpq_QSwrite_prob (p, path, "LP");
	printf ("%s: write rval %d\n", path, rval);
	q = mpq_QSread_prob (path, "LP");
	printf ("%s: read back %s\n", path, q ? "ok" : "REFUSED");
	if (q)
		mpq_QSfree_prob (q);
	mpq_QSfree_prob (p);
	return q == 0;
}

int main (void)
{
	int bad;

	QSexactStart ();
	bad = trip (0, "coef.lp");
	bad += trip (1, "rhs.lp");
	QSexactClear ();
	return bad != 0;
}
