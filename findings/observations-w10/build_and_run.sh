#!/bin/sh
# usage: sh build_and_run.sh <worktree> <observation-dir>
W=${1:?}; D=${2:?}
cc -g -I"$W" -I"$W/qsopt_ex" "$D/repro.c" -o "$D/repro.bin" "$W/.libs/libqsopt_ex.a" -lgmp -lz -lbz2 -lm -lpthread || exit 2
cd "$D" && ./repro.bin 2>repro.stderr; echo "exit code: $?"
