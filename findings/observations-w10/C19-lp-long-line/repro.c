/* An LP-format file that is valid, but one of whose physical lines is longer
 * than ILL_namebufsize - 2 = 131070 bytes, is rejected: the line reader hands
 * the line to the parser in pieces of 131069 bytes and a token that straddles
 * the cut is split in two.  The same text with a line break after every term
 * reads and solves.
 *
 * build: gcc repro.c -I<wt> -I<wt>/qsopt_ex <wt>/.libs/libqsopt_ex.a -lgmp -lz -lbz2 -lm -lpthread
 * exit status 0 = both files read (no defect), 1 = the long-line file is refused */
#include <stdio.h>
#include <stdlib.h>
#include "QSopt_ex.h"

static void write_lp (const char *fname, int nvars, const char *sep)
{
	FILE *f = fopen (fname, "w");
	int i;
	fprintf (f, "Minimize\n obj:");
	for (i = 0; i < nvars; i++)
		fprintf (f, " + xvariable%06d%s", i, sep);
	fprintf (f, "\nSubject To\n c1:");
	for (i = 0; i < nvars; i++)
		fprintf (f, " + xvariable%06d%s", i, sep);
	fprintf (f, " >= 7\nEnd\n");
	fclose (f);
}

int main (void)
{
	mpq_QSdata *p;
	int status = 0, rshort, rlong;
	QSexactStart ();
	/* 18 bytes per term: 8000 terms = 144000 bytes on one line */
	write_lp ("short_lines.lp", 8000, "\n");
	write_lp ("long_line.lp", 8000, "");
	p = mpq_QSread_prob ("short_lines.lp", "LP");
	rshort = (p != 0);
	if (p)
	{
		QSexact_solver (p, 0, 0, 0, DUAL_SIMPLEX, &status);
		printf ("short lines: read, %d columns, status %d\n", mpq_QSget_colcount (p), status);
		mpq_QSfree_prob (p);
	}
	p = mpq_QSread_prob ("long_line.lp", "LP");
	rlong = (p != 0);
	printf ("one long line: %s", p ? "read" : "REFUSED");
	if (p) printf (", %d columns", mpq_QSget_colcount (p));
	printf ("\n");
	if (p)
		mpq_QSfree_prob (p);
	QSexactClear ();
	return (rshort && rlong) ? 0 : 1;
}
