/* Pre-existing (unchanged tree): the copy of a problem built through the API
 * has an objective name although the original has none, and the invented name
 * occupies a slot of the copy's row-name table: the same edit (adding a row
 * called "obj") succeeds on the original and is rejected on the copy.
 * Public API only.  Exit 0 iff original and copy behave alike. */
#include <stdio.h>
#include <stdlib.h>
#include <string.h>
#include <gmp.h>
#include "QSopt_ex.h"

int main (void)
{
	dbl_QSdata *p, *c;
	char *np, *nc;
	int rp, rc, bad = 0;

	QSexactStart ();
	p = dbl_QScreate_prob ("p", QS_MIN);
	dbl_QSnew_col (p, 1.0, 0.0, 10.0, "x");
	c = dbl_QScopy_prob (p, "p");
	if (!c) return 2;

	np = dbl_QSget_objname (p);
	nc = dbl_QSget_objname (c);
	printf ("objective name: original %s, copy %s\n", np ? np : "(none)", nc ? nc : "(none)");
	if ((np == 0) != (nc == 0) || (np && strcmp (np, nc))) bad++;

	rp = dbl_QSnew_row (p, 1.0, 'L', "obj");
	rc = dbl_QSnew_row (c, 1.0, 'L', "obj");
	printf ("QSnew_row (.., \"obj\"): original returns %d, copy returns %d\n", rp, rc);
	printf ("rows: original %d, copy %d\n", dbl_QSget_rowcount (p), dbl_QSget_rowcount (c));
	if (rp != rc || dbl_QSget_rowcount (p) != dbl_QSget_rowcount (c)) bad++;

	free (np); free (nc);
	dbl_QSfree_prob (p);
	dbl_QSfree_prob (c);
	QSexactClear ();
	printf (bad ? "original and copy differ\n" : "original and copy agree\n");
	return bad ? 1 : 0;
}
