NAME          uizero
ROWS
 N  cost
 G  r1
COLUMNS
    x         cost       1     r1         1
    y         cost       1     r1         1
RHS
    rhs       r1         1
BOUNDS
 UI bnd       x          0
 UI bnd       y          5
ENDATA
