/* "UI bnd x 0": the bound is applied but the column is not marked integer */
#include "common.h"
static const char *TEXT =
	"NAME          uizero\nROWS\n N  cost\n G  r1\nCOLUMNS\n"
	"    x         cost       1     r1         1\n"
	"    y         cost       1     r1         1\n"
	"RHS\n    rhs       r1         1\nBOUNDS\n"
	" UI bnd       x          0\n UI bnd       y          5\nENDATA\n";
int main (void)
{
	mpq_QSprob p;
	int flags[2] = { -1, -1 }, bad = 0;

	QSexactStart ();
	write_text ("uizero.mps", TEXT);
	p = mpq_QSread_prob ("uizero.mps", "MPS");
	if (!p) { printf ("rejected\n"); return 2; }
	show (p);
	mpq_QSget_intflags (p, flags);
	printf ("integer flags: x %d, y %d (both have a UI bound)\n", flags[0], flags[1]);
	if (flags[0] != 1 || flags[1] != 1) bad = 1;
	mpq_QSfree_prob (p);
	QSexactClear ();
	return bad;
}
