/* a line longer than the reader's line buffer (ILL_namebufsize - 2 = 131070
 * characters) is cut into pieces and every piece is parsed as a line of its
 * own: a token that straddles the cut becomes two tokens */
#include "common.h"
#define NTERM 40000
int main (void)
{
	FILE *f;
	mpq_QSprob p;
	int i, bad = 0, nc;

	QSexactStart ();
	/* c1: ab + ab + ab + ... (40000 times) >= 2 on ONE line of 200 kB: the text
	 * denotes  40000 ab >= 2  with the single variable ab */
	f = fopen ("long.lp", "w");
	if (!f) return 2;
	fprintf (f, "Minimize\n cost: ab\nSubject To\n c1xxx:");
	for (i = 0; i < NTERM; i++)
		fprintf (f, "%sab", i ? " + " : " ");
	fprintf (f, " >= 2\nEnd\n");
	fclose (f);
	p = mpq_QSread_prob ("long.lp", "LP");
	if (!p)
	{
		printf ("one-line constraint of %d terms: REJECTED\n", NTERM);
		bad = 1;
	}
	else
	{
		nc = mpq_QSget_colcount (p);
		printf ("one-line constraint of %d terms: read, %d column(s)\n", NTERM, nc);
		show (p);
		if (nc != 1) bad = 1;
		mpq_QSfree_prob (p);
	}
	/* the same constraint with a line break every 1000 terms */
	f = fopen ("wrapped.lp", "w");
	if (!f) return 2;
	fprintf (f, "Minimize\n cost: ab\nSubject To\n c1xxx:");
	for (i = 0; i < NTERM; i++)
		fprintf (f, "%sab%s", i ? " + " : " ", (i % 1000 == 999) ? "\n" : "");
	fprintf (f, " >= 2\nEnd\n");
	fclose (f);
	p = mpq_QSread_prob ("wrapped.lp", "LP");
	printf ("same constraint, wrapped: %s\n", p ? "read" : "REJECTED");
	if (p) { show (p); mpq_QSfree_prob (p); } else bad = 2;
	QSexactClear ();
	return bad;
}
