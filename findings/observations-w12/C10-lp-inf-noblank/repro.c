/* "-inf<= x" (no blank between inf and the relation) is refused, "-5<= x" is not. */
#include <stdio.h>
#include "QSopt_ex.h"
static int try (const char *name, const char *bound)
{
	FILE *f = fopen (name, "w");
	mpq_QSprob p;
	fprintf (f, "Minimize\n obj: x + y\nSubject To\n c1: x + y >= 2\nBounds\n %s\nEnd\n", bound);
	fclose (f);
	p = mpq_QSread_prob (name, "LP");
	printf ("%-10s %-14s %s\n", name, bound, p ? "read" : "REFUSED");
	if (p) mpq_QSfree_prob (p);
	return p == 0;
}
int main (void)
{
	int r = 0;
	QSexactStart ();
	r += try ("b1.lp", "-5<= x");
	r += try ("b2.lp", "-inf <= x");
	r += try ("b3.lp", "x<=+inf");
	r += try ("b4.lp", "-inf<= x");
	r += try ("b5.lp", "-infinity<=x<=+infinity");
	QSexactClear ();
	return r ? 1 : 0;
}
