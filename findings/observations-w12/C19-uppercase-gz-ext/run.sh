#!/bin/sh
# sh run.sh <worktree> ; exit 1 = defect present
W=$(cd "${1:?worktree}" && pwd); D=$(cd "$(dirname "$0")" && pwd); cd "$D" || exit 98
printf 'Minimize\n obj: x + y\nSubject To\n c1: x + 2 y >= 3\n c2: 3 x + y >= 4\nEnd\n' > g.lp
gzip -c g.lp > g.lp.gz;  cp g.lp.gz G.lp.GZ
bzip2 -c g.lp > g.lp.bz2; cp g.lp.bz2 G.lp.BZ2
bad=0
for f in g.lp g.lp.gz G.lp.GZ g.lp.bz2 G.lp.BZ2; do
  rm -f o.sol
  "$W/esolver/esolver" -O o.sol $f > "$f.log" 2>&1; e=$?
  echo "$f: exit=$e $(head -1 o.sol 2>/dev/null)"
  [ $e -eq 0 ] || bad=1
done
exit $bad
