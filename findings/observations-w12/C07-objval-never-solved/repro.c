/* mpq_QSget_objval on a problem that was loaded and never solved: returns 0
 * and a value decided by uninitialised simplex data. */
#include <stdio.h>
#include <gmp.h>
#include "QSopt_ex.h"
int main (void)
{
	int cmatcnt[1] = { 1 }, cmatbeg[1] = { 0 }, cmatind[1] = { 0 };
	char sense[1] = { 'L' };
	const char *cn[1] = { "x" }, *rn[1] = { "c" };
	mpq_t val[1], obj[1], rhs[1], lo[1], up[1], v;
	mpq_QSprob p;
	int rv, st = -1;

	QSexactStart ();
	mpq_init (val[0]); mpq_init (obj[0]); mpq_init (rhs[0]);
	mpq_init (lo[0]); mpq_init (up[0]); mpq_init (v);
	mpq_set_ui (val[0], 1, 1); mpq_set_ui (obj[0], 1, 1);
	mpq_set_ui (rhs[0], 4, 1); mpq_set_ui (up[0], 9, 1);
	p = mpq_QSload_prob ("t", 1, 1, cmatcnt, cmatbeg, cmatind, val, QS_MAX, obj,
											 rhs, sense, lo, up, cn, rn);
	mpq_QSget_status (p, &st);
	rv = mpq_QSget_objval (p, &v);
	gmp_printf ("status=%d  QSget_objval rv=%d value=%Qd\n", st, rv, v);
	mpq_QSfree_prob (p);
	QSexactClear ();
	return rv == 0;							/* 1 = defect present: no solution, yet success */
}
