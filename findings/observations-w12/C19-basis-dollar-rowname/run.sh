#!/bin/sh
# sh run.sh <worktree> ; exit 1 = defect present
W=$(cd "${1:?worktree}" && pwd); D=$(cd "$(dirname "$0")" && pwd); cd "$D" || exit 98
gcc -O1 -Wall -I"$W" -I"$W/qsopt_ex" -o repro repro.c "$W/.libs/libqsopt_ex.a" -lgmp -lz -lbz2 -lm -lpthread || exit 97
./repro
r=$?
echo "--- the same through esolver:"
printf 'Minimize\n obj: x + y\nSubject To\n $r1: x + 2 y >= 3\n $r2: 3 x + y >= 4\nEnd\n' > dollar.lp
"$W/esolver/esolver" -b dollar_es.bas -O dollar.sol dollar.lp >es1.log 2>&1; echo "esolver -b exit=$?"
cat dollar_es.bas
"$W/esolver/esolver" -B dollar_es.bas -O dollar2.sol dollar.lp >es2.log 2>&1; echo "esolver -B exit=$?"
grep -A1 "MPS Error" es2.log
exit $r
