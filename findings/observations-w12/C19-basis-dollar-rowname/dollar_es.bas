NAME    unnamed
 XL x $r1
 XL y $r2
ENDATA
