status = OPTIMAL
status OPTIMAL
	Value = 2
VARS:
x = 1
y = 1
REDUCED COST:
PI:
$r1 = 2/5
$r2 = 1/5
SLACK:
