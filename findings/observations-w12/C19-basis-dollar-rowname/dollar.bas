NAME    dollar
 XL x $r1
 XL y $r2
ENDATA
