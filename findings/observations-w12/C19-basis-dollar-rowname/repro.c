/* A constraint whose name starts with '$' (legal in LP format) makes the basis
 * file written by QSwrite_basis unreadable for QSread_and_load_basis.
 * Public API only.  Exit 0 = defect absent, 1 = defect present. */
#include <stdio.h>
#include <stdlib.h>
#include "QSopt_ex.h"

int main (void)
{
	mpq_QSdata *p;
	int status = 0, rval, i;
	int ind[2] = { 0, 1 };
	mpq_t one, coef[2], rhs;
	const char *bas = "dollar.bas";
	QSexactStart ();
	QSexact_set_precision (128);
	mpq_init (one);
	mpq_init (coef[0]);
	mpq_init (coef[1]);
	mpq_init (rhs);
	mpq_set_ui (one, 1, 1);
	p = mpq_QScreate_prob ("dollar", QS_MIN);
	for (i = 0; i < 2; i++)
		if (mpq_QSnew_col (p, one, mpq_zeroLpNum, mpq_ILL_MAXDOUBLE, i ? "y" : "x"))
			return 2;
	mpq_set_ui (coef[0], 1, 1);
	mpq_set_ui (coef[1], 2, 1);
	mpq_set_ui (rhs, 3, 1);
	if (mpq_QSadd_row (p, 2, ind, coef, &rhs, 'G', "$r1"))
		return 2;
	mpq_set_ui (coef[0], 3, 1);
	mpq_set_ui (coef[1], 1, 1);
	mpq_set_ui (rhs, 4, 1);
	if (mpq_QSadd_row (p, 2, ind, coef, &rhs, 'G', "$r2"))
		return 2;
	rval = QSexact_solver (p, 0, 0, 0, PRIMAL_SIMPLEX, &status);
	printf ("QSexact_solver rval=%d status=%d (QS_LP_OPTIMAL=%d)\n", rval, status,
					QS_LP_OPTIMAL);
	rval = mpq_QSwrite_basis (p, 0, bas);
	printf ("QSwrite_basis rval=%d\n", rval);
	rval = mpq_QSread_and_load_basis (p, bas);
	printf ("QSread_and_load_basis rval=%d\n", rval);
	mpq_clear (one);
	mpq_clear (coef[0]);
	mpq_clear (coef[1]);
	mpq_clear (rhs);
	mpq_QSfree_prob (p);
	QSexactClear ();
	return rval ? 1 : 0;
}
