/* A column called "inf" (or "infinity", any case) is a valid LP-format name,
 * so the writer keeps it; once it has an upper bound the Bounds section
 * contains " inf <= 5", which the reader takes for the bound value +infinity
 * and then rejects the file.  Public API only.
 *   cc -I$W -I$W/qsopt_ex repro.c $W/.libs/libqsopt_ex.a -lgmp -lz -lbz2 -lm -lpthread
 * exit 0 = round trip worked, 1 = the reader rejected the writer's output. */
#include <stdio.h>
#include <gmp.h>
#include "QSopt_ex.h"
int main (int argc, char **argv)
{
	const char *name = (argc > 1) ? argv[1] : "inf";
	mpq_QSprob p, q;
	mpq_t obj, lo, up, rhs, val[2];
	int ind[2] = { 0, 1 }, rval = 0;

	QSexactStart ();
	mpq_init (obj); mpq_init (lo); mpq_init (up); mpq_init (rhs);
	mpq_init (val[0]); mpq_init (val[1]);
	p = mpq_QScreate_prob ("p", QS_MAX);
	mpq_set_ui (obj, 1, 1); mpq_set_ui (lo, 0, 1); mpq_set_ui (up, 5, 1);
	rval |= mpq_QSnew_col (p, obj, lo, up, name);	/* 0 <= inf <= 5 */
	rval |= mpq_QSnew_col (p, obj, lo, mpq_ILL_MAXDOUBLE, "y");
	mpq_set_ui (val[0], 1, 1); mpq_set_ui (val[1], 1, 1); mpq_set_ui (rhs, 8, 1);
	rval |= mpq_QSadd_row (p, 2, ind, (const mpq_t *) val, (const mpq_t *) &rhs, 'L', "c1");
	rval |= mpq_QSwrite_prob (p, "inf.lp", "LP");
	if (rval) { printf ("setup failed\n"); return 2; }
	q = mpq_QSread_prob ("inf.lp", "LP");
	printf ("read back: %s\n", q ? "ok" : "REJECTED");
	if (q) mpq_QSfree_prob (q);
	mpq_QSfree_prob (p);
	QSexactClear ();
	return q ? 0 : 1;
}
