/* A finite rational bound beyond the range of double (here 10^400; for the
 * rational solver an ordinary finite bound) becomes IEEE +inf in the dbl copy:
 * neither a finite double nor the library's infinity dbl_ILL_MAXDOUBLE (1e150)
 * that the dbl code tests bounds against.  exit 1 when that happens. */
#include <stdio.h>
#include <math.h>
#include <gmp.h>
#include "QSopt_ex.h"
int main (void)
{
	mpq_QSdata *p;
	dbl_QSdata *d;
	mpq_t a, b, c;
	double lo, up;

	QSexactStart ();
	mpq_init (a); mpq_init (b); mpq_init (c);
	p = mpq_QScreate_prob ("orig", QS_MAX);
	mpq_set_si (a, 1, 1); mpq_set_si (b, 0, 1);
	mpz_ui_pow_ui (mpq_numref (c), 10, 400);
	mpq_QSnew_col (p, a, b, c, "x");
	d = QScopy_prob_mpq_dbl (p, "d");
	dbl_QSget_bounds (d, &lo, &up);
	printf ("upper bound 10^400 -> dbl copy %g (dbl_ILL_MAXDOUBLE = %g)\n", up, dbl_ILL_MAXDOUBLE);
	return isinf (up) ? 1 : 0;
}
