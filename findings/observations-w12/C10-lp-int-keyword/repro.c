/* The section keyword "INT" is listed by ILLread_lp but can never be reached. */
#include <stdio.h>
#include "QSopt_ex.h"
static int try (const char *name, const char *kw)
{
	FILE *f = fopen (name, "w");
	mpq_QSprob p;
	fprintf (f, "Minimize\n obj: x + y\nSubject To\n c1: x + y >= 2\n%s\n x\nEnd\n", kw);
	fclose (f);
	p = mpq_QSread_prob (name, "LP");
	printf ("%s (%s): %s\n", name, kw, p ? "read" : "REFUSED");
	if (p) mpq_QSfree_prob (p);
	return p == 0;
}
int main (void)
{
	int a, b;
	QSexactStart ();
	a = try ("integer.lp", "Integer");
	b = try ("int.lp", "Int");
	QSexactClear ();
	return (a == 0 && b == 0) ? 0 : 1;
}
