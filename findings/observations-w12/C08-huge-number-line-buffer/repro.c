/* A coefficient with more decimal digits than the LP writer's line buffer
 * (ILL_namebufsize = 0x20000 = 131072 bytes) overruns that buffer.
 *   usage: repro <ndigits>      (131060 works, 131080 crashes)
 *   cc -I$W -I$W/qsopt_ex repro.c $W/.libs/libqsopt_ex.a -lgmp -lz -lbz2 -lm -lpthread
 * Public API only. exit 0 = written, read back and the coefficient is identical. */
#include <stdio.h>
#include <stdlib.h>
#include <string.h>
#include <gmp.h>
#include "QSopt_ex.h"
int main (int argc, char **argv)
{
	int n = (argc > 1) ? atoi (argv[1]) : 131080, ind[2] = { 0, 1 }, rval = 0, ok = 0;
	char *s = (char *) malloc (n + 2);
	mpq_QSprob p, q;
	mpq_t o, l, rhs, val[2], back;

	QSexactStart ();
	memset (s, '7', n); s[n] = 0;
	mpq_init (o); mpq_init (l); mpq_init (rhs); mpq_init (val[0]); mpq_init (val[1]); mpq_init (back);
	p = mpq_QScreate_prob ("h", QS_MIN);
	mpq_set_ui (o, 1, 1);
	rval |= mpq_QSnew_col (p, o, l, mpq_ILL_MAXDOUBLE, "x");
	rval |= mpq_QSnew_col (p, o, l, mpq_ILL_MAXDOUBLE, "y");
	mpq_set_str (val[0], s, 10); mpq_set_ui (val[1], 3, 1); mpq_set_ui (rhs, 1, 1);
	rval |= mpq_QSadd_row (p, 2, ind, (const mpq_t *) val, (const mpq_t *) &rhs, 'G', "c1");
	if (rval) return 2;
	rval = mpq_QSwrite_prob (p, "huge.lp", "LP");
	printf ("write rval %d\n", rval);
	q = mpq_QSread_prob ("huge.lp", "LP");
	if (q && mpq_QSget_coef (q, 0, 0, &back) == 0) ok = mpq_equal (back, val[0]);
	printf ("read back %s, coefficient %s\n", q ? "ok" : "REJECTED", ok ? "identical" : "DIFFERENT");
	return ok ? 0 : 1;
}
