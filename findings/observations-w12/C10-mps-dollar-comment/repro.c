/* '$' comments at the standard places of COLUMNS / RHS / RANGES records are refused.
 * cc repro.c -I$W -I$W/qsopt_ex $W/.libs/libqsopt_ex.a -lgmp -lz -lbz2 -lm -lpthread */
#include <stdio.h>
#include "QSopt_ex.h"
static const char *with_comment =
	"NAME t\nROWS\n N cost\n G r1\nCOLUMNS\n"
	"    x  cost  1  r1  1   $ two pairs, then a comment\n"
	"    y  cost  1          $ one pair, then a comment\n"
	"    y  r1    1\n"
	"RHS\n    RHS  r1  2     $ comment\n"
	"BOUNDS\n UP BND x 4       $ this one is accepted\n"
	"ENDATA\n";
static const char *without =
	"NAME t\nROWS\n N cost\n G r1\nCOLUMNS\n"
	"    x  cost  1  r1  1\n    y  cost  1\n    y  r1    1\n"
	"RHS\n    RHS  r1  2\nBOUNDS\n UP BND x 4       $ this one is accepted\nENDATA\n";
static int try (const char *name, const char *text)
{
	FILE *f = fopen (name, "w");
	mpq_QSprob p;
	fputs (text, f); fclose (f);
	p = mpq_QSread_prob (name, "MPS");
	printf ("%s: %s\n", name, p ? "read" : "REFUSED");
	if (p) mpq_QSfree_prob (p);
	return p == 0;
}
int main (void)
{
	int a, b;
	QSexactStart ();
	a = try ("plain.mps", without);
	b = try ("dollar.mps", with_comment);
	QSexactClear ();
	return (a == 0 && b == 0) ? 0 : 1;
}
