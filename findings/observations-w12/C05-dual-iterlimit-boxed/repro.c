/* mpq_QSopt_dual on a freshly built 1-row LP whose variables are all boxed
 * stops with QS_LP_ITER_LIMIT; mpq_QSopt_primal and QSexact_solver find the
 * optimum.  Public API only. */
#include <stdio.h>
#include <stdlib.h>
#include <gmp.h>
#include "QSopt_ex.h"

static mpq_QSprob build (void)
{
	/* min -3 x0 -3/2 x1 -2 x2 +3 x3 +2 x4 -2 x5
	 * s.t. 2/3 x1 - 2 x2 + 2 x4 - 2 x5 >= -1 */
	static const int cn[6] = { -3, -3, -2, 3, 2, -2 }, cd[6] = { 1, 2, 1, 1, 1, 1 };
	static const int lo[6] = { 1, 0, -2, -1, -1, -1 }, up[6] = { 2, 2, 5, 3, 6, 4 };
	int ind[4] = { 1, 2, 4, 5 }, j;
	mpq_t val[4], rhs[1], c, l, u;
	mpq_QSprob p = mpq_QScreate_prob ("p", QS_MIN);
	mpq_init (c); mpq_init (l); mpq_init (u); mpq_init (rhs[0]);
	for (j = 0; j < 4; j++) mpq_init (val[j]);
	for (j = 0; j < 6; j++)
	{
		mpq_set_si (c, cn[j], cd[j]); mpq_canonicalize (c);
		mpq_set_si (l, lo[j], 1); mpq_set_si (u, up[j], 1);
		if (mpq_QSnew_col (p, c, l, u, NULL)) exit (2);
	}
	mpq_set_si (val[0], 2, 3); mpq_set_si (val[1], -2, 1);
	mpq_set_si (val[2], 2, 1); mpq_set_si (val[3], -2, 1);
	mpq_set_si (rhs[0], -1, 1);
	if (mpq_QSadd_row (p, 4, ind, (const mpq_t *) val, (const mpq_t *) rhs, 'G', NULL)) exit (2);
	return p;
}

int main (void)
{
	int st = 0, rv, it = 0, bad = 0;
	mpq_t v;
	mpq_QSprob p;
	QSexactStart ();
	mpq_init (v);
	p = build ();
	rv = mpq_QSopt_primal (p, &st);
	mpq_QSget_objval (p, &v);
	gmp_printf ("primal: rv %d status %d objval %Qd\n", rv, st, v);
	mpq_QSfree_prob (p);
	p = build ();
	rv = mpq_QSopt_dual (p, &st);
	mpq_QSget_itcnt (p, 0, 0, 0, 0, &it);
	printf ("dual  : rv %d status %d (1 = OPTIMAL, 4 = ITER_LIMIT) after %d iterations\n", rv, st, it);
	bad = (st != QS_LP_OPTIMAL);
	mpq_QSfree_prob (p);
	p = build ();
	rv = QSexact_solver (p, NULL, NULL, NULL, DUAL_SIMPLEX, &st);
	mpq_QSget_objval (p, &v);
	gmp_printf ("exact : rv %d status %d objval %Qd\n", rv, st, v);
	mpq_QSfree_prob (p);
	mpq_clear (v);
	QSexactClear ();
	return bad;
}
