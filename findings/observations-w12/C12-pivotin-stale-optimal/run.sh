#!/bin/sh
# usage: sh run.sh <worktree>   (exit 1 = defect reproduced)
W=${1:?usage: sh run.sh <worktree>}
D=$(cd "$(dirname "$0")" && pwd)
cc -g -o "$D/repro" "$D/repro.c" -I"$W" -I"$W/qsopt_ex" "$W/.libs/libqsopt_ex.a" -lgmp -lz -lbz2 -lm -lpthread || exit 99
cd "$D" && timeout 30 ./repro 2>/dev/null
