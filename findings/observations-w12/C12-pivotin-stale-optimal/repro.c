/* After QSopt_pivotin_row/col the cached OPTIMAL solution is kept and the next
 * QSopt_primal/dual is skipped: status OPTIMAL is handed back together with the
 * pivoted (non-optimal) basis.   Public API only.
 *
 *   min -2x - y   s.t.  x + y <= 2,  x <= 1,  y <= 1,  x,y >= 0     (opt -3 at (1,1))
 */
#include <stdio.h>
#include <stdlib.h>
#include "QSopt_ex.h"

static void show (mpq_QSdata * p, const char *when)
{
	QSbasis *B = mpq_QSget_basis (p);
	mpq_t v;
	int st = -1;
	mpq_init (v);
	mpq_QSget_status (p, &st);
	printf ("%-34s status=%d", when, st);
	if (!mpq_QSget_objval (p, &v))
		printf (" objval=%g", mpq_get_d (v));
	if (B)
		printf (" cstat=%.2s rstat=%.3s", B->cstat, B->rstat);
	printf ("\n");
	if (B)
		mpq_QSfree_basis (B);
	mpq_clear (v);
}

int main (void)
{
	mpq_QSdata *p;
	mpq_t a, l, u, val[2], rhs;
	int ind[2], st = 0, rval, row, k;
	char res = 7;
	QSbasis *B;

	QSexactStart ();
	mpq_init (a); mpq_init (l); mpq_init (u); mpq_init (rhs);
	mpq_init (val[0]); mpq_init (val[1]);
	p = mpq_QScreate_prob ("degen", QS_MIN);
	mpq_set_si (l, 0, 1);
	mpq_set (u, mpq_ILL_MAXDOUBLE);
	mpq_set_si (a, -2, 1); mpq_QSnew_col (p, a, l, u, "x");
	mpq_set_si (a, -1, 1); mpq_QSnew_col (p, a, l, u, "y");
	mpq_set_si (val[0], 1, 1); mpq_set_si (val[1], 1, 1);
	ind[0] = 0; ind[1] = 1; mpq_set_si (rhs, 2, 1);
	mpq_QSadd_row (p, 2, ind, (const mpq_t *) val, (const mpq_t *) &rhs, 'L', "r0");
	ind[0] = 0; mpq_set_si (rhs, 1, 1);
	mpq_QSadd_row (p, 1, ind, (const mpq_t *) val, (const mpq_t *) &rhs, 'L', "r1");
	ind[0] = 1;
	mpq_QSadd_row (p, 1, ind, (const mpq_t *) val, (const mpq_t *) &rhs, 'L', "r2");

	rval = mpq_QSopt_dual (p, &st);
	printf ("QSopt_dual rval=%d status=%d\n", rval, st);
	show (p, "after QSopt_dual");
	B = mpq_QSget_basis (p);
	/* pivot in the logical of every row that is not basic */
	for (row = 0, k = 0; row < 3; row++)
		if (B->rstat[row] != QS_ROW_BSTAT_BASIC)
		{
			rval = mpq_QSopt_pivotin_row (p, 1, &row);
			printf ("QSopt_pivotin_row(%d) rval=%d\n", row, rval);
			k++;
		}
	mpq_QSfree_basis (B);
	show (p, "after pivotin");
	st = 0;
	rval = mpq_QSopt_dual (p, &st);
	printf ("second QSopt_dual rval=%d status=%d (1 = QS_LP_OPTIMAL)\n", rval, st);
	show (p, "after second QSopt_dual");
	B = mpq_QSget_basis (p);
	rval = QSexact_basis_optimalstatus (p, B, &res, 1);
	printf ("QSexact_basis_optimalstatus of the basis handed back: rval=%d result=%d\n",
					rval, (int) res);
	if (st == QS_LP_OPTIMAL && res != 1)
	{
		printf ("DEFECT: OPTIMAL handed back with a basis that is not optimal\n");
		return 1;
	}
	return 0;
}
