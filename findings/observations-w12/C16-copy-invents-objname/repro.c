/* QScopy_prob gives the copy an objective name the original does not have and
 * registers it in the copy's row-name table: the copy answers QSget_objname
 * differently, and the same edit (adding a row called "obj") succeeds on the
 * original and is rejected on the copy.  exit 1 when the discrepancy shows. */
#include <stdio.h>
#include <stdlib.h>
#include <string.h>
#include <gmp.h>
#include "QSopt_ex.h"
int main (void)
{
	mpq_QSdata *p, *q;
	mpq_t a, b, c, t;
	char *n1, *n2;
	int r1, r2, bad = 0;

	QSexactStart ();
	mpq_init (a); mpq_init (b); mpq_init (c); mpq_init (t);
	p = mpq_QScreate_prob ("orig", QS_MIN);
	mpq_set_si (a, 1, 1); mpq_set_si (b, 0, 1); mpq_set_si (c, 10, 1);
	mpq_QSnew_col (p, a, b, c, "x");
	mpq_set_si (t, 3, 1);
	mpq_QSnew_row (p, t, 'L', "r0");
	q = mpq_QScopy_prob (p, "copy");
	n1 = mpq_QSget_objname (p);
	n2 = mpq_QSget_objname (q);
	printf ("QSget_objname: original %s, copy %s\n", n1 ? n1 : "(null)", n2 ? n2 : "(null)");
	if ((n1 == 0) != (n2 == 0) || (n1 && n2 && strcmp (n1, n2))) bad = 1;
	r1 = mpq_QSnew_row (p, t, 'G', "obj");
	r2 = mpq_QSnew_row (q, t, 'G', "obj");
	printf ("QSnew_row (.., \"obj\"): original rval %d (%d rows), copy rval %d (%d rows)\n",
					r1, mpq_QSget_rowcount (p), r2, mpq_QSget_rowcount (q));
	if (r1 != r2 || mpq_QSget_rowcount (p) != mpq_QSget_rowcount (q)) bad = 1;
	return bad;
}
