/* A column whose name starts with "free" (any case: "free", "freeze",
 * "Freight1" ...) and that has a non-default bound, written right after a
 * column that has only a lower bound:
 *     Bounds
 *      3 <= x
 *      freeze <= 7
 * After "3 <= x" the reader looks for "<=" with line wrapping enabled, lands on
 * the next line, finds no sense there and then asks "is the next thing FREE?"
 * with a prefix comparison - it eats the first four letters of the next
 * column's name, declares x free ("Using previous bound definition") and
 * rejects the rest of the line.  Public API only.
 *   cc -I$W -I$W/qsopt_ex repro.c $W/.libs/libqsopt_ex.a -lgmp -lz -lbz2 -lm -lpthread
 * exit 0 = round trip worked, 1 = the reader rejected the writer's output,
 * 3 = accepted but the bounds changed (try the name "freex"). */
#include <stdio.h>
#include <gmp.h>
#include "QSopt_ex.h"
int main (int argc, char **argv)
{
	const char *name = (argc > 1) ? argv[1] : "freeze";
	mpq_QSprob p, q;
	mpq_t obj, lo, up, rhs, val[2];
	int ind[2] = { 0, 1 }, rval = 0;

	QSexactStart ();
	mpq_init (obj); mpq_init (lo); mpq_init (up); mpq_init (rhs);
	mpq_init (val[0]); mpq_init (val[1]);
	p = mpq_QScreate_prob ("p", QS_MAX);
	mpq_set_ui (obj, 1, 1); mpq_set_ui (lo, 3, 1);
	rval |= mpq_QSnew_col (p, obj, lo, mpq_ILL_MAXDOUBLE, "x");	/* 3 <= x */
	mpq_set_ui (lo, 0, 1); mpq_set_ui (up, 7, 1);
	rval |= mpq_QSnew_col (p, obj, lo, up, name);	/* 0 <= freeze <= 7 */
	mpq_set_ui (val[0], 1, 1); mpq_set_ui (val[1], 1, 1); mpq_set_ui (rhs, 8, 1);
	rval |= mpq_QSadd_row (p, 2, ind, (const mpq_t *) val, (const mpq_t *) &rhs, 'L', "c1");
	rval |= mpq_QSwrite_prob (p, "free.lp", "LP");
	if (rval) { printf ("setup failed\n"); return 2; }
	q = mpq_QSread_prob ("free.lp", "LP");
	printf ("read back: %s\n", q ? "ok" : "REJECTED");
	if (q)
	{
		/* accepted: are the bounds still those of p? */
		mpq_t l[2], u[2];
		int j, bad = 0;
		mpq_init (l[0]); mpq_init (l[1]); mpq_init (u[0]); mpq_init (u[1]);
		mpq_QSget_bounds (q, l, u);
		for (j = 0; j < 2; j++)
			gmp_printf ("  col %d: [%Qd, %Qd]\n", j, l[j], u[j]);
		bad = mpq_cmp_ui (l[0], 3, 1) || !mpq_equal (u[0], mpq_ILL_MAXDOUBLE) ||
			mpq_cmp_ui (l[1], 0, 1) || mpq_cmp_ui (u[1], 7, 1);
		printf ("bounds %s\n", bad ? "CHANGED" : "kept");
		mpq_QSfree_prob (q);
		mpq_QSfree_prob (p);
		QSexactClear ();
		return bad ? 3 : 0;
	}
	mpq_QSfree_prob (p);
	QSexactClear ();
	return q ? 0 : 1;
}
