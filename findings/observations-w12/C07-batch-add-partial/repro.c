/* mpq_QSadd_rows / mpq_QSadd_cols with a duplicate name that is not the first
 * of the batch: the call fails, but the entries in front of the rejected one
 * stay in the problem. */
#include <stdio.h>
#include <gmp.h>
#include "QSopt_ex.h"
int main (void)
{
	mpq_t o, l, u, val[2], rhs[2], ob[2], lo[2], up[2];
	int i, rv, bad = 0, n0;
	int cnt[2] = { 1, 1 }, beg[2] = { 0, 1 }, ind[2] = { 0, 0 };
	char s[2] = { 'L', 'G' };
	const char *rnames[2] = { "new1", "r0" };	/* "r0" exists */
	const char *cnames[2] = { "newc", "a" };	/* "a" exists */
	int ccnt[2] = { 0, 0 }, cbeg[2] = { 0, 0 };
	mpq_QSprob p;

	QSexactStart ();
	mpq_init (o); mpq_init (l); mpq_init (u);
	mpq_set_ui (o, 1, 1); mpq_set_ui (u, 5, 1);
	for (i = 0; i < 2; i++)
	{
		mpq_init (val[i]); mpq_set_ui (val[i], 1, 1);
		mpq_init (rhs[i]); mpq_set_ui (rhs[i], 3, 1);
		mpq_init (ob[i]); mpq_init (lo[i]); mpq_init (up[i]);
		mpq_set_ui (up[i], 1, 1);
	}
	p = mpq_QScreate_prob ("t", QS_MIN);
	mpq_QSnew_col (p, o, l, u, "a");
	mpq_QSnew_row (p, o, 'L', "r0");

	n0 = mpq_QSget_rowcount (p);
	rv = mpq_QSadd_rows (p, 2, cnt, beg, ind, val, rhs, s, rnames);
	printf ("QSadd_rows {new1, r0(dup)}: rv=%d rows %d -> %d\n", rv, n0,
					mpq_QSget_rowcount (p));
	if (rv != 0 && mpq_QSget_rowcount (p) != n0)
		bad = 1;

	n0 = mpq_QSget_colcount (p);
	rv = mpq_QSadd_cols (p, 2, ccnt, cbeg, NULL, NULL, ob, lo, up, cnames);
	printf ("QSadd_cols {newc, a(dup)}: rv=%d cols %d -> %d\n", rv, n0,
					mpq_QSget_colcount (p));
	if (rv != 0 && mpq_QSget_colcount (p) != n0)
		bad = 1;

	mpq_QSfree_prob (p);
	QSexactClear ();
	return bad;									/* 1 = a rejected call changed the problem */
}
