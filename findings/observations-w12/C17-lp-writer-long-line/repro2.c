/* QSwrite_prob (LP format) with a column name close to the longest name the
 * library accepts (ILL_namebufsize - 1 = 131071 characters) */
#include <stdio.h>
#include <stdlib.h>
#include <string.h>
#include <gmp.h>
#include "QSopt_ex.h"

int main (int argc, char **argv)
{
	int len = argc > 1 ? atoi (argv[1]) : 131068;
	mpq_QSprob p;
	mpq_t zero, one, v[1];
	int ind[1] = { 0 };
	char *s;
	int rval;

	QSexactStart ();
	mpq_init (zero);
	mpq_init (one);
	mpq_init (v[0]);
	mpq_set_si (one, 1, 1);
	mpq_set_si (v[0], 7, 1);
	s = malloc ((size_t) len + 1);
	memset (s, 'a', (size_t) len);
	s[len] = '\0';

	p = mpq_QScreate_prob ("longname", QS_MIN);
	rval = mpq_QSnew_col (p, one, zero, one, s);
	printf ("new_col %d\n", rval);
	rval = mpq_QSadd_row (p, 1, ind, v, &one, 'G', "therow");
	printf ("add_row %d\n", rval);
	rval = mpq_QSwrite_prob (p, "/dev/null", "LP");
	printf ("write LP %d\n", rval);
	mpq_QSfree_prob (p);
	free (s);
	mpq_clear (v[0]);
	mpq_clear (zero);
	mpq_clear (one);
	QSexactClear ();
	return 0;
}
