/* QSwrite_prob (LP format): the objective is written at least four terms to a
 * line, whatever their length; four objective coefficients of NDIG digits */
#include <stdio.h>
#include <stdlib.h>
#include <string.h>
#include <gmp.h>
#include "QSopt_ex.h"

int main (int argc, char **argv)
{
	int ndig = argc > 1 ? atoi (argv[1]) : 33000;
	mpq_QSprob p;
	mpq_t big, zero, one;
	char *s;
	int j, rval;
	char name[8];

	QSexactStart ();
	mpq_init (big);
	mpq_init (zero);
	mpq_init (one);
	mpq_set_si (one, 1, 1);
	s = malloc ((size_t) ndig + 1);
	memset (s, '7', (size_t) ndig);
	s[ndig] = '\0';
	mpq_set_str (big, s, 10);
	free (s);

	p = mpq_QScreate_prob ("bigobj", QS_MIN);
	for (j = 0; j < 4; j++)
	{
		sprintf (name, "x%d", j);
		mpq_QSnew_col (p, big, zero, one, name);
	}
	rval = mpq_QSwrite_prob (p, "/dev/null", "LP");
	printf ("write LP %d\n", rval);
	mpq_QSfree_prob (p);
	mpq_clear (big);
	mpq_clear (zero);
	mpq_clear (one);
	QSexactClear ();
	return 0;
}
