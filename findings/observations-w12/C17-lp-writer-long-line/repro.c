/* QSwrite_prob (LP format) of a row whose terms do not fit the fixed line
 * buffer of the writer: four coefficients of NDIG digits each */
#include <stdio.h>
#include <stdlib.h>
#include <string.h>
#include <gmp.h>
#include "QSopt_ex.h"

int main (int argc, char **argv)
{
	int ndig = argc > 1 ? atoi (argv[1]) : 40000;
	mpq_QSprob p;
	mpq_t big, zero, one, v[4];
	int ind[4] = { 0, 1, 2, 3 };
	char *s;
	int j, rval;
	char name[8];

	QSexactStart ();
	mpq_init (big);
	mpq_init (zero);
	mpq_init (one);
	mpq_set_si (one, 1, 1);
	s = malloc ((size_t) ndig + 1);
	memset (s, '7', (size_t) ndig);
	s[ndig] = '\0';
	mpq_set_str (big, s, 10);
	free (s);

	p = mpq_QScreate_prob ("big", QS_MIN);
	for (j = 0; j < 4; j++)
	{
		sprintf (name, "x%d", j);
		mpq_QSnew_col (p, one, zero, one, name);
		mpq_init (v[j]);
		mpq_set (v[j], big);
	}
	rval = mpq_QSadd_row (p, 4, ind, v, &one, 'G', "r");
	printf ("add_row %d\n", rval);
	rval = mpq_QSwrite_prob (p, "/dev/null", "LP");
	printf ("write LP %d\n", rval);
	rval = mpq_QSwrite_prob (p, "/dev/null", "MPS");
	printf ("write MPS %d\n", rval);
	mpq_QSfree_prob (p);
	for (j = 0; j < 4; j++)
		mpq_clear (v[j]);
	mpq_clear (big);
	mpq_clear (zero);
	mpq_clear (one);
	QSexactClear ();
	return 0;
}
