/* A literal with "arbitrary many digits" that makes its line longer than
 * ILL_namebufsize-2 = 131070 characters is cut in two; the file is refused. */
#include <stdio.h>
#include <stdlib.h>
#include <string.h>
#include "QSopt_ex.h"
static int try (const char *name, int ndig)
{
	FILE *f = fopen (name, "w");
	mpq_QSprob p;
	int i;
	fputs ("Minimize\n obj: x + y\nSubject To\n c1: x + ", f);
	for (i = 0; i < ndig; i++) fputc ('7', f);
	fputs (" y >= 2\nEnd\n", f);
	fclose (f);
	p = mpq_QSread_prob (name, "LP");
	printf ("%s (%d digits): %s\n", name, ndig, p ? "read" : "REFUSED");
	if (p) mpq_QSfree_prob (p);
	return p == 0;
}
int main (void)
{
	int a, b;
	QSexactStart ();
	a = try ("d100000.lp", 100000);
	b = try ("d140000.lp", 140000);
	QSexactClear ();
	return (a == 0 && b == 0) ? 0 : 1;
}
