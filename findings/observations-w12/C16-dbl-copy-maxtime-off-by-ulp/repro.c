/* The time limit is a double in every arithmetic.  QScopy_prob_mpq_dbl moves it
 * through a rational: mpq_QSget_param_EGlpNum turns 0.1 (the double) into 1/10
 * (mpq_EGlpNumSet approximates by continued fractions), and mpq_get_d truncates
 * 1/10 to the double below 0.1.  The dbl copy does not have the original's
 * parameter.  exit 1 when they differ. */
#include <stdio.h>
#include <gmp.h>
#include "QSopt_ex.h"
int main (void)
{
	mpq_QSdata *p;
	dbl_QSdata *d;
	mpq_t t;
	double got = 0;

	QSexactStart ();
	mpq_init (t);
	p = mpq_QScreate_prob ("orig", QS_MIN);
	mpq_set_d (t, 0.1);
	mpq_QSset_param_EGlpNum (p, QS_PARAM_SIMPLEX_MAX_TIME, t);
	mpq_QSget_param_EGlpNum (p, QS_PARAM_SIMPLEX_MAX_TIME, &t);
	gmp_printf ("time limit set on the original: %.17g, read back as %Qd\n", 0.1, t);
	d = QScopy_prob_mpq_dbl (p, "d");
	dbl_QSget_param_EGlpNum (d, QS_PARAM_SIMPLEX_MAX_TIME, &got);
	printf ("dbl copy  max time   = %.17g\n", got);
	return got != 0.1;
}
