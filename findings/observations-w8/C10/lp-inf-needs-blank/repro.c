/* In the Bounds section of an LP file an infinite bound must be followed by a
 * blank: "-inf <= x" is read, "-inf<= x" is rejected ("inf" is not a column
 * name), although a finite bound needs no blank ("-5<= x" is read) and blanks
 * are otherwise immaterial.  Public API only. */
#include <stdio.h>
#include "QSopt_ex.h"

static int try (const char *bound)
{
	FILE *f = fopen ("t.lp", "w");
	mpq_QSprob p;

	fprintf (f, "Minimize\n obj: x + y\nSubject To\n c1: x + y >= 1\nBounds\n %s\nEnd\n", bound);
	fclose (f);
	p = mpq_QSread_prob ("t.lp", "LP");
	printf ("%-16s : %s\n", bound, p ? "read" : "REJECTED");
	if (p)
		mpq_QSfree_prob (p);
	return p == NULL;
}

int main (void)
{
	int bad = 0;

	QSexactStart ();
	bad += try ("-5<= x");
	bad += try ("-inf <= x");
	bad += try ("-inf<= x");
	bad += try ("-infinity<=x");
	bad += try ("x<=+inf");
	QSexactClear ();
	return bad != 0;
}
