/* A physical line of an LP file longer than ILL_namebufsize-3 = 131069 bytes
 * is delivered by the line reader in pieces, and every piece is taken for a
 * line of its own.  Here the line is "c1: x + y >= 1 \ <long comment>": the
 * tail of the COMMENT, " x <= 0", is read as a second constraint, silently.
 * (Split inside a literal or a name the file is rejected instead.)
 * Public API only. */
#include <stdio.h>
#include <string.h>
#include "QSopt_ex.h"

int main (void)
{
	const char *head = " c1: x + y >= 1 \\ ";
	FILE *f = fopen ("t.lp", "w");
	mpq_QSprob p;
	int i, n, nr;

	fputs ("Minimize\n obj: x + y\nSubject To\n", f);
	fputs (head, f);
	n = 131069 - (int) strlen (head);
	for (i = 0; i < n; i++)
		fputc ('a', f);
	fputs (" x <= 0\n", f);				/* still inside the comment */
	fputs ("End\n", f);
	fclose (f);

	QSexactStart ();
	p = mpq_QSread_prob ("t.lp", "LP");
	if (!p)
	{
		printf ("REJECTED\n");
		QSexactClear ();
		return 1;
	}
	nr = mpq_QSget_rowcount (p);
	printf ("rows read: %d (the text denotes 1)\n", nr);
	mpq_QSfree_prob (p);
	QSexactClear ();
	return nr != 1;
}
