#!/bin/sh
# usage: sh common_run.sh <worktree> <observation-dir>
W=${1:?}; D=${2:?}
cc -O0 -g -o "$D/repro" "$D/repro.c" -I"$W" -I"$W/qsopt_ex" "$W/.libs/libqsopt_ex.a" -lgmp -lz -lbz2 -lm -lpthread || exit 3
cd "$D" && ./repro 2>repro.err
