/* EGLPNUM_TYPENAME_ILLread_lp accepts "INTEGER" and "INT" as the header of the
 * integer section (lp.c: integer[] = {"INTEGER","INT"}), but the scanners that
 * decide where the constraint / bounds sections end only know the list
 * all_keyword[] of read_lp.c, which has no "INT": the spelling can never be
 * reached.  Public API only. */
#include <stdio.h>
#include "QSopt_ex.h"

static int try (const char *kw, int withBounds)
{
	FILE *f = fopen ("t.lp", "w");
	mpq_QSprob p;

	fprintf (f, "Maximize\n obj: x + y\nSubject To\n c1: x + y <= 10\n%s%s\n y\nEnd\n",
					 withBounds ? "Bounds\n x <= 4\n" : "", kw);
	fclose (f);
	p = mpq_QSread_prob ("t.lp", "LP");
	printf ("%-8s %s : %s\n", kw, withBounds ? "after Bounds     " : "after constraints", p ? "read" : "REJECTED");
	if (p)
		mpq_QSfree_prob (p);
	return p == NULL;
}

int main (void)
{
	int bad = 0;

	QSexactStart ();
	bad += try ("Integer", 1);
	bad += try ("Integer", 0);
	bad += try ("Int", 1);
	bad += try ("Int", 0);
	QSexactClear ();
	return bad != 0;
}
