/* '$' comments of an MPS file are only recognised after an even number of
 * fields counted from the first field PRESENT on the line; on COLUMNS lines
 * (and RHS/RANGES lines that carry the set name) the comment position of the
 * format - after the value, i.e. field 5 or 7 - is an odd count, so the file
 * is rejected.  Public API only. */
#include <stdio.h>
#include "QSopt_ex.h"

static int try (const char *tag, const char *text)
{
	FILE *f = fopen ("t.mps", "w");
	mpq_QSprob p;

	fputs (text, f);
	fclose (f);
	p = mpq_QSread_prob ("t.mps", "MPS");
	printf ("%-44s : %s\n", tag, p ? "read" : "REJECTED");
	if (p)
		mpq_QSfree_prob (p);
	return p == NULL;
}

int main (void)
{
	int bad = 0;

	QSexactStart ();
	bad += try ("no comment",
							"NAME t\nROWS\n N obj\n G r1\nCOLUMNS\n    x  obj  1  r1  1\nRHS\n    RHS  r1  1\nENDATA\n");
	bad += try ("COLUMNS: x obj 1 r1 1 $ c   (field 7)",
							"NAME t\nROWS\n N obj\n G r1\nCOLUMNS\n    x  obj  1  r1  1  $ c\nRHS\n    RHS  r1  1\nENDATA\n");
	bad += try ("COLUMNS: x obj 1 $ c        (field 5)",
							"NAME t\nROWS\n N obj\n G r1\nCOLUMNS\n    x  obj  1  $ c\n    x  r1  1\nRHS\n    RHS  r1  1\nENDATA\n");
	bad += try ("RHS with set name: RHS r1 1 $ c",
							"NAME t\nROWS\n N obj\n G r1\nCOLUMNS\n    x  obj  1  r1  1\nRHS\n    RHS  r1  1  $ c\nENDATA\n");
	bad += try ("RHS without set name: r1 1 $ c",
							"NAME t\nROWS\n N obj\n G r1\nCOLUMNS\n    x  obj  1  r1  1\nRHS\n    r1  1  $ c\nENDATA\n");
	bad += try ("BOUNDS: UP BND x 4 $ c",
							"NAME t\nROWS\n N obj\n G r1\nCOLUMNS\n    x  obj  1  r1  1\nRHS\n    RHS  r1  1\nBOUNDS\n UP BND x 4 $ c\nENDATA\n");
	QSexactClear ();
	return bad != 0;
}
