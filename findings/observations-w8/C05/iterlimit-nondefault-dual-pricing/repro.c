/* Pre-existing (unchanged tree): with a non-default dual pricing rule the exact dual
 * simplex ends a tiny infeasible LP with QS_LP_ITER_LIMIT (4) instead of
 * QS_LP_INFEASIBLE (2).
 *
 *   min -3a + 2b + 2c
 *   r0: -3c >= 2 ; r1: 0 = 1 ; r2: 2a + 4b - 3c <= -1 ; r3: b + c <= 4 ; r4: 3a <= 11
 *   a >= 0, 1 <= b <= 6, c >= 0
 *
 * exit 0: every pricing rule says infeasible; exit 1 otherwise. */
#include <stdio.h>
#include <stdlib.h>
#include <gmp.h>
#include "QSopt_ex.h"

static mpq_QSprob mk (void)
{
	int i, j, k;
	static const int A[5][3] = { {0, 0, -3}, {0, 0, 0}, {2, 4, -3}, {0, 1, 1}, {3, 0, 0} };
	static const int rhs[5] = { 2, 1, -1, 4, 11 };
	static const char sense[5] = { 'G', 'E', 'L', 'L', 'L' };
	static const int obj[3] = { -3, 2, 2 };
	mpq_QSprob p = mpq_QScreate_prob ("t", QS_MIN);
	mpq_t o, l, u, r, v[3];
	int ind[3];
	mpq_init (o); mpq_init (l); mpq_init (u); mpq_init (r);
	for (j = 0; j < 3; j++) mpq_init (v[j]);
	for (j = 0; j < 3; j++)
	{
		mpq_set_si (o, obj[j], 1);
		mpq_set_si (l, j == 1 ? 1 : 0, 1);
		if (j == 1) mpq_set_si (u, 6, 1); else mpq_set (u, mpq_ILL_MAXDOUBLE);
		mpq_QSnew_col (p, o, l, u, 0);
	}
	for (i = 0; i < 5; i++)
	{
		for (j = 0, k = 0; j < 3; j++)
			if (A[i][j]) { ind[k] = j; mpq_set_si (v[k], A[i][j], 1); k++; }
		mpq_set_si (r, rhs[i], 1);
		mpq_QSadd_row (p, k, ind, (const mpq_t *) v, (const mpq_t *) &r, sense[i], 0);
	}
	return p;
}

int main (void)
{
	int dp, scaling, st, rv, bad = 0, it[5];
	QSexactStart ();
	for (scaling = 0; scaling < 1; scaling++)
		for (dp = QS_PRICE_DDANTZIG; dp <= QS_PRICE_DDEVEX; dp++)
		{
			mpq_QSprob p = mk ();
			mpq_QSset_param (p, QS_PARAM_SIMPLEX_SCALING, scaling);
			mpq_QSset_param (p, QS_PARAM_DUAL_PRICING, dp);
			rv = mpq_QSopt_dual (p, &st);
			mpq_QSget_itcnt (p, it, it + 1, it + 2, it + 3, it + 4);
			printf ("scaling %d dual pricing %d: rval %d status %d  (iterations: pI %d pII %d dI %d dII %d)\n",
							scaling, dp, rv, st, it[0], it[1], it[2], it[3]);
			if (rv || st != QS_LP_INFEASIBLE) bad = 1;
			mpq_QSfree_prob (p);
		}
	QSexactClear ();
	return bad;
}
