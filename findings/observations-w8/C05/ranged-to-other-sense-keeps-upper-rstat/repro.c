/* Pre-existing defect (unchanged tree): after a solve that leaves the logical of a
 * ranged row nonbasic at its UPPER bound, QSchange_sense (row, 'L' | 'G' | 'E')
 * leaves p->basis->rstat[row] == QS_ROW_BSTAT_UPPER.  ILLbasis_load accepts that
 * status only for rows of sense 'R', so
 *   (a) every following mpq_QSopt_primal / mpq_QSopt_dual fails (rval 1,
 *       "unknown row basis stat 3") until the basis is replaced by hand, and
 *   (b) mpq_QSdelete_cols of a nonbasic column returns 1 AFTER it has deleted
 *       the column (the failing ILLbasis_load is its last step), skipping the
 *       wrapper's factorok = 0 / free_cache.
 *
 *   min -x - 2y ;  r0: 0 <= x + y <= 4 (ranged) ; r1: x - y <= 2 ; 0 <= x,y <= 3
 *   optimum (1,3): r0 at its upper end.
 *
 * exit 0: no defect seen; exit 1: defect reproduced. */
#include <stdio.h>
#include <stdlib.h>
#include <gmp.h>
#include "QSopt_ex.h"

static mpq_QSprob make_problem (void)
{
	mpq_QSprob p = mpq_QScreate_prob ("obs", QS_MIN);
	mpq_t o, l, u, rhs, rng, v[2];
	int ind[2] = { 0, 1 };
	mpq_init (o); mpq_init (l); mpq_init (u); mpq_init (rhs); mpq_init (rng);
	mpq_init (v[0]); mpq_init (v[1]);
	mpq_set_si (l, 0, 1); mpq_set_si (u, 3, 1);
	mpq_set_si (o, -1, 1); mpq_QSnew_col (p, o, l, u, "x");
	mpq_set_si (o, -2, 1); mpq_QSnew_col (p, o, l, u, "y");
	mpq_set_si (o, 5, 1); mpq_QSnew_col (p, o, l, u, "w");	/* stays nonbasic at 0 */
	mpq_set_si (v[0], 1, 1); mpq_set_si (v[1], 1, 1);
	mpq_set_si (rhs, 0, 1); mpq_set_si (rng, 4, 1);
	mpq_QSadd_ranged_row (p, 2, ind, (const mpq_t *) v, (const mpq_t *) &rhs, 'R', (const mpq_t *) &rng, "r0");
	mpq_set_si (v[1], -1, 1); mpq_set_si (rhs, 2, 1);
	mpq_QSadd_row (p, 2, ind, (const mpq_t *) v, (const mpq_t *) &rhs, 'L', "r1");
	return p;
}

int main (void)
{
	int st = 0, rv, bad = 0, ncols;
	char cs[3], rs[2];
	mpq_QSprob p;

	QSexactStart ();

	/* (a) */
	p = make_problem ();
	rv = mpq_QSopt_dual (p, &st);
	mpq_QSget_basis_array (p, cs, rs);
	printf ("solve 1: rval %d status %d, rstat of r0 = '%c'\n", rv, st, rs[0]);
	rv = mpq_QSchange_sense (p, 0, 'L');	/* r0 becomes x + y <= 0 */
	printf ("QSchange_sense (r0, 'L'): rval %d\n", rv);
	rv = mpq_QSopt_dual (p, &st);
	printf ("solve 2 (dual): rval %d status %d   (a fresh copy: rval 0, status 1, value 0)\n", rv, st);
	if (rv) bad = 1;
	rv = mpq_QSopt_primal (p, &st);
	printf ("solve 3 (primal): rval %d status %d\n", rv, st);
	if (rv) bad = 1;
	mpq_QSfree_prob (p);

	/* (b) */
	p = make_problem ();
	rv = mpq_QSopt_dual (p, &st);
	rv = mpq_QSchange_sense (p, 0, 'G');
	ncols = mpq_QSget_colcount (p);
	rv = mpq_QSdelete_col (p, 2);
	printf ("QSdelete_col (w): rval %d, columns %d -> %d\n", rv, ncols, mpq_QSget_colcount (p));
	if (rv && mpq_QSget_colcount (p) != ncols)
	{
		printf ("  the call reports failure but the column is gone\n");
		bad = 1;
	}
	mpq_QSfree_prob (p);
	QSexactClear ();
	return bad;
}
