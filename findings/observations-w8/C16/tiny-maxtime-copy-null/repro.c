/* A legal, tiny positive QS_PARAM_SIMPLEX_MAX_TIME makes QScopy_prob_mpq_dbl and
 * QScopy_prob_mpq_mpf fail (NULL), and QSexact_solver dereferences the NULL copy. */
#include <stdio.h>
#include <stdlib.h>
#include <gmp.h>
#include "qsopt_ex/QSopt_ex.h"

int main (int ac, char **av)
{
	mpq_QSprob p;
	dbl_QSprob d;
	mpf_QSprob f;
	mpq_t o, l, u, t, g;
	int r, st = 0;
	QSexactStart ();
	mpq_init (o); mpq_init (l); mpq_init (u); mpq_init (t); mpq_init (g);
	mpq_set_si (o, 1, 1); mpq_set_si (u, 5, 1);
	p = mpq_QScreate_prob ("t", QS_MAX);
	mpq_QSnew_col (p, o, l, u, "x");
	/* 10^-200 seconds: positive, accepted by QSset_param_EGlpNum */
	mpz_ui_pow_ui (mpq_denref (t), 10, 200);
	mpz_set_ui (mpq_numref (t), 1);
	r = mpq_QSset_param_EGlpNum (p, QS_PARAM_SIMPLEX_MAX_TIME, t);
	printf ("set max time 1e-200: rval %d\n", r);
	mpq_QSget_param_EGlpNum (p, QS_PARAM_SIMPLEX_MAX_TIME, &g);
	printf ("read back: %g (sign %d)\n", mpq_get_d (g), mpq_sgn (g));
	d = QScopy_prob_mpq_dbl (p, "d");
	f = QScopy_prob_mpq_mpf (p, "f");
	printf ("QScopy_prob_mpq_dbl -> %s, QScopy_prob_mpq_mpf -> %s\n", d ? "ok" : "NULL", f ? "ok" : "NULL");
	fflush (stdout);
	if (ac > 1)
	{
		r = QSexact_solver (p, 0, 0, 0, DUAL_SIMPLEX, &st);	/* SIGSEGV at exact.c:1678 */
		printf ("QSexact_solver rval %d status %d\n", r, st);
	}
	return !(d && f);
}
