/* A problem created through the API has no objective name (QSget_objname
 * returns NULL); its copy has one ("obj", or "obj_<n>" when a row is already
 * called obj), and the two problems are written differently. */
#include <stdio.h>
#include <stdlib.h>
#include <string.h>
#include <gmp.h>
#include "qsopt_ex/QSopt_ex.h"

int main (void)
{
	mpq_QSprob p, q;
	mpq_t o, l, u;
	int ind[1] = { 0 }, bad = 0;
	char *n1, *n2;
	QSexactStart ();
	mpq_init (o); mpq_init (l); mpq_init (u);
	mpq_set_si (o, 1, 1); mpq_set_si (u, 5, 1);
	p = mpq_QScreate_prob ("api", QS_MIN);
	mpq_QSnew_col (p, o, l, u, "x");
	mpq_QSadd_row (p, 1, ind, (const mpq_t *) &o, (const mpq_t *) &o, 'G', "obj");
	q = mpq_QScopy_prob (p, "api");
	n1 = mpq_QSget_objname (p);
	n2 = mpq_QSget_objname (q);
	printf ("objname of the original: %s\nobjname of the copy    : %s\n", n1 ? n1 : "(null)", n2 ? n2 : "(null)");
	bad = (n1 == 0) != (n2 == 0) || (n1 && n2 && strcmp (n1, n2));
	mpq_QSwrite_prob (p, "orig.lp", "LP");
	mpq_QSwrite_prob (q, "copy.lp", "LP");
	bad |= system ("diff orig.lp copy.lp") != 0;
	return bad;
}
