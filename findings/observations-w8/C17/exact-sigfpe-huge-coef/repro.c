/* QSexact_solver dies with SIGFPE (raised by GMP: mpq_set_d of an infinity)
 * on a valid, feasible, bounded LP one of whose numbers does not fit in a
 * double:
 *
 *     min x + y    s.t.  x + y >= 10^400,   x, y >= 0     (optimum 10^400)
 *
 * build:  gcc repro.c -I<wt> -I<wt>/qsopt_ex <wt>/.libs/libqsopt_ex.a \
 *             -lgmp -lz -lbz2 -lm -lpthread -o repro
 */
#include <stdio.h>
#include <gmp.h>
#include "QSopt_ex.h"

int main (void)
{
	int rval, status = 0, ind[2] = { 0, 1 };
	mpq_t one, zero, val[2], rhs;
	mpq_QSprob p;

	QSexactStart ();
	mpq_init (one); mpq_init (zero); mpq_init (val[0]); mpq_init (val[1]); mpq_init (rhs);
	mpq_set_ui (one, 1, 1);
	mpq_set_ui (val[0], 1, 1);
	mpq_set_ui (val[1], 1, 1);
	mpz_ui_pow_ui (mpq_numref (rhs), 10, 400);	/* rhs = 10^400 */

	p = mpq_QScreate_prob ("huge", QS_MIN);
	mpq_QSset_param (p, QS_PARAM_SIMPLEX_DISPLAY, 0);
	rval = mpq_QSnew_col (p, one, zero, mpq_ILL_MAXDOUBLE, "x");
	printf ("new_col %d\n", rval);
	rval = mpq_QSnew_col (p, one, zero, mpq_ILL_MAXDOUBLE, "y");
	printf ("new_col %d\n", rval);
	rval = mpq_QSadd_row (p, 2, ind, val, &rhs, 'G', "c1");
	printf ("add_row %d\n", rval);
	fflush (stdout);

	rval = QSexact_solver (p, NULL, NULL, NULL, DUAL_SIMPLEX, &status);
	printf ("QSexact_solver rval=%d status=%d\n", rval, status);

	mpq_QSfree_prob (p);
	mpq_clear (one); mpq_clear (zero); mpq_clear (val[0]); mpq_clear (val[1]); mpq_clear (rhs);
	QSexactClear ();
	return 0;
}
