/* a problem name that contains a blank, and an empty problem name */
#include "common.h"
static int one_case (const char *probname, const char *path)
{
	mpq_QSprob p; mpq_t one, zero, c[2]; int ind[2] = { 0, 1 }, rc;
	mpq_init (one); mpq_init (zero); mpq_init (c[0]); mpq_init (c[1]);
	setq (one, 1, 1); setq (zero, 0, 1); setq (c[0], 1, 1); setq (c[1], 1, 1);
	p = mpq_QScreate_prob (probname, QS_MIN);
	mpq_QSnew_col (p, one, zero, mpq_ILL_MAXDOUBLE, "x");
	mpq_QSnew_col (p, one, zero, mpq_ILL_MAXDOUBLE, "y");
	mpq_QSadd_row (p, 2, ind, (const mpq_t *) c, (const mpq_t *) &one, 'G', "c1");
	rc = write_and_read (p, path);
	mpq_QSfree_prob (p);
	return rc;
}
int main (void)
{
	int rc;
	QSexactStart ();
	rc = one_case ("my problem", "probname-blank.lp");
	rc |= one_case ("", "probname-empty.lp");
	QSexactClear ();
	return rc;
}
