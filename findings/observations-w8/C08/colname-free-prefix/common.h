/* helper shared by the reproducers: public API only */
#include <stdio.h>
#include <stdlib.h>
#include <string.h>
#include <gmp.h>
#include "QSopt_ex.h"
static void setq (mpq_t v, long n, long d) { mpq_set_si (v, n, (unsigned long) d); mpq_canonicalize (v); }
/* write p as LP, print the text, read it back; 0 iff the reader accepts it */
static int write_and_read (mpq_QSprob p, const char *path)
{
	mpq_QSprob q; FILE *f; int c;
	if (mpq_QSwrite_prob (p, path, "LP")) { printf ("writer failed\n"); return 2; }
	printf ("---- %s ----\n", path);
	f = fopen (path, "r"); while ((c = fgetc (f)) != EOF) putchar (c); fclose (f);
	printf ("----\n"); fflush (stdout);
	q = mpq_QSread_prob (path, "LP");
	if (!q) { printf ("RESULT: the reader REJECTS the text the writer produced\n"); return 1; }
	printf ("RESULT: read back, %d columns, %d rows\n", mpq_QSget_colcount (q), mpq_QSget_rowcount (q));
	mpq_QSfree_prob (q);
	return 0;
}
