/* a column whose name begins with "free" ("freedom") written in the Bounds
 * section right after a column that has only a lower bound */
#include "common.h"
int main (void)
{
	mpq_QSprob p; mpq_t one, zero, m3, five, c[2]; int ind[2] = { 0, 1 }, rc;
	QSexactStart ();
	mpq_init (one); mpq_init (zero); mpq_init (m3); mpq_init (five); mpq_init (c[0]); mpq_init (c[1]);
	setq (one, 1, 1); setq (zero, 0, 1); setq (m3, -3, 1); setq (five, 5, 1); setq (c[0], 1, 1); setq (c[1], 1, 1);
	p = mpq_QScreate_prob ("p", QS_MIN);
	mpq_QSnew_col (p, one, m3, mpq_ILL_MAXDOUBLE, "x");	/* -3 <= x */
	mpq_QSnew_col (p, one, zero, five, "freedom");	/* 0 <= freedom <= 5 */
	mpq_QSadd_row (p, 2, ind, (const mpq_t *) c, (const mpq_t *) &one, 'G', "c1");
	rc = write_and_read (p, "colname-free-prefix.lp");
	mpq_QSfree_prob (p); QSexactClear ();
	return rc;
}
