/* a column whose lower bound is above its upper bound (0 <= y <= -3): the
 * library accepts it (the problem is simply infeasible) */
#include "common.h"
int main (void)
{
	mpq_QSprob p; mpq_t one, zero, m3, c[2]; int ind[2] = { 0, 1 }, rc, status = 0;
	QSexactStart ();
	mpq_init (one); mpq_init (zero); mpq_init (m3); mpq_init (c[0]); mpq_init (c[1]);
	setq (one, 1, 1); setq (zero, 0, 1); setq (m3, -3, 1); setq (c[0], 1, 1); setq (c[1], 1, 1);
	p = mpq_QScreate_prob ("p", QS_MIN);
	mpq_QSnew_col (p, one, zero, mpq_ILL_MAXDOUBLE, "x");
	rc = mpq_QSnew_col (p, one, zero, m3, "y");
	printf ("QSnew_col (0 <= y <= -3) returned %d\n", rc);
	mpq_QSadd_row (p, 2, ind, (const mpq_t *) c, (const mpq_t *) &one, 'G', "c1");
	rc = write_and_read (p, "bounds-crossed.lp");
	QSexact_solver (p, NULL, NULL, NULL, DUAL_SIMPLEX, &status);
	printf ("status of the original: %d (QS_LP_INFEASIBLE is %d)\n", status, QS_LP_INFEASIBLE);
	mpq_QSfree_prob (p); QSexactClear ();
	return rc;
}
