/* Two entry points dereference a NULL argument instead of rejecting it with a
 * message as their neighbours do.  Public API only; run with argument 1 or 2.
 * The process dies with SIGSEGV. */
#include <stdio.h>
#include <stdlib.h>
#include <gmp.h>
#include "QSopt_ex.h"

static void handler (const char *msg, void *data)
{
	(void) data;
	printf ("[%s]\n", msg);
}

int main (int ac, char **av)
{
	int which = (ac > 1) ? atoi (av[1]) : 1;
	mpq_QSprob p;

	QSlog_set_handler (handler, NULL);
	QSexactStart ();
	p = mpq_QScreate_prob ("p", QS_MIN);
	mpq_QSnew_col (p, mpq_oneLpNum, mpq_zeroLpNum, mpq_oneLpNum, "x");
	if (which == 1)
		(void) mpq_QSget_basis (NULL);			/* qsopt.c:2147  p->basis */
	else
		(void) mpq_QSload_basis (p, NULL);	/* qsopt.c:1917  B->nstruct */
	printf ("returned\n");
	mpq_QSfree_prob (p);
	QSexactClear ();
	return 0;
}
