/* One LP syntax error is delivered to the log handler as a string of
 * fragments, the offending token one character per handler call.
 * Public API only.  exit 1 iff a handler message is a lone character of the
 * offending token ">=" (i.e. the diagnostic was not delivered as a complete
 * message). */
#include <stdio.h>
#include <string.h>
#include <gmp.h>
#include "QSopt_ex.h"

static int n = 0, lone = 0;
static void handler (const char *msg, void *data)
{
	(void) data;
	n++;
	printf ("%2d: [%s]\n", n, msg);
	if (!strcmp (msg, ">") || !strcmp (msg, "="))
		lone++;
}

int main (void)
{
	mpq_QSprob p;
	FILE *f = fopen ("frag.lp", "w");

	fputs ("Minimize\n obj: x + y\nSubject To\n c1: x + y >= 1\n"
				 "Bounds\n x >= 2\nEnd\n", f);
	fclose (f);
	QSlog_set_handler (handler, NULL);
	QSexactStart ();
	p = mpq_QSread_prob ("frag.lp", "LP");
	if (p)
		mpq_QSfree_prob (p);
	QSexactClear ();
	printf ("%d handler calls, %d of them a lone character of the token\n",
					n, lone);
	return lone ? 1 : 0;
}
