/* dbl_QSopt_dual with QS_PRICE_DDANTZIG on a 3x3 LP spins in dual phase I
 * until the iteration limit and returns QS_LP_ITER_LIMIT; with display level
 * 1 the log handler receives one "starting dual phase I" per spin.
 * Public API only.  exit 1 iff the solve did not end optimal. */
#include <stdio.h>
#include <string.h>
#include <gmp.h>
#include "QSopt_ex.h"

static long n = 0, ns = 0;
static void handler (const char *msg, void *data)
{
	(void) data;
	n++;
	if (strstr (msg, "starting dual phase I,"))
		ns++;
}

int main (void)
{
	dbl_QSprob p;
	int status = 0, rval, it = 0;
	FILE *f = fopen ("stall.lp", "w");

	fputs ("Maximize\n obj: 3 x + 2 y + 4 z\nSubject To\n"
				 " c1: 3 x + 2 y + z <= 12\n c2: 5 x + y = 10\n c3: x + y + z >= 1\n"
				 "Bounds\n 2 <= x\n y free\n 1 <= z <= 10\nEnd\n", f);
	fclose (f);
	QSlog_set_handler (handler, NULL);
	QSexactStart ();
	p = dbl_QSread_prob ("stall.lp", "LP");
	dbl_QSset_param (p, QS_PARAM_SIMPLEX_DISPLAY, 1);
	dbl_QSset_param (p, QS_PARAM_DUAL_PRICING, QS_PRICE_DDANTZIG);
	rval = dbl_QSopt_dual (p, &status);
	dbl_QSget_itcnt (p, 0, 0, 0, 0, &it);
	printf ("rval=%d status=%d (QS_LP_OPTIMAL=%d, QS_LP_ITER_LIMIT=%d) "
					"iterations=%d handler calls=%ld, 'starting dual phase I'=%ld\n",
					rval, status, QS_LP_OPTIMAL, QS_LP_ITER_LIMIT, it, n, ns);
	dbl_QSfree_prob (p);
	QSexactClear ();
	return (rval == 0 && status == QS_LP_OPTIMAL) ? 0 : 1;
}
