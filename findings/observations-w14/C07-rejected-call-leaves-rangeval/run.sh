#!/bin/sh
W=${1:?usage: sh run.sh <worktree>}
D=$(cd "$(dirname "$0")" && pwd)
cd "$D" || exit 99
cc -g -O0 -o repro repro.c -I"$W" -I"$W/qsopt_ex" "$W/.libs/libqsopt_ex.a" -lgmp -lz -lbz2 -lm -lpthread || exit 99
./repro 2>/dev/null
rc=$?
diff A_before.mps A_after.mps
exit $rc
