/* A rejected call leaves a trace: the MPS file written after the call has an
 * (empty) RANGES section that the file written before the call does not have.
 *   case A: QSadd_ranged_row with a DUPLICATE row name (sense 'R')
 *   case B: QSchange_range on a row that is not ranged
 * Public API only.  Exit 0 = files identical (property holds), 1 = they differ.
 */
#include <stdio.h>
#include <stdlib.h>
#include <string.h>
#include <gmp.h>
#include "logging-private.h"
#include "QSopt_ex.h"

static void setq (mpq_t q, long n) { mpq_set_si (q, n, 1); }

static mpq_QSprob build (void)
{
	mpq_QSprob p = mpq_QScreate_prob ("obs", QS_MAX);
	mpq_t one, lo, up, rhs, v[2];
	int ind[2] = { 0, 1 };

	mpq_init (one); mpq_init (lo); mpq_init (up); mpq_init (rhs); mpq_init (v[0]); mpq_init (v[1]);
	setq (one, 1); setq (lo, 0); setq (up, 3);
	mpq_QSnew_col (p, one, lo, up, "x");
	mpq_QSnew_col (p, one, lo, up, "y");
	setq (v[0], 1); setq (v[1], 1); setq (rhs, 4);
	mpq_QSadd_row (p, 2, ind, (const mpq_t *) v, (const mpq_t *) &rhs, 'L', "r0");
	mpq_clear (one); mpq_clear (lo); mpq_clear (up); mpq_clear (rhs); mpq_clear (v[0]); mpq_clear (v[1]);
	return p;
}

static int same (const char *a, const char *b)
{
	char cmd[256];
	snprintf (cmd, sizeof cmd, "cmp -s %s %s", a, b);
	return system (cmd) == 0;
}

int main (void)
{
	mpq_QSprob p;
	mpq_t one, rhs, v[2];
	int ind[2] = { 0, 1 };
	int rval, bad = 0;

	QSexactStart ();
	mpq_init (one); mpq_init (rhs); mpq_init (v[0]); mpq_init (v[1]);
	setq (one, 1); setq (rhs, 4); setq (v[0], 1); setq (v[1], 1);

	p = build ();
	mpq_QSwrite_prob (p, "A_before.mps", "MPS");
	rval = mpq_QSadd_ranged_row (p, 2, ind, (const mpq_t *) v, (const mpq_t *) &rhs, 'R',
															 (const mpq_t *) &one, "r0");
	mpq_QSwrite_prob (p, "A_after.mps", "MPS");
	printf ("case A: QSadd_ranged_row (duplicate name) returned %d, rows %d, files %s\n", rval,
					mpq_QSget_rowcount (p), same ("A_before.mps", "A_after.mps") ? "identical" : "DIFFER");
	bad |= !same ("A_before.mps", "A_after.mps");
	mpq_QSfree_prob (p);

	p = build ();
	mpq_QSwrite_prob (p, "B_before.mps", "MPS");
	rval = mpq_QSchange_range (p, 0, one);
	mpq_QSwrite_prob (p, "B_after.mps", "MPS");
	printf ("case B: QSchange_range (row of sense L) returned %d, files %s\n", rval,
					same ("B_before.mps", "B_after.mps") ? "identical" : "DIFFER");
	bad |= !same ("B_before.mps", "B_after.mps");
	mpq_QSfree_prob (p);

	mpq_clear (one); mpq_clear (rhs); mpq_clear (v[0]); mpq_clear (v[1]);
	QSexactClear ();
	return bad;
}
