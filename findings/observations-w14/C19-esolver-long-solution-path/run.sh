#!/bin/sh
# usage: sh run.sh <worktree>   -- exit 0 = solution file is where -O said, 1 = defect shown
WT=${1:?usage: sh run.sh <worktree>}
HERE=$(cd "$(dirname "$0")" && pwd)
ES="$WT/esolver/esolver"
W="$HERE/work"; rm -rf "$W"; mkdir -p "$W"; cd "$W" || exit 2
printf 'Minimize\n obj: -x - y\nSubject To\n c1: x + y <= 10\nBounds\n x <= 3\n y <= 4\nEnd\n' > ok.lp
D=$(awk 'BEGIN{d=""; for(k=0;k<5;k++){s=""; for(i=0;i<200;i++) s=s "d"; d=d (k?"/":"") s}; print d}')
mkdir -p "$D" || exit 2
O="$D/$(awk 'BEGIN{s=""; for(i=0;i<100;i++) s=s "s"; print s}').sol.gz"
echo "length of the -O argument (relative to the work directory): ${#O}"
"$ES" -O "$O" ok.lp > log.txt 2>&1; rc=$?
echo "esolver exit $rc"
if [ -f "$O" ]; then echo "solution file exists under the requested name"; exit 0; fi
echo "solution file does NOT exist under the requested name; files below the directory:"
find d* -type f | awk '{ printf "  name of %d characters, ends in ...%s\n", length($0), substr($0, length($0)-11) }'
exit 1
