/* In the Bounds section of an LP file an infinite bound must be followed by a
 * blank or the end of the line: "-inf<=x" is rejected although "-3<=x",
 * "x<=7" and "-inf <=x" are read.  Blanks around "<=" are a layout choice.
 * exit 0: both files read and equal; exit 1 otherwise */
#include <stdio.h>
#include <stdlib.h>
#include "QSopt_ex.h"
static mpq_QSprob rd (const char *name, const char *bound)
{
	FILE *f = fopen (name, "w");
	fprintf (f, "Minimize\n obj: x + y\nSubject To\n c1: x + y >= 1\nBounds\n %s\n -3<=y\nEnd\n", bound);
	fclose (f);
	return mpq_QSread_prob (name, "LP");
}
int main (void)
{
	mpq_QSprob a, b;
	QSexactStart ();
	a = rd ("inf_blank.lp", "-inf <=x<=5");
	b = rd ("inf_noblank.lp", "-inf<=x<=5");
	printf ("\"-inf <=x<=5\": %s\n\"-inf<=x<=5\" : %s\n", a ? "read" : "REJECTED", b ? "read" : "REJECTED");
	return (a && b) ? 0 : 1;
}
