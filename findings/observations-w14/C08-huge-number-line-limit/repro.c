/* one coefficient 10^n + 7 with n+1 decimal digits.
 *   ./repro 131000   -> round trip ok
 *   ./repro 131060   -> read back accepted, but the coefficient is a different number
 *   ./repro 131072   -> the writer overruns its line buffer: segmentation fault
 * build: gcc -I$W -I$W/qsopt_ex repro.c $W/.libs/libqsopt_ex.a -lgmp -lz -lbz2 -lm -lpthread */
#include <stdio.h>
#include <stdlib.h>
#include "QSopt_ex.h"
int main (int ac, char **av)
{
	unsigned long n = ac > 1 ? strtoul (av[1], 0, 10) : 131060;
	mpq_QSprob p, q;
	mpq_t one, zero, back, val[2];
	int ind[2] = { 0, 1 };
	QSexactStart ();
	mpq_init (one); mpq_init (zero); mpq_init (back); mpq_init (val[0]); mpq_init (val[1]);
	mpq_set_ui (one, 1, 1);
	mpq_set_ui (val[0], 1, 1);
	mpz_ui_pow_ui (mpq_numref (val[1]), 10, n);
	mpz_add_ui (mpq_numref (val[1]), mpq_numref (val[1]), 7);
	p = mpq_QScreate_prob ("p", QS_MIN);
	mpq_QSnew_col (p, one, zero, mpq_ILL_MAXDOUBLE, "x");
	mpq_QSnew_col (p, one, zero, mpq_ILL_MAXDOUBLE, "y");
	mpq_QSadd_row (p, 2, ind, (const mpq_t *) val, (const mpq_t *) &one, 'G', "r1");
	if (mpq_QSwrite_prob (p, "huge.lp", "LP")) { printf ("write failed\n"); return 2; }
	q = mpq_QSread_prob ("huge.lp", "LP");
	if (!q) { printf ("read back: REJECTED\n"); return 1; }
	mpq_QSget_coef (q, 0, 1, &back);
	printf ("read back: accepted, coefficient of y %s (%lu digits written, %lu read)\n",
					mpq_equal (back, val[1]) ? "identical" : "DIFFERENT",
					(unsigned long) mpz_sizeinbase (mpq_numref (val[1]), 10),
					(unsigned long) mpz_sizeinbase (mpq_numref (back), 10));
	return mpq_equal (back, val[1]) ? 0 : 1;
}
