/* A physical line of an LP file longer than ILL_namebufsize-3 = 131069 bytes is
 * cut in two by the line reader; a token that straddles the cut is read as two
 * tokens.  Here the Integer section is one long line and the name "abcd" sits
 * on the cut: the reader marks the columns "ab" and "cd" integer (and hence
 * binary) and leaves "abcd" continuous - silently.
 * build: cc -I$W -I$W/qsopt_ex repro.c $W/.libs/libqsopt_ex.a -lgmp -lz -lbz2 -lm -lpthread
 * exit 0: read as written; exit 1: misread */
#include <stdio.h>
#include <stdlib.h>
#include <string.h>
#include "QSopt_ex.h"
#define CUT 131069
int main (void)
{
	FILE *f = fopen ("longline.lp", "w");
	int i, len, col, *fl, bad = 0;
	mpq_QSprob p;
	mpq_t lo, up;

	fprintf (f, "Minimize\n obj: abcd + ab + cd\nSubject To\n c0: abcd + ab + cd >= 1\n");
	for (i = 0; i < 19000; i += 10)
		fprintf (f, " c%d: v%05d + v%05d + v%05d + v%05d + v%05d + v%05d + v%05d + v%05d + v%05d + v%05d >= 1\n",
						 i + 1, i, i + 1, i + 2, i + 3, i + 4, i + 5, i + 6, i + 7, i + 8, i + 9);
	fprintf (f, "Integer\n");
	len = 0;
	for (i = 0; len + 7 < CUT - 3; i++)
		len += fprintf (f, " v%05d", i);
	for (; len < CUT - 2; len++)
		fputc (' ', f);
	fprintf (f, "abcd\nEnd\n");		/* "ab" ends on byte CUT of the line */
	fclose (f);

	QSexactStart ();
	p = mpq_QSread_prob ("longline.lp", "LP");
	if (!p)
	{
		printf ("not read\n");
		return 1;
	}
	fl = calloc (mpq_QSget_colcount (p), sizeof (int));
	mpq_QSget_intflags (p, fl);
	mpq_init (lo);
	mpq_init (up);
	{
		const char *nm[3] = { "abcd", "ab", "cd" };
		int want[3] = { 1, 0, 0 };
		for (i = 0; i < 3; i++)
		{
			mpq_QSget_column_index (p, nm[i], &col);
			mpq_QSget_bound (p, col, 'U', &up);
			gmp_printf ("%-4s integer=%d (written: %d) upper=%s\n", nm[i], fl[col], want[i],
									mpq_equal (up, mpq_ILL_MAXDOUBLE) ? "+inf" : "1");
			bad += (fl[col] != want[i]);
		}
	}
	return bad ? 1 : 0;
}
