/* a problem name that is empty or contains a blank: the written LP text is rejected.
 * build: gcc -I$W -I$W/qsopt_ex repro.c $W/.libs/libqsopt_ex.a -lgmp -lz -lbz2 -lm -lpthread */
#include <stdio.h>
#include "QSopt_ex.h"
static int one_name (const char *name)
{
	mpq_QSprob p, q;
	mpq_t one, zero, val[2];
	int ind[2] = { 0, 1 };
	mpq_init (one); mpq_init (zero); mpq_init (val[0]); mpq_init (val[1]);
	mpq_set_ui (one, 1, 1);
	mpq_set_ui (val[0], 1, 1); mpq_set_ui (val[1], 2, 1);
	p = mpq_QScreate_prob (name, QS_MIN);
	mpq_QSnew_col (p, one, zero, mpq_ILL_MAXDOUBLE, "x");
	mpq_QSnew_col (p, one, zero, mpq_ILL_MAXDOUBLE, "y");
	mpq_QSadd_row (p, 2, ind, (const mpq_t *) val, (const mpq_t *) &one, 'G', "r1");
	if (mpq_QSwrite_prob (p, "probname.lp", "LP")) { printf ("write failed\n"); return 2; }
	q = mpq_QSread_prob ("probname.lp", "LP");
	printf ("problem name \"%s\": read back %s\n", name, q ? "accepted" : "REJECTED");
	return q ? 0 : 1;
}
int main (void)
{
	int bad = 0;
	QSexactStart ();
	bad += one_name ("model");
	bad += one_name ("my model");
	bad += one_name ("");
	return bad != 0;
}
