#!/bin/sh
# usage: sh run.sh <worktree>   -- exit 0 = all files read, 1 = defect shown
WT=${1:?usage: sh run.sh <worktree>}
HERE=$(cd "$(dirname "$0")" && pwd)
ES="$WT/esolver/esolver"
W="$HERE/work"; rm -rf "$W"; mkdir -p "$W"; cd "$W" || exit 2
printf 'Minimize\n obj: -x - y\nSubject To\n c1: x + y <= 10\nBounds\n x <= 3\n y <= 4\nEnd\n' > ok.lp
printf 'NAME T\nROWS\n N obj\n L c1\nCOLUMNS\n x obj -1 c1 1\n y obj -1 c1 1\nRHS\n rhs c1 10\nBOUNDS\n UP b x 3\n UP b y 4\nENDATA\n' > ok.mps
bad=0
try () { # label file
	"$ES" -O "$W/out.sol" "$2" > "$W/log.txt" 2>&1; rc=$?
	echo "$1: exit $rc  ($(grep -h 'Could not read' "$W/log.txt"))"
	[ $rc -eq 0 ] || bad=1
}
try "reference ok.lp" ok.lp
# (a) every byte in front of the extension is non-ASCII (or a dot)
cp ok.lp 'ñ.lp';            try "(a) ñ.lp (relative name)" 'ñ.lp'
                            try "(a) ./ñ.lp (same file)" './ñ.lp'
# (b) more than 128 pieces between dots in the path
D=$(awk 'BEGIN{s="a"; for(i=1;i<100;i++) s=s ".a"; print s}')
F=$(awk 'BEGIN{s="b"; for(i=1;i<40;i++) s=s ".b"; print s}').lp
mkdir -p "$D"; cp ok.lp "$D/$F"; try "(b) 140 dot separated pieces" "$D/$F"
# (c) upper-case compression suffix: get_ftype strips it, EGioOpen does not know it
gzip -c ok.mps > OK.MPS.GZ;  try "(c) OK.MPS.GZ" OK.MPS.GZ
bzip2 -c ok.lp > OK.LP.BZ2;  try "(c) OK.LP.BZ2" OK.LP.BZ2
gzip -c ok.mps > ok.mps.gz;  try "reference ok.mps.gz" ok.mps.gz
exit $bad
