/* a column that has only a lower bound, followed (in column order) by a column
 * whose name starts with "free" (any case) and that has a bound line as well:
 * the LP text the writer produces is rejected by the reader.
 * build: gcc -I$W -I$W/qsopt_ex repro.c $W/.libs/libqsopt_ex.a -lgmp -lz -lbz2 -lm -lpthread */
#include <stdio.h>
#include "QSopt_ex.h"
int main (void)
{
	mpq_QSprob p, q;
	mpq_t one, zero, two, five, val[2];
	int ind[2] = { 0, 1 };
	QSexactStart ();
	mpq_init (one); mpq_init (zero); mpq_init (two); mpq_init (five); mpq_init (val[0]); mpq_init (val[1]);
	mpq_set_ui (one, 1, 1); mpq_set_ui (two, 2, 1); mpq_set_ui (five, 5, 1);
	mpq_set_ui (val[0], 1, 1); mpq_set_ui (val[1], 2, 1);
	p = mpq_QScreate_prob ("p", QS_MIN);
	mpq_QSnew_col (p, one, two, mpq_ILL_MAXDOUBLE, "x");	/* 2 <= x        */
	mpq_QSnew_col (p, one, zero, five, "freeze");					/* freeze <= 5   */
	mpq_QSadd_row (p, 2, ind, (const mpq_t *) val, (const mpq_t *) &one, 'G', "r1");
	if (mpq_QSwrite_prob (p, "free-prefix.lp", "LP")) { printf ("write failed\n"); return 2; }
	q = mpq_QSread_prob ("free-prefix.lp", "LP");
	printf ("read back: %s\n", q ? "accepted" : "REJECTED");
	return q ? 0 : 1;
}
