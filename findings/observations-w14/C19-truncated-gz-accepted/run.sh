#!/bin/sh
WT=${1:?usage: sh run.sh <worktree>}
HERE=$(cd "$(dirname "$0")" && pwd)
cd "$HERE" || exit 2
cc -o repro repro.c -I"$WT" -I"$WT/qsopt_ex" "$WT/.libs/libqsopt_ex.a" -lgmp -lz -lbz2 -lm -lpthread || exit 2
./repro 2>repro.err; rc=$?
gzip -t cut.mps.gz; echo "gzip -t cut.mps.gz: exit $?"
"$WT/esolver/esolver" -O cut.sol cut.mps.gz >esolver.log 2>&1; echo "esolver on cut.mps.gz: exit $?"; head -7 cut.sol
"$WT/esolver/esolver" -O full.sol full.mps.gz >esolver.log 2>&1; echo "esolver on full.mps.gz: exit $?"; head -7 full.sol
echo "exit $rc"
exit $rc
