/* A gzip file that has lost its tail (no trailer, deflate stream cut) is read
 * by mpq_QSread_prob as if the decodable prefix were the whole file: for an
 * MPS file, where a missing ENDATA is only a warning, a different problem is
 * loaded and no error is reported.  Public API only.
 * Exit 0 = the damaged file is refused, 1 = defect shown. */
#include <stdio.h>
#include <stdlib.h>
#include <string.h>
#include <zlib.h>
#include "QSopt_ex.h"

static const char mps[] =
	"NAME T\nROWS\n N obj\n L c1\nCOLUMNS\n x obj -1 c1 1\n y obj -1 c1 1\n"
	"RHS\n rhs c1 10\nBOUNDS\n UP b x 3\n UP b y 4\nENDATA\n";

int main (void)
{
	const char *full = "full.mps.gz", *cut = "cut.mps.gz";
	unsigned char raw[4096];
	size_t n, i, at = 0;
	FILE *f;
	gzFile g;
	mpq_QSdata *p;
	mpq_t lo, up;
	int rc = 0;

	/* stored (level 0) so that the cut can be put exactly in front of a line */
	g = gzopen (full, "wb0");
	if (!g || gzwrite (g, mps, sizeof (mps) - 1) != (int) sizeof (mps) - 1 || gzclose (g) != Z_OK)
		return 2;
	f = fopen (full, "rb");
	n = fread (raw, 1, sizeof (raw), f);
	fclose (f);
	for (i = 0; i + 9 <= n; i++)
		if (!memcmp (raw + i, " UP b y 4", 9))
			at = i;
	if (!at) return 2;
	f = fopen (cut, "wb");
	fwrite (raw, 1, at, f);				/* everything from the last bound on is gone */
	fclose (f);
	printf ("%s: %zu bytes, %s: %zu bytes\n", full, n, cut, at);

	QSexactStart ();
	QSexact_set_precision (128);
	mpq_init (lo); mpq_init (up);
	p = mpq_QSread_prob (cut, "MPS");
	if (!p)
		printf ("mpq_QSread_prob refused the damaged file (expected)\n");
	else
	{
		mpq_QSget_bound (p, 1, 'U', &up);
		printf ("mpq_QSread_prob ACCEPTED the damaged file; upper bound of y is %s 4\n",
						mpq_cmp_ui (up, 4, 1) ? "not" : "still");
		rc = 1;
		mpq_QSfree_prob (p);
	}
	QSexactClear ();
	return rc;
}
