/* max x0 + x1,  x0 - x1 <= 1,  x0 + x1 >= 1,  x >= 0  (unbounded)
 * solved from scratch by the three drivers */
#include <stdio.h>
#include <gmp.h>
#include "QSopt_ex.h"

static mpq_QSprob build (void)
{
	mpq_QSprob p = mpq_QScreate_prob ("u", QS_MAX);
	mpq_t one, zero, v[2], r;
	int ind[2] = { 0, 1 };

	mpq_init (one); mpq_init (zero); mpq_init (v[0]); mpq_init (v[1]); mpq_init (r);
	mpq_set_si (one, 1, 1);
	mpq_QSnew_col (p, one, zero, mpq_ILL_MAXDOUBLE, "x0");
	mpq_QSnew_col (p, one, zero, mpq_ILL_MAXDOUBLE, "x1");
	mpq_set_si (v[0], 1, 1); mpq_set_si (v[1], -1, 1); mpq_set_si (r, 1, 1);
	mpq_QSadd_row (p, 2, ind, (const mpq_t *) v, (const mpq_t *) &r, 'L', "c0");
	mpq_set_si (v[1], 1, 1);
	mpq_QSadd_row (p, 2, ind, (const mpq_t *) v, (const mpq_t *) &r, 'G', "c1");
	mpq_clear (one); mpq_clear (zero); mpq_clear (v[0]); mpq_clear (v[1]); mpq_clear (r);
	return p;
}

int main (void)
{
	mpq_QSprob p;
	int st, rv;

	QSexactStart ();
	QSexact_set_precision (128);
	p = build (); st = -1; rv = mpq_QSopt_primal (p, &st);
	printf ("mpq_QSopt_primal: rval %d status %d\n", rv, st); mpq_QSfree_prob (p);
	p = build (); st = -1; rv = mpq_QSopt_dual (p, &st);
	printf ("mpq_QSopt_dual  : rval %d status %d\n", rv, st); mpq_QSfree_prob (p);
	p = build (); st = -1; rv = QSexact_solver (p, 0, 0, 0, DUAL_SIMPLEX, &st);
	printf ("QSexact_solver(DUAL)  : rval %d status %d\n", rv, st); mpq_QSfree_prob (p);
	p = build (); st = -1; rv = QSexact_solver (p, 0, 0, 0, PRIMAL_SIMPLEX, &st);
	printf ("QSexact_solver(PRIMAL): rval %d status %d\n", rv, st); mpq_QSfree_prob (p);
	QSexactClear ();
	return 0;
}
