/* lp.c (EGLPNUM_TYPENAME_ILLread_lp) accepts "INTEGER" and "INT" as the header
 * of the integer section, but "INT" is missing from all_keyword[] of read_lp.c,
 * so the header is never recognised as a keyword: after a Bounds section it is
 * taken for a column name, after the constraints for the start of a constraint.
 * exit 0: both spellings read; exit 1 otherwise */
#include <stdio.h>
#include <stdlib.h>
#include "QSopt_ex.h"
static mpq_QSprob rd (const char *name, const char *kw, int bounds)
{
	FILE *f = fopen (name, "w");
	fprintf (f, "Minimize\n obj: x + y\nSubject To\n c1: x + y >= 1\n%s%s\n x\nEnd\n",
					 bounds ? "Bounds\n y <= 4\n" : "", kw);
	fclose (f);
	return mpq_QSread_prob (name, "LP");
}
int main (void)
{
	int bad = 0, i;
	const char *kw[4] = { "Integer", "Int", "Integer", "Int" };
	QSexactStart ();
	for (i = 0; i < 4; i++)
	{
		mpq_QSprob p = rd ("intkw.lp", kw[i], i >= 2);
		printf ("header \"%s\" %s a Bounds section: %s\n", kw[i], i >= 2 ? "after" : "without", p ? "read" : "REJECTED");
		bad += !p;
	}
	return bad ? 1 : 0;
}
