#!/bin/sh
WT=${1:?usage: sh run.sh <worktree>}
HERE=$(cd "$(dirname "$0")" && pwd)
cd "$HERE" || exit 2
cc -o repro repro.c -I"$WT" -I"$WT/qsopt_ex" "$WT/.libs/libqsopt_ex.a" -lgmp -lz -lbz2 -lm -lpthread || exit 2
./repro 2>repro.err; rc=$?
echo "--- dollar.bas"; cat dollar.bas
echo "--- library messages"; grep -v "^$" repro.err | tail -8
echo "exit $rc"
exit $rc
