/* A row whose name starts with '$' : the basis file written by
 * mpq_QSwrite_basis (what esolver -b does) cannot be read back by
 * mpq_QSread_and_load_basis (what esolver -B does).
 * Public API only.  Exit 0 = round trip works, 1 = defect shown. */
#include <stdio.h>
#include <stdlib.h>
#include "QSopt_ex.h"

int main (void)
{
	mpq_QSdata *p;
	mpq_t one, ten, three, m1, zero;
	int status = 0, rval, cmatind[2] = { 0, 1 };
	mpq_t cmatval[2];
	const char *bas = "dollar.bas";

	QSexactStart ();
	QSexact_set_precision (128);
	mpq_init (one); mpq_init (ten); mpq_init (three); mpq_init (m1); mpq_init (zero);
	mpq_init (cmatval[0]); mpq_init (cmatval[1]);
	mpq_set_si (one, 1, 1); mpq_set_si (ten, 10, 1); mpq_set_si (three, 3, 1);
	mpq_set_si (m1, -1, 1);
	mpq_set_si (cmatval[0], 1, 1); mpq_set_si (cmatval[1], 1, 1);

	/* min -x - y,  $c1: x + y <= 10,  0 <= x <= 3,  y >= 0 */
	p = mpq_QScreate_prob ("T", QS_MIN);
	rval = mpq_QSnew_col (p, m1, zero, three, "x")
		|| mpq_QSnew_col (p, m1, zero, mpq_ILL_MAXDOUBLE, "y")
		|| mpq_QSadd_row (p, 2, cmatind, (const mpq_t *) cmatval, &ten, 'L', "$c1");
	if (rval) { printf ("setup failed\n"); return 2; }
	rval = QSexact_solver (p, 0, 0, 0, PRIMAL_SIMPLEX, &status);
	printf ("QSexact_solver rval %d status %d\n", rval, status);
	if (rval || status != QS_LP_OPTIMAL) return 2;
	rval = mpq_QSwrite_basis (p, 0, bas);
	printf ("mpq_QSwrite_basis rval %d\n", rval);
	if (rval) return 2;
	rval = mpq_QSread_and_load_basis (p, bas);
	printf ("mpq_QSread_and_load_basis rval %d  (0 expected)\n", rval);
	mpq_QSfree_prob (p);
	QSexactClear ();
	return rval ? 1 : 0;
}
