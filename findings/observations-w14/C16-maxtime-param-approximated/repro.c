/* A time limit set on a rational problem does not arrive unchanged in the
 * reduced-precision copies (public API only).
 * build: cc -w -I$W -I$W/qsopt_ex repro.c $W/.libs/libqsopt_ex.a -lgmp -lz -lbz2 -lm -lpthread
 * exit 0: the copies have the limit of the rational problem; 1: they do not */
#include <stdio.h>
#include <gmp.h>
#include "QSopt_ex.h"

int main (void)
{
	mpq_QSprob p;
	dbl_QSprob d;
	mpf_QSprob f;
	mpq_t q, g;
	mpf_t fx;
	double want, x = 0.0;
	int bad = 0;

	QSexactStart ();
	QSexact_set_precision (128);
	p = mpq_QScreate_prob ("p", QS_MIN);
	mpq_init (q); mpq_init (g); mpf_init (fx);
	mpq_set_str (q, "1000000001/10000000000", 10);	/* 0.1000000001 seconds */
	mpq_canonicalize (q);
	want = mpq_get_d (q);		/* the library keeps the limit in a double */
	if (mpq_QSset_param_EGlpNum (p, QS_PARAM_SIMPLEX_MAX_TIME, q)) return 2;

	mpq_QSget_param_EGlpNum (p, QS_PARAM_SIMPLEX_MAX_TIME, &g);
	printf ("set %.17g, rational problem reports %.17g\n", want, mpq_get_d (g));

	d = QScopy_prob_mpq_dbl (p, "d");
	dbl_QSget_param_EGlpNum (d, QS_PARAM_SIMPLEX_MAX_TIME, &x);
	printf ("dbl copy has %.17g (relative difference %.3g)\n", x, (x - want) / want);
	if (x != want) bad = 1;

	f = QScopy_prob_mpq_mpf (p, "f");
	mpf_QSget_param_EGlpNum (f, QS_PARAM_SIMPLEX_MAX_TIME, &fx);
	printf ("mpf copy has %.17g\n", mpf_get_d (fx));
	if (mpf_get_d (fx) != want) bad = 1;

	dbl_QSfree_prob (d); mpf_QSfree_prob (f); mpq_QSfree_prob (p);
	mpq_clear (q); mpq_clear (g); mpf_clear (fx);
	QSexactClear ();
	return bad;
}
