#include <stdio.h>
#include "QSopt_ex.h"
int main(){ QSexactStart(); mpq_QSprob p=mpq_QScreate_prob("t",QS_MIN); mpq_t one,z,h,v; mpq_init(one);mpq_init(z);mpq_init(h);mpq_init(v); mpq_set_ui(one,1,1); mpq_set_d(h,1e150); mpq_set_d(z,-1e150);
 mpq_QSnew_col(p,one,z,h,"x"); int ind[1]={0}; mpq_t val[1]; mpq_init(val[0]); mpq_set_ui(val[0],1,1);
 for(int i=0;i<300;i++){ mpq_set_ui(v,1,1); mpq_QSadd_row(p,1,ind,val,&v,'G',NULL);} mpq_set_ui(v,2,1); mpq_QSadd_row(p,1,ind,val,&v,'L',NULL);
 mpq_QSset_param(p,QS_PARAM_SIMPLEX_DISPLAY,1);
 enum{N=300}; QSbasis Bs; static char cs[1], rs[N+1]; cs[0]=QS_COL_BSTAT_BASIC; for(int i=0;i<N;i++) rs[i]=QS_ROW_BSTAT_BASIC; rs[N]=QS_ROW_BSTAT_LOWER; Bs.nstruct=1; Bs.nrows=N+1; Bs.cstat=cs; Bs.rstat=rs;
 static mpq_t xa[N+2],ya[N+1]; for(int i=0;i<N+2;i++) mpq_init(xa[i]); for(int i=0;i<N+1;i++) mpq_init(ya[i]); mpq_set_ui(xa[0],2,1); for(int i=0;i<N;i++) mpq_set_ui(xa[1+i],1,1); mpq_set_ui(ya[N-1],1,1);
 int r=QSexact_optimal_test(p,xa,ya,&Bs); printf("optimal_test returned %d\n",r); return 0; }
