#include "small.h"
int main (int argc, char **argv)
{
	mpq_QSprob p; mpq_t v[2]; int ind[2] = { 0, 3 }, rv, status = 0;
	QSexactStart (); mpq_init (v[0]); mpq_init (v[1]); mpq_set_ui (v[0], 1, 1); mpq_set_ui (v[1], 2, 1);
	if (argc > 1) ind[1] = atoi (argv[1]);		/* e.g. 2147483647 -> SIGSEGV */
	p = load_small ();
	rv = mpq_QSadd_row (p, 2, ind, v, v, 'L', "r_before");
	printf ("before any solve: QSadd_row(cols {0,%d}) -> %d (rejected, no bad access)\n", ind[1], rv);
	rv = mpq_QSopt_dual (p, &status);
	printf ("QSopt_dual -> %d status %d\n", rv, status);
	rv = mpq_QSadd_row (p, 2, ind, v, v, 'L', "r_after");
	printf ("after the solve : QSadd_row(cols {0,%d}) -> %d (rejected, but see valgrind)\n", ind[1], rv);
	mpq_QSfree_prob (p); QSexactClear ();
	return 0;
}
