/* half-applied batches: a bad index is now rejected up front; a name clash in the 2nd item still leaves the 1st item added */
#include <stdio.h>
#include "QSopt_ex.h"
int main (void)
{
	mpq_QSdata *p;
	mpq_t one, v[2], z[2], lo[2], up[2];
	int cnt[2] = {1, 1}, beg[2] = {0, 1}, ind[2] = {0, 7};
	const char *dup[2] = {"a", "a"}, *ok[2] = {"a", "b"};
	char sense[2] = {'L', 'L'};
	int r, i;
	QSexactStart ();
	mpq_init (one); mpq_set_ui (one, 1, 1);
	for (i = 0; i < 2; i++) { mpq_init (v[i]); mpq_set_ui (v[i], 1, 1); mpq_init (z[i]); mpq_init (lo[i]); mpq_init (up[i]); mpq_set_ui (up[i], 5, 1); }
	p = mpq_QScreate_prob ("t", QS_MIN);
	mpq_QSnew_row (p, one, 'L', "r0");
	mpq_QSnew_col (p, one, z[0], one, "x");
	r = mpq_QSadd_cols (p, 2, cnt, beg, ind, v, z, lo, up, ok);
	printf ("add_cols, bad row index in 2nd column: rval=%d columns=%d (1 expected)\n", r, mpq_QSget_colcount (p));
	ind[1] = 0;
	r = mpq_QSadd_cols (p, 2, cnt, beg, ind, v, z, lo, up, dup);
	printf ("add_cols, 2nd name repeats the 1st:    rval=%d columns=%d (1 expected)\n", r, mpq_QSget_colcount (p));
	r = mpq_QSadd_rows (p, 2, cnt, beg, ind, v, z, sense, dup);
	printf ("add_rows, 2nd name repeats the 1st:    rval=%d rows=%d (1 expected)\n", r, mpq_QSget_rowcount (p));
	mpq_QSfree_prob (p);
	QSexactClear ();
	return 0;
}
