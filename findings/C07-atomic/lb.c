#include <stdio.h>
#include "QSopt_ex.h"
int main(){ QSexactStart();
 mpq_QSprob p=mpq_QScreate_prob("t",QS_MAX); mpq_t one,z,h,v; mpq_init(one);mpq_init(z);mpq_init(h);mpq_init(v); mpq_set_ui(one,1,1); mpq_set_ui(h,100,1);
 mpq_QSnew_col(p,one,z,h,"x"); mpq_QSnew_col(p,one,z,h,"y"); int ind[2]={0,1}; mpq_t val[2]; mpq_init(val[0]);mpq_init(val[1]); mpq_set_ui(val[0],1,1);mpq_set_ui(val[1],1,1);
 mpq_set_ui(v,4,1); mpq_QSadd_row(p,2,ind,val,&v,'L',"r0"); mpq_set_ui(v,3,1); mpq_QSadd_row(p,1,ind,val,&v,'L',"r1");
 int st; mpq_QSopt_dual(p,&st); QSbasis*B0=mpq_QSget_basis(p); printf("optimal basis: c=%c%c r=%c%c\n",B0->cstat[0],B0->cstat[1],B0->rstat[0],B0->rstat[1]);
 QSbasis S; S.nstruct=2;S.nrows=2; char cs[2]={QS_COL_BSTAT_LOWER,QS_COL_BSTAT_LOWER}, rs[2]={QS_ROW_BSTAT_LOWER,QS_ROW_BSTAT_LOWER}; S.cstat=cs;S.rstat=rs; /* no basic variable at all: malformed */
 int r=mpq_QSload_basis(p,&S); QSbasis*B1=mpq_QSget_basis(p);
 printf("QSload_basis(malformed) rval=%d; basis now: %s c=%c%c r=%c%c\n",r,B1?"":"(none)",B1?B1->cstat[0]:'-',B1?B1->cstat[1]:'-',B1?B1->rstat[0]:'-',B1?B1->rstat[1]:'-');
 return !(r!=0 && B1 && B1->cstat[0]==B0->cstat[0] && B1->cstat[1]==B0->cstat[1] && B1->rstat[0]==B0->rstat[0] && B1->rstat[1]==B0->rstat[1]); }
