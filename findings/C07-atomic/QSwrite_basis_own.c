#include <stdio.h>
#include "QSopt_ex.h"
int main(){ QSexactStart();
 mpq_QSprob p=mpq_QScreate_prob("t",QS_MAX); mpq_t one,z,h,v; mpq_init(one);mpq_init(z);mpq_init(h);mpq_init(v); mpq_set_ui(one,1,1); mpq_set_ui(h,100,1);
 mpq_QSnew_col(p,one,z,h,"x"); mpq_QSnew_col(p,one,z,h,"y"); int ind[2]={0,1}; mpq_t val[2]; mpq_init(val[0]);mpq_init(val[1]); mpq_set_ui(val[0],1,1);mpq_set_ui(val[1],1,1);
 mpq_set_ui(v,4,1); mpq_QSadd_row(p,2,ind,val,&v,'L',"r0"); mpq_set_ui(v,3,1); mpq_QSadd_row(p,1,ind,val,&v,'L',"r1");
 int st; mpq_QSopt_dual(p,&st); int r=mpq_QSwrite_basis(p,NULL,"/tmp/rp/own.bas"); QSbasis*B=mpq_QSget_basis(p);
 printf("QSwrite_basis(p,NULL,file) rval=%d; QSget_basis afterwards: %s nstruct=%d nrows=%d\n",r,B?"basis":"NULL",B?B->nstruct:-1,B?B->nrows:-1);
 return !(B && B->nstruct==2 && B->nrows==2); }
