#include <stdio.h>
#include "QSopt_ex.h"
static mpq_QSprob mk(void){ mpq_QSprob p=mpq_QScreate_prob("t",QS_MAX); mpq_t one,z,h,v; mpq_init(one);mpq_init(z);mpq_init(h);mpq_init(v);
 mpq_set_ui(one,1,1); mpq_set_ui(h,100,1); mpq_QSnew_col(p,one,z,h,"x"); mpq_QSnew_col(p,one,z,h,"y");
 int ind[2]={0,1}; mpq_t val[2]; mpq_init(val[0]);mpq_init(val[1]); mpq_set_ui(val[0],1,1);mpq_set_ui(val[1],1,1);
 mpq_set_ui(v,4,1); mpq_QSadd_row(p,2,ind,val,&v,'L',"r0"); mpq_set_ui(v,3,1); mpq_QSadd_row(p,1,ind,val,&v,'L',"r1"); return p; }
int main(){ QSexactStart(); int bad=0; mpq_t b[2],u; mpq_init(b[0]);mpq_init(b[1]);mpq_init(u); mpq_set_ui(b[0],5,1); mpq_set_ui(b[1],5,1);
 { mpq_QSprob p=mk(); int idx[2]={0,99}; char lu[2]={'U','U'}; int r=mpq_QSchange_bounds(p,2,idx,lu,b); mpq_QSget_bound(p,0,'U',&u);
   gmp_printf("QSchange_bounds({0,99}) rval=%d; upper[0] now %Qd (was 100)\n",r,u); if(r&&mpq_cmp_ui(u,100,1)) bad|=1; }
 { mpq_QSprob p=mk(); int rl[2]={0,1}; char s[2]={'G','X'}; int r=mpq_QSchange_senses(p,2,rl,s); char sn[3]={0,0,0}; mpq_QSget_senses(p,sn);
   printf("QSchange_senses({G,X}) rval=%d; senses now %s (was LL)\n",r,sn); if(r&&sn[0]!='L') bad|=2; }
 { mpq_QSprob p=mk(); int cnt[2]={1,1},beg[2]={0,1},ind[2]={0,99}; mpq_t val[2],o[2],lo[2],up[2]; for(int i=0;i<2;i++){mpq_init(val[i]);mpq_init(o[i]);mpq_init(lo[i]);mpq_init(up[i]);mpq_set_ui(val[i],1,1);mpq_set_ui(up[i],9,1);}
   const char*nm[2]={"a","b"}; int r=mpq_QSadd_cols(p,2,cnt,beg,ind,val,o,lo,up,nm); printf("QSadd_cols(2nd has row index 99) rval=%d; colcount now %d (was 2)\n",r,mpq_QSget_colcount(p)); if(r&&mpq_QSget_colcount(p)!=2) bad|=4; }
 { mpq_QSprob p=mk(); int cnt[2]={1,1},beg[2]={0,1},ind[2]={0,99}; mpq_t val[2],rhs[2]; for(int i=0;i<2;i++){mpq_init(val[i]);mpq_init(rhs[i]);mpq_set_ui(val[i],1,1);}
   char s[2]={'L','L'}; const char*nm[2]={"ra","rb"}; int r=mpq_QSadd_rows(p,2,cnt,beg,ind,val,rhs,s,nm); printf("QSadd_rows(2nd has col index 99) rval=%d; rowcount now %d (was 2)\n",r,mpq_QSget_rowcount(p)); if(r&&mpq_QSget_rowcount(p)!=2) bad|=8; }
 { mpq_QSprob p=mk(); int ind[1]={99}; mpq_t val[1],o,lo,up; mpq_init(val[0]);mpq_init(o);mpq_init(lo);mpq_init(up); mpq_set_ui(val[0],1,1);
   int r=mpq_QSadd_col(p,1,ind,val,o,lo,up,"z"); int ci=-7; int r2=mpq_QSget_column_index(p,"z",&ci); printf("QSadd_col(row index 99,\"z\") rval=%d; colcount %d; lookup of \"z\": rval=%d index=%d\n",r,mpq_QSget_colcount(p),r2,ci); if(r&&r2==0) bad|=16; }
 printf("bad=%d\n",bad); return bad; }
