"""Path-sensitive guard queries: does every path reaching an element pass an edge that establishes a fact?"""
from .core import strip, is_var, const_of, apath, fields_of, Flow
from .cond import atoms, SWAP


def field_pred(suffix):
    def pred(t):
        fl = fields_of(apath(t)[2])
        return bool(fl) and fl[-1].endswith(suffix)
    return pred


def var_pred(name, kinds=("sg", "g", "l", "p")):
    def pred(t):
        t = strip(t)
        return is_var(t, name=name) and any(t[1].startswith(k) for k in kinds)
    return pred


def states_at(prog, f, targets, pred, kill_on_write=True):
    """targets: set of (block id, elem idx).  Returns {target: set of facts} where a fact is
    'u' (unknown), 'zero', 'nonzero' about the expression matched by pred on the last test before the target."""
    seen = {t: set() for t in targets}

    def xfer(b, i, e, st):
        k = (b["id"], i)
        if k in seen:
            seen[k].add(st[0])
        if kill_on_write and e[0] == "A" and pred(e[1][2]):
            return [("u",)]
        return None

    def refine(cond, truth, st):
        for l, op, r in atoms(cond, truth):
            for a, b_, o in ((l, r, op), (r, l, SWAP[op])):
                if pred(a) and const_of(b_) == 0:
                    if o == "==":
                        return [("zero",)]
                    if o == "!=":
                        return [("nonzero",)]
        return None

    Flow(prog, f, [("u",)], xfer, refine).run()
    return seen


def dominated_by_fact(prog, f, bid, idx, pred, want):
    s = states_at(prog, f, {(bid, idx)}, pred)[(bid, idx)]
    return bool(s) and s == {want}
