"""Write-effect summaries: W(f) = set of (parameter k, field path) that f may write in an object
reachable from its k-th argument (bottom-up fixed point over the call graph; field paths k-limited)."""
import collections

from .core import (strip, is_var, callee, apath, fields_of, norm_callee, walk, const_of)

K = 8


class Effects:
    def __init__(self, prog):
        self.prog = prog
        self.proto = {}      # external function name -> list of canonical param types
        for uname, raw in prog.units.items():
            for d in raw["fdecls"]:
                if d["name"] not in self.proto or d.get("def"):
                    self.proto[norm_callee(d["name"])] = d.get("ptypes", [])
                    self.proto[d["name"]] = d.get("ptypes", [])
        self.origins = {}    # fkey -> {local: [paths]}
        self.direct = {}     # fkey -> list of (path, loc, how)
        self.callinfo = {}   # fkey -> list of (callee Function or None, name, loc, [arg paths], block id, idx)
        for f in prog.funcs.values():
            self._facts(f)
        self.W = collections.defaultdict(set)
        self._solve()

    # ---- per-function facts
    def _facts(self, f):
        org = collections.defaultdict(list)
        direct = []
        calls = []
        for b, i, e in f.elements():
            k = e[0]
            if k == "D":
                for name, init in e[1]:
                    if init is not None:
                        ty = f.ltypes.get(name, "")
                        if "*" in ty or "[" in ty:
                            org[name].append(apath(init))
            elif k == "A":
                n = e[1]
                lhs = strip(n[2])
                p = apath(lhs)
                if is_var(lhs) and lhs[1] == "l":
                    ty = f.ltypes.get(lhs[2], "")
                    if "*" in ty:
                        org[lhs[2]].append(apath(n[3]))
                    continue          # assignment to a local variable itself is not a write through it
                if is_var(lhs) and lhs[1].startswith("p"):
                    # the parameter variable is re-pointed: treat like a local origin
                    org[lhs[2]].append(apath(n[3]))
                    continue
                direct.append((p, e[2], "assign", b["id"], i))
            elif k == "U":
                t = strip(e[1][2])
                if is_var(t) and (t[1] == "l" or t[1].startswith("p")):
                    continue
                direct.append((apath(t), e[2], "incdec", b["id"], i))
            elif k == "C":
                c = e[1]
                name = callee(c)
                g = self.prog.resolve(f, name) if name else None
                args = [apath(a) for a in c[3]]
                calls.append((g, name, c[4], args, b["id"], i, c))
                if g is None and name is not None:
                    # external function: arguments bound to non-const pointer parameters are written
                    pts = self.proto.get(name, [])
                    for k2, a in enumerate(c[3]):
                        if k2 < len(pts):
                            t = pts[k2]
                            if ("*" in t or "[" in t) and not self._const_pointee(t) and "(" not in t:
                                pa = apath(a)
                                # &x passed: the write lands in x
                                if pa[2] and pa[2][-1] == "&":
                                    pa = (pa[0], pa[1], pa[2][:-1])
                                    direct.append((pa, c[4], "ext:" + name, b["id"], i))
                                else:
                                    direct.append(((pa[0], pa[1], pa[2] + ("*",)), c[4], "ext:" + name, b["id"], i))
        self.origins[f.key] = org
        direct, calls = self._refine_mixed(f, org, direct, calls)
        self.direct[f.key] = direct
        self.callinfo[f.key] = calls

    def _refine_mixed(self, f, org, direct, calls):
        """locals that point either into a parameter's object or to fresh storage (cstat = B->cstat / malloc): resolve, per
        write or call site, which origin the local can actually have there (path-sensitive, with null facts on parameters)"""
        def param_rooted(o, depth=0):
            if o[0].startswith("p"):
                return True
            if o[0] == "l" and depth < 4:
                return any(param_rooted(x, depth + 1) for x in org.get(o[1], []) if not (x[0] == "l" and x[1] == o[1]))
            return False
        mixed = {}
        for L, os_ in org.items():
            if f.param_index(L) is not None:
                continue
            pr = [o for o in os_ if param_rooted(o)]
            fr = [o for o in os_ if not param_rooted(o)]
            if pr and fr:
                mixed[L] = os_
        if not mixed:
            return direct, calls
        from .core import Flow
        from .cond import atoms, SWAP
        sites = {}
        for (p, loc, how, bid, idx) in direct:
            if p[0] == "l" and p[1] in mixed:
                sites.setdefault((bid, idx), set())
        for (g, name, loc, args, bid, idx, c) in calls:
            if any(a[0] == "l" and a[1] in mixed for a in args):
                sites.setdefault((bid, idx), set())
        if not sites:
            return direct, calls
        names = sorted(mixed)

        def setv(st, L, v):
            d = dict(st[0])
            d[L] = v
            return (tuple(sorted(d.items())), st[1])

        def xfer(b, i, e, st):
            if (b["id"], i) in sites:
                sites[(b["id"], i)].add(st[0])
            if e[0] == "A" and is_var(e[1][2], kind="l") and strip(e[1][2])[2] in mixed and e[1][1] == "=":
                return [setv(st, strip(e[1][2])[2], apath(e[1][3]))]
            if e[0] == "D":
                out = st
                for n, init in e[1]:
                    if n in mixed and init is not None:
                        out = setv(out, n, apath(init))
                return [out]
            return None

        def refine(cond, truth, st):
            nulls = dict(st[1])
            for l, op, r in atoms(cond, truth):
                for a, b_, o in ((l, r, op), (r, l, SWAP[op])):
                    if is_var(a, kind="p") and const_of(b_) == 0 and o in ("==", "!="):
                        nm = strip(a)[2]
                        want = "null" if o == "==" else "nonnull"
                        if nulls.get(nm, want) != want:
                            return []
                        nulls[nm] = want
            return [(st[0], tuple(sorted(nulls.items())))]
        try:
            Flow(self.prog, f, [((), ())], xfer, refine, max_visits=200000).run()
        except Exception:
            return direct, calls

        def actual(bid, idx, L):
            outs = set()
            for st0 in sites.get((bid, idx), ()):
                d = dict(st0)
                if L in d:
                    outs.add(d[L])
                else:
                    outs.update(mixed[L])       # unassigned on this path: keep all
            return outs or set(mixed[L])
        nd = []
        for (p, loc, how, bid, idx) in direct:
            if p[0] == "l" and p[1] in mixed:
                for o in actual(bid, idx, p[1]):
                    nd.append(((o[0], o[1], o[2] + p[2]), loc, how, bid, idx))
            else:
                nd.append((p, loc, how, bid, idx))
        nc = []
        for (g, name, loc, args, bid, idx, c) in calls:
            if any(a[0] == "l" and a[1] in mixed for a in args):
                # expand into one pseudo call per combination is overkill: substitute each mixed arg by each actual origin
                variants = [list(args)]
                for k, a in enumerate(args):
                    if a[0] == "l" and a[1] in mixed:
                        nv = []
                        for v in variants:
                            for o in actual(bid, idx, a[1]):
                                v2 = list(v)
                                v2[k] = (o[0], o[1], o[2] + a[2])
                                nv.append(v2)
                        variants = nv
                for v in variants:
                    nc.append((g, name, loc, v, bid, idx, c))
            else:
                nc.append((g, name, loc, args, bid, idx, c))
        return nd, nc

    @staticmethod
    def _const_pointee(t):
        t = t.strip()
        # canonical strings: "const char *", "const struct X *", "const __mpq_struct *"
        return t.startswith("const ") and t.count("*") == 1

    # ---- roots of a path: list of (param index, field steps) through local pointer origins
    def roots(self, f, path, depth=0, seen=None):
        kind, root, steps = path
        if kind.startswith("p"):
            # a re-pointed parameter keeps its own identity too
            out = [(int(kind[1:]), steps)]
            if depth < 6:
                for o in self.origins[f.key].get(root, []):
                    for (k, pre) in self.roots(f, o, depth + 1):
                        out.append((k, pre + steps))
            return out
        if kind == "l" and depth < 6:
            res = []
            for o in self.origins[f.key].get(root, []):
                if o[0] == "l" and o[1] == root:
                    continue
                for (k, pre) in self.roots(f, o, depth + 1):
                    res.append((k, pre + steps))
            return res
        return []

    def _solve(self):
        prog = self.prog
        for f in prog.funcs.values():
            for (p, loc, how, _b, _i) in self.direct[f.key]:
                if not p[2]:
                    continue
                for (k, st) in self.roots(f, p):
                    if not st:
                        continue
                    self.W[f.key].add((k, fields_of(st)[:K]))
        changed = True
        self.rounds = 0
        while changed and self.rounds < 40:
            changed = False
            self.rounds += 1
            for f in prog.funcs.values():
                wf = self.W[f.key]
                for (g, name, loc, args, bid, idx, c) in self.callinfo[f.key]:
                    targets = [g] if g is not None else (prog.call_targets(f, c) if name is None else [])
                    for g2 in targets:
                        for (k, fp) in list(self.W.get(g2.key, ())):
                            if k < len(args):
                                a = args[k]
                                if a[2] and a[2][-1] == "&":
                                    a = (a[0], a[1], a[2][:-1])
                                for (j, steps) in self.roots(f, a):
                                    ent = (j, (fields_of(steps) + fp)[:K])
                                    if ent not in wf:
                                        wf.add(ent)
                                        changed = True

    # ---- queries
    def call_writes(self, f, callinfo_entry):
        """field paths (rooted at params of f) that this call may write: list of (param j, fieldpath)"""
        (g, name, loc, args, bid, idx, c) = callinfo_entry
        out = []
        targets = [g] if g is not None else (self.prog.call_targets(f, c) if name is None else [])
        for g2 in targets:
            for (k, fp) in self.W.get(g2.key, ()):
                if k < len(args):
                    a = args[k]
                    if a[2] and a[2][-1] == "&":
                        a = (a[0], a[1], a[2][:-1])
                    for (j, steps) in self.roots(f, a):
                        out.append((j, (fields_of(steps) + fp)[:K]))
        return out

    def direct_writes(self, f):
        """list of (param j, fieldpath, loc, how) for direct writes of f"""
        out = []
        for (p, loc, how, _b, _i) in self.direct[f.key]:
            if not p[2]:
                continue
            for (k, st) in self.roots(f, p):
                if st:
                    out.append((k, fields_of(st)[:K], loc, how, _b, _i))
        return out
