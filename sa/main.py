"""Driver:  ./check Cxx [--tier quick|thorough]   |   ./check --replay out/Cxx/n.json"""
import argparse
import json
import os
import sys
import time
import traceback

from . import core
from .core import AnalysisBroken
from . import props

VERIF = os.path.dirname(os.path.dirname(os.path.abspath(__file__)))


def load_known():
    p = os.path.join(VERIF, "known_findings.json")
    if not os.path.isfile(p):
        return {"findings": [], "fixed": []}
    return json.load(open(p))


def run_property(pid, tier, repo, seed, only_key=None):
    t0 = time.time()
    spec = props.PROPS[pid]
    insts = spec.get("insts_" + tier)
    prog, cleanup = core.build_program(repo=repo, tier=tier, insts=insts)
    try:
        results = []
        for rule_fn in spec["rules"]:
            r = rule_fn(prog, tier)
            if r is None:
                continue
            if isinstance(r, list):
                results.extend(r)
            else:
                results.append(r)
        fx = props.run_fixtures(pid)
    finally:
        cleanup()
    # floors / fixtures -> analysis broken
    broken = []
    for r in results:
        for name, found, floor in r.floors:
            if found < floor:
                broken.append("%s: %s = %d below floor %d" % (r.rule, name, found, floor))
    for name, ok, detail in fx:
        if not ok:
            broken.append("fixture %s misbehaved: %s" % (name, detail))
    known = load_known()
    kmap = {(k["property"], k["rule"], k["key"]): k for k in known.get("findings", [])}
    viol, knownhits = [], []
    for r in results:
        for v in r.violations:
            if only_key and v.key != only_key:
                continue
            k = kmap.get((pid, v.rule, v.key))
            if k:
                knownhits.append((v, k))
            else:
                viol.append(v)
    wall = time.time() - t0
    return {"spec": spec, "results": results, "violations": viol, "known": knownhits, "broken": broken,
            "fixtures": fx, "wall": wall, "prog": prog}


def write_evidence(pid, tier, seed, out):
    spec = out["spec"]
    results = out["results"]
    prog = out["prog"]
    obligations = sum(r.obligations for r in results)
    nontrivial = sum(r.nontrivial for r in results)
    samples = []
    for r in results:
        for s in r.samples[:6]:
            samples.append(dict({"rule": r.rule}, **(s if isinstance(s, dict) else {"obligation": s})))
    nv = len(out["violations"]) + len(out["known"])
    ev = {
        "property_id": pid,
        "tier": tier,
        "seed": seed,
        "level": "other",
        "coverage": {
            "explanation": spec["explanation"],
            "technique": spec["technique"],
            "evaluations": obligations,
            "distinct_nontrivial": nontrivial,
            "rule": "one evaluation = one obligation instance of a rule (a sink site, an exit tuple, a guarded subscript, "
                    "a table entry ...) decided on the current source; non-trivial = needed a path-sensitive dataflow, "
                    "dominance or call-chain argument rather than a purely local syntactic match",
            "obligations": obligations,
            "discharged": obligations - nv if obligations >= nv else 0,
            "samples": samples or [{"note": "no obligations"}],
            "units_analysed": len(prog.loaded_units),
            "functions_analysed": len(prog.funcs),
            "rules": [r.summary() for r in results],
            "fixtures": [{"name": n, "ok": ok, "detail": d} for n, ok, d in out["fixtures"]],
            "known_findings_reported": [{"rule": v.rule, "key": v.key} for v, k in out["known"]],
            "unlisted_violations": [v.to_json() for v in out["violations"]],
            "analysis_broken": out["broken"],
            "not_decided": spec.get("not_decided", ""),
            "timing": getattr(prog, "timing", {}),
            "exhaustive": False,
        },
        "assumptions": spec.get("assumptions", []) + [
            "clang 14 front end parses the instantiated sources with the flags of the real build (shadow tree from Makefile.am)",
            "allocation-failure edges are outside the path universe (DESIGN 2.3)",
        ],
        "wall_s": round(out["wall"], 2),
        "violations": len(out["violations"]),
    }
    os.makedirs(os.path.join(VERIF, "evidence"), exist_ok=True)
    with open(os.path.join(VERIF, "evidence", pid + ".json"), "w") as fh:
        json.dump(ev, fh, indent=1)


def main(argv=None):
    ap = argparse.ArgumentParser()
    ap.add_argument("prop", nargs="?")
    ap.add_argument("--tier", default=os.environ.get("VERIF_TIER", "quick"))
    ap.add_argument("--replay")
    ap.add_argument("--verbose", "-v", action="store_true")
    a = ap.parse_args(argv)
    repo = os.environ.get("VERIF_REPO", "/repo")
    try:
        seed = int(os.environ.get("VERIF_SEED", "0"))
    except ValueError:
        seed = 0
    tier = a.tier if a.tier in ("quick", "thorough") else "quick"
    only_key = None
    pid = a.prop
    if a.replay:
        rp = json.load(open(a.replay))
        pid = rp["property"]
        only_key = rp["violation"]["key"]
    if pid not in props.PROPS:
        print("unknown or unclaimed property %s" % pid)
        return 2
    try:
        out = run_property(pid, tier, repo, seed, only_key)
    except AnalysisBroken as ex:
        print("ANALYSIS-BROKEN property=%s %s" % (pid, ex))
        return 2
    except Exception:
        traceback.print_exc()
        print("ANALYSIS-BROKEN property=%s internal error" % pid)
        return 2
    if not a.replay:
        write_evidence(pid, tier, seed, out)
    for r in out["results"]:
        print("%s: %d obligations, %d non-trivial, %d violations%s" % (
            r.rule, r.obligations, r.nontrivial, len(r.violations),
            (", counts=%s" % json.dumps(r.counts)) if a.verbose else ""))
    for v, k in out["known"]:
        print("KNOWN-FINDING: property=%s %s [%s] %s" % (pid, v.rule, v.key, k.get("what", v.msg)))
    if out["broken"]:
        for b in out["broken"]:
            print("ANALYSIS-BROKEN property=%s %s" % (pid, b))
        return 2
    if out["violations"]:
        od = os.path.join(VERIF, "out", pid)
        os.makedirs(od, exist_ok=True)
        for n, v in enumerate(out["violations"], 1):
            path = os.path.join(od, "%d.json" % n)
            if not a.replay:
                with open(path, "w") as fh:
                    json.dump({"property": pid, "tier": tier, "violation": v.to_json(),
                               "replay": "./check --replay %s" % path}, fh, indent=1)
            print(v.line())
            print("VIOLATION property=%s replay=%s" % (pid, path if not a.replay else a.replay))
        return 1
    print("OK property=%s tier=%s (%.1fs)" % (pid, tier, out["wall"]))
    return 0


if __name__ == "__main__":
    sys.exit(main())
