"""Driver:  ./check Cxx [--tier quick|thorough]   |   ./check --replay out/Cxx/n.json"""
import argparse
import json
import os
import sys
import time
import traceback

from . import core
from .core import AnalysisBroken
from . import props

VERIF = os.path.dirname(os.path.dirname(os.path.abspath(__file__)))


def load_known():
    p = os.path.join(VERIF, "known_findings.json")
    if not os.path.isfile(p):
        return {"findings": [], "fixed": []}
    return json.load(open(p))


def run_property(pid, tier, repo, seed, only_key=None, fixtures=True):
    t0 = time.time()
    spec = props.PROPS[pid]
    insts = spec.get("insts_" + tier)
    prog, cleanup = core.build_program(repo=repo, tier=tier, insts=insts)
    try:
        results = []
        for rule_fn in spec["rules"]:
            r = rule_fn(prog, tier)
            if r is None:
                continue
            if isinstance(r, list):
                results.extend(r)
            else:
                results.append(r)
        fx = props.run_fixtures(pid) if fixtures else []
    finally:
        cleanup()
    # floors / fixtures -> analysis broken
    broken = []
    for r in results:
        for name, found, floor in r.floors:
            if found < floor:
                broken.append("%s: %s = %d below floor %d" % (r.rule, name, found, floor))
    for name, ok, detail in fx:
        if not ok:
            broken.append("fixture %s misbehaved: %s" % (name, detail))
    known = load_known()
    kmap = {(k["property"], k["rule"], k["key"]): k for k in known.get("findings", [])}
    viol, knownhits = [], []
    for r in results:
        for v in r.violations:
            if only_key and v.key != only_key:
                continue
            k = kmap.get((pid, v.rule, v.key))
            if k:
                knownhits.append((v, k))
            else:
                viol.append(v)
    wall = time.time() - t0
    return {"spec": spec, "results": results, "violations": viol, "known": knownhits, "broken": broken,
            "fixtures": fx, "wall": wall, "prog": prog}


def _rules_named(text):
    import re
    return set(re.findall(r"R-[A-Z0-9]+", text or ""))


def _copy_tree(repo, tmp):
    import shutil, subprocess
    files = subprocess.run(["git", "-C", repo, "ls-files"], capture_output=True, text=True).stdout.split()
    for fn in files:
        src = os.path.join(repo, fn)
        if os.path.isfile(src) and (fn.endswith((".c", ".h", ".am", ".ac", ".in")) or "/" not in fn):
            os.makedirs(os.path.dirname(os.path.join(tmp, fn)) or tmp, exist_ok=True)
            shutil.copy(src, os.path.join(tmp, fn))


def _one_control(job):
    """worker (own process): apply one seeded change / reverted fix to a scratch copy and run the property's rules on it"""
    import shutil, subprocess, tempfile
    pid, repo, entry, want, kind, payload = job
    tmp = tempfile.mkdtemp(prefix="qsa-mut-", dir="/var/tmp")
    try:
        _copy_tree(repo, tmp)
        partial = False
        if kind == "patch":
            # strict application (no fuzz: a hunk that lands in another function would make the mutant a different change)
            r = subprocess.run(["git", "apply", "--whitespace=nowarn", payload], capture_output=True, text=True, cwd=tmp)
            if r.returncode != 0:
                entry["result"] = "skipped: patch does not apply to the current tree"
                return entry
        else:
            for dtxt in payload:
                # strict reverse application (no fuzz, no "unreversed patch" guessing) ...
                r = subprocess.run(["git", "apply", "-R", "--whitespace=nowarn", "-"], input=dtxt, capture_output=True, text=True, cwd=tmp)
                if r.returncode != 0:
                    # ... and, where later commits touched some of its lines, the hunks that still apply strictly (the others are left out):
                    # the control then only counts when the recorded rule reports the partially reverted tree
                    r2 = subprocess.run(["git", "apply", "-R", "--reject", "--whitespace=nowarn", "-"], input=dtxt, capture_output=True, text=True, cwd=tmp)
                    applied = (r2.stderr or "").count("Applied patch") + (r2.stderr or "").count("Hunk #") - (r2.stderr or "").count("Rejected hunk")
                    for root, _d, files in os.walk(tmp):
                        for fn in files:
                            if fn.endswith(".rej"):
                                os.unlink(os.path.join(root, fn))
                    chk = subprocess.run(["git", "-C", tmp, "status", "--porcelain"], capture_output=True, text=True)
                    if "Applied patch" not in (r2.stderr or "") and "cleanly" not in (r2.stderr or "") and applied <= 0:
                        entry["result"] = "skipped: the fix can no longer be reverted on the current tree"
                        return entry
                    partial = True
        try:
            o = run_property(pid, "quick", tmp, 0, fixtures=False)
            got = {v.rule for v in o["violations"]}      # listed known findings do not count: the change must add a report
            entry["reported_rules"] = sorted(got)
            if kind == "patch":
                entry["result"] = "detected" if (got & want if want else got) else "NOT DETECTED"
            elif partial:
                entry["result"] = "detected (partial revert: the hunks later commits left alone)" if (got & want) else \
                                  "skipped: the fix can only be reverted in part on the current tree, and the part is not what the rule reports"
            else:
                entry["result"] = "detected" if (got & want) else "NOT DETECTED"
        except AnalysisBroken as ex:
            if partial:
                entry["result"] = "skipped: the fix can only be reverted in part on the current tree, and the part alone does not compile"
            else:
                entry["result"] = "analysis broken on the %s: %s" % ("mutant" if kind == "patch" else "reverted tree", ex)
    finally:
        shutil.rmtree(tmp, ignore_errors=True)
    return entry


def mutation_controls(pid, repo):
    """thorough tier: every kept seeded change that this property's rules are recorded to catch is applied to a scratch copy of
    the current working tree and the rules are run on the copy; the control passes when the recorded rule reports a violation.
    A patch that no longer applies to the current tree is skipped (the tree moved on), never counted as a failure.  The controls are
    independent of each other and run in a pool of worker processes."""
    import glob
    jobs = []
    for meta_p in sorted(glob.glob(os.path.join(VERIF, "seeded", "*", "meta.json"))):
        m = json.load(open(meta_p))
        cb = m.get("caught_by", "")
        if cb.startswith("MISSED"):
            continue
        # 'C05 and C12 R-VERDICT ...' / 'C12 R-BASISMAP (...)': which properties claim the catch
        head = cb.split("R-")[0]
        props_named = set(__import__("re").findall(r"C\d\d", head)) or {m.get("property")}
        if pid not in props_named:
            continue
        want = _rules_named(cb)
        patch = os.path.join(os.path.dirname(meta_p), "patch.diff")
        jobs.append((pid, repo, {"seed": m["id"], "expected_rules": sorted(want)}, want, "patch", patch))
    jobs.extend(revert_jobs(pid, repo))
    if not jobs:
        return []
    import multiprocessing
    nproc = max(1, min(6, len(jobs), (os.cpu_count() or 2) // 2))
    if nproc == 1:
        return [_one_control(j) for j in jobs]
    with multiprocessing.get_context("fork").Pool(nproc) as pool:
        return pool.map(_one_control, jobs, chunksize=1)


def revert_jobs(pid, repo):
    """thorough tier: every genuine defect that was repaired in /repo (the 'fixed:' entries of known_findings.json naming this property)
    is re-introduced on a scratch copy by applying its fix commit in reverse; the rule recorded for it must report it again.  A fix
    whose reverse no longer applies (later commits touched the same lines) is skipped."""
    import re, subprocess
    out = []
    if not os.path.isdir(os.path.join(repo, ".git")) and not os.path.isfile(os.path.join(repo, ".git")):
        return out
    for line in load_known().get("fixed", []):
        m = re.match(r"fixed: property=(C\d\d) ([0-9a-f]{7,12}) ", line)
        if not m or m.group(1) != pid:
            continue
        want = _rules_named(line)
        if not want:
            continue
        h = m.group(2)
        diff = subprocess.run(["git", "-C", repo, "show", "--format=", h, "--", "qsopt_ex", "esolver"], capture_output=True, text=True)
        if diff.returncode != 0 or not diff.stdout.strip():
            continue
        # a later fix can make an earlier one redundant for the property (a caller now validates what the callee validated):
        # the entry then names the later fix as [revert-with <hash>] and both are reverted, later one first
        more = re.findall(r"\[revert-with ([0-9a-f]{7,12})\]", line)
        diffs = []
        for h2 in more:
            d2 = subprocess.run(["git", "-C", repo, "show", "--format=", h2, "--", "qsopt_ex", "esolver"], capture_output=True, text=True)
            if d2.returncode == 0 and d2.stdout.strip():
                diffs.append(d2.stdout)
        diffs.append(diff.stdout)
        entry = {"seed": "revert of fix %s%s" % (h, "".join(" + %s" % x for x in more)), "expected_rules": sorted(want)}
        out.append((pid, repo, entry, want, "revert", diffs))
    return out


def write_evidence(pid, tier, seed, out):
    spec = out["spec"]
    results = out["results"]
    prog = out["prog"]
    obligations = sum(r.obligations for r in results)
    nontrivial = sum(r.nontrivial for r in results)
    samples = []
    for r in results:
        for s in r.samples[:6]:
            samples.append(dict({"rule": r.rule}, **(s if isinstance(s, dict) else {"obligation": s})))
    nv = len(out["violations"]) + len(out["known"])
    ev = {
        "property_id": pid,
        "tier": tier,
        "seed": seed,
        "level": "other",
        "coverage": {
            "explanation": spec["explanation"],
            "technique": spec["technique"],
            "evaluations": obligations,
            "distinct_nontrivial": nontrivial,
            "rule": "one evaluation = one obligation instance of a rule (a sink site, an exit tuple, a guarded subscript, "
                    "a table entry ...) decided on the current source; non-trivial = needed a path-sensitive dataflow, "
                    "dominance or call-chain argument rather than a purely local syntactic match",
            "obligations": obligations,
            "discharged": obligations - nv if obligations >= nv else 0,
            "samples": samples or [{"note": "no obligations"}],
            "units_analysed": len(prog.loaded_units),
            "functions_analysed": len(prog.funcs),
            "rules": [r.summary() for r in results],
            "fixtures": [{"name": n, "ok": ok, "detail": d} for n, ok, d in out["fixtures"]],
            "mutation_controls": out.get("controls", []),
            "known_findings_reported": [{"rule": v.rule, "key": v.key} for v, k in out["known"]],
            "unlisted_violations": [v.to_json() for v in out["violations"]],
            "analysis_broken": out["broken"],
            "not_decided": spec.get("not_decided", ""),
            "timing": getattr(prog, "timing", {}),
            "exhaustive": False,
        },
        "assumptions": spec.get("assumptions", []) + [
            "clang 14 front end parses the instantiated sources with the flags of the real build (shadow tree from Makefile.am)",
            "allocation-failure edges are outside the path universe (DESIGN 2.3)",
        ],
        "wall_s": round(out["wall"], 2),
        "violations": len(out["violations"]),
    }
    os.makedirs(os.path.join(VERIF, "evidence"), exist_ok=True)
    with open(os.path.join(VERIF, "evidence", pid + ".json"), "w") as fh:
        json.dump(ev, fh, indent=1)


def main(argv=None):
    ap = argparse.ArgumentParser()
    ap.add_argument("prop", nargs="?")
    ap.add_argument("--tier", default=os.environ.get("VERIF_TIER", "quick"))
    ap.add_argument("--replay")
    ap.add_argument("--verbose", "-v", action="store_true")
    a = ap.parse_args(argv)
    repo = os.environ.get("VERIF_REPO", "/repo")
    try:
        seed = int(os.environ.get("VERIF_SEED", "0"))
    except ValueError:
        seed = 0
    tier = a.tier if a.tier in ("quick", "thorough") else "quick"
    only_key = None
    pid = a.prop
    if a.replay:
        rp = json.load(open(a.replay))
        pid = rp["property"]
        only_key = rp["violation"]["key"]
    if pid not in props.PROPS:
        print("unknown or unclaimed property %s" % pid)
        return 2
    try:
        out = run_property(pid, tier, repo, seed, only_key)
    except AnalysisBroken as ex:
        print("ANALYSIS-BROKEN property=%s %s" % (pid, ex))
        return 2
    except Exception:
        traceback.print_exc()
        print("ANALYSIS-BROKEN property=%s internal error" % pid)
        return 2
    if tier == "thorough" and not a.replay:
        try:
            out["controls"] = mutation_controls(pid, repo)
        except Exception as ex:     # the controls must never turn a sound verdict into a crash
            out["controls"] = [{"seed": "*", "result": "controls could not be run: %s" % ex}]
        for c in out["controls"]:
            if c.get("result") == "NOT DETECTED":
                out["broken"].append("mutation control %s: the seeded change is no longer reported by %s" % (c["seed"], "/".join(c["expected_rules"])))
    if not a.replay and not os.environ.get("VERIF_NO_EVIDENCE"):     # VERIF_NO_EVIDENCE: trial runs on scratch copies (tools/patchcheck.sh)
        write_evidence(pid, tier, seed, out)
    for r in out["results"]:
        print("%s: %d obligations, %d non-trivial, %d violations%s" % (
            r.rule, r.obligations, r.nontrivial, len(r.violations),
            (", counts=%s" % json.dumps(r.counts)) if a.verbose else ""))
    for v, k in out["known"]:
        print("KNOWN-FINDING: property=%s %s [%s] %s" % (pid, v.rule, v.key, k.get("what", v.msg)))
    if out["broken"]:
        for b in out["broken"]:
            print("ANALYSIS-BROKEN property=%s %s" % (pid, b))
        if not out["violations"]:
            return 2
        # a rule that lost its anchor does not silence a definite violation found by another rule
    if out["violations"]:
        od = os.path.join(os.environ.get("VERIF_OUT") or os.path.join(VERIF, "out"), pid)
        os.makedirs(od, exist_ok=True)
        for n, v in enumerate(out["violations"], 1):
            path = os.path.join(od, "%d.json" % n)
            if not a.replay:
                with open(path, "w") as fh:
                    json.dump({"property": pid, "tier": tier, "violation": v.to_json(),
                               "replay": "./check --replay %s" % path}, fh, indent=1)
            print(v.line())
            print("VIOLATION property=%s replay=%s" % (pid, path if not a.replay else a.replay))
        return 1
    if out.get("controls"):
        det = sum(1 for c in out["controls"] if str(c.get("result", "")).startswith("detected"))
        print("mutation controls: %d/%d seeded changes detected on a scratch copy (%d skipped)" % (
            det, len(out["controls"]), sum(1 for c in out["controls"] if str(c.get("result", "")).startswith("skipped"))))
    print("OK property=%s tier=%s (%.1fs)" % (pid, tier, out["wall"]))
    return 0


if __name__ == "__main__":
    sys.exit(main())
