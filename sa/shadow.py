"""Shadow tree: instantiate the template sources of /repo exactly as Makefile.am does,
in a private scratch directory, and emit a compilation database for clang tooling.

Nothing stale from /repo (old lib_mpq.c ...) is ever read: the shadow tree contains
only files listed in Makefile.am, instantiated from the *current* template sources.
"""
import json
import os
import re
import shutil
import sys

TYPES = ("dbl", "mpq", "mpf")


class AnalysisBroken(Exception):
    pass


def _var(text, name):
    m = re.search(r'^%s\s*=\s*((?:.*\\\n)*.*)$' % re.escape(name), text, re.M)
    if not m:
        raise AnalysisBroken("Makefile.am: variable %s not found" % name)
    body = m.group(1).replace('\\\n', ' ')
    return [w for w in body.split() if not w.startswith('$')]


def _sed_rules(text):
    """Read the substitutions of each instantiation from the Makefile's own sed lines."""
    rules = {}
    for t in TYPES:
        m = re.search(r"\$\(SED\)\s+-e\s+'s\|EGLPNUM_TYPENAME\|%s\|g'\s+-e\s+'s\|EGLPNUM_TYPE\|([^|]+)\|g'" % t, text)
        if not m:
            raise AnalysisBroken("Makefile.am: sed rule for %s not found" % t)
        rules[t] = m.group(1)
    return rules


def read_makefile(repo):
    text = open(os.path.join(repo, "Makefile.am")).read()
    mk = {
        "main_c": _var(text, "MAIN_SOURCE_FILES"),
        "pub_h": _var(text, "PUBLIC_HEADER_FILES"),
        "priv_h": _var(text, "PRIVATE_HEADER_FILES"),
        "tmpl_c": _var(text, "TEMPLATE_SOURCE_FILES"),
        "tmpl_pub_h": _var(text, "TEMPLATE_PUBLIC_HEADER_FILES"),
        "tmpl_priv_h": _var(text, "TEMPLATE_PRIVATE_HEADER_FILES"),
        "esolver_c": _var(text, "esolver_esolver_SOURCES"),
        "sed": _sed_rules(text),
    }
    return mk


def instantiate(src_text, t, ctype):
    # order matters and is the Makefile's: TYPENAME first, then TYPE
    return src_text.replace("EGLPNUM_TYPENAME", t).replace("EGLPNUM_TYPE", ctype)


def build(repo, dest, types=TYPES):
    """Build the shadow tree in dest. Returns dict with units, public headers, etc."""
    mk = read_makefile(repo)
    os.makedirs(os.path.join(dest, "qsopt_ex"), exist_ok=True)
    os.makedirs(os.path.join(dest, "esolver"), exist_ok=True)
    missing = []
    for f in mk["main_c"] + mk["pub_h"] + mk["priv_h"] + mk["tmpl_c"] + mk["tmpl_pub_h"] + mk["tmpl_priv_h"] + mk["esolver_c"]:
        if not os.path.isfile(os.path.join(repo, f)):
            missing.append(f)
    if missing:
        raise AnalysisBroken("files listed in Makefile.am are missing: %s" % ", ".join(missing))
    # a template-looking .c that is not listed would silently escape analysis
    listed = set(mk["main_c"] + mk["tmpl_c"])
    gen_re = re.compile(r'_(dbl|mpq|mpf)\.[ch]$')
    for fn in sorted(os.listdir(os.path.join(repo, "qsopt_ex"))):
        rel = "qsopt_ex/" + fn
        if fn.endswith(".c") and not gen_re.search(fn) and rel not in listed:
            txt = open(os.path.join(repo, rel), errors="replace").read()
            if "EGLPNUM_TYPE" in txt:
                raise AnalysisBroken("%s uses the template mechanism but is not listed in Makefile.am" % rel)

    def put(rel_src, rel_dst, t=None):
        txt = open(os.path.join(repo, rel_src), errors="surrogateescape").read()
        if t is not None:
            txt = instantiate(txt, t, mk["sed"][t])
        # report positions in terms of the file a maintainer edits
        txt = '#line 1 "%s"\n' % os.path.join(repo, rel_src) + txt
        with open(os.path.join(dest, rel_dst), "w", errors="surrogateescape") as fh:
            fh.write(txt)

    units = []  # (unit path, kind, type)
    for f in mk["main_c"]:
        put(f, f)
        units.append({"file": os.path.join(dest, f), "src": f, "inst": None})
    for f in sorted(set(mk["pub_h"] + mk["priv_h"])):
        put(f, f)
    for f in mk["tmpl_c"]:
        for t in types:
            d = f[:-2] + "_%s.c" % t
            put(f, d, t)
            units.append({"file": os.path.join(dest, d), "src": f, "inst": t})
    for f in mk["tmpl_pub_h"] + mk["tmpl_priv_h"]:
        for t in TYPES:  # headers of all instantiations are needed (exact.c includes all three)
            put(f, f[:-2] + "_%s.h" % t, t)
    for f in mk["esolver_c"]:
        put(f, f)
        units.append({"file": os.path.join(dest, f), "src": f, "inst": None})
    cfg = os.path.join(repo, "config.h")
    if not os.path.isfile(cfg):
        cfg = os.path.join(os.path.dirname(os.path.abspath(__file__)), "config.default.h")
    shutil.copy(cfg, os.path.join(dest, "config.h"))
    cdb = []
    for u in units:
        cdb.append({
            "directory": dest,
            "file": u["file"],
            "arguments": ["clang", "-std=gnu17", "-DHAVE_CONFIG_H", "-I.", "-I./qsopt_ex", "-Wno-everything",
                          "-fsyntax-only", "-UNDEBUG", u["file"]],
        })
    with open(os.path.join(dest, "compile_commands.json"), "w") as fh:
        json.dump(cdb, fh, indent=0)
    pub = set(mk["pub_h"])
    for f in mk["tmpl_pub_h"]:
        for t in TYPES:
            pub.add(f[:-2] + "_%s.h" % t)
    info = {"units": units, "public_headers": sorted(pub), "makefile": mk, "dest": dest, "repo": repo}
    with open(os.path.join(dest, "shadow.json"), "w") as fh:
        json.dump(info, fh, indent=0)
    return info


if __name__ == "__main__":
    info = build(sys.argv[1], sys.argv[2])
    print(len(info["units"]), "units")
