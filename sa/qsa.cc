// qsa -- exports the type-resolved program of each translation unit (records, globals,
// declarations, and for every function its clang::CFG with normalised expression trees)
// as one JSON file per unit.  All rules live in Python (sa/*.py) and work on this export.
//
// build: clang++ $(llvm-config-14 --cxxflags) -fno-rtti qsa.cc -o qsa \
//        /usr/lib/llvm-14/lib/libclang-cpp.so.14 /usr/lib/llvm-14/lib/libLLVM-14.so
#include "clang/AST/ASTConsumer.h"
#include "clang/AST/RecursiveASTVisitor.h"
#include "clang/AST/ParentMapContext.h"
#include "clang/Analysis/CFG.h"
#include "clang/Frontend/CompilerInstance.h"
#include "clang/Frontend/FrontendAction.h"
#include "clang/Lex/Lexer.h"
#include "clang/Tooling/CommonOptionsParser.h"
#include "clang/Tooling/Tooling.h"
#include "llvm/Support/CommandLine.h"
#include "llvm/Support/JSON.h"
#include "llvm/Support/FileSystem.h"
#include "llvm/Support/raw_ostream.h"
#include <map>
#include <set>
using namespace clang;
using namespace clang::tooling;
namespace json = llvm::json;

static llvm::cl::OptionCategory Cat("qsa");
static llvm::cl::opt<std::string> OutDir("o", llvm::cl::desc("output directory"), llvm::cl::Required, llvm::cl::cat(Cat));

namespace {

struct Exporter {
  ASTContext &C;
  SourceManager &SM;
  // per function
  std::map<const VarDecl *, std::string> LocalName;
  std::map<std::string, int> NameCount;
  json::Array Locals;

  Exporter(ASTContext &c) : C(c), SM(c.getSourceManager()) {}

  std::string ploc(SourceLocation L) {
    if (L.isInvalid()) return "?";
    SourceLocation E = SM.getExpansionLoc(L);
    PresumedLoc P = SM.getPresumedLoc(E);
    if (P.isInvalid()) return "?";
    return std::string(P.getFilename()) + ":" + std::to_string(P.getLine()) + ":" + std::to_string(P.getColumn());
  }
  std::string realfile(SourceLocation L) {
    if (L.isInvalid()) return "?";
    return SM.getFilename(SM.getExpansionLoc(L)).str();
  }
  json::Array macros(SourceLocation L) {
    json::Array r;
    int n = 0;
    while (L.isMacroID() && n++ < 12) {
      // only the macros whose *body* produced this token count, not the ones it was an argument of
      if (SM.isMacroBodyExpansion(L))
        r.push_back(Lexer::getImmediateMacroName(L, SM, C.getLangOpts()).str());
      else
        r.push_back("@" + Lexer::getImmediateMacroName(L, SM, C.getLangOpts()).str());
      L = SM.getImmediateMacroCallerLoc(L);
    }
    return r;
  }
  std::string spelling(const Expr *e) {
    SourceLocation L = e->getBeginLoc();
    if (L.isMacroID()) {
      // the macro whose body spelled the token (QS_LP_OPTIMAL -> 1)
      SourceLocation X = L;
      std::string last;
      int n = 0;
      while (X.isMacroID() && n++ < 12) {
        if (SM.isMacroBodyExpansion(X)) { last = Lexer::getImmediateMacroName(X, SM, C.getLangOpts()).str(); break; }
        X = SM.getImmediateMacroCallerLoc(X);
      }
      return last;
    }
    return "";
  }
  static std::string recName(const RecordDecl *R) {
    if (!R) return "?";
    if (R->getIdentifier()) return R->getName().str();
    if (auto *T = R->getTypedefNameForAnonDecl()) return T->getName().str();
    return "<anon>";
  }
  std::string typeStr(QualType T) { return T.getAsString(); }

  std::string localName(const VarDecl *V) {
    auto it = LocalName.find(V);
    if (it != LocalName.end()) return it->second;
    std::string n = V->getName().str();
    int k = ++NameCount[n];
    if (k > 1) n += "@" + std::to_string(k);
    LocalName[V] = n;
    json::Array e;
    e.push_back(n);
    e.push_back(typeStr(V->getType()));
    e.push_back(V->getType().getCanonicalType().getAsString());
    e.push_back(V->isStaticLocal() ? 1 : 0);
    Locals.push_back(std::move(e));
    return n;
  }

  bool foldInt(const Expr *e, int64_t &v) {
    if (!e || e->isValueDependent() || !e->getType()->isIntegralOrEnumerationType()) return false;
    if (e->HasSideEffects(C)) return false;
    Expr::EvalResult R;
    if (e->EvaluateAsInt(R, C, Expr::SE_NoSideEffects)) {
      v = R.Val.getInt().getExtValue();
      return true;
    }
    return false;
  }

  json::Value tree(const Expr *e, int depth = 0) {
    if (!e) return nullptr;
    if (depth > 60) return json::Array{"o", "deep"};
    // implicit nodes are skipped unless they convert between number categories
    if (auto *ic = dyn_cast<ImplicitCastExpr>(e)) {
      switch (ic->getCastKind()) {
      case CK_IntegralToFloating:
      case CK_FloatingToIntegral:
      case CK_FloatingCast: {
        int64_t v;
        if (foldInt(e, v)) break;
        return json::Array{"k", typeStr(ic->getType()), tree(ic->getSubExpr(), depth + 1), 0};
      }
      default: break;
      }
      int64_t v;
      if (ic->getCastKind() != CK_LValueToRValue && ic->getCastKind() != CK_ArrayToPointerDecay &&
          ic->getCastKind() != CK_FunctionToPointerDecay && foldInt(e, v))
        return json::Array{"n", v, spelling(e)};
      return tree(ic->getSubExpr(), depth + 1);
    }
    if (auto *p = dyn_cast<ParenExpr>(e)) return tree(p->getSubExpr(), depth + 1);
    if (auto *ce = dyn_cast<ConstantExpr>(e)) return tree(ce->getSubExpr(), depth + 1);
    {
      int64_t v;
      if (!isa<DeclRefExpr>(e) || isa<EnumConstantDecl>(cast<DeclRefExpr>(e)->getDecl()))
        if (!isa<CallExpr>(e) && !isa<StmtExpr>(e) && foldInt(e, v)) {
          std::string sp = spelling(e);
          if (sp.empty())
            if (auto *d = dyn_cast<DeclRefExpr>(e)) sp = d->getDecl()->getName().str();
          return json::Array{"n", v, sp};
        }
    }
    if (auto *d = dyn_cast<DeclRefExpr>(e)) {
      const ValueDecl *D = d->getDecl();
      if (auto *pv = dyn_cast<ParmVarDecl>(D))
        return json::Array{"v", "p" + std::to_string(pv->getFunctionScopeIndex()), pv->getName().str()};
      if (auto *v = dyn_cast<VarDecl>(D)) {
        if (v->isLocalVarDecl() || v->isStaticLocal()) return json::Array{"v", "l", localName(v)};
        bool st = v->getStorageClass() == SC_Static || !v->isExternallyVisible();
        return json::Array{"v", st ? "sg" : "g", v->getName().str()};
      }
      if (auto *f = dyn_cast<FunctionDecl>(D))
        return json::Array{"v", "f", f->getName().str()};
      return json::Array{"v", "?", D->getName().str()};
    }
    if (auto *m = dyn_cast<MemberExpr>(e)) {
      std::string rec = "?";
      if (auto *fd = dyn_cast<FieldDecl>(m->getMemberDecl())) rec = recName(fd->getParent());
      return json::Array{"m", tree(m->getBase(), depth + 1), rec + "::" + m->getMemberDecl()->getName().str(),
                         m->isArrow() ? 1 : 0};
    }
    if (auto *a = dyn_cast<ArraySubscriptExpr>(e))
      return json::Array{"i", tree(a->getBase(), depth + 1), tree(a->getIdx(), depth + 1)};
    if (auto *u = dyn_cast<UnaryOperator>(e)) {
      std::string op = UnaryOperator::getOpcodeStr(u->getOpcode()).str();
      if (u->isIncrementDecrementOp()) op += u->isPrefix() ? "pre" : "post";
      return json::Array{"u", op, tree(u->getSubExpr(), depth + 1)};
    }
    if (auto *b = dyn_cast<BinaryOperator>(e)) {
      std::string op = b->getOpcodeStr().str();
      if (b->isRelationalOp() && b->getLHS()->getType()->isPointerType() && b->getRHS()->getType()->isPointerType())
        return json::Array{"b", op, tree(b->getLHS(), depth + 1), tree(b->getRHS(), depth + 1), "ptr"};
      return json::Array{b->isAssignmentOp() ? "a" : "b", op, tree(b->getLHS(), depth + 1), tree(b->getRHS(), depth + 1)};
    }
    if (auto *c = dyn_cast<CallExpr>(e)) {
      json::Array args;
      for (auto *a : c->arguments()) args.push_back(tree(a, depth + 1));
      json::Value name = nullptr, ct = nullptr;
      if (auto *fd = c->getDirectCallee()) {
        if (fd->getIdentifier()) name = fd->getName().str();
      }
      if (name.kind() == json::Value::Null) ct = tree(c->getCallee(), depth + 1);
      // variadic callee: the (promoted, canonical) types of the arguments, for format / argument agreement
      bool variadic = false;
      if (auto *fd = c->getDirectCallee()) variadic = fd->isVariadic();
      if (variadic) {
        json::Array ats;
        for (auto *a : c->arguments()) ats.push_back(a->getType().getCanonicalType().getAsString());
        return json::Array{"c", std::move(name), std::move(ct), std::move(args), ploc(c->getBeginLoc()),
                           macros(c->getBeginLoc()), std::move(ats)};
      }
      return json::Array{"c", std::move(name), std::move(ct), std::move(args), ploc(c->getBeginLoc()),
                         macros(c->getBeginLoc())};
    }
    if (auto *k = dyn_cast<ExplicitCastExpr>(e)) {
      if (k->getCastKind() == CK_PointerToIntegral)
        return json::Array{"k", typeStr(k->getType()), tree(k->getSubExpr(), depth + 1), 1, "p2i"};
      return json::Array{"k", typeStr(k->getType()), tree(k->getSubExpr(), depth + 1), 1};
    }
    if (auto *q = dyn_cast<ConditionalOperator>(e))
      return json::Array{"q", tree(q->getCond(), depth + 1), tree(q->getTrueExpr(), depth + 1), tree(q->getFalseExpr(), depth + 1)};
    if (auto *s = dyn_cast<StringLiteral>(e)) {
      if (s->getCharByteWidth() == 1) return json::Array{"s", s->getString().str()};
      return json::Array{"s", ""};
    }
    if (auto *f = dyn_cast<FloatingLiteral>(e)) {
      llvm::SmallString<32> s;
      f->getValue().toString(s);
      return json::Array{"fl", s.str().str()};
    }
    if (auto *se = dyn_cast<StmtExpr>(e)) {
      const CompoundStmt *cs = se->getSubStmt();
      const Expr *last = nullptr;
      if (cs && !cs->body_empty()) last = dyn_cast<Expr>(cs->body_back());
      return json::Array{"se", last ? tree(last, depth + 1) : json::Value(nullptr)};
    }
    if (auto *il = dyn_cast<InitListExpr>(e)) {
      json::Array xs;
      for (auto *x : il->inits()) xs.push_back(tree(x, depth + 1));
      return json::Array{"il", std::move(xs)};
    }
    if (auto *cl = dyn_cast<CompoundLiteralExpr>(e)) return tree(cl->getInitializer(), depth + 1);
    if (isa<ImplicitValueInitExpr>(e)) return json::Array{"n", 0, ""};
    if (auto *pe = dyn_cast<PredefinedExpr>(e)) return json::Array{"s", pe->getFunctionName() ? pe->getFunctionName()->getString().str() : ""};
    if (auto *ve = dyn_cast<VAArgExpr>(e)) return json::Array{"o", "va_arg"};
    if (auto *ue = dyn_cast<UnaryExprOrTypeTraitExpr>(e)) return json::Array{"o", "sizeof"};
    if (auto *ce = dyn_cast<ChooseExpr>(e)) return tree(ce->getChosenSubExpr(), depth + 1);
    return json::Array{"o", e->getStmtClassName()};
  }

  static const Expr *strip(const Expr *e) { return e ? e->IgnoreParenImpCasts() : e; }

  bool interestingAccess(const Expr *e) {
    if (auto *m = dyn_cast<MemberExpr>(e)) {
      if (!m->isArrow()) return false;
      return !isa<DeclRefExpr>(strip(m->getBase()));
    }
    if (auto *u = dyn_cast<UnaryOperator>(e)) {
      if (u->getOpcode() != UO_Deref) return false;
      return !isa<DeclRefExpr>(strip(u->getSubExpr()));
    }
    return false;
  }

  json::Value element(const Stmt *S) {
    if (auto *ds = dyn_cast<DeclStmt>(S)) {
      json::Array ds_;
      for (auto *d : ds->decls())
        if (auto *v = dyn_cast<VarDecl>(d)) {
          ds_.push_back(json::Array{localName(v), v->hasInit() ? tree(v->getInit()) : json::Value(nullptr)});
        }
      if (ds_.empty()) return nullptr;
      return json::Array{"D", std::move(ds_), ploc(S->getBeginLoc())};
    }
    if (auto *r = dyn_cast<ReturnStmt>(S))
      return json::Array{"R", r->getRetValue() ? tree(r->getRetValue()) : json::Value(nullptr), ploc(S->getBeginLoc())};
    auto *e = dyn_cast<Expr>(S);
    if (!e) return nullptr;
    if (isa<CallExpr>(e)) return json::Array{"C", tree(e), ploc(e->getBeginLoc())};
    if (auto *b = dyn_cast<BinaryOperator>(e)) {
      if (b->isAssignmentOp()) {
        std::string rt;
        QualType lt = b->getLHS()->getType().getCanonicalType();
        if (lt->isRecordType()) rt = recName(lt->getAsRecordDecl());
        return json::Array{"A", tree(e), ploc(b->getOperatorLoc()), macros(b->getOperatorLoc()), rt};
      }
      return nullptr;
    }
    if (auto *u = dyn_cast<UnaryOperator>(e)) {
      if (u->isIncrementDecrementOp()) return json::Array{"U", tree(e), ploc(u->getOperatorLoc())};
      if (interestingAccess(e)) return json::Array{"X", tree(e), ploc(e->getExprLoc())};
      return nullptr;
    }
    if (isa<ArraySubscriptExpr>(e)) return json::Array{"S", tree(e), ploc(e->getExprLoc())};
    if (interestingAccess(e)) return json::Array{"X", tree(e), ploc(e->getExprLoc())};
    return nullptr;
  }

  json::Value exportFunction(const FunctionDecl *F) {
    LocalName.clear();
    NameCount.clear();
    Locals = json::Array();
    json::Object fo;
    fo["name"] = F->getName().str();
    fo["static"] = !F->isExternallyVisible();
    fo["loc"] = ploc(F->getLocation());
    fo["end"] = ploc(F->getBodyRBrace());
    fo["ret"] = typeStr(F->getReturnType());
    fo["variadic"] = F->isVariadic();
    json::Array ps;
    for (auto *p : F->parameters())
      ps.push_back(json::Array{p->getName().str(), typeStr(p->getType()), p->getType().getCanonicalType().getAsString()});
    fo["params"] = std::move(ps);
    CFG::BuildOptions bo;
    bo.setAllAlwaysAdd();
    bo.PruneTriviallyFalseEdges = true;
    auto cfg = CFG::buildCFG(F, F->getBody(), &C, bo);
    if (!cfg) {
      fo["cfg_error"] = true;
      return std::move(fo);
    }
    json::Array blocks;
    for (const CFGBlock *B : *cfg) {
      json::Object bo_;
      bo_["id"] = (int64_t)B->getBlockID();
      json::Array elems;
      for (auto &E : *B)
        if (auto cs = E.getAs<CFGStmt>()) {
          json::Value v = element(cs->getStmt());
          if (v.kind() != json::Value::Null) elems.push_back(std::move(v));
        }
      bo_["e"] = std::move(elems);
      json::Array succs, succs_all;
      for (auto it = B->succ_begin(); it != B->succ_end(); ++it) {
        const CFGBlock *S = it->getReachableBlock();
        succs.push_back(S ? json::Value((int64_t)S->getBlockID()) : json::Value(nullptr));
        const CFGBlock *U = S ? S : it->getPossiblyUnreachableBlock();
        succs_all.push_back(U ? json::Value((int64_t)U->getBlockID()) : json::Value(nullptr));
      }
      bo_["s"] = std::move(succs);
      bo_["sa"] = std::move(succs_all);
      if (B->hasNoReturnElement()) bo_["noret"] = true;
      if (const Stmt *T = B->getTerminatorStmt()) {
        std::string k = T->getStmtClassName();
        if (auto *bop = dyn_cast<BinaryOperator>(T)) k = bop->getOpcodeStr().str();
        bo_["t"] = k;
        bo_["tloc"] = ploc(T->getBeginLoc());
        if (const Expr *cond = B->getLastCondition()) bo_["c"] = tree(cond);
        if (auto *sw = dyn_cast<SwitchStmt>(T)) bo_["c"] = tree(sw->getCond());
        if (auto *g = dyn_cast<GotoStmt>(T)) bo_["goto"] = g->getLabel()->getName().str();
      }
      if (const Stmt *L = B->getLabel()) {
        if (auto *cs = dyn_cast<CaseStmt>(L)) {
          int64_t v = 0;
          bool ok = foldInt(cs->getLHS(), v);
          json::Array lab{"case", ok ? json::Value(v) : json::Value(nullptr), spelling(cs->getLHS())};
          if (cs->getRHS()) {
            int64_t w = 0;
            foldInt(cs->getRHS(), w);
            lab.push_back(w);
          }
          bo_["l"] = std::move(lab);
        } else if (isa<DefaultStmt>(L))
          bo_["l"] = json::Array{"default"};
        else if (auto *ls = dyn_cast<LabelStmt>(L))
          bo_["l"] = json::Array{"label", ls->getName()};
        bo_["lloc"] = ploc(L->getBeginLoc());
      }
      blocks.push_back(std::move(bo_));
    }
    fo["blocks"] = std::move(blocks);
    fo["entry"] = (int64_t)cfg->getEntry().getBlockID();
    fo["exit"] = (int64_t)cfg->getExit().getBlockID();
    fo["locals"] = std::move(Locals);
    return std::move(fo);
  }
};

class V : public RecursiveASTVisitor<V> {
public:
  ASTContext &C;
  Exporter X;
  json::Array Functions, Globals, FDecls, FnRefs;
  json::Object Records;
  std::set<const RecordDecl *> SeenRec;
  const FunctionDecl *Cur = nullptr;
  V(ASTContext &c) : C(c), X(c) {}

  bool VisitFunctionDecl(FunctionDecl *F) {
    if (!F->getIdentifier()) return true;
    json::Object d;
    d["name"] = F->getName().str();
    d["file"] = X.realfile(F->getLocation());
    d["loc"] = X.ploc(F->getLocation());
    d["def"] = F->doesThisDeclarationHaveABody();
    d["static"] = !F->isExternallyVisible();
    json::Array pts;
    for (auto *pv : F->parameters()) pts.push_back(pv->getType().getCanonicalType().getAsString());
    d["ptypes"] = std::move(pts);
    d["variadic"] = F->isVariadic();
    d["ret"] = F->getReturnType().getCanonicalType().getAsString();
    FDecls.push_back(std::move(d));
    if (F->doesThisDeclarationHaveABody()) Functions.push_back(X.exportFunction(F));
    return true;
  }
  bool TraverseFunctionDecl(FunctionDecl *F) {
    auto *o = Cur;
    if (F->doesThisDeclarationHaveABody()) Cur = F;
    bool r = RecursiveASTVisitor::TraverseFunctionDecl(F);
    Cur = o;
    return r;
  }
  bool VisitVarDecl(VarDecl *v) {
    if (!v->hasGlobalStorage() || v->isStaticLocal() || !v->getIdentifier()) return true;
    json::Object g;
    g["name"] = v->getName().str();
    g["type"] = X.typeStr(v->getType());
    g["ctype"] = v->getType().getCanonicalType().getAsString();
    g["static"] = (v->getStorageClass() == SC_Static);
    g["tls"] = (v->getTLSKind() != VarDecl::TLS_None);
    g["def"] = (v->isThisDeclarationADefinition() != VarDecl::DeclarationOnly);
    g["loc"] = X.ploc(v->getLocation());
    g["file"] = X.realfile(v->getLocation());
    if (v->hasInit()) g["init"] = X.tree(v->getInit());
    Globals.push_back(std::move(g));
    return true;
  }
  bool VisitRecordDecl(RecordDecl *R) {
    if (!R->isCompleteDefinition()) return true;
    if (!SeenRec.insert(R).second) return true;
    std::string n = Exporter::recName(R);
    json::Array fs;
    for (auto *f : R->fields())
      fs.push_back(json::Array{f->getName().str(), X.typeStr(f->getType()), f->getType().getCanonicalType().getAsString()});
    json::Object ro;
    ro["fields"] = std::move(fs);
    ro["loc"] = X.ploc(R->getLocation());
    Records[n] = std::move(ro);
    return true;
  }
  bool VisitDeclRefExpr(DeclRefExpr *d) {
    auto *f = dyn_cast<FunctionDecl>(d->getDecl());
    if (!f || !f->getIdentifier()) return true;
    // is it the callee of a direct call?  then it is not an address-taking reference
    auto parents = C.getParents(*d);
    const Stmt *p = parents.empty() ? nullptr : parents[0].get<Stmt>();
    const Stmt *child = d;
    while (p && (isa<ImplicitCastExpr>(p) || isa<ParenExpr>(p))) {
      child = p;
      auto ps = C.getParents(*p);
      p = ps.empty() ? nullptr : ps[0].get<Stmt>();
    }
    if (auto *c = dyn_cast_or_null<CallExpr>(p))
      if (c->getCallee() == child) return true;
    FnRefs.push_back(json::Array{f->getName().str(), Cur ? Cur->getName().str() : "", X.ploc(d->getBeginLoc())});
    return true;
  }
};

class Cons : public ASTConsumer {
public:
  std::string In;
  Cons(StringRef in) : In(in.str()) {}
  void HandleTranslationUnit(ASTContext &C) override {
    if (C.getDiagnostics().hasErrorOccurred()) {
      llvm::errs() << "qsa: parse errors in " << In << "\n";
      return; // no output file => analysis-broken upstream
    }
    V v(C);
    v.TraverseDecl(C.getTranslationUnitDecl());
    json::Object top;
    top["unit"] = In;
    top["functions"] = std::move(v.Functions);
    top["globals"] = std::move(v.Globals);
    top["fdecls"] = std::move(v.FDecls);
    top["records"] = std::move(v.Records);
    top["fnrefs"] = std::move(v.FnRefs);
    std::string base = llvm::sys::path::filename(In).str();
    std::string parent = llvm::sys::path::filename(llvm::sys::path::parent_path(In)).str();
    std::string out = OutDir + "/" + parent + "__" + base + ".json";
    std::error_code ec;
    llvm::raw_fd_ostream os(out, ec);
    if (ec) {
      llvm::errs() << "qsa: cannot write " << out << "\n";
      return;
    }
    os << json::Value(std::move(top));
  }
};
class Act : public ASTFrontendAction {
public:
  std::unique_ptr<ASTConsumer> CreateASTConsumer(CompilerInstance &, StringRef In) override {
    return std::make_unique<Cons>(In);
  }
};
} // namespace

int main(int argc, const char **argv) {
  auto E = CommonOptionsParser::create(argc, argv, Cat);
  if (!E) {
    llvm::errs() << E.takeError();
    return 2;
  }
  ClangTool T(E->getCompilations(), E->getSourcePathList());
  return T.run(newFrontendActionFactory<Act>().get());
}
