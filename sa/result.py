"""Result containers shared by all rules."""
import json


class Violation:
    def __init__(self, rule, key, func, loc, msg, path=None, chain=None, extra=None):
        self.rule = rule          # e.g. "R-STDIO"
        self.key = key            # semantic key (no line numbers): used for known-finding matching
        self.func = func
        self.loc = loc
        self.msg = msg
        self.path = path or []
        self.chain = chain or []
        self.extra = extra or {}

    def to_json(self):
        return {"rule": self.rule, "key": self.key, "function": self.func, "loc": self.loc, "message": self.msg,
                "path": self.path, "call_chain": self.chain, "extra": self.extra}

    def line(self):
        s = "%s %s %s: %s" % (self.rule, self.loc, self.func, self.msg)
        if self.chain:
            s += "\n    call chain: " + " -> ".join(self.chain)
        if self.path:
            p = self.path if len(self.path) <= 14 else self.path[:6] + ["..."] + self.path[-7:]
            s += "\n    path: " + " > ".join(p)
        return s


class RuleResult:
    def __init__(self, rule, clause):
        self.rule = rule
        self.clause = clause            # what the rule decides, in words
        self.obligations = 0            # obligations examined
        self.nontrivial = 0             # needed a path / call-chain / dataflow argument
        self.violations = []
        self.excepted = []              # (key, reason)
        self.samples = []
        self.counts = {}
        self.floors = []                # (name, found, floor)

    def floor(self, name, found, floor):
        self.floors.append((name, found, floor))

    def sample(self, s, limit=8):
        if len(self.samples) < limit:
            self.samples.append(s)

    def summary(self):
        return {"rule": self.rule, "clause": self.clause, "obligations": self.obligations,
                "discharged": self.obligations - len(self.violations) if self.obligations >= len(self.violations) else 0,
                "nontrivial": self.nontrivial, "violations": len(self.violations),
                "excepted": [{"key": k, "reason": r} for k, r in self.excepted],
                "counts": self.counts, "floors": [{"name": n, "found": f, "floor": fl} for n, f, fl in self.floors],
                "samples": self.samples}
