"""Program model over the qsa export: units, functions, CFGs, liveness, call graph,
and a generic path-sensitive (set-of-tuples) dataflow engine with provenance."""
import collections
import glob
import json
import os
import subprocess
import sys
import tempfile
import shutil
import time
from concurrent.futures import ThreadPoolExecutor

from . import shadow

HERE = os.path.dirname(os.path.abspath(__file__))
QSA = os.path.join(HERE, "qsa")


class AnalysisBroken(Exception):
    pass


shadow.AnalysisBroken = AnalysisBroken

GMP_PREFIX = (("__gmpq_", "mpq_"), ("__gmpz_", "mpz_"), ("__gmpf_", "mpf_"), ("__gmp_", "gmp_"))


def norm_callee(n):
    if n is None:
        return None
    for a, b in GMP_PREFIX:
        if n.startswith(a):
            return b + n[len(a):]
    return n


# ---------------------------------------------------------------- tree helpers

def walk(t):
    """yield every node of an expression tree (pre-order)"""
    if not isinstance(t, list) or not t:
        return
    yield t
    k = t[0]
    if k == "m":
        yield from walk(t[1])
    elif k == "i":
        yield from walk(t[1])
        yield from walk(t[2])
    elif k == "u":
        yield from walk(t[2])
    elif k in ("b", "a"):
        yield from walk(t[2])
        yield from walk(t[3])
    elif k == "c":
        if t[2] is not None:
            yield from walk(t[2])
        for a in t[3]:
            yield from walk(a)
    elif k == "k":
        yield from walk(t[2])
    elif k == "q":
        yield from walk(t[1])
        yield from walk(t[2])
        yield from walk(t[3])
    elif k == "se":
        if t[1] is not None:
            yield from walk(t[1])
    elif k == "il":
        for a in t[1]:
            yield from walk(a)


def strip(t):
    """drop casts and statement-expression wrappers"""
    while isinstance(t, list) and t:
        if t[0] == "k":
            t = t[2]
        elif t[0] == "se" and t[1] is not None:
            t = t[1]
        else:
            break
    return t


def is_var(t, name=None, kind=None):
    t = strip(t)
    if not (isinstance(t, list) and t and t[0] == "v"):
        return False
    if name is not None and t[2] != name:
        return False
    if kind is not None and not t[1].startswith(kind):
        return False
    return True


def const_of(t):
    t = strip(t)
    if isinstance(t, list) and t and t[0] == "n":
        return t[1]
    return None


def callee(t):
    if isinstance(t, list) and t and t[0] == "c":
        return norm_callee(t[1])
    return None


def apath(t):
    """access path of an lvalue / pointer expression: (rootkind, rootname, steps)"""
    t = strip(t)
    if not isinstance(t, list) or not t:
        return ("other", "", ())
    k = t[0]
    if k == "v":
        return (t[1], t[2], ())
    if k == "m":
        r = apath(t[1])
        return (r[0], r[1], r[2] + (t[2],))
    if k == "i":
        r = apath(t[1])
        return (r[0], r[1], r[2] + ("[]",))
    if k == "u":
        if t[1] == "*":
            r = apath(t[2])
            return (r[0], r[1], r[2] + ("*",))
        if t[1] == "&":
            r = apath(t[2])
            return (r[0], r[1], r[2] + ("&",))
        if t[1] in ("++pre", "++post", "--pre", "--post"):
            return apath(t[2])
    if k == "b" and t[1] in ("+", "-"):
        l = apath(t[2])
        if l[0] != "other" and l[0] != "n":
            return (l[0], l[1], l[2] + ("+",))
        r = apath(t[3])
        return (r[0], r[1], r[2] + ("+",))
    if k == "a":
        return apath(t[3]) if t[1] == "=" else apath(t[2])
    if k == "c":
        return ("call", norm_callee(t[1]) or "", ())
    if k == "q":
        return apath(t[2])
    if k == "n":
        return ("n", str(t[1]), ())
    if k == "s":
        return ("str", t[1], ())
    return ("other", "", ())


def fields_of(steps):
    return tuple(s for s in steps if "::" in s)


def show(t, depth=0):
    """compact C-like rendering of a tree for reports"""
    if t is None:
        return ""
    if not isinstance(t, list) or not t:
        return str(t)
    if depth > 12:
        return "..."
    k = t[0]
    d = depth + 1
    if k == "v":
        return t[2]
    if k == "n":
        return t[2] if (t[2] and not t[2].startswith("__")) else str(t[1])
    if k == "m":
        return show(t[1], d) + ("->" if t[3] else ".") + t[2].split("::")[1]
    if k == "i":
        return "%s[%s]" % (show(t[1], d), show(t[2], d))
    if k == "u":
        op = t[1]
        if op.endswith("post"):
            return show(t[2], d) + op[:2]
        if op.endswith("pre"):
            return op[:2] + show(t[2], d)
        return op + show(t[2], d)
    if k in ("b", "a"):
        return "(%s %s %s)" % (show(t[2], d), t[1], show(t[3], d))
    if k == "c":
        return "%s(%s)" % (norm_callee(t[1]) or ("(*%s)" % show(t[2], d)), ", ".join(show(a, d) for a in t[3]))
    if k == "k":
        return "(%s)%s" % (t[1], show(t[2], d))
    if k == "q":
        return "(%s ? %s : %s)" % (show(t[1], d), show(t[2], d), show(t[3], d))
    if k == "s":
        return json.dumps(t[1])
    if k == "fl":
        return t[1]
    if k == "se":
        return "({%s})" % show(t[1], d)
    if k == "il":
        return "{...}"
    return "<%s>" % (t[1] if len(t) > 1 else k)


def short_loc(loc):
    # /repo/qsopt_ex/lib.c:12:3 -> qsopt_ex/lib.c:12
    if not loc:
        return "?"
    p = loc.split(":")
    f = p[0]
    for pre in ("/repo/",):
        if f.startswith(pre):
            f = f[len(pre):]
    i = f.find("qsopt_ex/")
    j = f.find("esolver/")
    if i >= 0:
        f = f[i:]
    elif j >= 0:
        f = f[j:]
    return f + (":" + p[1] if len(p) > 1 else "")


def const_eval(t, env):
    """evaluate a condition tree to an int under env (names of constant variables); None if unknown"""
    t = strip(t)
    if not isinstance(t, list) or not t:
        return None
    k = t[0]
    if k == "n":
        return t[1]
    if k == "v":
        if t[1] in ("sg", "g") and t[2] in env:
            return env[t[2]]
        return None
    if k == "u":
        v = const_eval(t[2], env)
        if v is None:
            return None
        if t[1] == "!":
            return int(not v)
        if t[1] == "-":
            return -v
        if t[1] == "+":
            return v
        if t[1] == "~":
            return ~v
        return None
    if k == "b":
        a = const_eval(t[2], env)
        b = const_eval(t[3], env)
        op = t[1]
        if op == "&&":
            if a == 0 or b == 0:
                return 0
            if a is not None and b is not None:
                return 1
            return None
        if op == "||":
            if (a is not None and a != 0) or (b is not None and b != 0):
                return 1
            if a == 0 and b == 0:
                return 0
            return None
        if a is None or b is None:
            return None
        try:
            return {"==": lambda: int(a == b), "!=": lambda: int(a != b), "<": lambda: int(a < b),
                    "<=": lambda: int(a <= b), ">": lambda: int(a > b), ">=": lambda: int(a >= b),
                    "+": lambda: a + b, "-": lambda: a - b, "*": lambda: a * b, "&": lambda: a & b,
                    "|": lambda: a | b}[op]()
        except KeyError:
            return None
    return None


# ---------------------------------------------------------------- program

class Function:
    __slots__ = ("name", "key", "unit", "static", "loc", "end", "ret", "params", "locals", "blocks", "entry",
                 "exit", "raw", "live", "doomed", "variadic", "_calls", "ltypes")

    def __init__(self, raw, unit):
        self.raw = raw
        self.name = raw["name"]
        self.unit = unit
        self.static = raw["static"]
        self.key = (unit + ":" + self.name) if self.static else self.name
        self.loc = raw["loc"]
        self.end = raw.get("end")
        self.ret = raw["ret"]
        self.variadic = raw.get("variadic", False)
        self.params = raw["params"]
        self.locals = raw.get("locals", [])
        self.ltypes = {l[0]: l[1] for l in self.locals}
        self.blocks = {b["id"]: b for b in raw.get("blocks", [])}
        self.entry = raw.get("entry")
        self.exit = raw.get("exit")
        self.live = None
        self.doomed = None
        self._calls = None

    def param_index(self, name):
        for i, p in enumerate(self.params):
            if p[0] == name:
                return i
        return None

    def var_type(self, t):
        t = strip(t)
        if not is_var(t):
            return None
        if t[1] == "l":
            return self.ltypes.get(t[2])
        if t[1].startswith("p"):
            i = int(t[1][1:])
            return self.params[i][1] if i < len(self.params) else None
        return None

    def elements(self, live_only=True):
        """yield (block, idx, elem) in block order"""
        for bid in sorted(self.blocks, reverse=True):
            if live_only and self.live is not None and bid not in self.live:
                continue
            b = self.blocks[bid]
            for i, e in enumerate(b["e"]):
                yield b, i, e

    def calls(self, live_only=True):
        for b, i, e in self.elements(live_only):
            if e[0] == "C":
                yield b, i, e[1]

    def succs(self, b, live_only=True):
        """list of (succ id or None, edge index)"""
        return list(enumerate(b["s"]))


class Program:
    def __init__(self, info, facts_dir, insts=("mpq",), want_esolver=True):
        self.info = info
        self.units = {}
        self.funcs = {}           # key -> Function
        self.by_unit = collections.defaultdict(dict)  # unit -> name -> Function
        self.records = {}
        self.globals = collections.defaultdict(list)  # name -> [global dict + unit]
        self.fdecl_files = collections.defaultdict(set)   # fn name -> set of real files where declared
        self.fnrefs = collections.defaultdict(list)
        self.const_statics = {}   # unit -> {name: value}
        self.loaded_units = []
        for u in info["units"]:
            if u["inst"] is not None and u["inst"] not in insts:
                continue
            base = os.path.basename(u["file"])
            parent = os.path.basename(os.path.dirname(u["file"]))
            fn = os.path.join(facts_dir, parent + "__" + base + ".json")
            if not os.path.isfile(fn):
                raise AnalysisBroken("unit %s did not parse (no facts file)" % u["file"])
            raw = json.load(open(fn))
            uname = parent + "/" + base
            self.units[uname] = raw
            self.loaded_units.append(uname)
            for fr in raw["functions"]:
                f = Function(fr, uname)
                if fr.get("cfg_error"):
                    raise AnalysisBroken("no CFG for %s in %s" % (f.name, uname))
                self.funcs[f.key] = f
                self.by_unit[uname][f.name] = f
            for n, r in raw["records"].items():
                if n not in self.records or len(r["fields"]) > len(self.records[n]["fields"]):
                    self.records[n] = r
            for g in raw["globals"]:
                g = dict(g)
                g["unit"] = uname
                self.globals[g["name"]].append(g)
            for d in raw["fdecls"]:
                self.fdecl_files[d["name"]].add(d["file"])
            for r in raw["fnrefs"]:
                self.fnrefs[r[0]].append((uname, r[1], r[2]))
        self._liveness()
        self._callgraph()

    # ---- name resolution
    def resolve(self, fn, name):
        name = norm_callee(name)
        if name is None:
            return None
        f = self.by_unit[fn.unit].get(name)
        if f is not None:
            return f
        f = self.funcs.get(name)
        return f

    def fn(self, name, unit=None):
        if unit:
            return self.by_unit[unit].get(name)
        f = self.funcs.get(name)
        if f:
            return f
        c = [g for g in self.funcs.values() if g.name == name]
        if len(c) > 1:
            # a static helper of a template exists once per instantiation: the rational one is meant
            q = [g for g in c if "_mpq." in g.unit]
            if len(q) == 1:
                return q[0]
        return c[0] if len(c) == 1 else None

    def require_fn(self, name, unit=None):
        f = self.fn(name, unit)
        if f is None:
            raise AnalysisBroken("anchor function %s not found%s" % (name, " in " + unit if unit else ""))
        return f

    # ---- liveness
    def _liveness(self):
        for uname, raw in self.units.items():
            cand = {}
            for g in raw["globals"]:
                if g.get("static") and g.get("def") and "init" in g and g["file"].endswith(".c"):
                    v = const_of(g["init"])
                    if v is not None and ("int" in g["ctype"] or "long" in g["ctype"]) and "[" not in g["ctype"] and "*" not in g["ctype"]:
                        cand[g["name"]] = v
            if cand:
                for f in self.by_unit[uname].values():
                    for b, i, e in f.elements(live_only=False):
                        trees = [e[1]] if e[0] != "D" else [x[1] for x in e[1]]
                        for t in trees:
                            for n in walk(t):
                                if n[0] in ("a",) and is_var(n[2]) and strip(n[2])[1] in ("sg", "g"):
                                    cand.pop(strip(n[2])[2], None)
                                elif n[0] == "u" and n[1] in ("&", "++pre", "++post", "--pre", "--post") and is_var(n[2]) and strip(n[2])[1] in ("sg", "g"):
                                    cand.pop(strip(n[2])[2], None)
            self.const_statics[uname] = cand
        for f in self.funcs.values():
            env = self.const_statics.get(f.unit, {})
            live = set()
            if f.entry is None:
                f.live = live
                f.doomed = set()
                continue
            st = [f.entry]
            dead_edges = set()
            while st:
                bid = st.pop()
                if bid in live:
                    continue
                live.add(bid)
                b = f.blocks[bid]
                ss = b["s"]
                skip = None
                if len(ss) == 2 and "c" in b and b.get("t") != "SwitchStmt" and env:
                    v = const_eval(b["c"], env)
                    if v is not None:
                        skip = 1 if v else 0   # s[0] is the true edge
                for i, s in enumerate(ss):
                    if s is None or i == skip:
                        if i == skip:
                            dead_edges.add((bid, i))
                        continue
                    st.append(s)
            f.live = live
            f.raw["_dead_edges"] = dead_edges
            # doomed: live blocks from which the exit cannot be reached through returning edges
            can = set()
            preds = collections.defaultdict(set)
            for bid in live:
                b = f.blocks[bid]
                if b.get("noret"):
                    continue
                for i, s in enumerate(b["s"]):
                    if s is not None and (bid, i) not in dead_edges and s in live:
                        preds[s].add(bid)
            st = [f.exit]
            while st:
                x = st.pop()
                if x in can:
                    continue
                can.add(x)
                st.extend(preds[x])
            f.doomed = {bid for bid in live if bid not in can}

    ALLOCATORS = {"malloc", "calloc", "realloc", "ILLutil_allocrus", "ILLutil_reallocrus", "strdup",
                  "ILLutil_str"}      # ILLutil_str(s) with s != NULL returns NULL only when malloc fails

    def fault_edges(self, f):
        """allocation-failure edges (DESIGN 2.3): the NULL edge of a test of a location that was assigned from an allocator
        in the same block.  They are outside the path universe of every rule."""
        fe = f.raw.get("_fault_edges")
        if fe is not None:
            return fe
        from .cond import atoms
        fe = set()
        for bid in f.live:
            b = f.blocks[bid]
            if len(b["s"]) != 2 or "c" not in b or b.get("t") == "SwitchStmt":
                continue
            for l, op, r in atoms(b["c"], True):
                if const_of(r) != 0 or op not in ("==", "!="):
                    continue
                target = apath(l)
                if target[0] == "other":
                    continue
                # last assignment to that location in this block (or in a unique predecessor)
                blocks = [b]
                preds = [x for x in f.live if bid in [y for y in f.blocks[x]["s"] if y is not None]]
                if len(preds) == 1:
                    blocks.append(f.blocks[preds[0]])
                found = False
                for bb in blocks:
                    for e in reversed(bb["e"]):
                        if e[0] == "A" and apath(e[1][2]) == target:
                            if any(n[0] == "c" and norm_callee(n[1]) in self.ALLOCATORS for n in walk(e[1][3])):
                                fe.add((bid, 0 if op == "==" else 1))
                            found = True
                            break
                    if found:
                        break
        f.raw["_fault_edges"] = fe
        return fe

    def live_succs(self, f, b):
        de = set(f.raw.get("_dead_edges", ())) | self.fault_edges(f)
        out = []
        for i, s in enumerate(b["s"]):
            if s is None or (b["id"], i) in de:
                out.append(None)
            else:
                out.append(s)
        return out

    # ---- call graph
    def _callgraph(self):
        # functions stored into struct fields (field-sensitive indirect call resolution)
        self.field_targets = collections.defaultdict(set)
        self.param_fn_args = collections.defaultdict(set)   # (callee key, arg idx) -> fn names passed
        for f in self.funcs.values():
            for b, i, e in f.elements(live_only=False):
                if e[0] == "A":
                    n = e[1]
                    rhs = strip(n[3])
                    if is_var(rhs, kind="f"):
                        p = apath(n[2])
                        flds = fields_of(p[2])
                        if flds:
                            self.field_targets[flds[-1]].add(rhs[2])
                        else:
                            self.field_targets["<var>" + p[1]].add(rhs[2])
                    elif rhs and rhs[0] == "q":
                        for alt in (strip(rhs[2]), strip(rhs[3])):
                            if is_var(alt, kind="f"):
                                flds = fields_of(apath(n[2])[2])
                                self.field_targets[flds[-1] if flds else "<var>"].add(alt[2])
                elif e[0] == "C":
                    for k, a in enumerate(e[1][3]):
                        a = strip(a)
                        if is_var(a, kind="f"):
                            g = self.resolve(f, e[1][1])
                            self.param_fn_args[(g.key if g else norm_callee(e[1][1]), k)].add(a[2])
        # one level of flow through parameters: field = <param k>, with functions passed as arg k
        changed = True
        rounds = 0
        while changed and rounds < 5:
            changed = False
            rounds += 1
            for f in self.funcs.values():
                for b, i, e in f.elements(live_only=False):
                    if e[0] != "A":
                        continue
                    n = e[1]
                    rhs = strip(n[3])
                    if is_var(rhs, kind="p"):
                        src = self.param_fn_args.get((f.key, int(rhs[1][1:])))
                        if src:
                            flds = fields_of(apath(n[2])[2])
                            k = flds[-1] if flds else "<var>" + apath(n[2])[1]
                            if not src <= self.field_targets[k]:
                                self.field_targets[k] |= src
                                changed = True
        self.addr_taken = set(self.fnrefs.keys())
        self.callees = collections.defaultdict(set)      # key -> set of keys (live, returning or not)
        self.callees_ret = collections.defaultdict(set)  # only calls in non-doomed live blocks
        self.callers = collections.defaultdict(set)
        self.indirect_sites = []
        for f in self.funcs.values():
            for b, i, c in f.calls():
                targets = self.call_targets(f, c)
                for g in targets:
                    self.callees[f.key].add(g.key)
                    self.callers[g.key].add(f.key)
                    if b["id"] not in f.doomed and not (b.get("noret") and self._after_noret(b, i)):
                        self.callees_ret[f.key].add(g.key)

    def _after_noret(self, b, i):
        return False

    def call_targets(self, f, c):
        """functions a call node may reach"""
        if c[1] is not None:
            g = self.resolve(f, c[1])
            return [g] if g else []
        ct = strip(c[2])
        names = set()
        p = apath(ct)
        flds = fields_of(p[2])
        if flds and flds[-1] in self.field_targets:
            names = set(self.field_targets[flds[-1]])
        elif is_var(ct) and ct[1].startswith("p"):
            names = set(self.param_fn_args.get((f.key, int(ct[1][1:])), ()))
            if not names:
                names = set(self.addr_taken)
        elif is_var(ct) and ("<var>" + ct[2]) in self.field_targets:
            names = set(self.field_targets["<var>" + ct[2]])
        elif is_var(ct, kind="l"):
            # local function pointer: look at what it is assigned from
            found = False
            for b, i, e in f.elements(live_only=False):
                srcs = []
                if e[0] == "A" and is_var(e[1][2], name=ct[2], kind="l"):
                    srcs.append(e[1][3])
                elif e[0] == "D":
                    srcs += [x[1] for x in e[1] if x[0] == ct[2] and x[1] is not None]
                for sx in srcs:
                    sx = strip(sx)
                    if is_var(sx, kind="f"):
                        names.add(sx[2]); found = True
                    else:
                        fl = fields_of(apath(sx)[2])
                        if fl and fl[-1] in self.field_targets:
                            names |= self.field_targets[fl[-1]]; found = True
                        elif fl:
                            found = True   # a field nobody in the library stores a library function into
            if not found:
                names = set(self.addr_taken)
        else:
            names = set(self.addr_taken)
        self.indirect_sites.append((f.key, c[4], sorted(names)))
        out = []
        for n in sorted(names):
            g = self.resolve(f, n)
            if g:
                out.append(g)
        return out

    def reachable(self, roots, returning_only=False):
        """call-graph closure; returns dict key -> parent key (for chains)"""
        g = self.callees_ret if returning_only else self.callees
        parent = {}
        dq = collections.deque()
        for r in roots:
            if r not in parent:
                parent[r] = None
                dq.append(r)
        while dq:
            x = dq.popleft()
            for y in sorted(g.get(x, ())):
                if y not in parent:
                    parent[y] = x
                    dq.append(y)
        return parent

    @staticmethod
    def chain(parent, key):
        out = []
        while key is not None:
            out.append(key)
            key = parent.get(key)
        return list(reversed(out))

    # ---- public API
    def public_functions(self):
        pub = set()
        hdrs = set(os.path.basename(h) for h in self.info["public_headers"])
        for name, files in self.fdecl_files.items():
            for fl in files:
                if os.path.basename(fl) in hdrs and "/qsopt_ex/" in fl.replace("\\", "/"):
                    pub.add(name)
        return pub


# ---------------------------------------------------------------- dataflow

class Flow:
    """Path-sensitive forward dataflow: the abstract state at a point is a *set of tuples*;
    nothing tracked is ever joined.  Client supplies
      xfer(block, idx, elem, st) -> iterable of successor tuples
      refine(cond_tree, truth, st) -> iterable of tuples (empty = edge infeasible for st)
      refine_switch(cond_tree, case_value | None, all_case_values, st) -> iterable
    No state is propagated out of a noreturn block or along pruned/dead edges."""

    def __init__(self, prog, fn, init, xfer, refine=None, refine_switch=None, fault_edge=None, max_visits=2000000):
        self.prog, self.fn = prog, fn
        self.xfer, self.refine, self.refine_switch = xfer, refine, refine_switch
        self.fault_edge = fault_edge
        self.IN = collections.defaultdict(set)
        self.prov = {}
        self.visits = 0
        self.max_visits = max_visits
        self.init = init
        self.exit_states = set()

    def run(self):
        f = self.fn
        wl = collections.deque()
        for t in self.init:
            self.IN[f.entry].add(t)
            wl.append((f.entry, t))
        while wl:
            bid, tin = wl.popleft()
            self.visits += 1
            if self.visits > self.max_visits:
                raise AnalysisBroken("dataflow did not converge in %s" % f.key)
            b = f.blocks[bid]
            cur = {tin}
            for i, e in enumerate(b["e"]):
                nxt = set()
                for st in cur:
                    r = self.xfer(b, i, e, st)
                    if r is None:
                        nxt.add(st)
                    else:
                        nxt.update(r)
                cur = nxt
                if not cur:
                    break
            if not cur or b.get("noret"):
                continue
            succs = self.prog.live_succs(f, b)
            term = b.get("t")
            cond = b.get("c")
            for idx, s in enumerate(succs):
                if s is None:
                    continue
                out = cur
                if term == "SwitchStmt" and self.refine_switch is not None and cond is not None:
                    lab = f.blocks[s].get("l")
                    allv = [f.blocks[x]["l"][1] for x in succs if x is not None and f.blocks[x].get("l", [""])[0] == "case"]
                    o2 = set()
                    for st in cur:
                        if lab and lab[0] == "case" and idx < len(succs) - 1:
                            o2.update(self.refine_switch(cond, lab[1], allv, st))
                        else:
                            o2.update(self.refine_switch(cond, None, allv, st))
                    out = o2
                elif len(succs) == 2 and cond is not None and self.refine is not None and term != "SwitchStmt":
                    o2 = set()
                    for st in cur:
                        r = self.refine(cond, idx == 0, st)
                        if r is None:
                            o2.add(st)
                        else:
                            o2.update(r)
                    out = o2
                dst = self.IN[s]
                for st in out:
                    if st not in dst:
                        dst.add(st)
                        self.prov[(s, st)] = (bid, tin)
                        wl.append((s, st))
        self.exit_states = set(self.IN.get(f.exit, ()))
        return self

    def witness(self, bid, st, limit=4000):
        """list of source lines (file:line) of the blocks on one path leading to (bid, st)"""
        f = self.fn
        lines = []
        n = 0
        cur = (bid, st)
        while cur in self.prov and n < limit:
            n += 1
            cur = self.prov[cur]
            b = f.blocks[cur[0]]
            loc = b.get("tloc")
            if not loc and b["e"]:
                loc = b["e"][-1][2]
            if loc:
                sl = short_loc(loc)
                if not lines or lines[-1] != sl:
                    lines.append(sl)
        lines.reverse()
        return lines


# ---------------------------------------------------------------- loading

def build_program(repo="/repo", tier="quick", insts=None, keep=False):
    """shadow tree + qsa export + load.  Returns (Program, cleanup function, timing dict)"""
    t0 = time.time()
    if insts is None:
        insts = ("mpq",) if tier == "quick" else ("mpq", "dbl", "mpf")
    base = os.environ.get("TMPDIR") or "/var/tmp"
    dest = tempfile.mkdtemp(prefix="qsa-shadow-", dir=base)

    def cleanup():
        shutil.rmtree(dest, ignore_errors=True)
    try:
        if not os.path.isfile(QSA):
            r = subprocess.run(["make", "-C", HERE], capture_output=True, text=True)
            if r.returncode != 0 or not os.path.isfile(QSA):
                raise AnalysisBroken("cannot build qsa: " + r.stderr[-400:])
        info = shadow.build(repo, dest, types=shadow.TYPES)
        facts = os.path.join(dest, "facts")
        os.makedirs(facts)
        units = [u["file"] for u in info["units"] if u["inst"] is None or u["inst"] in insts]

        def run(chunk):
            return subprocess.run([QSA, "-p", dest, "-o", facts] + chunk, capture_output=True, text=True)
        n = min(16, len(units))
        chunks = [units[i::n] for i in range(n)]
        with ThreadPoolExecutor(max_workers=n) as ex:
            res = list(ex.map(run, chunks))
        errs = [r.stderr for r in res if r.returncode != 0 or "parse errors" in r.stderr]
        if errs:
            raise AnalysisBroken("qsa failed: " + " | ".join(e[-600:] for e in errs))
        t1 = time.time()
        prog = Program(info, facts, insts=insts)
        t2 = time.time()
        prog.timing = {"export_s": round(t1 - t0, 2), "load_s": round(t2 - t1, 2)}
        if keep:
            prog.shadow_dir = dest
        return prog, cleanup
    except Exception:
        cleanup()
        raise


def build_fixture(files, public_headers=()):
    """Program over stand-alone fixture translation units (sa/fixtures/*.c)."""
    base = os.environ.get("TMPDIR") or "/var/tmp"
    dest = tempfile.mkdtemp(prefix="qsa-fix-", dir=base)
    try:
        os.makedirs(os.path.join(dest, "fixtures"))
        units = []
        cdb = []
        for src in files:
            d = os.path.join(dest, "fixtures", os.path.basename(src))
            shutil.copy(src, d)
            units.append({"file": d, "src": src, "inst": None})
            cdb.append({"directory": dest, "file": d,
                        "arguments": ["clang", "-std=gnu17", "-Wno-everything", "-fsyntax-only", "-I" + os.path.dirname(src), d]})
        json.dump(cdb, open(os.path.join(dest, "compile_commands.json"), "w"))
        facts = os.path.join(dest, "facts")
        os.makedirs(facts)
        r = subprocess.run([QSA, "-p", dest, "-o", facts] + [u["file"] for u in units], capture_output=True, text=True)
        if r.returncode != 0:
            raise AnalysisBroken("fixture did not parse: " + r.stderr[-500:])
        info = {"units": units, "public_headers": list(public_headers)}
        return Program(info, facts, insts=())
    finally:
        shutil.rmtree(dest, ignore_errors=True)


def dominators(prog, f):
    """block id -> set of dominating block ids over the live, returning CFG"""
    succ = {bid: [x for x in prog.live_succs(f, f.blocks[bid]) if x is not None] for bid in f.live}
    preds = collections.defaultdict(set)
    for a, ss in succ.items():
        for s in ss:
            preds[s].add(a)
    # only blocks reachable from the entry over the live edges take part: a live block without a live predecessor (its only
    # in-edges were pruned) would otherwise empty the dominator sets of everything behind it
    nodes, wl = {f.entry}, [f.entry]
    while wl:
        x = wl.pop()
        for s in succ.get(x, ()):
            if s not in nodes:
                nodes.add(s)
                wl.append(s)
    for n in list(preds):
        preds[n] = {p for p in preds[n] if p in nodes}
    dom = {n: set(nodes) for n in nodes}
    dom[f.entry] = {f.entry}
    changed = True
    while changed:
        changed = False
        for n in nodes:
            if n == f.entry:
                continue
            ps = [dom[p] for p in preds[n] if p in dom]
            new = set.intersection(*ps) if ps else set()
            new = new | {n}
            if new != dom[n]:
                dom[n] = new
                changed = True
    return dom, succ
