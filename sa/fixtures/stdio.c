/* R-STDIO fixture: which sites must fire and which must stay silent */
#include <stdio.h>
#include <stdlib.h>
static int TRACE = 0;          /* never assigned: code behind it is dead */
static int verbose = 0;        /* assignable: code behind it is live */
typedef void (*logf_t)(const char *);
static logf_t handler = NULL;
void set_handler(logf_t f) { handler = f; }
void set_verbose(int v) { verbose = v; }
static void mylog(const char *m) { if (handler != NULL) handler(m); else fprintf(stderr, "%s\n", m); } /* allowed by guard */
int api_dead(int x) { if (TRACE) printf("x=%d\n", x); return x; }                 /* silent: dead */
int api_live(int x) { if (verbose) printf("x=%d\n", x); return x; }               /* FIRE */
int api_exit(int x) { if (x < 0) { fprintf(stderr, "fatal\n"); exit(1); } return x; } /* silent: non-returning */
int api_cmp(FILE *f) { return f != stdout && f != stderr; }                       /* silent: comparison */
static int helper(int x) { if (x == 3) perror("three"); return x; }               /* FIRE via chain */
int api_chain(int x) { return helper(x) + 1; }
static int unreachable_helper(int x) { puts("never called"); return x; }          /* silent: unreachable */
int api_log(int x) { mylog("hello"); return x; }                                  /* silent: allowed branch */
int api_macro(int x) {
#define ERR(msg) { fprintf(stderr, "%s\n", msg); x = 1; goto CLEANUP; }
  if (x > 5) ERR("too big");                                                      /* FIRE (expansion of ERR) */
CLEANUP:
  return x;
}
int api_reset(int x) { set_handler(NULL); return x; }                             /* FIRE: library drops the host handler */
