/* R-IDX fixture */
typedef struct mpq_ILLlpdata { int nrows; int ncols; int nstruct; double *rhs; double *obj; int *structmap; int *rowmap; char *sense; } mpq_ILLlpdata;
typedef struct mpq_lpinfo { mpq_ILLlpdata *O; } mpq_lpinfo;
typedef struct mpq_qsdata { mpq_ILLlpdata *qslp; mpq_lpinfo *lp; } mpq_QSdata;
static int lib_ok(mpq_lpinfo *lp, int i, double v) { int rval = 0; if (i < 0 || i >= lp->O->nrows) { rval = 1; goto CLEANUP; } lp->O->rhs[i] = v; CLEANUP: return rval; }
static int lib_offbyone(mpq_lpinfo *lp, int i, double v) { if (i < 0 || i > lp->O->nrows) return 1; lp->O->rhs[i] = v; return 0; }        /* FIRE */
static int lib_wrongdim(mpq_lpinfo *lp, int j, double v) { if (j < 0 || j >= lp->O->ncols) return 1; lp->O->obj[lp->O->structmap[j]] = v; return 0; } /* FIRE */
static int lib_logonly(mpq_lpinfo *lp, int i, double v) { int bad = 0; if (i < 0 || i >= lp->O->nrows) { bad = 1; } lp->O->rhs[i] = v; return bad; }   /* FIRE */
static int lib_noguard(mpq_lpinfo *lp, int i, double v) { lp->O->rhs[i] = v; return 0; }    /* precondition -> callers */
static int lib_list(mpq_lpinfo *lp, int num, int *list, char s) { int i; for (i = 0; i < num; i++) lp->O->sense[list[i]] = s; return 0; } /* precondition on list */
int mpq_QSix_ok(mpq_QSdata *p, int i, double v) { return lib_ok(p->lp, i, v); }
int mpq_QSix_offbyone(mpq_QSdata *p, int i, double v) { return lib_offbyone(p->lp, i, v); }
int mpq_QSix_wrongdim(mpq_QSdata *p, int j, double v) { return lib_wrongdim(p->lp, j, v); }
int mpq_QSix_logonly(mpq_QSdata *p, int i, double v) { return lib_logonly(p->lp, i, v); }
int mpq_QSix_caller_guard(mpq_QSdata *p, int i, double v) { if (i < 0 || i >= p->qslp->nrows) return 1; return lib_noguard(p->lp, i, v); }
int mpq_QSix_caller_noguard(mpq_QSdata *p, int i, double v) { return lib_noguard(p->lp, i, v); }                                   /* FIRE */
int mpq_QSix_list_ok(mpq_QSdata *p, int num, int *list) { int i, n = p->qslp->nrows; for (i = 0; i < num; i++) { if (list[i] < 0 || list[i] >= n) return 1; } return lib_list(p->lp, num, list, 'G'); }
int mpq_QSix_list_bad(mpq_QSdata *p, int num, int *list) { int i; for (i = 0; i < num; i++) { if (list[i] < 0) return 1; } return lib_list(p->lp, num, list, 'G'); } /* FIRE: no upper bound */
int mpq_QSix_swallow(mpq_QSdata *p, int i, double v) { int rval = 0; if (i < 0 || i >= p->qslp->nrows) { goto CLEANUP; } p->qslp->rhs[i] = v; CLEANUP: return rval; } /* FIRE: rejected, returns 0 */
