/* R-PAIR fixture */
#include <stdlib.h>
#include <gmp.h>
int err(const char *m);
int ok_cleanup(int x) { int rval = 0; mpq_t a; mpq_init(a); if (x < 0) { rval = 1; goto CLEANUP; } mpq_set_ui(a, 1, 1); CLEANUP: mpq_clear(a); return rval; }
int leak_early_return(int x) { mpq_t a; mpq_init(a); if (x < 0) return err("negative"); mpq_clear(a); return 0; }        /* FIRE */
int leak_goto_skip(int x) { int rval = 0; mpq_t a, b; mpq_init(a); if (x < 0) { rval = 1; goto CLEANUP; } mpq_init(b); mpq_clear(b); mpq_clear(a); CLEANUP: return rval; } /* FIRE: a */
int ok_exit(int x) { mpq_t a; mpq_init(a); if (x < 0) exit(1); mpq_clear(a); return 0; }                                /* silent: non-returning */
int leak_heap(int n) { int *v = malloc(n * sizeof(int)); if (!v) return 1; if (n > 5) return 2; free(v); return 0; }      /* FIRE */
int *ok_returned(int n) { int *v = malloc(n * sizeof(int)); return v; }                                                  /* silent: handed over */
struct box { int *p; };
int ok_stored(struct box *b, int n) { int *v = malloc(n * sizeof(int)); if (!v) return 1; b->p = v; return 0; }           /* silent: escaped */
