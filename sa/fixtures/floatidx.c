/* R-FLOATIDX fixture */
double log10(double);
double floor(double);
int bad_index(int n) {                 /* FIRE: subscript computed from log10() without any test */
  char buf[64];
  int k = (int) log10((double) (n - 1) * 10) + 1;
  buf[63 - k] = 0;
  return buf[0];
}
int guarded_index(int n) {             /* silent: the int is compared before the use */
  char buf[64];
  int k = (int) log10((double) n) + 1;
  if (k < 0 || k > 60) return -1;
  buf[63 - k] = 0;
  return buf[0];
}
int integer_digits(int n) {            /* silent: counted in integers */
  char buf[64];
  int k = 2, i;
  for (i = n; i >= 10; i /= 10) k++;
  buf[63 - k] = 0;
  return buf[0];
}
int not_an_index(double t) {           /* silent: never reaches a subscript */
  int s = (int) floor(t);
  return s + 1;
}
