/* R-SHALLOW fixture */
#include <stdlib.h>
typedef struct inner { double *norms; int n; } inner;
typedef struct pinfo { int rule; double *scale; inner in; } pinfo;
void pinfo_free(pinfo *p) { free(p->scale); free(p->in.norms); }
void inner_init(inner *i) { i->norms = 0; i->n = 0; }
void copy_bad(pinfo *a, pinfo *b) { *a = *b; }                                         /* FIRE: scale, in.norms shared */
void copy_half(pinfo *a, pinfo *b) { *a = *b; a->scale = 0; }                          /* FIRE: in.norms shared */
void copy_ok(pinfo *a, pinfo *b) { *a = *b; a->scale = 0; inner_init(&a->in); }       /* silent */
void copy_fields(pinfo *a, pinfo *b) { a->rule = b->rule; }                            /* silent: no struct assignment */
typedef struct plain { int x; int y; } plain;
void copy_plain(plain *a, plain *b) { *a = *b; }                                       /* silent: owns nothing */
