/* R-INVAL / R-FOK / R-GATE / R-COUPD fixture (record names mirror the mpq instantiation) */
#include <stdlib.h>
#define QS_LP_MODIFIED 100
typedef struct mpq_ILLmatrix { double *matval; int *matind; } mpq_ILLmatrix;
typedef struct mpq_ILLlpdata { int nrows; int ncols; double *rhs; double *obj; double *rangeval; double *upper; int *rowmap; mpq_ILLmatrix A; char **rownames; } mpq_ILLlpdata;
typedef struct mpq_lpinfo { mpq_ILLlpdata *O; } mpq_lpinfo;
typedef struct mpq_ILLlp_cache { double *x; double val; } mpq_ILLlp_cache;
typedef struct mpq_qsdata { mpq_ILLlpdata *qslp; mpq_lpinfo *lp; mpq_ILLlp_cache *cache; int qstatus; int factorok; } mpq_QSdata;
static void free_cache(mpq_QSdata *p) { if (p->cache) { free(p->cache); p->cache = 0; } p->qstatus = QS_LP_MODIFIED; }
static int lib_chgrhs(mpq_lpinfo *lp, int i, double v) { if (i < 0 || i >= lp->O->nrows) return 1; lp->O->rhs[i] = v; return 0; }
static int lib_chgcoef(mpq_lpinfo *lp, int k, double v) { lp->O->A.matval[k] = v; return 0; }
static int lib_rename(mpq_lpinfo *lp, int i, char *n) { lp->O->rownames[i] = n; return 0; }
int mpq_QSfix_ok(mpq_QSdata *p, int i, double v) { int rval = 0; rval = lib_chgrhs(p->lp, i, v); if (rval) goto CLEANUP; free_cache(p); CLEANUP: return rval; }
/* FIRE R-INVAL: success path skips the invalidation */
int mpq_QSfix_early(mpq_QSdata *p, int i, double v) { int rval = 0; rval = lib_chgrhs(p->lp, i, v); if (rval) goto CLEANUP; if (v == 0.0) goto CLEANUP; free_cache(p); CLEANUP: return rval; }
/* FIRE R-INVAL: no invalidation at all */
int mpq_QSfix_none(mpq_QSdata *p, int i, double v) { return lib_chgrhs(p->lp, i, v); }
/* silent: renaming is not solution relevant */
int mpq_QSfix_rename(mpq_QSdata *p, int i, char *n) { return lib_rename(p->lp, i, n); }
/* silent wrapper: calls a checked mutator */
int mpq_QSfix_wrap(mpq_QSdata *p, double v) { return mpq_QSfix_ok(p, 0, v); }
/* FIRE R-FOK: matrix edit, cache dropped, factorok untouched */
int mpq_QSfix_coef(mpq_QSdata *p, int k, double v) { int rval = lib_chgcoef(p->lp, k, v); if (rval) return rval; free_cache(p); return 0; }
/* silent R-FOK */
int mpq_QSfix_coef_ok(mpq_QSdata *p, int k, double v) { int rval = lib_chgcoef(p->lp, k, v); if (rval) return rval; p->factorok = 0; free_cache(p); return 0; }
/* R-GATE */
int mpq_QSfix_get_ok(mpq_QSdata *p, double *v) { if (p->cache == 0) return 1; *v = p->cache->val; return 0; }
int mpq_QSfix_get_bad(mpq_QSdata *p, double *v) { *v = p->cache->val; return 0; }   /* FIRE R-GATE */
int mpq_QSfix_get_mod(mpq_QSdata *p, double *v) { if (p->qstatus == QS_LP_MODIFIED) return 1; *v = p->cache->val; return 0; }
