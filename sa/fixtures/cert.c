/* R-CERT / R-MARK fixture */
#define QS_LP_OPTIMAL 1
#define QS_LP_INFEASIBLE 2
#define QS_LP_UNSOLVED 6
typedef struct qsdata { int qstatus; int *cache; } QSdata;
typedef int num;
int opt_test(QSdata *p, num *x, num *y);
int inf_test(QSdata *p, num *y);
void opt_out(QSdata *p, num *x, num *y, num *X, num *Y);
void inf_out(QSdata *p, num *y, num *Y);
int float_solve(QSdata *p, int *status);
int rational_status(QSdata *p, int *status);
num *conv(void);
#define CALL(f) do { const int __EGrval__ = (f); rval = __EGrval__; if (__EGrval__) goto CLEANUP; } while (0)

int drv_ok(QSdata *p, num *x, num *y, int *status) {
  int rval = 0, it = 3; num *X = 0, *Y = 0;
  *status = 0;
  for (; it--;) {
    CALL(float_solve(p, status));
    switch (*status) {
    case QS_LP_OPTIMAL:
      X = conv(); Y = conv();
      if (opt_test(p, X, Y)) { opt_out(p, x, y, X, Y); goto CLEANUP; }
      CALL(rational_status(p, status));
      if (*status == QS_LP_OPTIMAL) { if (opt_test(p, X, Y)) { opt_out(p, x, y, X, Y); goto CLEANUP; } else *status = QS_LP_UNSOLVED; }
      break;
    case QS_LP_INFEASIBLE:
      Y = conv();
      if (inf_test(p, Y)) { inf_out(p, y, Y); goto CLEANUP; }
      *status = QS_LP_UNSOLVED;
      break;
    default: break;
    }
  }
  if (*status == QS_LP_OPTIMAL || *status == QS_LP_INFEASIBLE) *status = QS_LP_UNSOLVED;
CLEANUP:
  return rval;
}
/* FIRE: after the rational re-solve the status is trusted without a retest */
int drv_skip_retest(QSdata *p, num *x, num *y, int *status) {
  int rval = 0; num *X = 0, *Y = 0;
  *status = 0;
  CALL(float_solve(p, status));
  if (*status == QS_LP_OPTIMAL) {
    X = conv(); Y = conv();
    if (opt_test(p, X, Y)) { opt_out(p, x, y, X, Y); goto CLEANUP; }
    CALL(rational_status(p, status));
    if (*status == QS_LP_OPTIMAL) { opt_out(p, x, y, X, Y); goto CLEANUP; }
  }
  if (*status == QS_LP_OPTIMAL || *status == QS_LP_INFEASIBLE) *status = QS_LP_UNSOLVED;
CLEANUP:
  return rval;
}
/* FIRE: tested (X, Y) but hands over other vectors */
int drv_wrong_vec(QSdata *p, num *x, num *y, int *status) {
  int rval = 0; num *X = 0, *Y = 0, *Xf = 0;
  *status = 0;
  CALL(float_solve(p, status));
  if (*status == QS_LP_OPTIMAL) {
    X = conv(); Y = conv(); Xf = conv();
    if (opt_test(p, X, Y)) { opt_out(p, x, y, Xf, Y); goto CLEANUP; }
  }
  if (*status == QS_LP_OPTIMAL || *status == QS_LP_INFEASIBLE) *status = QS_LP_UNSOLVED;
CLEANUP:
  return rval;
}
/* FIRE: CLEANUP resets the error code */
int drv_reset_rval(QSdata *p, num *x, num *y, int *status) {
  int rval = 0;
  *status = 0;
  CALL(float_solve(p, status));
  if (*status == QS_LP_OPTIMAL || *status == QS_LP_INFEASIBLE) *status = QS_LP_UNSOLVED;
CLEANUP:
  rval = 0;
  return rval;
}

/* R-MARK */
int check1(QSdata *p); int check2(QSdata *p); int alloc_cache(QSdata *p);
int test_ok(QSdata *p) {
  int rval = 1;
  if (check1(p)) { rval = 0; goto CLEANUP; }
  if (check2(p)) { rval = 0; goto CLEANUP; }
  p->qstatus = QS_LP_OPTIMAL;
  rval = 1;
CLEANUP:
  return rval;
}
/* FIRE: failed check falls through to the marker */
int test_fallthrough(QSdata *p) {
  int rval = 1;
  if (check1(p)) { rval = 0; }
  if (check2(p)) { rval = 0; goto CLEANUP; }
  p->qstatus = QS_LP_OPTIMAL;
  rval = 1;
CLEANUP:
  return rval;
}
/* FIRE: failure exit without rval = 0 */
int test_no_reset(QSdata *p) {
  int rval = 1;
  if (check1(p)) { goto CLEANUP; }
  if (check2(p)) { rval = 0; goto CLEANUP; }
  p->qstatus = QS_LP_OPTIMAL;
  rval = 1;
CLEANUP:
  return rval;
}
