/* R-USEB4CHECK fixture */
struct mat { int *ind; int size; };
int ok_order(struct mat *A, int end) { if (end < A->size && A->ind[end] == -1) return 1; return 0; }
int bad_order(struct mat *A, int end) { if (A->ind[end] == -1 && end < A->size) return 1; return 0; }          /* FIRE */
int bad_straight(struct mat *A, int k) { int v = A->ind[k]; if (k >= A->size) return -1; return v; }           /* FIRE */
int ok_modified(struct mat *A, int k) { int v = A->ind[k]; k++; if (k >= A->size) return -1; return v + A->ind[k]; }
int ok_loop(struct mat *A) { int i, s = 0; for (i = 0; i < A->size; i++) s += A->ind[i]; return s; }
