"""Property -> rules table, explanations, fixtures."""
import os

from . import core
from .rules import stdio, cert, mark, exact, optstore, inval, idx, atomic, own, tokens, idxclass, copy, pair, structfree, buf, div, counter, sentinel, appendinit, verdict, basismap, zerotol, escape, lenclass, djsym, ndet, useb4check, norms, opencheck, shell, esolver, errlost, rescan, certdep, neverset, fmt, defaults, scratch, fullscan, slotleak, floatidx, sensemap, trunc, vtypezero, allockind, intdiv, strscan, localfield, rawidx, argcap, staleptr, condalloc, lpstate, vstattype, alphabet, outleak, fieldleak, lenm1, basisdim, dupmark, rowcopy, normlen, logonly, decacc, nzcount, infmap, lognofail, outunset, dupentry, digitseen, signedidx, strcap, nulterm, finite, nullret, pcheck, probstat, dzfresh, kwtable, headguard, hitused, optptr, noindex, colen, pastcol, twopass, growguard, negidx, lpinit, stalechar, cursorback, loopzero
from .effects import Effects

FIX = os.path.join(os.path.dirname(os.path.abspath(__file__)), "fixtures")


# ------------------------------------------------------------------ fixtures

def fx_stdio():
    prog = core.build_fixture([os.path.join(FIX, "stdio.c")])
    roots = [f.key for f in prog.funcs.values() if f.name.startswith("api_") or f.name.startswith("set_")]
    allowed = [{"func": "mylog", "guard": ("var", "handler", "null"), "reason": "fixture default handler"}]
    r = stdio.run(prog, lib_units=prog.loaded_units, roots=roots, allowed=allowed, handler=("mylog", "set_handler"))
    fired = sorted(v.func for v in r.violations)
    want = ["api_live", "api_macro", "api_reset", "helper"]
    ok = fired == want
    return [("R-STDIO fires on {api_live, helper via api_chain, api_macro, api_reset (drops the handler)} and on nothing else", ok,
             "fired on %s" % fired)]


def fx_cert():
    prog = core.build_fixture([os.path.join(FIX, "cert.c")])
    out = []
    for drv, want in (("drv_ok", 0), ("drv_skip_retest", 1), ("drv_wrong_vec", 1), ("drv_reset_rval", 2)):
        cfg = {"driver": drv, "tests": {"opt_test": "OPT", "inf_test": "INF"}, "outputs": {"opt_out": "OPT", "inf_out": "INF"}}
        try:
            r = cert.run(prog, cfg=cfg, want=None)
            n = len([v for v in r.violations if v.rule == "R-CERT"])
        except core.AnalysisBroken as ex:
            n = -1
            drv = drv + " (" + str(ex) + ")"
        # floors of the real driver do not apply to the tiny fixtures
        out.append(("R-CERT on fixture %s: expected %d violating exit tuples" % (drv, want), n == want, "found %d" % n))
    for fn, want in (("test_ok", 0), ("test_fallthrough", 1), ("test_no_reset", 1)):
        r = mark.run(prog, tests={fn: {"marker_value": "QS_LP_OPTIMAL", "cache_fill": False, "min_fail_sites": 1}})
        n = len(r.violations)
        out.append(("R-MARK on fixture %s: expected %s" % (fn, "silence" if not want else "a report"), (n > 0) == bool(want), "found %d" % n))
    return out


def fx_inval():
    prog = core.build_fixture([os.path.join(FIX, "inval.c")])
    inval.ALL_NONSTATIC_PUBLIC = True
    try:
        E = Effects(prog)
        out = []
        r = inval.run_inval(prog, E)
        got = sorted(v.func for v in r.violations)
        out.append(("R-INVAL fires exactly on {mpq_QSfix_early, mpq_QSfix_none}", got == ["mpq_QSfix_early", "mpq_QSfix_none"], str(got)))
        r = inval.run_fok(prog, E)
        got = sorted(v.func for v in r.violations)
        out.append(("R-FOK fires exactly on {mpq_QSfix_coef}", got == ["mpq_QSfix_coef"], str(got)))
        r = inval.run_gate(prog, E)
        got = sorted(v.func for v in r.violations)
        out.append(("R-GATE fires exactly on {mpq_QSfix_get_bad}", got == ["mpq_QSfix_get_bad"], str(got)))
    finally:
        inval.ALL_NONSTATIC_PUBLIC = False
    return out


def fx_idx():
    prog = core.build_fixture([os.path.join(FIX, "idx.c")])
    inval.ALL_NONSTATIC_PUBLIC = True
    try:
        r = idx.run(prog)
        got = sorted(set(v.key.split("|")[0] + ":" + v.key.split("via ")[-1] if "via " in v.key else v.key.split("|")[0] for v in r.violations))
        want = sorted(["lib_offbyone:QSix_offbyone", "lib_wrongdim:QSix_wrongdim", "lib_logonly:QSix_logonly",
                       "lib_noguard:QSix_caller_noguard", "lib_list:QSix_list_bad", "QSix_swallow", "lib_logonly"])
        return [("R-IDX fires exactly on off-by-one, wrong dimension, log-only guard, unguarded caller, half-validated list, swallowed rejection",
                 got == want, str(got))]
    finally:
        inval.ALL_NONSTATIC_PUBLIC = False


def fx_copy():
    prog = core.build_fixture([os.path.join(FIX, "copy.c")])
    r = copy.run_shallow(prog, Effects(prog))
    got = sorted(v.func for v in r.violations)
    return [("R-SHALLOW fires exactly on {copy_bad, copy_half}", got == ["copy_bad", "copy_half"], str(got))]


def fx_pair():
    prog = core.build_fixture([os.path.join(FIX, "pair.c")])
    r = pair.run(prog, heap=True)
    got = sorted(v.func for v in r.violations)
    return [("R-PAIR fires exactly on {leak_early_return, leak_goto_skip, leak_heap}", got == ["leak_early_return", "leak_goto_skip", "leak_heap"], str(got))]


def fx_useb4():
    prog = core.build_fixture([os.path.join(FIX, "useb4.c")])
    r = useb4check.run(prog, scope=lambda f: True)
    got = sorted(v.func for v in r.violations)
    return [("R-USEB4CHECK fires exactly on {bad_order, bad_straight}", got == ["bad_order", "bad_straight"], str(got))]


def fx_floatidx():
    prog = core.build_fixture([os.path.join(FIX, "floatidx.c")])
    r = floatidx.run(prog)
    got = sorted(v.func for v in r.violations)
    return [("R-FLOATIDX fires exactly on {bad_index}", got == ["bad_index"], str(got))]


FIXTURES = {
    "C17": [fx_useb4, fx_floatidx],
    "C18": [fx_pair],
    "C16": [fx_copy],
    "C07": [fx_idx],
    "C05": [fx_inval],
    "C01": [fx_cert],
    "C02": [fx_cert],
    "C20": [fx_stdio],
}


def run_fixtures(pid):
    out = []
    for fn in FIXTURES.get(pid, []):
        try:
            out.extend(fn())
        except core.AnalysisBroken as ex:
            out.append((fn.__name__, False, str(ex)))
    return out


# ------------------------------------------------------------------ properties

SOLN_ACCESSORS = ("_x_array", "_pi_array", "_rc_array", "_slack_array", "_objval", "_infeas_array",
                  "named_x", "named_rc", "named_pi", "named_slack")


def cert_scopes(prog, kind):
    acc = sorted(f.name for f in prog.funcs.values() if f.name.startswith("mpq_QSget_") and not f.static
                 and any(x in f.name for x in SOLN_ACCESSORS))
    if kind == "OPT":
        roots = ["QSexact_optimal_test", "optimal_output", "mpq_ILLlib_solution", "mpq_QSgrab_cache", "QSexact_print_sol"] + acc
    else:
        roots = ["QSexact_infeasible_test", "infeasible_output", "mpq_ILLsimplex_infcertificate", "mpq_QSget_infeas_array"]
    return {"CERT": {"roots": roots, "closure": False}, "TESTS": {"roots": roots[:1], "closure": True}}


_EFF = {}


def shared_eff(prog):
    if getattr(prog, "_shared_eff", None) is None:
        prog._shared_eff = Effects(prog)
    return prog._shared_eff


def c01_rules():
    return [
        lambda prog, tier: zerotol.run(prog, shared_eff(prog), "simplex"),
        lambda prog, tier: cert.run(prog, want=("OPT",)),
        lambda prog, tier: mark.run(prog, which=("QSexact_optimal_test",)),
        lambda prog, tier: optstore.run(prog), lambda prog, tier: optstore.run_solvedgate(prog),
        lambda prog, tier: exact.run(prog, cert_scopes(prog, "OPT")),
        lambda prog, tier: idxclass.run(prog, scope_units=("qsopt_ex/exact.c", "lib_mpq.c", "qsopt_mpq.c")),
        lambda prog, tier: certdep.run(prog, which=("QSexact_optimal_test",)),
        lambda prog, tier: vtypezero.run(prog),
        lambda prog, tier: escape.run_extcopy(prog),
        lambda prog, tier: argcap.run(prog, floor=40),
        lambda prog, tier: rowcopy.run(prog, shared_eff(prog)),
        lambda prog, tier: dzfresh.run(prog),
    ]


def c02_rules():
    return [
        lambda prog, tier: argcap.run(prog, floor=40),
        lambda prog, tier: lpstate.run_internal(prog),
        lambda prog, tier: cert.run(prog, want=("INF",)),
        lambda prog, tier: mark.run(prog, which=("QSexact_infeasible_test",)),
        lambda prog, tier: optstore.run(prog), lambda prog, tier: optstore.run_solvedgate(prog),
        lambda prog, tier: exact.run(prog, cert_scopes(prog, "INF")),
        lambda prog, tier: certdep.run(prog, which=("QSexact_infeasible_test",)),
        lambda prog, tier: probstat.run(prog),
    ]


def c05_rules():
    cache = {}

    def eff(prog):
        return shared_eff(prog)
    return [
        lambda prog, tier: inval.run_inval(prog, eff(prog)),
        lambda prog, tier: inval.run_fok(prog, eff(prog)),
        lambda prog, tier: inval.run_gate(prog, eff(prog)),
        lambda prog, tier: inval.run_invalfn(prog),
        lambda prog, tier: inval.run_coupd(prog, eff(prog)),
        lambda prog, tier: inval.run_coupd_sense(prog, eff(prog)),
        lambda prog, tier: sensemap.run(prog),
        lambda prog, tier: verdict.run(prog),
        lambda prog, tier: djsym.run_nbsym(prog),
        lambda prog, tier: djsym.run_keepcache(prog),
        lambda prog, tier: inval.run_skipgate(prog),
        lambda prog, tier: vstattype.run(prog),
        lambda prog, tier: rowcopy.run(prog, shared_eff(prog)),
        lambda prog, tier: normlen.run(prog),
        lambda prog, tier: inval.run_pricedim(prog, shared_eff(prog)), lambda prog, tier: inval.run_basiscache(prog, shared_eff(prog)),
        lambda prog, tier: inval.run_failpath(prog, shared_eff(prog)),
        lambda prog, tier: inval.run_normstale(prog, shared_eff(prog)),
        lambda prog, tier: inval.run_rstatsense(prog, shared_eff(prog)),
        lambda prog, tier: norms.run_handover(prog),
        lambda prog, tier: vtypezero.run(prog),
        lambda prog, tier: escape.run_extcopy(prog),
    ]


def _only(res, substr):
    """keep only the violations / samples of a shared rule that concern this property"""
    res.violations = [v for v in res.violations if substr in v.key]
    res.samples = [x for x in res.samples if "installer" in str(x)] or res.samples[:2]
    return res


CERT_NOTE = ("trusted: clang 14 front end and export; the typestate abstraction (value classes of rval/__EGrval__ temporaries, "
             "*status in {OPT, INF, OTHER}, certificate state); loop counters untracked (adds paths only); allocation-failure "
             "edges excluded (frozen table in sa/rules/mark.py); calls through status pointer havoc the status")

PROPS = {
    "C01": {
        "rules": c01_rules(),
        "technique": "path-sensitive typestate dataflow (set-of-tuples, all CFG paths) on QSexact_solver / QSexact_optimal_test over "
                     "clang::CFG; who-may-publish ownership rule; lossy-conversion sink census in call-graph scopes; flow-sensitive data-dependence "
                     "analysis with index-space tags + per-iteration must-pass analysis of comparison gates inside the exact test",
        "explanation": "Decides the plumbing clause of C01: on every path of QSexact_solver that returns 0 with *status == OPTIMAL the exact "
                       "optimality test returned true on the caller's problem and exactly the tested vectors were handed over (R-CERT, "
                       "R-OUTCOPY); the test returns true only through its success marker, which no failing path reaches, and fills the "
                       "solution cache on no failing path (R-MARK); OPTIMAL is stored into the problem/cache only by the owner functions "
                       "(R-OPTSTORE); certificate and accessor code performs no lossy number conversion outside log arguments (R-EXACT); "
                       "(R-CERTDEP) inside the exact test every primal value of both variable classes is ordered against both bounds of its own "
                       "column on every path of every iteration, every row equation, every complementary-slackness product (both classes, both "
                       "sides) and the objective equality is tested by a gate that fails on both signs and depends - by a flow-sensitive "
                       "data-dependence analysis with index-space tags - on all the LP data it has to depend on.",
        "level_text": "All-paths structural guarantee for the certification plumbing (a necessary condition of C01): any code change that lets "
                      "OPTIMAL escape without test+hand-over, lets a failed check fall through, publishes OPTIMAL elsewhere, or slips a "
                      "double conversion into the certificate path is reported with a witness path. It does not decide that the arithmetic "
                      "inside the test is sufficient.",
        "level_note": CERT_NOTE,
        "not_decided": "the arithmetic inside the gates of QSexact_optimal_test (only their presence, coverage, failing outcomes and data "
                       "dependences are decided - R-CERTDEP); that mpq_QSopt_primal/dual end at an optimal "
                       "vertex (only that they judge at tolerance zero - R-ZEROTOL, claimed under C12/C13)",
    },
    "C02": {
        "rules": c02_rules(),
        "technique": "path-sensitive typestate dataflow (set-of-tuples, all CFG paths) on QSexact_solver / QSexact_infeasible_test over "
                     "clang::CFG; who-may-publish ownership rule; lossy-conversion sink census; flow-sensitive data-dependence analysis with "
                     "index-space tags + per-iteration must-pass analysis of comparison gates inside the exact test",
        "explanation": "Same plumbing for INFEASIBLE: rv == 0 and *status == INFEASIBLE leave QSexact_solver only after "
                       "QSexact_infeasible_test returned true on the caller's problem and infeasible_output handed over the tested "
                       "multiplier vector; the test returns true only through its marker; no lossy conversion in the certificate code; "
                       "(R-CERTDEP) the Farkas value tested last before the marker is rejected exactly when it is <= 0 and depends on rhs, the "
                       "multipliers, the matrix and the lower and upper bounds of ALL internal columns (structural and logical), and every "
                       "internal column passes, on every path of its iteration, the two gates that forbid a multiplier on an infinite bound.",
        "level_text": "All-paths structural guarantee for the Farkas-certificate plumbing (necessary condition of C02). Found a genuine defect "
                      "on the pinned tree (feasible LP reported INFEASIBLE after ladder exhaustion; fixed in /repo b42ef0a).",
        "level_note": CERT_NOTE,
        "not_decided": "the arithmetic inside the test beyond presence / coverage / failing outcomes / data dependences of its gates (e.g. the "
                       "sign split of A^T y into the two bound multipliers); that ILLsimplex_infcertificate produces a ray",
    },
    "C05": {
        "rules": c05_rules(),
        "technique": "interprocedural write-effect summaries (access paths, field-sensitive, k-limited) + per-function must-follow "
                     "path-sensitive dataflow on clang::CFG with return-code correlation; guard-dominance for accessors",
        "explanation": "Decides the 'no stale solution is served' clause structurally: the set of public functions that may write "
                       "solution-relevant LP data of their problem argument is COMPUTED from effect summaries (31 today) and each must pass "
                       "free_cache(p) on every path from the write to a success return (R-INVAL; documented waiver for QSdelete_rows); "
                       "every function that may write the matrix/dimensions/maps must reset or hand over factorok, every basis installer "
                       "must reset it (R-FOK); every accessor using p->cache is gated on its presence or on qstatus != MODIFIED (R-GATE); "
                       "free_cache itself always stores QS_LP_MODIFIED and nulls the cache (R-INVALFN); the decision whether a basis survives a "
                       "deletion treats all non-basic statuses alike (R-NBSYM); the exact basis-status functions rebuild the internal lp "
                       "before loading a basis (R-VERDICT); a stored range is co-updated "
                       "with the logical column's bound (R-COUPD).",
        "level_text": "All-paths structural guarantee for cache/factorization invalidation over every public edit entry point, including "
                      "ones added later (the mutator set is computed, not listed). Found four genuine defects on the pinned tree "
                      "(QSchange_coef, QSchange_senses, QSread_and_load_basis: stale factorization; ILLlib_chgrange: range not applied), "
                      "all replayed and fixed in /repo. Does not decide that a re-solve equals a fresh solve numerically.",
        "level_note": "trusted: effect summaries (flow-insensitive local pointer origins, field paths limited to 8 fields; writes through "
                      "external functions taken from their prototypes' non-const pointer parameters); LP-data criterion = first ILLlpdata "
                      "field on the composed access path; rval/temporary value classes; frozen waiver for QSdelete_rows(cache_ok) and "
                      "exemptions QSfree_prob, QSopt_strongbranch",
        "not_decided": "that a warm re-solve equals a from-scratch solve (numerical); decisions taken inside ILLlib_delrows about "
                       "which deletions keep the basis/cache valid; history-dependent lifetime of pricing-norm arrays",
    },
    "C07": {
        "rules": [lambda prog, tier: idx.run(prog), lambda prog, tier: atomic.run(prog), lambda prog, tier: shell.run(prog, shared_eff(prog)),
                  lambda prog, tier: lpstate.run(prog),
                  lambda prog, tier: alphabet.run(prog, shared_eff(prog)), lambda prog, tier: basisdim.run(prog), lambda prog, tier: dupmark.run(prog), lambda prog, tier: logonly.run(prog), lambda prog, tier: lognofail.run(prog), lambda prog, tier: outunset.run(prog), lambda prog, tier: alphabet.run_narrow(prog), lambda prog, tier: dupentry.run(prog), lambda prog, tier: own.run_loadkeep(prog), lambda prog, tier: own.run_basiscard(prog, shared_eff(prog)), lambda prog, tier: own.run_basissense(prog, shared_eff(prog)), lambda prog, tier: idx.run_pubstruct(prog), lambda prog, tier: noindex.run(prog), lambda prog, tier: lpinit.run(prog), lambda prog, tier: pcheck.run(prog), lambda prog, tier: headguard.run(prog), lambda prog, tier: headguard.run_hashof(prog),
                  lambda prog, tier: errlost.run(prog, scope_funcs=set(prog.reachable(sorted(f.key for f, _ in inval.api_functions(prog)))), floor=150)],
        "technique": "interprocedural taint of API index/selector arguments + path-sensitive must-analysis of range-guard facts "
                     "(right dimension, right strictness) on clang::CFG with callee preconditions propagated to the API boundary and "
                     "call-site specialisation on constant selectors; write-before-rejection analysis over effect summaries",
        "explanation": "Decides two clauses of C07 on all paths: (R-IDX) every externally supplied row/column index (scalar or list element) "
                       "that reaches a subscript of a problem array, in the API function or any callee, has been compared >= 0 and < the "
                       "count of the right dimension class (row / structural / internal column) on the path, the facts travelling only "
                       "along the passing edge, and an index found out of range cannot end in return code 0; (R-ATOMIC) no observable "
                       "write to LP data, basis or cached solution precedes an argument-dependent rejection (own check or rejecting callee), "
                       "except rejections of inputs validated before the first write.",
        "level_text": "All-paths structural guarantee for index validation and reject-before-write over every public mpq_QS* entry point. "
                      "Found thirteen genuine defects on the pinned tree (seven out-of-bounds accesses confirmed under ASan, one accepted "
                      "garbage column index, three partial applications, one basis destroyed by a rejected load), eleven fixed in /repo, three "
                      "recorded as known findings (ILLlib_addcol / addcols / addrows: name registration and partial list application before "
                      "validation; need roll-back).",
        "level_note": "trusted: dimension table in sa/rules/idx.py (array field -> row/struct/col), nstruct <= ncols, validation loops are "
                      "full scans of the list they test, count getters recognised by their return expression; for R-ATOMIC the notion of "
                      "'observable write' (first ILLlpdata field in D, basis arrays, cache; append slots, realloc growth and lazy "
                      "symbol-table indices excluded) and 'validated before the first write' (some check on the same argument passed)",
        "not_decided": "duplicate-name handling beyond 'the lookup result is tested before any write'; that QSload_basis_array validates "
                       "the number of basic variables at all (it never rejects); sanitizer-visible effects in general",
    },
    "C14": {
        "rules": [lambda prog, tier: own.run(prog), lambda prog, tier: tokens.run_basis(prog),
                  lambda prog, tier: tokens.run_sections(prog, "mpq_ILLlib_writebasis", {"ENDATA"}, token_ok=lambda t: t.isupper()),
                  lambda prog, tier: _only(inval.run_fok(prog), "basis installed"),
                  lambda prog, tier: idxclass.run(prog, scope_units=("lib_mpq.c", "qsopt_mpq.c")),
                  lambda prog, tier: fullscan.run(prog, ["mpq_ILLlib_writebasis"], ("lib_mpq.c",), floor=2),
                  lambda prog, tier: trunc.run(prog), lambda prog, tier: inval.run_skipgate(prog), lambda prog, tier: normlen.run(prog), lambda prog, tier: headguard.run(prog)],
        "technique": "who-may-write ownership rule over interprocedural write-effect summaries; table agreement of type-resolved string "
                     "literals (writer format literals vs reader strcmp operands / section tables); must-follow dataflow for factorok",
        "explanation": "Decides three structural clauses of C14: (R-OWN) no public function outside the frozen owner table may write or "
                       "release p->basis - in particular QSwrite_basis leaves the problem's own basis in place (second sentence of C14); "
                       "(R-TOKENS) every status code and keyword ILLlib_writebasis emits (XL, XU, UL, NAME, ENDATA) is one ILLlib_readbasis "
                       "compares against; (R-FOK) every function that installs a basis from outside resets factorok so that the loaded "
                       "basis becomes the solver's basis.",
        "level_text": "Ownership/effect guarantee over all call chains plus writer/reader table agreement. Found the genuine defect named in "
                      "the property text (QSwrite_basis(p, NULL, file) released p->basis; fixed in /repo) and QSread_and_load_basis not "
                      "resetting factorok (fixed). Does not decide that the pairing of non-basic rows with basic columns round-trips for "
                      "every basis.",
        "level_note": "trusted: effect summaries (as C05); the owner table in sa/rules/own.py (one reason per function); literals are "
                      "matched exactly, first word of each format literal",
        "not_decided": "that writer and reader agree on the meaning of each line for every basis (value-dependent round trip); name lookup "
                       "correctness in the symbol tables",
    },
    "C16": {
        "rules": [lambda prog, tier: copy.run_shallow(prog), lambda prog, tier: copy.run_params(prog), lambda prog, tier: copy.run_strflags(prog),
                  lambda prog, tier: copy.run_clobber(prog), lambda prog, tier: nzcount.run(prog, shared_eff(prog)), lambda prog, tier: copy.run_fields(prog, shared_eff(prog)), lambda prog, tier: infmap.run(prog), lambda prog, tier: infmap.run_kept(prog), lambda prog, tier: idxclass.run(prog, scope_units=("lib_mpq.c", "qsopt_mpq.c"), rule="R-IDXCLASS"),
                  lambda prog, tier: exact.run(prog, {"COPY": {"roots": ["QScopy_prob_mpq_dbl", "QScopy_prob_mpq_mpf"], "closure": False}},
                                               exceptions={("QScopy_prob_mpq_dbl", "mpq_get_d"): "the conversion to double itself: mpq_get_d truncates to the nearest "
                                                           "double toward zero, within one unit in the last place",
                                                           ("QScopy_prob_mpq_mpf", "mpf_set_q"): "the conversion to the working mpf precision itself",
                                                           ("QScopy_prob_mpq_mpf", "mpq_get_d"): "time limit parameter is a double in every instantiation"},
                                               rule="R-COPYCONV")],
        "technique": "ownership inference from release sites (which pointer fields of a record are freed through a parameter of that "
                     "record type, composed through embedded records) + must-follow dataflow after whole-struct assignments; "
                     "setter/copier table agreement on parameter fields and QS_PARAM_* constants",
        "explanation": "Decides two structural clauses of C16: (R-SHALLOW) no whole-struct assignment leaves an owned pointer shared "
                       "between original and copy - for every record whose pointer fields are released through a parameter of its type, "
                       "every such field of the destination of a struct assignment is re-initialised on all paths; (R-PARAMS) every field "
                       "the parameter setters can write is written for the new object in QScopy_prob, and every QS_PARAM_* constant the "
                       "setters accept is fetched and set by both QScopy_prob_mpq_dbl and QScopy_prob_mpq_mpf.",
        "level_text": "All-paths ownership guarantee for struct copies plus table agreement for parameters. Found the two genuine defects "
                      "of QScopy_prob on the pinned tree (pricing arrays shared between original and copy: use-after-free under ASan; "
                      "iteration/time/objective limits not copied), both fixed in /repo. The 'within one ulp' clause and observational "
                      "equality of all data are not decided.",
        "level_note": "trusted: release sites recognised as free / ILLutil_freerus / EGfree (direct or through a defined wrapper) on access "
                      "paths rooted at a parameter; struct assignments identified by the record type of the left-hand side (clang); "
                      "memcpy-style copies are not recognised (none in the library units today)",
        "not_decided": "entry-wise closeness of the converted numbers (value-dependent); equality of names/integrality marks in the copy; "
                       "independence of symbol tables (they are rebuilt, not copied)",
    },
    "C18": {
        "rules": [lambda prog, tier: pair.run(prog, heap=True), lambda prog, tier: structfree.run(prog), lambda prog, tier: structfree.run_nodefree(prog),
                  lambda prog, tier: slotleak.run(prog), lambda prog, tier: outleak.run(prog, floor=6), lambda prog, tier: fieldleak.run(prog, shared_eff(prog))],
        "technique": "resource typestate dataflow per function on clang::CFG (set-of-tuples, return-code and parameter-fact correlation, "
                     "allocation-fault and noreturn edges excluded); destructor coverage by ownership inference from release sites",
        "explanation": "Decides two structural clauses of C18 on all paths, including every parse-error and rejected-argument exit: (R-PAIR) "
                       "every local GMP number that is initialised is cleared, and every heap block held by a local pointer is released or "
                       "handed over, on every path to every return; (R-SLOTLEAK) a fresh block parked in the append slot [count] of a "
                       "problem's name array is followed on every path to a return by the increment of that count or by the release "
                       "of the slot (rejected edits); (R-NODEFREE) an object of a record type that owns heap blocks is released only after "
                       "those blocks (directly, or by the record's destructor called on the same pointer); (R-STRUCTFREE) every pointer field of a record into which the library "
                       "stores a fresh allocation is released by a function that frees fields of that record through a parameter of its type.",
        "level_text": "All-paths pairing guarantee for local resources in every function of the rational instantiation (622 resources in 312 "
                      "functions), which is where the early-exit leaks of the property live (invisible to dynamic leak checkers with the slab "
                      "allocator). Found 20 leaking functions/fields on the pinned tree (parse-error returns in the MPS/LP readers, simplex "
                      "helpers, number utilities, ILLlpdata::sos_type, the MPS parser's OBJNAME string), all confirmed with LeakSanitizer "
                      "and fixed in /repo. Whole-program reachability of every block at exit is not decided.",
        "level_note": "trusted: allocation / release recognisers (allocator calls and the library's allocation macros, free-like calls and "
                      "release macros, frozen lists in sa/rules/pair.py); arguments of ordinary calls are borrowed, stores into fields / "
                      "out-parameters / returns hand the block over; one reasoned exception (ILLwrite_mps objname)",
        "not_decided": "ownership across calls in general (a callee that keeps a pointer it was lent), blocks reachable only through heap "
                       "structures, GMP numbers inside heap arrays (covered only through the allocation macros' own loops)",
    },
    "C08": {
        "rules": [lambda prog, tier: exact.run(prog, {"WRITE": {"roots": ["mpq_QSwrite_prob", "mpq_QSwrite_prob_file", "mpq_QSreport_prob"], "closure": True},
                                                     "READ": {"roots": ["mpq_QSread_prob", "mpq_QSget_prob"], "closure": True, "word": True}},
                                               floors=[("exact literal parser on the LP/MPS read path", ["mpq_QSread_prob"], "mpq_EGlpNumReadStrXc", 1)]),
                  lambda prog, tier: headguard.run_hashof(prog),
                  lambda prog, tier: tokens.run_lp(prog),
                  lambda prog, tier: tokens.run_sections(prog, "mpq_ILLwrite_lp", {"End"}, print_funcs={"mpq_ILLprint_report": 1}, token_ok=lambda t: t[0].isupper()),
                  lambda prog, tier: idxclass.run(prog, scope_units=("lp_mpq.c", "write_lp_mpq.c", "rawlp_mpq.c")),
                  lambda prog, tier: sentinel.run(prog), lambda prog, tier: rescan.run(prog), lambda prog, tier: decacc.run(prog), lambda prog, tier: kwtable.run(prog), lambda prog, tier: hitused.run(prog), lambda prog, tier: defaults.run(prog), lambda prog, tier: defaults.run_bndflag(prog), lambda prog, tier: defaults.run_msgmeans(prog), lambda prog, tier: defaults.run_defaultpair(prog), lambda prog, tier: pastcol.run_appendpos(prog),
                  lambda prog, tier: fullscan.run(prog, ["mpq_ILLwrite_lp"], ("lp_mpq.c", "write_lp_mpq.c"), floor=4),
                  lambda prog, tier: trunc.run(prog)],
        "technique": "lossy-conversion sink census over the writer and reader call-graph closures; writer/reader agreement of type-resolved "
                     "keyword literals; must-pass analysis of section emitters before the terminator; index-space typing of the writer",
        "explanation": "Decides four structural clauses of the LP round trip: (R-EXACT) on every path of QSwrite_prob / QSreport_prob and of "
                       "QSread_prob / QSget_prob numbers move only through exact conversions (mpq_get_str-based printing, the exact literal "
                       "parser; no double, strtod, %lf) except in log arguments; (R-TOKENS) every keyword and sense token the LP writer emits is "
                       "among the literals the LP reader compares against; (R-SECTIONS) 'End' is written only after every section emitter "
                       "loop has been passed; (R-IDXCLASS) the writer never subscripts an internal-column array with a structural index.",
        "level_text": "All-paths / all-sites structural guarantee for exact number transport and keyword agreement; necessary conditions of the "
                      "round trip. Text-level round-trip equality (name repair, wrapping, bound elision, range splitting) is not decided.",
        "level_note": "trusted: sink list of sa/rules/exact.py; literals matched case-insensitively as the reader does; writer emissions are "
                      "the literals passed to ILLprint_report / ILLwrite_lp_state_append",
        "not_decided": "that the written text denotes the same problem for every input (value-dependent semantics of line wrapping, name "
                       "repair, default-bound elision, range splitting); the unbounded line buffer of the LP writer is a C17 known finding",
    },
    "C09": {
        "rules": [lambda prog, tier: exact.run(prog, {"WRITE": {"roots": ["mpq_QSwrite_prob", "mpq_QSwrite_prob_file", "mpq_QSreport_prob"], "closure": True},
                                                     "READ": {"roots": ["mpq_QSread_prob", "mpq_QSget_prob"], "closure": True, "word": True}}),
                  lambda prog, tier: tokens.run_mps(prog),
                  lambda prog, tier: tokens.run_sections(prog, "mpq_ILLwrite_mps", {"ENDATA"}, print_funcs={"mpq_ILLprint_report": 1}, token_ok=lambda t: t.isupper() and len(t) >= 2),
                  lambda prog, tier: idxclass.run(prog, scope_units=("mps_mpq.c", "rawlp_mpq.c")),
                  lambda prog, tier: sentinel.run(prog), lambda prog, tier: appendinit.run(prog), lambda prog, tier: appendinit.run_repack(prog), lambda prog, tier: appendinit.run_remap(prog, shared_eff(prog)), lambda prog, tier: fmt.run_args(prog), lambda prog, tier: rescan.run(prog), lambda prog, tier: defaults.run(prog), lambda prog, tier: defaults.run_bndflag(prog), lambda prog, tier: defaults.run_msgmeans(prog), lambda prog, tier: defaults.run_defaultpair(prog), lambda prog, tier: pastcol.run_appendpos(prog),
                  lambda prog, tier: fullscan.run(prog, ["mpq_ILLwrite_mps"], ("mps_mpq.c",), floor=6),
                  lambda prog, tier: fullscan.run_rowfilter(prog), lambda prog, tier: fullscan.run_rangepair(prog), lambda prog, tier: sensemap.run_rangealloc(prog), lambda prog, tier: trunc.run(prog)],
        "technique": "lossy-conversion sink census over writer/reader closures; table agreement (section names, bound mnemonics, row-type "
                     "letters, markers) between the MPS writer's format literals and the reader's tables / switch cases / strcmp operands; "
                     "must-pass analysis of section emitters before ENDATA; index-space typing",
        "explanation": "Same structure as C08 for MPS: exact number transport on writer and reader paths; every section name the writer emits is "
                       "in ILLmps_section_name[], every bound mnemonic in mps_bound_name[], every row-type letter a case of the reader's "
                       "switch, every quoted marker a strcmp operand of the reader; ENDATA only after all section loops; no index-space mix-up.",
        "level_text": "All-sites table agreement and exact-transport guarantee (necessary conditions of the MPS round trip). RANGES sign "
                      "semantics and the LP<->MPS equivalence are value-dependent and not decided.",
        "level_note": "trusted: as C08; tokens are taken from the first words of the writer's format literals",
        "not_decided": "RHS/RANGES/BOUNDS semantics (sign- and sense-dependent interval reconstruction), default bounds of integer columns "
                       "(seeds C09/2, C10/3), the literal parser's state machine (seeds C09/3, C10/1)",
    },
    "C10": {
        "rules": [lambda prog, tier: exact.run(prog, {"READ": {"roots": ["mpq_QSread_prob", "mpq_QSget_prob"], "closure": True, "word": True}},
                                               floors=[("exact literal parser reachable from QSread_prob", ["mpq_QSread_prob"], "mpq_EGlpNumReadStrXc", 1),
                                                       ("exact literal parser reachable from ILLget_value", ["mpq_ILLget_value"], "mpq_EGlpNumReadStrXc", 1)]),
                  lambda prog, tier: rescan.run(prog), lambda prog, tier: decacc.run(prog), lambda prog, tier: defaults.run(prog), lambda prog, tier: defaults.run_bndflag(prog), lambda prog, tier: defaults.run_msgmeans(prog), lambda prog, tier: defaults.run_defaultpair(prog), lambda prog, tier: pastcol.run_appendpos(prog), lambda prog, tier: strscan.run(prog), lambda prog, tier: strscan.run_advance(prog),
                  lambda prog, tier: rawidx.run(prog), lambda prog, tier: digitseen.run(prog), lambda prog, tier: digitseen.run_expmark(prog), lambda prog, tier: digitseen.run_parts(prog), lambda prog, tier: stalechar.run(prog), lambda prog, tier: cursorback.run(prog)],
        "technique": "lossy-conversion sink census over the reader call-graph closure of the rational instantiation (type-resolved, after "
                     "preprocessing: the #ifdef between the exact and the double literal reader is resolved as the build resolves it)",
        "explanation": "Decides one structural clause of C10: on every call path from mpq_QSread_prob / mpq_QSget_prob to the stored problem "
                       "no numeric literal passes through double / strtod / %lf / continued-fraction conversion, and mpq_ILLget_value reaches "
                       "the exact parser mpq_EGlpNumReadStrXc (if the guard macro that selects the exact reader stops being defined, the "
                       "double branch becomes the parsed code and the rule fires).",
        "level_text": "All-paths guarantee that literals are parsed by the exact routine only; does not decide that the routine's state machine "
                      "maps each literal to the rational it spells, nor default bounds / repeated terms.",
        "level_note": "trusted: sink list; integer-valued arguments converted through double (SOS weights) are exact below 2^53",
        "not_decided": "the digit/dot/exponent/fraction state machine itself (seeds C10/1, C09/3), accumulation of repeated terms (seed C10/2), "
                       "default bound rules (seed C10/3)",
    },
    "C11": {
        "rules": [lambda prog, tier: growguard.run(prog), lambda prog, tier: buf.run(prog, scope_funcs=set(prog.reachable([prog.require_fn(r).key for r in
                                                                                 ("mpq_QSread_prob", "mpq_QSget_prob", "mpq_QSread_basis", "mpq_QSread_and_load_basis")]))),
                  lambda prog, tier: div.run(prog), lambda prog, tier: counter.run(prog),
                  lambda prog, tier: errlost.run(prog, scope_funcs=set(prog.reachable([prog.require_fn(r).key for r in
                                                                                     ("mpq_QSread_prob", "mpq_QSget_prob", "mpq_QSread_basis", "mpq_QSread_and_load_basis")])), floor=50),
                  lambda prog, tier: allockind.run(prog),
                  lambda prog, tier: strscan.run(prog), lambda prog, tier: strscan.run_advance(prog),
                  lambda prog, tier: rawidx.run(prog),
                  lambda prog, tier: idx.run(prog),
                  lambda prog, tier: lenm1.run(prog), lambda prog, tier: decacc.run(prog), lambda prog, tier: digitseen.run(prog), lambda prog, tier: digitseen.run_expmark(prog), lambda prog, tier: digitseen.run_parts(prog), lambda prog, tier: stalechar.run(prog), lambda prog, tier: cursorback.run(prog), lambda prog, tier: strcap.run(prog), lambda prog, tier: nulterm.run(prog),
                  lambda prog, tier: fmt.run(prog, scope=lambda f, _r=set(prog.reachable([prog.require_fn(r).key for r in
                                                                                          ("mpq_QSread_prob", "mpq_QSget_prob", "mpq_QSread_basis", "mpq_QSread_and_load_basis")])): f.key in _r, floor=200)],
        "technique": "census and classification of buffer-writing calls in the reader call-graph closures (destination array sizes from the "
                     "type-resolved program, format-length bounds); dominance analysis for zero tests of GMP divisors and for counter guards",
        "explanation": "Decides three structural clauses of C11 for every function reachable from the LP/MPS/basis readers: (R-BUF) every "
                       "copy or format into a buffer is bounded by the buffer - explicit size not larger than the destination, fitting "
                       "literal/integer sources, no larger source array, destination sized from strlen - or carries a frozen one-site reason; "
                       "(R-DIV) every GMP division is dominated by a test of its divisor, canonicalisations are non-zero by construction (one "
                       "reason each); (R-CNT) the basis header arrays are never indexed by a data-driven counter without a dominating bound test.",
        "level_text": "All-sites guarantee for bounded writes, guarded divisions and guarded counters on the reader paths. Found and fixed on the "
                      "pinned tree: stack-buffer-overflow of the 256-byte error message buffer in lp_err / mps_err / ILLmsg (a 600-character "
                      "token in a malformed file), SIGFPE on the literal 1/0, heap-buffer-overflow in ILLbasis_load for a basis with more basic "
                      "variables than rows. Does not decide termination of the readers or consistency of a returned problem.",
        "level_note": "trusted: destination sizes from clang's record layouts / local array types; the exception table of sa/rules/buf.py (one "
                      "reason per site) and the by-construction table of sa/rules/div.py; dominance uses the live CFG",
        "not_decided": "absence of loops that do not consume input (seed C11/3), internal consistency of a returned problem, negative entries "
                       "of the raw->lp index maps (seed C11/1)",
    },
    "C12": {
        "rules": [lambda prog, tier: verdict.run(prog), lambda prog, tier: verdict.run_subject(prog), lambda prog, tier: verdict.run_basicdual(prog), lambda prog, tier: inval.run_basiscache(prog, shared_eff(prog)), lambda prog, tier: loopzero.run(prog),
                  lambda prog, tier: optptr.run(prog),
                  lambda prog, tier: localfield.run(prog, shared_eff(prog), scope=lambda f: f.unit.endswith("qsopt_ex/exact.c") or "fct_mpq" in f.unit or "basis_mpq" in f.unit, floor=8),
                  lambda prog, tier: vtypezero.run(prog),
                  lambda prog, tier: vstattype.run(prog),
                  lambda prog, tier: basismap.run(prog),
                  lambda prog, tier: djsym.run(prog),
                  lambda prog, tier: zerotol.run(prog, shared_eff(prog), "simplex"),
                  lambda prog, tier: counter.run(prog),
                  lambda prog, tier: idxclass.run(prog, scope_units=("basis_mpq.c", "lib_mpq.c", "qsopt_mpq.c", "qsopt_ex/exact.c", "simplex_mpq.c", "fct_mpq.c")),
                  lambda prog, tier: lenclass.run(prog, scope_units=("basis_mpq.c", "lib_mpq.c", "qsopt_mpq.c", "qsopt_ex/exact.c", "lpdata_mpq.c")),
                  lambda prog, tier: escape.run(prog)],
        "technique": "must-precede path-sensitive dataflow on clang::CFG for the producer/consumer chain of the exact verdict functions; "
                     "extraction and comparison of the two basis status translation tables from switch/equality-selected constant stores; "
                     "value-class (zero / non-zero) analysis of every tolerance location with dead-write elimination; guard dominance for "
                     "the basis counters; loop-local index-space typing",
        "explanation": "Decides four structural clauses of C12: (R-VERDICT) in QSexact_basis_status / _optimalstatus / _dualstatus every "
                       "computation is preceded on all paths by the computations whose result it consumes (rebuild internal lp -> load -> "
                       "factor -> piz -> dz / xbz -> feasibility check -> status values -> objective), the feasibility checks receive the "
                       "exact zero constant as tolerance, and *result = 1 is stored only under the status flag that means it; "
                       "(R-BASISMAP) the export table of ILLlib_getbasis and the import table of ILLbasis_load, extracted from the code, are "
                       "total on their status sets and mutually inverse (non-ranged rows: UPPER collapses to LOWER only on export); "
                       "(R-ZEROTOL) every deciding tolerance of the rational simplex has value class zero; (R-CNT) basic / non-basic "
                       "counters are bounded before they index baz / nbaz (one basic variable per row on import); (R-IDXCLASS) basis and "
                       "solution arrays are subscripted in their own index space; (R-LENCLASS) they are allocated / block-copied with their "
                       "own dimension (the hand-over of the returned basis); (R-FREEBOTH) in every dual feasibility classifier whatever is "
                       "done for an at-lower or at-upper non-basic column is also reachable for a free column (finite enumeration of the "
                       "status values through the classifier's CFG); (R-EXTORDER) no internal column number leaves through an int "
                       "out-parameter.",
        "level_text": "All-paths / all-sites guarantee for the listed clauses, each a necessary condition of C12: dropping a producer, "
                      "judging at a non-zero tolerance, publishing a verdict under the wrong flag, breaking one entry of either status "
                      "table, or mixing row / structural / internal-column indices is reported. It does not decide that the exact linear "
                      "algebra inside factor / piz / dz / xbz is right (see C13) nor that ILLfct_check_pfeasible / _dfeasible classify "
                      "every (status, sign) combination correctly beyond the free-column symmetry of R-FREEBOTH.",
        "level_note": "trusted: frozen producer/consumer table (sa/rules/verdict.py DEPS), frozen list of deciding tolerances "
                      "(sa/rules/zerotol.py), host-supplied arguments of installed-header functions are outside the value-class analysis",
        "not_decided": "numerical identity of the basic solution with the reported one; the hand-over of the returned basis beyond index "
                       "spaces; warm-start confirmation",
    },
    "C13": {
        "rules": [lambda prog, tier: zerotol.run(prog, shared_eff(prog), "factor"),
                  lambda prog, tier: escape.run(prog),
                  lambda prog, tier: idxclass.run(prog, scope_units=("lib_mpq.c", "qsopt_mpq.c"), rule="R-IDXCLASS"),
                  lambda prog, tier: scratch.run(prog), lambda prog, tier: scratch.run_delay(prog), lambda prog, tier: scratch.run_pair(prog),
                  lambda prog, tier: staleptr.run(prog, shared_eff(prog)),
                  lambda prog, tier: inval.run_fok(prog, shared_eff(prog)), lambda prog, tier: twopass.run(prog),
                  lambda prog, tier: escape.run_extcopy(prog)],
        "technique": "value-class (zero / non-zero / unknown) fixpoint over GMP-number locations with interprocedural parameter binding and "
                     "dead-write elimination on the CFG; per-iteration must-pass analysis of the scratch-mark clearing loops",
        "explanation": "Decides one structural clause of C13: the two tolerances of the LU work record (fzero_tol, szero_tol), and every "
                       "location whose value can flow into them (SZERO_TOLER, PIVZ_TOLER, the exact zero constant, the ztoler parameters of "
                       "the row-solve helpers), only ever receive values of class zero in the rational instantiation, so no entry of L, U "
                       "or a solve result can be dropped as 'small' - whether or not the number macros consult the tolerance.  Also decides the "
                       "'basis order reported alongside' clause structurally (R-EXTORDER): the basis order handed out is translated through "
                       "an inverse map populated as M[structmap[j]] = j, M[rowmap[i]] = nstruct + i, no internal column number reaches an "
                       "int out-parameter, and the tableau / binv row extraction subscripts every array in its own index space (R-IDXCLASS).",
        "level_text": "All-writes / all-sites guarantee for two necessary conditions (exact zero tests in the LU code; external numbering of "
                      "the basis order and tableau rows). The algebra of the "
                      "factorization, the Forrest-Tomlin updates and the index bookkeeping of the 5600-line LU code are NOT decided by "
                      "this check: no sound static argument in reach bounds them (seeds C13/1, C13/2 are missed by construction).",
        "level_note": "trusted: the GMP transfer table of sa/rules/zerotol.py; values supplied by a host program through "
                      "ILLfactor_set_factor_dparam are outside the analysis",
        "not_decided": "B^-1 B = I itself; singular detection; update histories; tableau row assembly",
    },
    "C17": {
        "rules": [lambda prog, tier: buf.run(prog),
                  lambda prog, tier: idx.run(prog), lambda prog, tier: idx.run_pubstruct(prog), lambda prog, tier: optptr.run(prog),
                  lambda prog, tier: colen.run(prog), lambda prog, tier: pastcol.run(prog), lambda prog, tier: pastcol.run_appendpos(prog), lambda prog, tier: twopass.run(prog), lambda prog, tier: growguard.run(prog), lambda prog, tier: growguard.run_capsync(prog), lambda prog, tier: negidx.run(prog), lambda prog, tier: lpinit.run(prog), lambda prog, tier: loopzero.run(prog),
                  lambda prog, tier: idxclass.run(prog),
                  lambda prog, tier: lenclass.run(prog),
                  lambda prog, tier: lenclass.run_capacity(prog),
                  lambda prog, tier: argcap.run(prog, floor=40),
                  lambda prog, tier: staleptr.run(prog, shared_eff(prog)),
                  lambda prog, tier: condalloc.run(prog),
                  lambda prog, tier: lpstate.run(prog), lambda prog, tier: lpstate.run_internal(prog), lambda prog, tier: lenm1.run(prog), lambda prog, tier: basisdim.run(prog), lambda prog, tier: normlen.run(prog), lambda prog, tier: inval.run_pricedim(prog, shared_eff(prog)), lambda prog, tier: logonly.run(prog), lambda prog, tier: decacc.run(prog), lambda prog, tier: outunset.run(prog), lambda prog, tier: dupentry.run(prog), lambda prog, tier: signedidx.run(prog), lambda prog, tier: strcap.run(prog), lambda prog, tier: finite.run(prog), lambda prog, tier: nullret.run(prog),
                  lambda prog, tier: neverset.run(prog),
                  lambda prog, tier: fmt.run(prog), lambda prog, tier: fmt.run_args(prog),
                  lambda prog, tier: floatidx.run(prog),
                  lambda prog, tier: allockind.run(prog),
                  lambda prog, tier: intdiv.run(prog), lambda prog, tier: intdiv.run_quotient(prog),
                  lambda prog, tier: localfield.run(prog, shared_eff(prog)),
                  lambda prog, tier: strscan.run(prog), lambda prog, tier: strscan.run_advance(prog),
                  lambda prog, tier: rawidx.run(prog),
                  lambda prog, tier: appendinit.run(prog), lambda prog, tier: appendinit.run_repack(prog), lambda prog, tier: appendinit.run_remap(prog, shared_eff(prog)),
                  lambda prog, tier: counter.run(prog),
                  lambda prog, tier: useb4check.run(prog),
                  lambda prog, tier: norms.run(prog), lambda prog, tier: norms.run_handover(prog), lambda prog, tier: inval.run_normstale(prog, shared_eff(prog)),
                  lambda prog, tier: opencheck.run(prog),
                  lambda prog, tier: shell.run(prog, shared_eff(prog)),
                  lambda prog, tier: ndet.run(prog)],
        "technique": "all-sites census rules over the type-resolved AST/CFG export: bounded-write classification of every buffer-writing "
                     "call, path-sensitive guard analysis of externally supplied indices, loop-local index-space typing of subscripts, "
                     "dimension typing of allocation / block-copy lengths, initialisation of appended slots, and a nondeterminism-source "
                     "census (seeds, clock, pid, address-valued expressions) with taint to branch conditions",
        "explanation": "Decides structural necessary conditions of C17 over the whole library (not only the reader closure of C11): (R-BUF) "
                       "every copy / format into a fixed or heap buffer is bounded by it; (R-IDX) every externally supplied index is "
                       "range-checked against the dimension of each array it subscripts on every path; (R-IDXCLASS) no subscript mixes "
                       "row / structural / internal-column spaces; (R-LENCLASS) allocations and block operations on problem arrays use the "
                       "array's own dimension; (R-CAPACITY) an array that some site sizes by a capacity field (rowsize / colsize / structsize) is "
                       "never allocated with only the current count unless the capacity is set to that count alongside (the appending edit "
                       "functions write slot [count] whenever count < capacity); (R-NEVERSET) every scalar field of a library record that live "
                       "code reads is written somewhere in the program (a field that is only read holds allocator garbage); (R-FMT) the format argument of every printf-like call "
                       "(the set of such functions is computed from the declarations) is a literal or a forwarded format parameter, "
                       "never data; (R-FLOATIDX) no array subscript depends on an int computed from a floating-point function without a "
                       "dominating comparison of that int; (R-INTDIV) no integer division by a value that depends on a host-controlled record field "
                       "(set computed from the public API) without a dominating test or a clamp; (R-ALLOCKIND) arrays of GMP numbers come from the "
                       "number-array allocator; (R-APPENDINIT) slots appended by the add-row / add-column paths are initialised before the "
                       "dimension is published; (R-CNT) basis counters are bounded; (R-NDET) the reproducibility sentence: constant seeds, "
                       "no clock / pid / libc randomness outside the timing wrappers, time reaches a branch only at the documented time "
                       "limit, no relational pointer comparison across objects and no pointer-to-integer value outside the slab allocator.",
        "level_text": "All-sites guarantee for the listed shapes; these are the memory-safety and reproducibility clauses whose truth is "
                      "visible in the code. Use-after-free over call histories, reads of uninitialised heap cells in the solver's work "
                      "arrays, signed overflow and alignment are NOT decided (they quantify over runtime values / heap states). One known "
                      "finding recorded: the LP writer's line buffer overflows for long names and long coefficients (3 sites).",
        "level_note": "trusted: clang record layouts for destination sizes; frozen exception tables in sa/rules/buf.py, idx.py, lenclass.py, "
                      "ndet.py (one reason per entry)",
        "not_decided": "temporal safety (use-after-free, double free across calls), uninitialised reads inside work arrays (seed C17/3), "
                       "staleness of pricing norms against the basis (seed C17/2), signed overflow, misaligned access",
    },
    "C19": {
        "rules": [lambda prog, tier: esolver.run_exit(prog),
                  lambda prog, tier: errlost.run(prog, scope_funcs={prog.require_fn("main", unit="esolver/esolver.c").key, prog.require_fn("QSexact_print_sol").key,
                                                                   prog.require_fn("QSexact_solver").key}, floor=3),
                  lambda prog, tier: opencheck.run(prog, scope=lambda f: f.unit.startswith("esolver/") or f.name in ("QSexact_print_sol", "mpq_QSwrite_basis", "mpq_ILLlib_writebasis", "mpq_QSread_prob", "mpq_ILLlib_readbasis")),
                  lambda prog, tier: esolver.run_statusword(prog), lambda prog, tier: esolver.run_bgate(prog), lambda prog, tier: esolver.run_ftype(prog), lambda prog, tier: negidx.run(prog), lambda prog, tier: signedidx.run(prog), lambda prog, tier: nulterm.run(prog),
                  lambda prog, tier: esolver.run_nzfilter(prog),
                  lambda prog, tier: shell.run(prog, shared_eff(prog)),
                  lambda prog, tier: exact.run(prog, {"CERT": {"roots": ["QSexact_print_sol"], "closure": False}, "TESTS": {"roots": ["QSexact_print_sol"], "closure": True}}),
                  lambda prog, tier: idxclass.run(prog, scope_units=("qsopt_ex/exact.c",), rule="R-IDXCLASS"),
                  lambda prog, tier: buf.run(prog, scope_units=("esolver/",), floor=2),
                  lambda prog, tier: fmt.run(prog, scope=lambda f: f.unit.startswith("esolver/") or f.unit.endswith("qsopt_ex/exact.c"), floor=40),
                  lambda prog, tier: pair.run(prog, heap=True, units=("esolver/",), floors=(1, 3)),
                  lambda prog, tier: fullscan.run(prog, ["QSexact_print_sol"], ("qsopt_ex/exact.c",), floor=4),
                  lambda prog, tier: fullscan.run(prog, ["mpq_ILLlib_writebasis"], ("lib_mpq.c",), floor=2),
                  lambda prog, tier: trunc.run(prog)],
        "technique": "path-sensitive typestate dataflow over main's CFG for the exit status (error recorded => non-zero return); "
                     "NULL-test dominance for file handles; table agreement between status constants and the words written; sibling "
                     "agreement of the four non-zero filters of QSexact_print_sol; lossy-conversion sink census; index-space typing; "
                     "bounded-write census of esolver",
        "explanation": "Decides the structural clauses of C19: (R-EXIT) once an error has been recorded in main's rval no later assignment "
                       "clears it, so a failed run exits non-zero; (R-OPENCHK) the solution file handle, and the handles of the basis / "
                       "problem readers and writers esolver calls, are tested before use; (R-STATUSWORD) under case QS_LP_X the text "
                       "written is the word X, in main and in QSexact_print_sol; (R-NZFILTER) the four list sections print entry i iff "
                       "it is != 0 (equality test on the very array whose element is converted to text - no one-sided filter); "
                       "(R-BASISSHELL) a failed -B leaves no empty basis record for -b to write; (R-EXACT) the values are written from "
                       "the exact rationals without conversion through double; (R-IDXCLASS) names and values are paired within one "
                       "index space; (R-BUF) esolver's fixed buffers are written with bounded calls.",
        "level_text": "All-paths / all-sites guarantee for these shapes. Three genuine defects found on the pinned tree and fixed: SIGSEGV "
                      "for an unwritable -O path, SIGSEGV for a malformed -B file combined with -b, exit status 0 without a solve when a "
                      "parameter is rejected and -B/-b are given. Does not decide the file-type detection by extension (seed C19/1), the "
                      "bzip2 / gzip line readers' agreement with fgets (seed C19/3), nor that the printed numbers pass the optimality test "
                      "(C01).",
        "level_note": "trusted: IntCells value classes for rval; the status-constant table of sa/rules/esolver.py; getter/array pairing in "
                      "QSexact_print_sol recognised by the QSget_*_array call pattern",
        "not_decided": "get_ftype's string logic, compressed stream layer semantics, option parsing values, round trip of -b / -B (see C14)",
    },
    "C20": {
        "rules": [lambda prog, tier: stdio.run(prog), lambda prog, tier: stdio.run_restore(prog)],
        "technique": "call-graph effect analysis over the type-resolved AST/CFG export (clang 14 libTooling): "
                     "stdio-sink census + liveness pruning + returning-path reachability from installed-header functions",
        "explanation": "Decides the whole effect clause of C20 statically: every reference to stdout/stderr and every call of an "
                       "implicit-stream stdio function in the library units is classified as dead (behind a compile-time-constant "
                       "condition), non-returning (every path from it ends in exit/abort), unreachable from any function declared "
                       "in an installed header (indirect calls resolved field-sensitively), allowed (default branch of QSlogv; "
                       "QSwrite_prob with NULL file name; interactive editor) or a violation reported with its call chain.",
        "level_text": "Static effect analysis: sound over-approximation of 'which code can write to the process's standard streams and "
                      "return' for every library function reachable from an installed header, on all paths and call chains "
                      "(not just the executed ones); plus host ownership of the handler variable. This is the whole effect clause "
                      "of C20; completeness of messages is not decided.",
        "level_note": "trusted: clang 14 front end, the export (sa/qsa.cc), the indirect-call resolution (field-sensitive, fallback "
                      "all address-taken functions), the liveness model (only compile-time-constant conditions prune), the four "
                      "reasoned exceptions in sa/rules/stdio.py",
        "not_decided": "that each message delivered to the handler is 'complete'; writes performed by host callbacks; "
                       "writes through FILE* objects the host itself passed in",
        "assumptions": ["indirect calls reach only functions stored into the same struct field / passed as the same argument "
                        "(fallback: every address-taken function)"],
    },
}


# ------------------------------------------------------------------ texts of the rules added in session 3
# (appended to the technique / explanation / level texts above so that MANIFEST and evidence name every deciding method)
_ADD = {
    "C01": {"explanation": " (R-SOLVEDGATE) the simplex driver hands out OPTIMAL / INFEASIBLE / UNBOUNDED only on the branch on which its pivot loop "
                           "ended normally (solstatus == ILL_LP_SOLVED), never on a limit exit. (R-ARGCAP) the solution vectors the driver allocates (through the converting copies' length headers) cover the "
                           "internal-column space the optimality test subscripts them with.",
            "technique": "; interprocedural subscript-space requirement of pointer parameters against reaching allocation classes of local vectors",
            "level_text": " Since session 3 the presence, coverage, failing signs and data dependences of the test's own gates are decided too "
                          "(R-CERTDEP): a dropped or narrowed check, a wrong array or index space, a data-dependent skip are reported. (R-VTYPEZERO) wherever a non-basic status is chosen "
                          "from the variable type, STAT_ZERO is reachable for VFREE only (type-value enumeration through the if forms). (R-DZFRESH) the per-column reduced-cost routine of partial pricing stores into dz[ix] / pIdz[ix] on every path (must-pass-through): "
                           "the reduced costs of an OPTIMAL answer are handed out as they stand."},
    "C02": {"explanation": " (R-ARGCAP) every local vector handed to the tests (and to every other function) was allocated with a dimension "
                           "that covers the index spaces the callee subscripts it with.",
            "technique": "; interprocedural subscript-space requirement of pointer parameters against reaching allocation classes of local vectors; "
                         "factorok typestate of the library's own calls of factorok-guarded functions",
            "level_text": " (R-FOKCALL) the driver never calls a factorok-guarded public function right after a call that reset factorok "
                          "(the exact re-test of an infeasible LP would be rejected by the library's own guard). R-CERTDEP decides presence, coverage over all internal columns, failing outcomes (<= 0) and data dependences of the "
                          "Farkas-value and infinite-bound gates. (R-PROBSTAT) the simplex stores INFEASIBLE / UNBOUNDED only on the true edge of flags that are set together with the problem-level flag "
                           "of that verdict (co-store implication over all stores of the status records)."},
    "C05": {"technique": "; per-iteration must-write analysis for the co-update of a row's sense with its logical column",
            "explanation": " (R-COUPD(sense)) every path that stores a new row sense also writes the logical column's lower bound, upper bound and "
                           "coefficient before the loop iteration / function completes; (R-SENSEMAP) ILLlib_addrow, ILLlp_add_logicals and ILLlib_chgsense "
                           "give the logical column the same coefficient sign for every sense letter (value enumeration through the switch / if forms); (R-KEEPCACHE) the test of the cached dual "
                           "value that lets ILLlib_delrows keep the cached solution rejects both signs; (R-SKIPGATE) a solve entry point answers from the "
                           "cache only under tests of p->basis, p->cache and p->factorok; (R-VSTATTYPE) the simplex driver reads the non-basic statuses "
                           "only after a pass that sets each of them from the variable's type (a bound made infinite since the last solve, or a "
                           "caller's status letter that does not fit the bounds, cannot enter the computation); (R-ROWCOPY) every library function that "
                           "stores into the arrays of the column matrix has tested-and-released the cached row copy rA on a dominating position "
                           "(mutators computed from effect summaries); (R-NORMLEN) every relative change of a basis record's row / structural count is "
                           "accompanied on every path by code that deals with the corresponding norm array; (R-PRICEDIM) a public function that may change "
                           "the row / column count resets factorok or releases the devex data of the pricing record on every success path - and likewise every array of the pricing record whose allocation length is a column dimension (found from the allocation sites; the primal steepest-edge norms among them); (R-INVALPART) "
                           "a public caller of a batch routine that can fail half-way drops the cached solution on the failing paths too (a batch rejected as a "
                           "whole - count unchanged - leaves it alone); (R-NORMSTALE) a public function that changes entries of the matrix without changing "
                           "a dimension releases both edge-norm arrays kept with p->basis on every success path; (R-FOREIGNNORMS) a basis record that moves "
                           "from one problem object to another (the scaled pre-solve copy) leaves its edge norms behind; (R-RSTATSENSE) a public function that may "
                           "store a row sense deals with the row statuses of p->basis (UPPER is a status of ranged rows only)."},
    "C07": {"technique": "; computed simplex-state fields of lpinfo + unguarded-read summaries + dominance of the API hand-over by the factorok test; "
                         "alphabet discovery + dominating-validator check for caller-supplied selector letters",
            "explanation": " (R-LPSTATE) the index-taking calls that work on the simplex data of the problem (tableau rows, pivot-in lists, basis "
                           "order) are refused in every lifecycle state in which p->lp does not hold the factored basis of the current problem "
                           "(never solved, edited, basis replaced, solved by QSexact_solver on copies) instead of reading NULL / stale arrays. "
                           "(R-IDX) also covers scratch arrays sized by a dimension and list[computed position] elements. (R-ALPHABET) a row sense or basis "
                           "status letter supplied by the caller is stored only after a rejecting test against the field's alphabet (discovered from "
                           "the constants the program itself stores). (R-BASISDIM) a caller's basis record reaches a routine that walks it with the "
                           "problem's counts only after both of its counts were compared with the problem's. (R-DUPMARK) a delete list applied through a "
                           "mark array and counted by its length is tested for repeated elements. (R-LOGONLY) a pointer that a reporting checker has "
                           "just declared missing is not used unless the checker's verdict or a NULL test of the caller's own is acted upon. (R-LOGNOFAIL) no "
                           "path through a branch that logs a complaint and leaves the function at once returns an error code that is certainly zero "
                           "(an unknown name reported and answered with 0). (R-OUTUNSET) a local whose address goes to an out-parameter that a "
                           "successful return may leave unwritten (callee summary, path-sensitive on the error code) is not read before it is assigned. "
                           "(R-NARROW) an int selector of a public function is compared with constants before it is stored into char storage. (R-DUPENTRY) an "
                           "index list that becomes the entries of one matrix column / row is tested for repeats (mark form or sorted-copy form, in the "
                           "function or a helper whose verdict it tests). (R-LOADKEEP) a public function that empties p->basis calls nothing that can fail for "
                           "another reason than allocation behind the emptying (read and check first, swap last). (R-BASISCARD) every loader of external "
                           "status data runs the cardinality checker (found structurally) before it fills p->basis. (R-RSTATLOAD) every loader also calls a validator that reads the row senses (the status 'at upper' "
                           "exists for ranged rows only). (R-PUBSTRUCT) no public function compares a caller-supplied index with a dimension of the internal column space (structural columns and logicals interleaved): the interface speaks structural numbers, checked against nstruct and mapped through structmap; a caller's array is not walked with the internal column count. (R-NOINDEX) the index of a symbol table entry leaves a public function through an out-parameter only after it has been compared with the 'no index' value (the objective's name sits in the row table without an index), the obligation travelling up the chain of forwarded out-parameters. (R-PCHECK) every public function looks into "
                           "its problem handle only behind check_qsdata_pointer (p) or a NULL test of it (80 of 83 did; the three others are repaired)."},
    "C08": {"technique": "; all-paths constant propagation through the '/' case of the exact literal scanner; flag-state dataflow for stores into the "
                         "raw LP's bounds; machine-word sink census; exit-condition analysis of the emission loops",
            "explanation": " (R-RESCAN) the '/' case of the exact literal scanner restores every scanner state variable; (R-EXPLICITBND) the raw LP's "
                           "bounds are stored only where the 'explicitly given' flag is zero, finite defaults only where both flags are zero; (R-EXACT, "
                           "machine word) no literal is assembled in an unsigned long without a visible digit bound <= 19; (R-FULLSCAN) the emission "
                           "loops of the LP writer are left only on counter tests or failure exits. (R-KWTABLE) the reader's keyword table and its parallel length table agree entry by entry. (R-HITUSED) behind every registration of a name the reported slot or existed-flag is read (a generated name that clashes with a user's name is noticed)."},
    "C09": {"technique": "; all-paths constant propagation through the '/' case of the exact literal scanner; flag-state dataflow for stores into the "
                         "raw LP's bounds; machine-word sink census; exit-condition analysis of the emission loops; dominance of row-naming records "
                         "by the row-length test",
            "explanation": " Shared reader clauses as in C08 (R-RESCAN, R-EXPLICITBND, machine-word sinks); (R-FULLSCAN) the emission loops of the MPS "
                           "writer are exhaustive; (R-ROWFILTER) every record naming a row (RHS, RANGES) is written under the emptiness test that decides "
                           "the row's declaration in ROWS. (R-REMAP) a function that lowers a dimension of the problem rewrites every array that holds numbers "
                           "of the shrunk space (the SOS sets the writer prints hold structural column numbers). (R-FMTARGS) every conversion of a literal "
                           "format handed to a printf-like routine (the writers' ILLprint_report among them) is given an argument of its category - the "
                           "exporter records the promoted type of every variadic argument, so a %g given the rational type is seen in the rational "
                           "instantiation. (R-RANGEPAIR) the emission of a RANGES record is governed by a test of the row's sense, not by the range value alone. (R-BNDFLAG) a function that stores a file-given bound into the raw LP also sets the matching explicitly-given flag."},
    "C10": {"technique": "; all-paths constant propagation through the '/' case of the exact literal scanner; flag-state dataflow (set-of-tuples) for "
                         "stores into the raw LP's bounds; machine-word sink census with digit-bound discharge",
            "explanation": " (R-RESCAN) the denominator of p/q is scanned from the same state as the numerator; (R-EXPLICITBND) a bound given in the "
                           "file is never replaced by a default and finite defaults (binary upper bound) apply only to columns without any bound; "
                           "(R-EXACT, machine word) literals are not assembled in a machine word. (R-RAWIDX) the conversion of the parsed file "
                           "into the stored problem subscripts raw arrays with raw indices and LP arrays with mapped indices only (a bound or name "
                           "taken from the wrong numbering is the neighbour's as soon as an unused column was dropped).",
            "level_text": " Since session 3 three clauses of the scanner / default-bound semantics are decided structurally (state reset at '/', "
                          "explicit-versus-default flags, no machine-word accumulation). (R-DIGITSEEN) the literal scanners (found by shape: a switch over the ten digit characters in a function returning a count) hand back a "
                           "non-zero count only on paths that executed a digit case. (R-BNDFLAG) a function that stores a file-given bound into the raw LP also sets the matching explicitly-given flag."},
    "C11": {"explanation": " (R-STRSCAN) no scan of a line runs past its terminator: a strchr set-membership test of a variable character also "
                           "tests it against NUL, and every loop that walks a char pointer has an exit test that NUL fails (value enumeration of the "
                           "condition for NUL). (R-FMT) no text of the input (a name, a line) is used as a format string on a reader path; "
                           "(R-ERRLOST) the error code of a failing callee is examined before it is overwritten. (R-RAWIDX) in the raw-to-LP "
                           "conversion no array of the converted LP is subscripted with a raw index and vice versa (index-space typing per loop). "
                           "(R-IDX) an index obtained from a name of the input (symbol-table lookup, directly or through ILLlib_colindex / rowindex) "
                           "subscripts a basis or problem array only after a test that excludes -1 / negatives (the basis reader). (R-LENM1) the "
                           "last-character idiom s[strlen - 1] is evaluated only where the length is known positive. (R-STRADV) a scanning pointer is "
                           "advanced over a token by the token's length only, never over an unexamined character.",
            "level_text": " (R-ALLOCKIND) arrays of exact numbers are created by the number-array allocator, never by a raw realloc (an MPS "
                          "file with an SOS section crashed the rational reader on the pinned tree).",
            "technique": "; census of printf-like calls (set computed from the declarations) with literal / forwarded-format discharge; "
                         "index-space typing of subscripts in the raw-to-LP conversion (R-STRCAP) a strcpy / strcat / length-indexed store into a block allocated with a strlen-based size (directly, through a length "
                           "local, or by the duplicating helper) fits that size (symbolic capacity facts, path-sensitive)."},
    "C12": {"explanation": " (R-VTYPEZERO) wherever the simplex chooses a non-basic status from the variable type (initial basis, singular-basis "
                           "repair) STAT_ZERO is reachable for a free variable only, so the basic solution of the returned basis takes every non-basic "
                           "variable at one of its bounds; (R-VSTATTYPE) a warm start reconciles the statuses of the supplied basis with the variable types before "
                           "anything reads them. (R-LOCALFIELD) the verdict functions read no field of a local record that nothing wrote. (R-SUBJECT) no exact verdict function re-points its basis parameter, so the optimality test and the rational check judge the record the "
                           "caller supplied. (R-BASICDUAL) a non-zero verdict is stored through the verdict out-parameter only behind a call that computes the exact basic dual solution of the basis, or behind a test that ties the tested dual vector to the basis (reduced costs of the basic variables vanish) - an optimality test of a primal / dual pair alone is a statement about the problem. (R-OPTPTR) a pointer parameter that a function compares with NULL, and for which NULL can arrive (public function, literal NULL at a call site, forwarded), is dereferenced only where a non-NULL fact holds (the optional dobjval of the verdict functions)."},
    "C13": {"technique": "; control-dependence analysis of scratch-mark resets and dependency-counter updates on conditions over exact numbers; "
                         "re-point summaries of pointer fields (bottom-up) + path-sensitive staleness typestate of their local copies",
            "explanation": " (R-SCRATCH) in the sparse kernels no clearing of a scratch mark (lpinfo::iwork) and no update of a dependency counter "
                           "(ur/uc/lr/lc_info::delay) is control-dependent on the value of an exact number: an exact cancellation must not change the "
                           "structure the next solve relies on. (R-MARKPAIR) every function that sets scratch marks clears them on every path to its return "
                           "(early exits included). (R-STALEPTR) no local copy of a re-allocatable array pointer of the factorisation "
                           "(urcoef, urindx, ucindx, lcindx ...) is used after a call that may grow the array, unless it was fetched again. (R-EXTORDER(copy)) elements of a work vector in internal column order (tableau row, "
                           "solution vectors) reach the caller's arrays only through structmap[] / rowmap[]. (R-FOK) every public call that may write entries of the constraint matrix resets factorok on every success path: a factorization kept across such an edit is the inverse of another matrix, and the binv / tableau rows answered from it do not satisfy B^-1 B = I.",
            "level_text": " R-SCRATCH adds the structural clause that marks and topological counters are value-independent (two seeded LU / tableau "
                          "defects are reported by it)."},
    "C14": {"technique": "; exit-condition analysis of the record-emitting loops of the basis writer",
            "explanation": " (R-FULLSCAN) the loops that emit XU/XL and UL records are left only on counter tests or failure exits; (R-SECTIONS) every "
                           "section emitter dominates ENDATA; (R-SKIPGATE) after a basis has been loaded (factorok reset, R-FOK) no solve entry "
                           "point answers from the cache of the previous basis. (R-NORMLEN, symbol-table pair) every decrement of the symbol table's size deals with its name-to-index cache (index_ok): the basis "
                           "reader resolves names through that cache."},
    "C16": {"explanation": " (R-STRFLAGS) no string function is applied to a flag array of the problem (a strncpy of intmarker stops at the first "
                           "continuous column). (R-NZCOUNT) every library function that changes the column counts of the problem's matrix also updates the stored "
                           "non-zero total (a problem whose total went stale differs observably from its copy, which is rebuilt entry by entry). (R-COPYFIELDS) sibling agreement of the two routines that build a whole problem: every field of "
                           "the problem record that the file reader's conversion fills with something other than a constant and that the writers read "
                           "is also filled for the new problem by QScopy_prob or a callee (fill summaries computed bottom-up; stores of constants and "
                           "releases do not count). (R-INFMAP) every rational-to-double / rational-to-mpf conversion in the reduced-precision copy routines "
                           "(array macros included) is dominated by the tests of the value against both rational infinity sentinels, unless the value "
                           "was fetched for a parameter whose source is a double."},
    "C17": {"technique": "; capacity-governed allocation agreement (governed arrays discovered from their allocation sites); read-but-never-written "
                         "field census; printf-format census; floating-point-derived subscript taint; four-array norm typestate at a basis load; "
                         "index-space typing of subscripts in the raw-to-LP conversion (R-RAWIDX); subscript-space requirement of parameters "
                         "against the reaching allocation classes of local vectors (R-ARGCAP); staleness typestate of local copies of "
                         "re-allocatable pointer fields (R-STALEPTR); inferred mode-dependent allocation: accesses dominated by the "
                         "selector test (R-CONDALLOC); computed simplex-state fields + unguarded-read summaries: API hand-overs of p->lp "
                         "dominated by the factorok test (R-LPSTATE) (R-FINITE) a double reaches a GMP set_d routine only behind an upper-bound / finiteness test. (R-NULLRET) the result of a routine that can "
                           "return NULL for another reason than exhausted memory is tested before the caller looks into it."},
    "C18": {"technique": "; append-slot typestate with error-code / flag correlation; deep-release check of owning records; allocating-out-parameter "
                         "summaries + holds/empty typestate of the receiving local with remembered count conditions",
            "explanation": " (R-OUTLEAK) a local that holds a block received through an allocating out-parameter (directly, through a record field the "
                           "routine parks the parameter in, or through a callee) is released or handed on before its address is passed to such a "
                           "parameter again (the singular-column lists across refactorisation rounds). (R-FIELDLEAK) a fresh block is not stored into an "
                           "owning field on a path on which the function has used the block the field holds without releasing it (grow / compact "
                           "routines written by hand)."},
    "C19": {"technique": "; status-value enumeration through switch / if / conditional-expression forms; printf-format census; resource typestate on "
                         "esolver's main; exit-condition analysis of the print loops",
            "explanation": " (R-FMT) no row / column name is used as a format string; (R-PAIR on esolver) the solution file is closed on every path; "
                           "(R-FULLSCAN) the print loops of QSexact_print_sol are exhaustive; R-NZFILTER follows the arrays into print helpers. (R-SIGNEDIDX) no declared table is subscripted with a plain char (a byte >= 0x80 of a path or an input line would be a negative "
                           "index): the value is converted to an unsigned type or tested against a lower bound first. (R-NULTERM) the line buffer that the bzip2 branch of EGioGets fills by raw reads is terminated on every path that returns it. (R-BGATE) the basis file of -b is written only behind a test of the solve status against OPTIMAL (or of the problem's basis). (R-FTYPE) the tokeniser call that splits the file name for the extension test has an empty comment set."},
    "_TRUNC": {},
    "C20": {"explanation": " The handler variables tested by QSlogv must have process-wide storage duration: a thread-local handler would leave every "
                           "other thread of the host on the stderr branch. (R-REPRESTORE) a temporary redirection of the problem's string reporter by a "
                           "writer is undone on every path to a return, failing ones included."},
}
_ADD.pop("_TRUNC", None)
for _pid in ("C08", "C09", "C14", "C19"):
    _ADD.setdefault(_pid, {})
    _ADD[_pid]["explanation"] = _ADD[_pid].get("explanation", "") + (" (R-TRUNC) a snprintf / vsnprintf whose buffer the same function hands to an "
                                                                      "output stream has its returned length examined: output lines are never silently cut.")
    _ADD[_pid]["technique"] = _ADD[_pid].get("technique", "") + "; formatted-write census of the output layer (buffer-to-stream flow, return value use)"
for _pid in ("C07", "C08"):
    _ADD.setdefault(_pid, {})
    _ADD[_pid]["explanation"] = _ADD[_pid].get("explanation", "") + (
        " (R-HASHOF) a new name is chained into the bucket of its own hash: on every path to a head insertion through the scratch field "
        "ILLsymboltab::the_hash, the last definition of that field (a stringhash assignment, or a callee that computes it from its string "
        "parameter) names the string handed to add_string, and no call that may resize the table lies in between - otherwise a renamed "
        "entry cannot be found and its name is accepted a second time (the LP writer's repaired names).")
_ADD.setdefault("C16", {})
_ADD["C16"]["explanation"] = _ADD["C16"].get("explanation", "") + (
    " (R-SENTKEPT) in the expansions of the array conversion macros, a store of an infinity sentinel into an element is not followed within the "
    "same iteration by another store into that element: the special case for infinite values is not undone by the general conversion.")
for _pid in ("C10", "C11"):
    _ADD.setdefault(_pid, {})
    _ADD[_pid]["explanation"] = _ADD[_pid].get("explanation", "") + (
        " (R-EXPMARK) no return of the exact literal scanner hands back a count that includes an exponent marker after which no digit was "
        "consumed (names may begin with e: '3ex' is 3 times ex).")
for _pid in ("C08", "C09", "C10"):
    _ADD.setdefault(_pid, {})
    _ADD[_pid]["explanation"] = _ADD[_pid].get("explanation", "") + (
        " (R-MSGMEANS) no caller makes a store depend on the NULL-ness of the message returned by a bound setter whose messages accompany both "
        "applied and refused requests (the integer mark of an MPS 'UI' record).")
for _pid in ("C13", "C17"):
    _ADD.setdefault(_pid, {})
    _ADD[_pid]["explanation"] = _ADD[_pid].get("explanation", "") + (
        " (R-TWOPASS) in a two-pass construction of packed segments (count, lay out, fill) a counter field that the counting loop increments "
        "for every entry is not incremented only conditionally by the filling loop: every slot that is laid out is written (the U segments of "
        "the LU factorization).")
for _pid in ("C11", "C17"):
    _ADD.setdefault(_pid, {})
    _ADD[_pid]["explanation"] = _ADD[_pid].get("explanation", "") + (
        " (R-GROWGUARD) a re-allocation of a record's array field with a capacity field of that record as its length, when it sits in the branch of "
        "a test of another capacity field, is also controlled by a test of its own capacity: arrays with different growth sequences are not grown "
        "under the test of only one of them.")
for _pid in ("C08", "C09", "C10"):
    _ADD.setdefault(_pid, {})
    _ADD[_pid]["explanation"] = _ADD[_pid].get("explanation", "") + (
        " (R-DEFAULTPAIR) the writers' 'is the default' verdict compares a column's upper bound with the finite default constant only inside a "
        "branch of a test of the column's lower bound - the mirror of the reader, which supplies the finite default only when no lower bound was stated.")
for _pid in ("C08", "C09", "C14", "C19"):
    _ADD.setdefault(_pid, {})
    _ADD[_pid]["explanation"] = _ADD[_pid].get("explanation", "") + (
        " R-TRUNC also requires the 'fits' comparison to be strict: the buffer is not written on an edge where the needed length may equal the size "
        "given to the formatting call (the count excludes the NUL).")
for _pid in ("C01", "C02"):
    _ADD.setdefault(_pid, {})
    _ADD[_pid]["explanation"] = _ADD[_pid].get("explanation", "") + (
        " R-OUTCOPY also requires that nothing but the element copies writes an element of an output vector of a hand-over function (no sign "
        "change or scaling between the tested vector and the one the caller receives).")
for _pid in ("C17", "C19"):
    _ADD.setdefault(_pid, {})
    _ADD[_pid]["explanation"] = _ADD[_pid].get("explanation", "") + (
        " (R-NEGIDX) a subscript by a signed local that a statement has decremented is controlled by an ordering test of that local, not only by "
        "a truthiness test (the token count of esolver's file-type detection).")
_ADD.setdefault("C09", {})
_ADD["C09"]["explanation"] = _ADD["C09"].get("explanation", "") + (
    " (R-RANGEALLOC) the constant 'R' is stored into ILLlpdata::sense only over paths on which ILLlpdata::rangeval has been allocated or seen "
    "non-NULL: the writers emit the range of a ranged row only when the array exists.")
for _pid in ("C07", "C17"):
    _ADD.setdefault(_pid, {})
    _ADD[_pid]["explanation"] = _ADD[_pid].get("explanation", "") + (
        " (R-LPINIT) every scalar field of the simplex record (flags of the embedded status records included) that a function reachable from the "
        "public interface reads outside the simplex machinery is written by the record's initialisation: a query on a problem that was never "
        "solved does not branch on uninitialised memory.")
for _pid in ("C05", "C12"):
    _ADD.setdefault(_pid, {})
    _ADD[_pid]["explanation"] = _ADD[_pid].get("explanation", "") + (
        " (R-BASISCACHE) a public function that may replace the statuses of p->basis, or that calls a routine which exchanges basic and non-basic "
        "variables, returns successfully only after p->factorok = 0, an invalidation of the cached solution, or the storing of a new one: the "
        "'nothing has changed' shortcut of QSopt_primal / QSopt_dual never answers for a basis the cached solution does not belong to.")
for _pid in ("C10", "C11"):
    _ADD.setdefault(_pid, {})
    _ADD[_pid]["explanation"] = _ADD[_pid].get("explanation", "") + (
        " (R-STALECHAR) no scanner compares a char local with a character constant at a point where every path has already established another "
        "value for it (the local still holds the character before the cursor moved: '=<' read as '=>').")
for _pid in ("C08", "C09", "C10", "C17"):
    _ADD.setdefault(_pid, {})
    _ADD[_pid]["explanation"] = _ADD[_pid].get("explanation", "") + (
        " (R-APPENDPOS) in functions that use the free tail of the column matrix or enlarge its arrays, every computed column start stored into "
        "matbeg derives from matsize - matfree (the number of non-zeros is not a position: columns without entries own reserved slots).")
for _pid in ("C10", "C11"):
    _ADD.setdefault(_pid, {})
    _ADD[_pid]["explanation"] = _ADD[_pid].get("explanation", "") + (
        " (R-PARTDIGIT) no return of the fraction scanner hands back a non-zero count on a path on which the '/' case was entered before any digit "
        "('/5' is no number).")
_ADD.setdefault("C16", {})
_ADD["C16"]["explanation"] = _ADD["C16"].get("explanation", "") + (
    " (R-IDXCLASS, lib / qsopt units) a copy has another internal column layout than its original (QScopy_prob builds rows first): every "
    "subscript of a problem array in the query and edit functions uses an index of the array's own index space, so original and copy answer alike.")
for _pid in ("C10", "C11"):
    _ADD.setdefault(_pid, {})
    _ADD[_pid]["explanation"] = _ADD[_pid].get("explanation", "") + (
        " (R-CURSORBACK) a reader that moves the cursor back by a length when it finds nothing also gives back what a discarded consumer call "
        "before that part has taken (a saved cursor is stored back): ' - x <= 5' is not read as 'x <= 5'.")
for _pid in ("C12", "C17"):
    _ADD.setdefault(_pid, {})
    _ADD[_pid]["explanation"] = _ADD[_pid].get("explanation", "") + (
        " (R-LOOPZERO) a down-counting loop that starts at <count> - 1 and subscripts with its counter runs while the counter is >= 0: element 0 "
        "is part of the scan.")
_ADD.setdefault("C17", {})
_ADD["C17"]["explanation"] = _ADD["C17"].get("explanation", "") + (
    " (R-QUOTDIV) an integer division or remainder by a record field that is computed as an integer quotient (zero when the dividend is the smaller "
    "number) is dominated by a comparison of that field.")
_ADD.setdefault("C17", {})
_ADD["C17"]["explanation"] = _ADD["C17"].get("explanation", "") + (
    " (R-CAPSYNC) a pointer field that is paired with a capacity field (some function allocates it with a computed length and stores that very "
    "length into the capacity field) gets a new block only with that capacity as length, or with a length the function also stores into it.")
_ADD.setdefault("C17", {})
_ADD["C17"]["explanation"] = _ADD["C17"].get("explanation", "") + (
    " (R-PUBSTRUCT) a caller-supplied array of a public function is not subscripted inside a loop whose bound is a dimension of the internal "
    "column space (the caller's vectors have one entry per row or per structural column), and no caller-supplied index is compared with "
    "such a dimension. (R-OPTPTR) a pointer parameter that a function compares with NULL, and for which NULL can arrive, is dereferenced "
    "only where a non-NULL fact for it holds on the path. (R-COLEN) pointer fields of one record that loops walk with a counter bounded by the same "
    "field of that record are allocated with the same length expression wherever a function allocates two or more of them (parallel arrays). "
    "(R-PASTCOL) a subscript of the matrix arrays by matbeg[c] + matcnt[c], the slot behind column c, is dominated by a condition on the array's "
    "capacity or free count (or sits in the branch of an empty column). R-IDXCLASS also types the positions among the non-basic columns "
    "(bounded by lpinfo::nnbasic) as a space of their own: such a counter does not subscript an array indexed by internal column numbers.")
for _pid, _d in _ADD.items():
    for _k, _v in _d.items():
        PROPS[_pid][_k] = PROPS[_pid].get(_k, "") + _v
