"""Property -> rules table, explanations, fixtures."""
import os

from . import core
from .rules import stdio

FIX = os.path.join(os.path.dirname(os.path.abspath(__file__)), "fixtures")


# ------------------------------------------------------------------ fixtures

def fx_stdio():
    prog = core.build_fixture([os.path.join(FIX, "stdio.c")])
    roots = [f.key for f in prog.funcs.values() if f.name.startswith("api_") or f.name.startswith("set_")]
    allowed = [{"func": "mylog", "guard": ("var", "handler", "null"), "reason": "fixture default handler"}]
    r = stdio.run(prog, lib_units=prog.loaded_units, roots=roots, allowed=allowed, handler=("mylog", "set_handler"))
    fired = sorted(v.func for v in r.violations)
    want = ["api_live", "api_macro", "api_reset", "helper"]
    ok = fired == want
    return [("R-STDIO fires on {api_live, helper via api_chain, api_macro, api_reset (drops the handler)} and on nothing else", ok,
             "fired on %s" % fired)]


FIXTURES = {
    "C20": [fx_stdio],
}


def run_fixtures(pid):
    out = []
    for fn in FIXTURES.get(pid, []):
        try:
            out.extend(fn())
        except core.AnalysisBroken as ex:
            out.append((fn.__name__, False, str(ex)))
    return out


# ------------------------------------------------------------------ properties

PROPS = {
    "C20": {
        "rules": [lambda prog, tier: stdio.run(prog)],
        "technique": "call-graph effect analysis over the type-resolved AST/CFG export (clang 14 libTooling): "
                     "stdio-sink census + liveness pruning + returning-path reachability from installed-header functions",
        "explanation": "Decides the whole effect clause of C20 statically: every reference to stdout/stderr and every call of an "
                       "implicit-stream stdio function in the library units is classified as dead (behind a compile-time-constant "
                       "condition), non-returning (every path from it ends in exit/abort), unreachable from any function declared "
                       "in an installed header (indirect calls resolved field-sensitively), allowed (default branch of QSlogv; "
                       "QSwrite_prob with NULL file name; interactive editor) or a violation reported with its call chain.",
        "level_text": "Static effect analysis: sound over-approximation of 'which code can write to the process's standard streams and "
                      "return' for every library function reachable from an installed header, on all paths and call chains "
                      "(not just the executed ones); plus host ownership of the handler variable. This is the whole effect clause "
                      "of C20; completeness of messages is not decided.",
        "level_note": "trusted: clang 14 front end, the export (sa/qsa.cc), the indirect-call resolution (field-sensitive, fallback "
                      "all address-taken functions), the liveness model (only compile-time-constant conditions prune), the four "
                      "reasoned exceptions in sa/rules/stdio.py",
        "not_decided": "that each message delivered to the handler is 'complete'; writes performed by host callbacks; "
                       "writes through FILE* objects the host itself passed in",
        "assumptions": ["indirect calls reach only functions stored into the same struct field / passed as the same argument "
                        "(fallback: every address-taken function)"],
    },
}
