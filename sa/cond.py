"""Decomposition of branch conditions into atomic comparison facts."""
from .core import strip, const_of

NEG = {"==": "!=", "!=": "==", "<": ">=", ">=": "<", ">": "<=", "<=": ">"}
SWAP = {"==": "==", "!=": "!=", "<": ">", ">": "<", "<=": ">=", ">=": "<="}


def atoms(cond, truth):
    """facts known on the edge where `cond` evaluated to `truth`:
    list of (lhs_tree, op, rhs_tree).  `x` alone is (x, '!=', 0)."""
    c = strip(cond)
    if not isinstance(c, list) or not c:
        return []
    if c[0] == "u" and c[1] == "!":
        return atoms(c[2], not truth)
    if c[0] == "b":
        op = c[1]
        if op in NEG:
            if not truth:
                op = NEG[op]
            return [(strip(c[2]), op, strip(c[3]))]
        if op == "&&":
            if truth:
                return atoms(c[2], True) + atoms(c[3], True)
            return []
        if op == "||":
            if not truth:
                return atoms(c[2], False) + atoms(c[3], False)
            return []
        return [(c, "!=" if truth else "==", ["n", 0, ""])]
    if c[0] == "a":
        # (x = e) used as a condition: fact about x, and (for plain assignment) about e itself
        out = [(strip(c[2]), "!=" if truth else "==", ["n", 0, ""])]
        if c[1] == "=":
            out += atoms(c[3], truth)
        return out
    if c[0] == "n":
        return []
    return [(c, "!=" if truth else "==", ["n", 0, ""])]


def null_fact(cond, truth, pred):
    """if the edge establishes (pred(tree) == 0) return 'null'; != 0 -> 'nonnull'; else None"""
    for l, op, r in atoms(cond, truth):
        for a, b, o in ((l, r, op), (r, l, SWAP[op])):
            if pred(a) and const_of(b) == 0:
                if o == "==":
                    return "null"
                if o == "!=":
                    return "nonnull"
    return None
