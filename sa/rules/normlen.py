"""R-NORMLEN (C05, C17): the norm arrays of a basis record keep pace with its counts.

ILLlp_basis::rownorms has one entry per row of the basis, colnorms one per structural column; they are loaded by the *count* of the
problem (ILLprice_load_rownorms copies nrows entries).  Every relative change of ILLlp_basis::nrows (++, --, +=, -=) must therefore be
accompanied, in the same function, by code that deals with rownorms - releases, re-allocates, compacts it, or tests it (its size /
its presence) - on a position that the change cannot bypass: a block mentioning rownorms dominates the change or lies on every path
from the change to the return.  Likewise nstruct and colnorms.  (ILLlib_addrow on the pinned tree grew the basis of a problem by one
row without touching the norms: QSnew_row after a solve, then a dual re-solve, read past the array.)"""
import collections

from ..core import walk, strip, is_var, callee, const_of, show, short_loc, dominators
from ..result import RuleResult, Violation

PAIRS = {"ILLlp_basis::nrows": "ILLlp_basis::rownorms", "ILLlp_basis::nstruct": "ILLlp_basis::colnorms",
         # the symbol table's entry count and the validity flag of its cached name -> index map
         "ILLsymboltab::tablesize": "ILLsymboltab::index_ok"}


DECREMENT_ONLY = {"ILLsymboltab::tablesize"}
EXCEPT = {"ILLlib_delcols": "when a basic column is deleted (bok == 0) neither the statuses nor the norms are compacted: the function reports "
                            "*basis_ok = 0 and its caller QSdelete_cols releases the whole basis record"}


def _mentions(t, fld):
    return t is not None and any(isinstance(nd, list) and nd and nd[0] == "m" and nd[2].endswith(fld) for nd in walk(t))


def run(prog, rule="R-NORMLEN", floor=3):
    res = RuleResult(rule, "every relative change of a basis record's row / structural count is accompanied, unavoidably, by code that deals with the "
                           "corresponding norm array")
    n = 0
    for f in sorted(prog.funcs.values(), key=lambda x: x.key):
        if f.live is None or "_dbl." in f.unit or "_mpf." in f.unit or not f.unit.startswith("qsopt_ex/"):
            continue
        changes = []
        for b, i, e in f.elements():
            tgt = None
            decr = False
            if e[0] == "U" and e[1][1][:2] in ("++", "--"):
                tgt = strip(e[1][2])
                decr = e[1][1][:2] == "--"
            elif e[0] == "A" and e[1][1] in ("+=", "-="):
                tgt = strip(e[1][2])
                decr = e[1][1] == "-="
            if isinstance(tgt, list) and tgt and tgt[0] == "m":
                for cnt, norms in PAIRS.items():
                    if cnt in DECREMENT_ONLY and not decr:
                        continue            # an appended entry carries its own index: only removals renumber
                    if tgt[2].endswith(cnt) or tgt[2] == cnt:
                        changes.append((b["id"], i, e, cnt, norms))
        if not changes:
            continue
        from ..core import Flow
        from ..cond import atoms, SWAP
        chg = {(bid, i): (e, cnt, norms) for (bid, i, e, cnt, norms) in changes}
        bases = {show(strip(e[1][2])[1]) for (_, _, e, _, _) in changes}          # the basis pointer expression(s): B
        for norms in sorted({x[4] for x in changes}):
            bad = {}

            def xfer(b, i, e, st, norms=norms):
                known, dealt, pending = st
                trees = [x[1] for x in e[1] if x[1] is not None] if e[0] == "D" else ([e[1]] if e[1] is not None else [])
                if any(_mentions(t, norms) for t in trees):
                    dealt, pending = True, ""
                key = (b["id"], i)
                if key in chg and chg[key][2] == norms and not dealt:
                    pending = e[2]
                if e[0] == "R" and pending:
                    bad.setdefault(pending, (b["id"], st))
                new = (known, dealt, pending)
                return [new] if new != st else None

            def refine(cond, truth, st, norms=norms):
                known, dealt, pending = st
                if _mentions(cond, norms):
                    dealt, pending = True, ""
                for l, op, r in atoms(cond, truth):
                    for a, b_, o in ((l, r, op), (r, l, SWAP[op])):
                        if show(a) in bases and const_of(b_) == 0 and o in ("==", "!="):
                            val = "null" if o == "==" else "nonnull"
                            if known and known != val:
                                return []
                            known = val
                return [(known, dealt, pending)]
            flw = Flow(prog, f, [("", False, "")], xfer, refine, max_visits=300000).run()
            for (bid, i, e, cnt, nm) in changes:
                if nm != norms:
                    continue
                n += 1
                res.obligations += 1
                res.nontrivial += 1
                if e[2] in bad and f.name.replace("mpq_", "") in EXCEPT:
                    res.excepted.append((f.name, EXCEPT[f.name.replace("mpq_", "")]))
                elif e[2] in bad:
                    b0, st0 = bad[e[2]]
                    res.violations.append(Violation(rule, "%s|%s changed without %s" % (f.name.replace("mpq_", ""), cnt.split("::")[1], norms.split("::")[1]), f.name, short_loc(e[2]),
                                                    "%s changes the count, and a return is reachable on a path that neither before nor after releases, "
                                                    "re-allocates, compacts or tests %s: the array no longer has one entry per %s and is loaded by the count" % (
                                                        show(e[1])[:50], norms.split("::")[1], "row" if "rows" in cnt else "column"), path=flw.witness(b0, st0)))
                else:
                    res.sample({"site": "%s %s: %s" % (short_loc(e[2]), f.name, show(e[1])[:50]), "verdict": "%s dealt with on every path" % norms.split("::")[1]}, limit=8)
    res.counts["relative_count_changes"] = n
    res.floor("relative changes of a basis record's counts", n, floor)
    return res
