"""R-PROBSTAT (C02): the simplex reports INFEASIBLE / UNBOUNDED from flags that say so about the problem, not about a basis.

lpinfo carries two status records of the same type: `basisstat` describes the current basis, `probstat` the problem (a basis can be
primal infeasible without the LP being infeasible: dual phase I stopped "dual infeasible" on such a basis).  In ILLsimplex, every
store of QS_LP_INFEASIBLE (QS_LP_UNBOUNDED) into the status parameter is governed by conditions over flags of these records; each flag
that the governing condition requires to be set must imply the problem-level fact: every site in the program that stores 1 into it
does so in a block that also stores 1 into probstat.primal_infeasible (probstat.primal_unbounded) - a co-store implication, computed
from the program.  The problem-level flag itself qualifies trivially."""
import collections

from ..core import walk, strip, is_var, callee, const_of, show, short_loc, dominators
from ..cond import atoms
from ..result import RuleResult, Violation

VERDICTS = {"QS_LP_INFEASIBLE": "primal_infeasible", "QS_LP_UNBOUNDED": "primal_unbounded"}


def _flag(t):
    """(record field, flag) for lp->basisstat.X / lp->probstat.X"""
    t = strip(t)
    if isinstance(t, list) and t and t[0] == "m" and t[2].split("::")[0].endswith("lp_status_info"):
        inner = strip(t[1])
        if isinstance(inner, list) and inner and inner[0] == "m" and inner[2].split("::")[1] in ("basisstat", "probstat"):
            return inner[2].split("::")[1], t[2].split("::")[1]
    return None


def run(prog, prefix="mpq_", rule="R-PROBSTAT", floor=2):
    res = RuleResult(rule, "every flag that governs a store of INFEASIBLE / UNBOUNDED in ILLsimplex is stored as 1 only together with the problem-level "
                           "flag of that verdict")
    f = prog.require_fn(prefix + "ILLsimplex")
    # all sites storing 1 into a status flag, per block: {(rec, flag)}
    stores = collections.defaultdict(list)       # (rec, flag) -> [(function, block id, set of (rec, flag) stored as 1 in that block, loc)]
    for g in prog.funcs.values():
        if g.live is None or "_dbl." in g.unit or "_mpf." in g.unit or not g.unit.startswith("qsopt_ex/"):
            continue
        per_block = collections.defaultdict(set)
        locs = {}
        for b, i, e in g.elements():
            if e[0] == "A" and e[1][1] == "=" and const_of(e[1][3]) == 1:
                fl = _flag(e[1][2])
                if fl:
                    per_block[b["id"]].add(fl)
                    locs[(b["id"], fl)] = e[2]
        for bid, fls in per_block.items():
            for fl in fls:
                stores[fl].append((g.name, bid, fls, locs[(bid, fl)]))
    dom, succ = dominators(prog, f)
    preds = collections.defaultdict(set)
    for a_, ss in succ.items():
        for s_ in ss:
            preds[s_].add(a_)
    n = 0
    for b, i, e in f.elements():
        if e[0] != "A" or e[1][1] != "=":
            continue
        r = strip(e[1][3])
        if not (isinstance(r, list) and r and r[0] == "n" and len(r) > 2 and r[2] in VERDICTS):
            continue
        l = strip(e[1][2])
        if not (isinstance(l, list) and l and l[0] == "u" and l[1] == "*"):
            continue
        need = VERDICTS[r[2]]
        # governing flags: conditions over status flags on whose taken edge the store block depends; an `A || B` chain reaches the block by
        # either flag alone, so every flag that can lead into the block by its true edge counts
        govern = set()
        bid = b["id"]
        for d in f.live:
            c = f.blocks[d].get("c")
            if c is None:
                continue
            fl = _flag(c)
            if fl is None:
                continue
            ss = prog.live_succs(f, f.blocks[d])
            if len(ss) == 2 and ss[0] is not None and (ss[0] == bid or (ss[0] in dom.get(bid, ()) and preds[ss[0]] <= {d} | {x for x in f.live if _flag(f.blocks[x].get("c")) is not None})):
                # the true edge of the flag test leads into the store's region
                if ss[0] == bid or ss[0] in dom.get(bid, ()):
                    govern.add(fl)
        if not govern:
            continue
        n += 1
        res.obligations += 1
        res.nontrivial += 1
        bad = []
        for fl in sorted(govern):
            if fl == ("probstat", need):
                continue
            sites = stores.get(fl, [])
            for (gname, sb, fls, loc) in sites:
                if ("probstat", need) not in fls:
                    bad.append((fl, gname, loc))
        if bad:
            fl, gname, loc = bad[0]
            res.violations.append(Violation(rule, "ILLsimplex|%s stored under %s.%s" % (r[2], fl[0], fl[1]), f.name, short_loc(e[2]),
                                            "%s is stored on the true edge of lp->%s.%s, but %s sets that flag at %s without setting lp->probstat.%s: the flag "
                                            "describes the basis (dual phase I stopped on a primal infeasible basis), not the problem - a feasible LP can be reported %s" % (
                                                show(e[1])[:50], fl[0], fl[1], gname, short_loc(loc), need, r[2].replace("QS_LP_", ""))))
        else:
            res.sample({"site": "%s: %s" % (short_loc(e[2]), show(e[1])[:50]), "governing_flags": sorted("%s.%s" % x for x in govern),
                        "verdict": "every store of 1 into these flags is paired with probstat.%s = 1" % need})
    res.counts["verdict_stores_governed_by_status_flags"] = n
    res.floor("INFEASIBLE / UNBOUNDED stores governed by status flags in ILLsimplex", n, floor)
    return res
