"""R-STALECHAR (C10, C02): a character that is known is not asked again for another value.

The hand-written scanners of the LP / MPS readers keep the current character in a local (`c = *state->p`) and advance the cursor.  After
the cursor has moved, a test of the *old* local is a test of the previous character: inside the branch where `c == '='` is known (and c
has not been assigned since), a comparison `c == '<'` can only be false - the code meant the character under the cursor
(`=<` was read as `=>`: a feasible problem became infeasible).  Path-sensitive constant facts for char-typed locals (from the equality
edges of conditions and from constant assignments); reported: an equality test of such a local with a different character constant
at a point where every state that reaches it knows the local's value."""
import collections

from ..core import walk, strip, is_var, const_of, show, short_loc, Flow
from ..cond import atoms, SWAP
from ..result import RuleResult, Violation


def run(prog, rule="R-STALECHAR", floor=20, units=("read_lp_mpq.c", "read_mps_mpq.c", "lp_mpq.c", "mps_mpq.c", "eg_io.c", "eg_lpnum.c")):
    res = RuleResult(rule, "no scanner compares a char local with a character constant at a point where every path has already established another value for it")
    n = 0
    for f in sorted(prog.funcs.values(), key=lambda x: x.key):
        if f.live is None or not any(f.unit.endswith(u) for u in units):
            continue
        chars = sorted(v for v, t in f.ltypes.items() if (t or "").replace("const ", "").strip() in ("char", "unsigned char", "int") and "@" not in v)
        cand = set()
        for bid in f.live:
            c = f.blocks[bid].get("c")
            if c is None:
                continue
            for l, op, r in atoms(c, True) + atoms(c, False):
                for a, b_, o in ((l, r, op), (r, l, SWAP[op])):
                    if is_var(a, kind="l") and a[2] in chars and const_of(b_) is not None and 32 <= const_of(b_) < 127 and o in ("==", "!="):
                        cand.add(a[2])
        names = sorted(cand)[:6]
        if not names:
            continue
        pos = {v: k for k, v in enumerate(names)}
        seen = collections.defaultdict(set)      # (loc, var, K2) -> set of known values (None = unknown) over the states that reach it

        def note(cond, st, loc):
            for nd in walk(cond):
                if isinstance(nd, list) and nd and nd[0] == "b" and nd[1] in ("==", "!="):
                    for a, b_ in ((nd[2], nd[3]), (nd[3], nd[2])):
                        a0 = strip(a)
                        k2 = const_of(b_)
                        if is_var(a0, kind="l") and a0[2] in pos and k2 is not None and 32 <= k2 < 127:
                            seen[(loc, a0[2], k2, show(nd)[:40])].add(st[pos[a0[2]]])

        def xfer(b, i, e, st):
            out = list(st)
            if e[0] == "X":
                note(e[1], st, e[2])
                return [st]
            trees = [x[1] for x in e[1] if x[1] is not None] if e[0] == "D" else ([e[1]] if len(e) > 1 and isinstance(e[1], list) else [])
            for t in trees:
                if e[0] in ("A", "R", "C"):
                    for nd in walk(t):
                        if isinstance(nd, list) and nd and nd[0] == "q":
                            note(nd[1], st, e[2])
                for nd in walk(t):
                    if isinstance(nd, list) and nd and nd[0] in ("a", "u") and len(nd) > 2 and is_var(strip(nd[2]), kind="l") and strip(nd[2])[2] in pos \
                            and str(nd[1]) in ("=", "+=", "-=", "++", "--", "++post", "--post"):
                        v = strip(nd[2])[2]
                        out[pos[v]] = const_of(nd[3]) if (nd[0] == "a" and nd[1] == "=" and len(nd) > 3) else None
                    if isinstance(nd, list) and nd and nd[0] == "u" and nd[1] == "&" and is_var(strip(nd[2]), kind="l") and strip(nd[2])[2] in pos:
                        out[pos[strip(nd[2])[2]]] = None
            if e[0] == "D":
                for nme, init in e[1]:
                    if nme in pos:
                        out[pos[nme]] = const_of(init) if init is not None else None
            return [tuple(out)]

        def refine(cond, truth, st):
            out = list(st)
            for l, op, r in atoms(cond, truth):
                for a, b_, o in ((l, r, op), (r, l, SWAP[op])):
                    if is_var(a, kind="l") and a[2] in pos and const_of(b_) is not None:
                        k = const_of(b_)
                        if o == "==":
                            if out[pos[a[2]]] is not None and out[pos[a[2]]] != k:
                                return []
                            out[pos[a[2]]] = k
                        elif o == "!=" and out[pos[a[2]]] == k:
                            return []
            return [tuple(out)]

        saved = {}
        for bid in f.live:
            c = f.blocks[bid].get("c")
            if c is not None:
                saved[bid] = f.blocks[bid]["e"]
                f.blocks[bid]["e"] = list(f.blocks[bid]["e"]) + [["X", c, f.blocks[bid].get("tloc", f.loc)]]
        try:
            Flow(prog, f, [tuple(None for _ in names)], xfer, refine, max_visits=600000).run()
        finally:
            for bid, es in saved.items():
                f.blocks[bid]["e"] = es
        for (loc, v, k2, txt), vals in sorted(seen.items(), key=lambda x: str(x[0])):
            n += 1
            res.obligations += 1
            res.nontrivial += 1
            if None not in vals and vals and all(x != k2 for x in vals):
                res.violations.append(Violation(rule, "%s|%s compared with '%s' where it is known to be another character" % (f.name.replace("mpq_", ""), v, chr(k2)), f.name,
                                                short_loc(loc), "%s: on every path that reaches this test %s already has a known value (%s) - the character under the cursor "
                                                "was meant, the local still holds the previous one" % (txt, v, ", ".join("'%s'" % chr(x) for x in sorted(vals)))))
    res.counts["character_tests"] = n
    res.floor("equality tests of char locals with character constants in the scanners", n, floor)
    return res
