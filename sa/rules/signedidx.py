"""R-SIGNEDIDX (C17, C19): no table is subscripted with a plain char.

`char` is signed on the platforms the library is built for: a byte >= 0x80 of a file name, a name or an input line is a negative
subscript.  Every subscript of a declared array (a local / parameter / field of array type - the C library's own <ctype.h> tables,
which are built for negative indices, are not in scope) whose index expression has plain char type - a char variable, *p or p[i] of
a char pointer / array, with or without a cast to int - must be dominated by a test of that value against a lower bound (>= / > a
constant) or go through a cast to unsigned char."""
import collections

from ..core import walk, strip, is_var, const_of, show, short_loc, dominators
from ..result import RuleResult, Violation


def _is_char(t):
    t = (t or "").replace("const ", "").strip()
    return t == "char"


def _is_char_seq(t):
    t = (t or "").replace("const ", "").strip()
    return t in ("char *", "char *const") or (t.startswith("char[") or t.startswith("char ["))


def _field_type(prog, m):
    rec, fld = m[2].split("::")
    r = prog.records.get(rec)
    for x in (r or {}).get("fields", ()):
        if x[0] == fld:
            return x[1]
    return None


def _type_of(prog, f, t):
    if not isinstance(t, list) or not t:
        return None
    if t[0] == "v":
        return f.var_type(t)
    if t[0] == "m":
        return _field_type(prog, t)
    return None


def _plain_char(prog, f, t, depth=0):
    """the expression has plain (signed) char type, looking through casts to int"""
    if not isinstance(t, list) or not t or depth > 4:
        return False
    if t[0] == "k":
        ty = t[1].replace("const ", "").strip()
        if ty in ("int", "long", "char", "signed char", "short"):
            return _plain_char(prog, f, t[2], depth + 1)
        if ty in ("unsigned char", "unsigned int", "unsigned", "size_t", "unsigned long") and _plain_char(prog, f, t[2], depth + 1):
            return "unsigned"
        return False
    if t[0] in ("v", "m"):
        return _is_char(_type_of(prog, f, t))
    if t[0] == "u" and t[1] == "*":
        return _is_char_seq(_type_of(prog, f, t[2] if not (isinstance(t[2], list) and t[2] and t[2][0] == "k") else t[2][2]))
    if t[0] == "i":
        return _is_char_seq(_type_of(prog, f, t[1]))
    return False


def run(prog, rule="R-SIGNEDIDX", floor=1):
    res = RuleResult(rule, "every subscript of a declared array by a plain-char value is dominated by a lower-bound test of that value or converts it "
                           "to unsigned char")
    n = 0
    for f in sorted(prog.funcs.values(), key=lambda x: x.key):
        if f.live is None or "_dbl." in f.unit or "_mpf." in f.unit or not (f.unit.startswith("qsopt_ex/") or f.unit.startswith("esolver/")):
            continue
        sites = []
        for b, i, e in f.elements():
            trees = [x[1] for x in e[1] if x[1] is not None] if e[0] == "D" else ([e[1]] if e[1] is not None else [])
            for t in trees:
                for nd in walk(t):
                    if isinstance(nd, list) and nd and nd[0] == "i" and len(nd) > 2:
                        base = nd[1]
                        bt = _type_of(prog, f, base) if isinstance(base, list) and base and base[0] in ("v", "m") else None
                        if bt is None or "[" not in bt:
                            continue
                        if _plain_char(prog, f, nd[2]):
                            sites.append((b["id"], i, nd, e[2] if len(e) > 2 else f.loc))
        for bid in f.live:
            c = f.blocks[bid].get("c")
            if c is None:
                continue
            for nd in walk(c):
                if isinstance(nd, list) and nd and nd[0] == "i" and len(nd) > 2:
                    base = nd[1]
                    bt = _type_of(prog, f, base) if isinstance(base, list) and base and base[0] in ("v", "m") else None
                    if bt is not None and "[" in bt and _plain_char(prog, f, nd[2]):
                        sites.append((bid, 1 << 20, nd, f.blocks[bid].get("tloc", f.loc)))
        if not sites:
            continue
        dom, succ = dominators(prog, f)
        seen_loc = set()
        for (bid, i, nd, loc) in sites:
            if (short_loc(loc), show(nd)) in seen_loc:
                continue
            seen_loc.add((short_loc(loc), show(nd)))
            n += 1
            res.obligations += 1
            res.nontrivial += 1
            itxt = show(nd[2])
            core_txt = show(nd[2][2]) if isinstance(nd[2], list) and nd[2] and nd[2][0] == "k" else itxt
            ok = _plain_char(prog, f, nd[2]) == "unsigned"
            if ok:
                res.sample({"site": "%s %s: %s" % (short_loc(loc), f.name, show(nd)[:50]), "verdict": "converted to an unsigned type first"}, limit=6)
                continue
            for d in f.live:
                if d == bid or d not in dom.get(bid, ()):
                    continue
                c = f.blocks[d].get("c")
                if c is None:
                    continue
                for x in walk(c):
                    if isinstance(x, list) and x and x[0] == "b" and x[1] in (">=", ">", "<", "<="):
                        for a, b_ in ((x[2], x[3]), (x[3], x[2])):
                            if show(a) in (itxt, core_txt) and const_of(b_) is not None:
                                ok = True
            if ok:
                res.sample({"site": "%s %s: %s" % (short_loc(loc), f.name, show(nd)[:50]), "verdict": "value tested against a bound first"}, limit=6)
            else:
                res.violations.append(Violation(rule, "%s|%s subscripted by plain char %s" % (f.name, show(nd[1])[:30], core_txt[:30]), f.name, short_loc(loc),
                                                "%s: the subscript has plain char type and no lower-bound test of it dominates the access: a byte >= 0x80 is a negative "
                                                "index, an out-of-bounds read below the table" % show(nd)[:70]))
    res.counts["char_subscripts_of_declared_arrays"] = n
    res.floor("subscripts of declared arrays by plain-char values", n, floor)
    return res
