"""R-IDXCLASS (C01, C08, C12, C13, C14, C17): index spaces are not mixed.  The library has three index spaces -
rows, structural columns (what the API speaks) and internal columns (structurals + one logical per row; what the
solver speaks).  A structural index reaches an internal-column array only through structmap[], a row reaches its
logical only through rowmap[].  The rule types every int variable by the dimension that bounds it (loop bound /
range guard) or by the map it was loaded from, and requires every subscript of a problem array to use an index of the
array's own space."""
import collections

from ..core import (strip, is_var, callee, const_of, apath, fields_of, show, short_loc, walk)
from ..cond import atoms, SWAP
from ..result import RuleResult, Violation
from .idx import ARRAYS, DIMS, ROW, STRUCT, COL, NNB, NNB_DIMS, _suffix_lookup
from .idx import dim_class as _dim_class_idx


def dim_class(t):
    """the dimension classes of R-IDX, and the count of non-basic columns as a space of its own (positions in lpinfo::nbaz)"""
    c = _dim_class_idx(t)
    if c is None:
        t0 = strip(t)
        if isinstance(t0, list) and t0 and t0[0] == "m":
            return _suffix_lookup(NNB_DIMS, t0[2])
    return c


# value class of elements loaded from these arrays
VALUE_CLASS = {"ILLlpdata::structmap": COL, "ILLlpdata::rowmap": COL, "lpinfo::baz": COL, "lpinfo::nbaz": COL,
               "ILLmatrix::matind": ROW}
# arrays and their index space, beyond the external-index table of R-IDX
EXTRA_ARRAYS = {"ILLmatrix::matcnt": COL, "ILLmatrix::matbeg": COL, "lpinfo::vstat": COL, "lpinfo::vtype": COL, "lpinfo::vindex": COL,
                "lpinfo::cz": COL, "lpinfo::lz": COL, "lpinfo::uz": COL, "lpinfo::dz": NNB, "lpinfo::xbz": ROW, "lpinfo::piz": ROW,
                "lpinfo::bz": ROW, "lpinfo::baz": ROW, "lpinfo::nbaz": NNB, "lpinfo::dfeas": NNB, "lpinfo::pIdz": NNB}

EXCEPT = {}
OUT_OF_SCOPE_UNITS = {"binary_": "branch-and-bound prototype (ILLmip_bfs); integer programming is outside the LP properties C01-C20 "
                                 "(observation recorded in DESIGN.md: startup_mip copies lower[i]/upper[i] for i < nstruct without structmap)"}


def arr_info(t, alias):
    p = apath(t)
    fl = fields_of(p[2])
    if fl and p[0] == "l" and ("&rec", p[1]) in alias:
        fl = list(alias[("&rec", p[1])]) + list(fl)      # S = &qslp->sos; S->matind: the embedded record the local points to
    if fl:
        c = _suffix_lookup(ARRAYS, fl[-1])
        if c is None:
            c = _suffix_lookup(EXTRA_ARRAYS, fl[-1])
        v = _suffix_lookup(VALUE_CLASS, fl[-1])
        if any(x.endswith("ILLlpdata::sos") for x in fl[:-1]) and fl[-1].endswith("ILLmatrix::matind"):
            v = STRUCT              # the SOS sets are stored as a matrix whose "row" indices are structural column numbers
        return c, v, fl[-1].split("::")[1]
    t = strip(t)
    if is_var(t, kind="l") and t[2] in alias:
        return alias[t[2]]
    return None, None, None


def analyse(prog, f, param_classes=None, callargs=None):
    # local array aliases: p = lp->O->structmap
    cand = collections.defaultdict(set)
    for b, i, e in f.elements():
        pairs = []
        if e[0] == "A" and e[1][1] == "=" and is_var(e[1][2], kind="l"):
            pairs.append((strip(e[1][2])[2], e[1][3]))
        elif e[0] == "D":
            pairs += [(n, init) for n, init in e[1] if init is not None]
        for n, rhs in pairs:
            if "*" in (f.ltypes.get(n, "") or ""):
                cand[n].add(arr_info(rhs, {}))
    alias = {n: list(v)[0] for n, v in cand.items() if len(v) == 1 and list(v)[0][2] is not None}
    # locals that point to a record embedded in another one (A = &qslp->A, S = &qslp->sos): the field path of the embedded record
    recs = collections.defaultdict(set)
    for b, i, e in f.elements():
        pairs = []
        if e[0] == "A" and e[1][1] == "=" and is_var(e[1][2], kind="l"):
            pairs.append((strip(e[1][2])[2], e[1][3]))
        elif e[0] == "D":
            pairs += [(n, init) for n, init in e[1] if init is not None]
        for n, rhs in pairs:
            r0 = strip(rhs)
            if isinstance(r0, list) and r0 and r0[0] == "u" and r0[1] == "&":
                recs[n].add(tuple(fields_of(apath(r0[2])[2])))
            elif "*" in (f.ltypes.get(n, "") or "") and const_of(rhs) != 0:
                recs[n].add(None)
    for n, v in recs.items():
        if len(v) == 1 and list(v)[0]:
            alias[("&rec", n)] = list(v)[0]
    # local arrays allocated with a dimension as size are indexed by that dimension's space
    dimlocals = collections.defaultdict(set)
    for b, i, e in f.elements():
        ps = []
        if e[0] == "A" and e[1][1] == "=" and is_var(e[1][2]):
            ps.append((strip(e[1][2])[2], e[1][3]))
        elif e[0] == "D":
            ps += [(n, init) for n, init in e[1] if init is not None]
        for n, rhs in ps:
            dimlocals[n].add(dim_class(rhs))
    dimlocal = {n: list(v)[0] for n, v in dimlocals.items() if len(v) == 1 and list(v)[0] is not None}

    def mentioned_dims(t):
        out = set()
        for nd in walk(t):
            c = dim_class(nd)
            if c:
                out.add(c)
            elif nd[0] == "v" and nd[2] in dimlocal:
                out.add(dimlocal[nd[2]])
        return out
    sz_at = collections.defaultdict(set)   # expansion loc -> dims mentioned by the __sz temporaries declared there
    for b, i, e in f.elements():
        if e[0] == "D":
            for n, init in e[1]:
                if n.startswith("__") and init is not None and ("size_t" in (f.ltypes.get(n, "") or "") or "int" in (f.ltypes.get(n, "") or "")):
                    sz_at[e[2]] |= mentioned_dims(init)
    lalloc = collections.defaultdict(set)
    for b, i, e in f.elements():
        ps = []
        if e[0] == "A" and e[1][1] == "=" and is_var(e[1][2], kind="l"):
            ps.append((strip(e[1][2])[2], e[1][3], e[2]))
        elif e[0] == "D":
            ps += [(n, init, e[2]) for n, init in e[1] if init is not None]
        for n, rhs, loc in ps:
            if "*" not in (f.ltypes.get(n, "") or "") or n in alias:
                continue
            r = strip(rhs)
            dims = None
            for nd in walk(rhs):
                if nd[0] == "c" and callee(nd) in ("ILLutil_allocrus", "malloc", "calloc", "EGmalloc"):
                    dims = set().union(*[mentioned_dims(a) for a in nd[3]]) if nd[3] else set()
            if dims is None and isinstance(rhs, list) and rhs and rhs[0] == "se":
                # statement-expression allocator (EGlpNumAllocArray): its size temporary is declared at the same expansion
                key = loc.rsplit(":", 1)[0]
                cands = [v for k2, v in sz_at.items() if k2.rsplit(":", 1)[0] == key]
                dims = set().union(*cands) if cands else None
            if dims is None:
                if const_of(r) == 0:
                    continue
                lalloc[n].add("?")
            elif len(dims) == 1:
                lalloc[n].add(list(dims)[0])
            else:
                lalloc[n].add("?")
    for n, v in lalloc.items():
        if len(v) == 1 and list(v)[0] != "?":
            alias[n] = (list(v)[0], None, n)
    # record fields allocated in this function with a dimension as size (not in the tables): within this function they are
    # arrays of that dimension's space, so an initialisation loop over another space leaves part of them uninitialised
    falloc = collections.defaultdict(set)
    for b, i, e in f.elements():
        if e[0] != "A" or e[1][1] != "=":
            continue
        lhs = strip(e[1][2])
        if not (isinstance(lhs, list) and lhs and lhs[0] == "m"):
            continue
        if arr_info(lhs, {})[0] is not None:
            continue
        for nd in walk(e[1][3]):
            if nd[0] == "c" and callee(nd) in ("ILLutil_allocrus", "malloc", "EGmalloc"):
                dims = set().union(*[mentioned_dims(a) for a in nd[3]]) if nd[3] else set()
                falloc[lhs[2]].add(list(dims)[0] if len(dims) == 1 else "?")
    falloc = {k: list(v)[0] for k, v in falloc.items() if len(v) == 1 and list(v)[0] != "?"}
    # dimension-valued locals
    dimv = collections.defaultdict(set)
    for b, i, e in f.elements():
        pairs = []
        if e[0] == "A" and e[1][1] == "=" and is_var(e[1][2]):
            pairs.append((strip(e[1][2])[2], e[1][3]))
        elif e[0] == "D":
            pairs += [(n, init) for n, init in e[1] if init is not None]
        for n, rhs in pairs:
            c = dim_class(rhs)
            dimv[n].add(c)
    dimvar = {n: list(v)[0] for n, v in dimv.items() if len(v) == 1 and list(v)[0] is not None}

    def dimc(t):
        c = dim_class(t)
        if c:
            return c
        t = strip(t)
        if is_var(t) and t[2] in dimvar:
            return dimvar[t[2]]
        return None
    # classes of int variables
    extsrc = set()
    cls = collections.defaultdict(set)
    copies = collections.defaultdict(set)
    decremented = set()
    for b, i, e in f.elements():
        if e[0] == "U" and is_var(e[1][2]) and e[1][1].startswith("--"):
            decremented.add(strip(e[1][2])[2])
    for bid in f.live:
        bl = f.blocks[bid]
        if "c" in bl:
            for n in walk(bl["c"]):
                if n[0] == "u" and n[1].startswith("--") and is_var(n[2]):
                    decremented.add(strip(n[2])[2])
    for b, i, e in f.elements():
        pairs = []
        if e[0] == "A" and e[1][1] == "=" and is_var(e[1][2]):
            pairs.append((strip(e[1][2])[2], e[1][3]))
        elif e[0] == "D":
            pairs += [(n, init) for n, init in e[1] if init is not None]
        for n, rhs in pairs:
            ty = f.ltypes.get(n) or ""
            r = strip(rhs)
            if isinstance(r, list) and r and r[0] == "i":
                c, v, fld = arr_info(r[1], alias)
                if v:
                    cls[n].add(v)
                    continue
            dc = dimc(r)
            if dc and n in decremented:
                cls[n].add(dc)        # for (i = nrows; i--;)
                continue
            if const_of(r) is not None or dc:
                continue
            src = None
            if is_var(r):
                src = r[2]
            elif isinstance(r, list) and r and r[0] == "b" and r[1] in ("+", "-") and is_var(r[2]) and const_of(r[3]) is not None:
                src = strip(r[2])[2]         # k = ri + 1 stays in the index space of ri
            if src is not None:
                copies[n].add(src)
                continue
            if isinstance(r, list) and r and r[0] == "i" and is_var(strip(r[1])) and f.param_index(strip(r[1])[2]) is not None \
                    and "int" in (f.params[f.param_index(strip(r[1])[2])][1] or ""):
                extsrc.add(n)          # an element of a caller's index list: of unknown space until a range guard says which
                continue
            cls[n].add("?")
    for bid in f.live:
        bl = f.blocks[bid]
        if "c" not in bl:
            continue
        for truth in (True,):
            for l, op, r in atoms(bl["c"], truth):
                for a, b_, o in ((l, r, op), (r, l, SWAP[op])):
                    if is_var(a) and o in ("<", ">="):
                        dc = dimc(b_)
                        if dc:
                            cls[strip(a)[2]].add(dc)
    changed = True
    while changed:
        changed = False
        for n, srcs in copies.items():
            for sx in srcs:
                add = cls.get(sx, set()) - cls[n]
                if sx not in cls and f.param_index(sx) is not None:
                    add = {"?"} - cls[n]     # a parameter of unknown index space
                if add:
                    cls[n] |= add
                    changed = True
    # a variable whose address is handed to a callee (out-parameter) takes values the typing cannot see
    for b, i, e in f.elements():
        if e[0] == "C":
            for a in e[1][3]:
                a = strip(a)
                if isinstance(a, list) and a and a[0] == "u" and a[1] == "&" and is_var(a[2]):
                    cls[strip(a[2])[2]].add("?")
    # an int parameter that receives an index of one and the same space at every call site of the program (computed by run())
    for pn, pc in (param_classes or {}).items():
        if pn not in cls or cls[pn] == {"?"}:
            cls[pn] = {pc}
    for n in extsrc:
        if not cls.get(n):
            cls[n].add("?")            # never range-guarded in this function
    typed = {n: list(v)[0] for n, v in cls.items() if len(v) == 1 and list(v)[0] != "?"}

    # loops: header block -> (body blocks, bounded variable classes)
    succ = {bid: [x for x in prog.live_succs(f, bl) if x is not None] for bid, bl in f.blocks.items()}
    preds = collections.defaultdict(set)
    for a_, ss in succ.items():
        for x in ss:
            preds[x].add(a_)
    loops = []
    for hb, hblk in f.blocks.items():
        if hb not in f.live or hblk.get("t") not in ("ForStmt", "WhileStmt", "DoStmt") or "c" not in hblk:
            continue
        ss = prog.live_succs(f, hblk)
        if len(ss) != 2 or ss[0] is None:
            continue
        body = set()
        st = [ss[0]]
        while st:
            x = st.pop()
            if x in body or x == hb:
                continue
            body.add(x)
            st.extend(succ.get(x, ()))
        # keep only blocks from which the header is reachable again (exclude the code after the loop reached via break/goto)
        back = set()
        st = [hb]
        while st:
            x = st.pop()
            for p_ in preds[x]:
                if p_ in body and p_ not in back:
                    back.add(p_)
                    st.append(p_)
        body = back
        bound = {}
        for l, op, r in atoms(hblk["c"], True):
            for a, b_, o in ((l, r, op), (r, l, SWAP[op])):
                if is_var(a) and o == "<":
                    dc = dimc(b_)
                    if dc:
                        bound[strip(a)[2]] = dc
        # for (v = D; v--;): the bound is the value assigned just before the loop is entered
        for nd in walk(hblk["c"]):
            if nd[0] == "u" and nd[1].startswith("--") and is_var(nd[2]):
                v = strip(nd[2])[2]
                for p_ in preds[hb]:
                    if p_ in body:
                        continue
                    for e in reversed(f.blocks[p_]["e"]):
                        if e[0] == "A" and is_var(e[1][2], name=v) and e[1][1] == "=":
                            dc = dimc(e[1][3])
                            if dc:
                                bound[v] = dc
                            break
        if bound:
            loops.append((len(body), hb, body, bound))
    loops.sort()

    def loop_class(bid, v):
        for _, hb, body, bound in loops:
            if bid in body and v in bound:
                return bound[v]
        return None
    cur_block = [None]
    cur_idx = [None]

    def reaching_class(bid, name):
        """class of a variable that is re-used for several index spaces in one function: the classes of the assignments that reach
        the block (backward search; an element loaded from a map, or a copy of a typed variable)"""
        seen, wl, out = set(), [bid], set()
        first = True
        while wl:
            x = wl.pop()
            if x in seen:
                continue
            seen.add(x)
            found = None
            es = f.blocks[x]["e"]
            if first and x == bid:
                es = es[:cur_idx[0]] if cur_idx[0] is not None else []
                seen.discard(x)               # the block can be reached again over a back edge: then all of it counts
            if True:
                for e in reversed(es):
                    rhs = None
                    if e[0] == "A" and e[1][1] == "=" and is_var(e[1][2], name=name):
                        rhs = e[1][3]
                    elif e[0] == "D":
                        for n2, init in e[1]:
                            if n2 == name and init is not None:
                                rhs = init
                    if rhs is not None:
                        found = rhs
                        break
            first = False
            if found is not None:
                r = strip(found)
                if isinstance(r, list) and r and r[0] == "i":
                    out.add(arr_info(r[1], alias)[1])
                elif is_var(r):
                    out.add(typed.get(r[2]))
                else:
                    out.add(None)
                continue
            if x == f.entry:
                out.add(None)
            wl.extend(preds[x])
        return list(out)[0] if len(out) == 1 else None

    def eclass(t):
        t = strip(t)
        if is_var(t):
            lc = loop_class(cur_block[0], t[2])
            if lc:
                return lc
            if t[2] in typed:
                return typed[t[2]]
            if t[2] in cls and cur_block[0] is not None:
                return reaching_class(cur_block[0], t[2])
            return None
        if isinstance(t, list) and t and t[0] == "i":
            c, v, fld = arr_info(t[1], alias)
            return v
        return None
    if callargs is not None:
        for b, i, c in f.calls():
            g = prog.resolve(f, c[1]) if c[1] else None
            if g is None or not g.blocks:
                continue
            cur_block[0] = b["id"]
            cur_idx[0] = i
            for k, a in enumerate(c[3]):
                if k < len(g.params) and g.params[k][1].replace("const ", "").strip() == "int":
                    callargs.append((g.key, k, eclass(a) if const_of(a) is None else "const", c[4], f.name))
    uses = []
    for b, i, e in f.elements():
        if e[0] != "S":
            continue
        c, v, fld = arr_info(e[1][1], alias)
        if c is None:
            bt = strip(e[1][1])
            if isinstance(bt, list) and bt and bt[0] == "m" and bt[2] in falloc:
                c, fld = falloc[bt[2]], bt[2].split("::")[1] + " (allocated here)"
        if c is None:
            continue
        cur_block[0] = b["id"]
        cur_idx[0] = i
        ic = eclass(e[1][2])
        uses.append((e[2], fld, show(e[1][2]), c, ic))
    return uses


def _param_classes(prog):
    """fkey -> {param name: class}: an int parameter of a function that is only called directly (static, or never address-taken) and
    receives an index of one and the same space at every call site; computed over all units (cached on the program)"""
    cached = getattr(prog, "_idxclass_pcls", None)
    if cached is not None:
        return cached
    args = []
    for f in prog.funcs.values():
        if f.live is None or not f.unit.startswith("qsopt_ex/") or "_dbl." in f.unit or "_mpf." in f.unit:
            continue
        if any(u in f.unit for u in OUT_OF_SCOPE_UNITS):
            continue
        analyse(prog, f, callargs=args)
    per = collections.defaultdict(set)
    sites = collections.defaultdict(list)
    for (gk, k, c, loc, caller) in args:
        per[(gk, k)].add(c)
        sites[(gk, k)].append((c, loc, caller))
    try:
        prog._idxclass_sites = sites
    except Exception:
        pass
    out = collections.defaultdict(dict)
    taken = getattr(prog, "addr_taken", ())
    conflicts = []
    for (gk, k), cs in per.items():
        known = {c for c in cs if c in (ROW, STRUCT, COL, NNB)}
        if len(known) > 1:
            conflicts.append((gk, k, sorted(known)))
    try:
        prog._idxclass_conflicts = conflicts
    except Exception:
        pass
    for (gk, k), cs in per.items():
        g = prog.funcs.get(gk)
        if g is None or g.name in taken or not g.static:
            continue
        if len(cs) == 1 and list(cs)[0] in (ROW, STRUCT, COL, NNB):
            out[gk][g.params[k][0]] = list(cs)[0]
    try:
        prog._idxclass_pcls = out
    except Exception:
        pass
    return out


def run(prog, scope_units=None, rule="R-IDXCLASS", exceptions=EXCEPT):
    res = RuleResult(rule, "every subscript of a row / structural / internal-column array uses an index of the same index space "
                           "(structural -> internal only through structmap[], row -> logical only through rowmap[])")
    n_typed = 0
    groups = collections.OrderedDict()
    PCLS = _param_classes(prog)
    res.counts["int_parameters_typed_from_their_call_sites"] = sum(len(v) for v in PCLS.values())
    for f in sorted(prog.funcs.values(), key=lambda x: x.key):
        if not f.unit.startswith("qsopt_ex/") or "_dbl." in f.unit or "_mpf." in f.unit:
            continue
        if scope_units and not any(u in f.unit for u in scope_units):
            continue
        if any(u in f.unit for u in OUT_OF_SCOPE_UNITS):
            continue
        for loc, fld, itxt, need, have in analyse(prog, f, param_classes=PCLS.get(f.key)):
            res.obligations += 1
            if have is None:
                continue
            n_typed += 1
            res.nontrivial += 1
            if have == need:
                res.sample({"use": "%s %s: %s[%s]" % (short_loc(loc), f.name, fld, itxt), "verdict": "%s index on %s array" % (have, need)}, limit=6)
                continue
            ex = exceptions.get((f.name, fld)) or exceptions.get((f.name, "*"))
            if ex:
                res.excepted.append(("%s: %s[%s]" % (f.name, fld, itxt), ex))
                continue
            groups.setdefault((f.name, fld, itxt, need, have), []).append(short_loc(loc))
    for (fn, fld, itxt, need, have), locs in groups.items():
        res.violations.append(Violation(rule, "%s|%s[%s]|%s index on %s array" % (fn.replace("mpq_", ""), fld, itxt, have, need), fn, locs[0],
                                        "%s[%s]: the index is a %s index but the array is indexed by %s (%d site%s)%s" % (
                                            fld, itxt, have, need, len(locs), "s" if len(locs) > 1 else "",
                                            "; a structural index must be mapped through structmap[]" if (have, need) == (STRUCT, COL) else "")))
    # sibling call sites must agree on the index space they pass to an int parameter that the callee uses as a subscript
    if True:
        nconf = 0
        in_scope = None
        if scope_units:
            in_scope = {f.name for f in prog.funcs.values() if any(u in f.unit for u in scope_units)}
        for (gk, k, classes) in getattr(prog, "_idxclass_conflicts", []):
            g = prog.funcs.get(gk)
            if g is None or g.live is None or k >= len(g.params):
                continue
            pname = g.params[k][0]
            uses = [u for u in analyse(prog, g) if u[2] == pname]
            if not uses:
                continue
            need = uses[0][3]
            for (c, loc, caller) in prog._idxclass_sites[(gk, k)]:
                if c in (ROW, STRUCT, COL, NNB) and c != need:
                    if in_scope is not None and caller not in in_scope:
                        continue
                    nconf += 1
                    res.violations.append(Violation(rule, "%s|parameter %s of %s given a %s index" % (caller.replace("mpq_", ""), pname, g.name.replace("mpq_", ""), c), caller, short_loc(loc),
                                                    "%s subscripts %s[%s] (an array indexed by %s) with its parameter %s; this call passes a %s index there while "
                                                    "other call sites pass a %s index" % (g.name, uses[0][1], pname, need, pname, c, need)))
        res.counts["parameters_with_disagreeing_call_sites"] = nconf
    res.counts["subscripts_of_problem_arrays"] = res.obligations
    res.counts["with_typed_index"] = n_typed
    res.floor("subscripts with a typed index", n_typed, 150 if not scope_units else 10)
    return res
