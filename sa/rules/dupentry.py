"""R-DUPENTRY (C07, C17): an external index list that becomes the entries of one matrix column / row is tested for repeats.

The constraint matrix stores at most one entry per (row, column): the LU update sizes its work vectors by the dimension and appends one
element per stored entry, so a column that names a row twice makes the factorisation write past them.  The storing routines are found
from the code: a function that copies elements of an int-array parameter into ILLmatrix::matind (`A->matind[..] = colind[i]`).  The
obligation sits on the innermost non-static library function whose own int-array parameter reaches such a parameter (directly or by
`ind + offset`): it must contain a distinctness test of that list - a loop with a rejecting branch whose condition either reads a mark
M[..L[i]..] that the same loop sets, or compares two elements of one array that was filled from the list (a sorted copy:
T[i] == T[i - 1])."""
import collections

from ..core import walk, strip, is_var, callee, const_of, apath, fields_of, show, short_loc
from ..result import RuleResult, Violation
from .certdep import natural_loops


def _param_of(f, t):
    """index of the int-array parameter t is (p, or p + offset)"""
    t = strip(t)
    if isinstance(t, list) and t and t[0] == "b" and t[1] == "+":
        t = strip(t[2])
    if is_var(t) and isinstance(t[1], str) and t[1].startswith("p"):
        k = int(t[1][1:])
        if k < len(f.params) and f.params[k][2].replace("const ", "").strip() in ("int *", "int *const"):
            return k
    return None


def _storers(prog, funcs):
    S = collections.defaultdict(set)      # fkey -> {param index}
    for f in funcs:
        for b, i, e in f.elements():
            # the list selects the columns that receive the new row's entries:  A->matcnt[rowind[i]]++
            if e[0] in ("U", "A") and (e[0] == "U" or e[1][1] in ("+=", "-=")):
                t = strip(e[1][2])
                if isinstance(t, list) and t and t[0] == "i":
                    fl = fields_of(apath(t[1])[2])
                    ix = strip(t[2])
                    if fl and fl[-1].endswith("ILLmatrix::matcnt"):
                        srcs = [ix]
                        if is_var(ix, kind="l"):
                            # j = rowind[i]; ... A->matcnt[j]++
                            for b2, i2, e2 in f.elements():
                                if e2[0] == "A" and e2[1][1] == "=" and is_var(e2[1][2], name=ix[2], kind="l"):
                                    srcs.append(strip(e2[1][3]))
                        for sx in srcs:
                            if isinstance(sx, list) and sx and sx[0] == "i":
                                k = _param_of(f, sx[1])
                                if k is not None:
                                    S[f.key].add(k)
            if e[0] != "A" or e[1][1] != "=":
                continue
            fl = fields_of(apath(e[1][2])[2])
            if not (fl and fl[-1].endswith("ILLmatrix::matind") and "[]" in apath(e[1][2])[2]):
                continue
            r = strip(e[1][3])
            if isinstance(r, list) and r and r[0] == "i":
                k = _param_of(f, r[1])
                if k is not None:
                    S[f.key].add(k)
    return S


def _distinct_test(prog, f, pname):
    """the function contains a loop with a rejecting / skipping test for repeats of the list"""
    loops, dom, succ = natural_loops(prog, f)
    # arrays filled from the list: T[j] = L[i]  (or memcpy (T, L, ..))
    copies = {pname}
    for b, i, e in f.elements():
        if e[0] == "A" and e[1][1] == "=":
            l, r = strip(e[1][2]), strip(e[1][3])
            if isinstance(l, list) and l and l[0] == "i" and is_var(l[1], kind="l") and isinstance(r, list) and r and r[0] == "i" and is_var(r[1], name=pname):
                copies.add(strip(l[1])[2])
        elif e[0] == "C" and (callee(e[1]) or "") in ("memcpy", "memmove") and len(e[1][3]) >= 2:
            s_ = strip(e[1][3][1])
            d_ = strip(e[1][3][0])
            if is_var(s_, name=pname) and is_var(d_, kind="l"):
                copies.add(d_[2])
    for h, body in loops.items():
        marks_set = set()
        for bid in body:
            for e in f.blocks[bid]["e"]:
                if e[0] == "A" and e[1][1] == "=" and const_of(e[1][3]) not in (None, 0):
                    l = strip(e[1][2])
                    if isinstance(l, list) and l and l[0] == "i" and is_var(l[1], kind="l") and \
                            any(isinstance(nd, list) and nd and nd[0] == "i" and is_var(nd[1], name=pname) for nd in walk(l[2])):
                        marks_set.add(strip(l[1])[2])
        for bid in body:
            c = f.blocks[bid].get("c")
            if c is None or bid == h:
                continue
            # (a) mark form
            for nd in walk(c):
                if isinstance(nd, list) and nd and nd[0] == "i" and is_var(nd[1], kind="l") and strip(nd[1])[2] in marks_set and \
                        any(isinstance(x, list) and x and x[0] == "i" and is_var(x[1], name=pname) for x in walk(nd[2])):
                    return "mark array %s tested before it is set" % strip(nd[1])[2]
            # (b) two elements of one copy compared
            for nd in walk(c):
                if isinstance(nd, list) and nd and nd[0] == "b" and nd[1] in ("==", "!="):
                    a, b_ = strip(nd[2]), strip(nd[3])
                    if isinstance(a, list) and a and a[0] == "i" and isinstance(b_, list) and b_ and b_[0] == "i" and is_var(a[1]) and is_var(b_[1]) and \
                            strip(a[1])[2] == strip(b_[1])[2] and strip(a[1])[2] in copies and show(a[2]) != show(b_[2]):
                        return "two elements of %s compared" % strip(a[1])[2]
    return None


def run(prog, rule="R-DUPENTRY", floor=2):
    res = RuleResult(rule, "the innermost library function whose int-array parameter becomes the index entries of a matrix column / row contains "
                           "a test for repeated elements of that list")
    funcs = [f for f in prog.funcs.values() if f.live is not None and "_dbl." not in f.unit and "_mpf." not in f.unit and f.unit.endswith("lib_mpq.c")]
    S = _storers(prog, funcs)
    res.counts["storing_routines"] = sorted("%s#%d" % (k.split(":")[-1], p) for k, ps in S.items() for p in ps)
    # obligations: non-static functions that hand their own list to a storing parameter of a static helper (or store themselves)
    obl = {}
    for f in funcs:
        if f.static:
            continue
        for k in S.get(f.key, ()):
            obl[(f.key, k)] = "stores the list itself"
        for b, i, c in f.calls():
            g = prog.resolve(f, c[1]) if c[1] else None
            if g is None or not g.static or g.key not in S:
                continue
            for gk in S[g.key]:
                if gk < len(c[3]):
                    k = _param_of(f, c[3][gk])
                    if k is None and is_var(c[3][gk], kind="l"):
                        # a local list computed element by element from the parameter (tempind[i] = structmap[ind[i]])
                        T = strip(c[3][gk])[2]
                        for b2, i2, e2 in f.elements():
                            if e2[0] == "A" and e2[1][1] == "=":
                                l2 = strip(e2[1][2])
                                if isinstance(l2, list) and l2 and l2[0] == "i" and is_var(l2[1], name=T, kind="l"):
                                    for nd in walk(e2[1][3]):
                                        if isinstance(nd, list) and nd and nd[0] == "i":
                                            kk = _param_of(f, nd[1])
                                            if kk is not None:
                                                k = kk
                    if k is not None:
                        obl[(f.key, k)] = "hands it to %s" % g.name
    n = 0
    for (fk, k), how in sorted(obl.items()):
        f = prog.funcs[fk]
        n += 1
        res.obligations += 1
        res.nontrivial += 1
        pname = f.params[k][0]
        ok = _distinct_test(prog, f, pname)
        if not ok:
            # a helper that receives the list and whose verdict the function acts upon (the call's result or an out-argument is tested)
            for b, i, c in f.calls():
                g = prog.resolve(f, c[1]) if c[1] else None
                if g is None or g.live is None or g.key in S:
                    continue
                for gk, a in enumerate(c[3]):
                    if _param_of(f, a) == k and gk < len(g.params):
                        t = _distinct_test(prog, g, g.params[gk][0])
                        if t:
                            outs = [strip(x[2])[2] for x in (strip(y) for y in c[3]) if isinstance(x, list) and x and x[0] == "u" and x[1] == "&" and is_var(x[2], kind="l")]
                            acted = any(f.blocks[bid].get("c") is not None and any(is_var(nd, name=o) for o in outs for nd in walk(f.blocks[bid]["c"]) if isinstance(nd, list))
                                        for bid in f.live)
                            if acted:
                                ok = "%s (%s), whose verdict is tested" % (g.name, t)
        if ok:
            res.sample({"function": f.name, "list": pname, "verdict": ok}, limit=8)
        else:
            res.violations.append(Violation(rule, "%s|%s stored as matrix entries without a test for repeats" % (f.name.replace("mpq_", ""), pname), f.name, short_loc(f.loc),
                                            "%s %s (the elements become ILLmatrix::matind entries of one column / row) and contains no test for repeated elements of "
                                            "%s: a row listed twice gives the column two entries of that row, and the factorisation update writes past its work "
                                            "vectors" % (f.name, how, pname)))
    res.counts["list_to_entries_functions"] = n
    res.floor("library functions whose list parameter becomes matrix entries", n, floor)
    return res
