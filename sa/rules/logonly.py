"""R-LOGONLY (C07, C17): an argument that a function reports as missing is not used afterwards.

Belief contradiction (Engler et al.): a call of a *reporting checker* - a helper whose body tests a pointer parameter against NULL and
logs on that branch - states that the caller considers NULL possible.  If the helper's verdict is then not acted upon (the call is a
statement of its own, or the helper returns nothing) and the pointer is dereferenced, handed to a callee that dereferences it, or
stored as a callback, with no NULL test of its own on the way, the NULL the library has just reported is used.  The helpers are found
structurally (no names): a function with a condition `p == NULL` / `!p` on one of its pointer parameters whose taken branch contains a
logging call."""
import collections

from ..core import walk, strip, is_var, callee, const_of, show, short_loc, dominators
from ..cond import atoms, SWAP
from ..result import RuleResult, Violation
from .condalloc import _deref_summary

LOGGERS = ("QSlog", "ILL_REPRT", "ILLdata_error", "fprintf")


def _reporting_checkers(prog, funcs):
    out = {}
    for f in funcs:
        if len(f.blocks) > 12:
            continue
        for bid in f.live:
            c = f.blocks[bid].get("c")
            if c is None:
                continue
            ss = prog.live_succs(f, f.blocks[bid])
            if len(ss) != 2:
                continue
            for idx, s_ in enumerate(ss):
                if s_ is None:
                    continue
                for l, op, r in atoms(c, idx == 0):
                    for a, b_, o in ((l, r, op), (r, l, SWAP[op])):
                        if is_var(a) and isinstance(strip(a)[1], str) and strip(a)[1].startswith("p") and const_of(b_) == 0 and o == "==":
                            if any(e[0] == "C" and (callee(e[1]) or "").startswith(LOGGERS) for e in f.blocks[s_]["e"]):
                                out.setdefault(f.key, set()).add(int(strip(a)[1][1:]))
    return out


def run(prog, rule="R-LOGONLY", floor=8):
    res = RuleResult(rule, "a pointer handed to a reporting checker whose verdict is not acted upon is not used without a NULL test of its own")
    funcs = [f for f in prog.funcs.values() if f.live is not None and "_dbl." not in f.unit and "_mpf." not in f.unit
             and (f.unit.startswith("qsopt_ex/") or f.unit.startswith("esolver/"))]
    CK = _reporting_checkers(prog, funcs)
    res.counts["reporting_checkers"] = sorted(prog.funcs[k].name for k in CK)
    DEREF = _deref_summary(prog, funcs)
    n = 0
    for f in sorted(funcs, key=lambda x: x.key):
        sites = []
        for b, i, e in f.elements():
            if e[0] != "C":
                continue
            c = e[1]
            g = prog.resolve(f, c[1]) if c[1] else None
            if g is None or g.key not in CK or g.key == f.key:
                continue
            for k in CK[g.key]:
                if k < len(c[3]) and is_var(strip(c[3][k])):
                    sites.append((b["id"], i, c, strip(c[3][k])[2], g))
        if not sites:
            continue
        dom, succ = dominators(prog, f)
        preds = collections.defaultdict(set)
        for a, ss in succ.items():
            for s in ss:
                preds[s].add(a)
        for (bid, i, c, name, g) in sites:
            n += 1
            res.obligations += 1
            res.nontrivial += 1
            # is the verdict acted upon?  the call appears inside a condition of its block, or its value is assigned
            blk = f.blocks[bid]
            acted = False
            if blk.get("c") is not None and any(isinstance(nd, list) and nd and nd[0] == "c" and nd[4] == c[4] for nd in walk(blk["c"])):
                acted = True
            for e in blk["e"]:
                if e[0] in ("A", "D", "R"):
                    trees = [x[1] for x in e[1] if x[1] is not None] if e[0] == "D" else ([e[1]] if e[1] is not None else [])
                    if any(isinstance(nd, list) and nd and nd[0] == "c" and nd[4] == c[4] for t in trees for nd in walk(t)):
                        acted = True
            # the condition may sit in a later block of a short-circuit chain: any condition block in the function that contains the call
            for b2 in f.live:
                c2 = f.blocks[b2].get("c")
                if c2 is not None and any(isinstance(nd, list) and nd and nd[0] == "c" and nd[4] == c[4] for nd in walk(c2)):
                    acted = True
            if acted:
                res.sample({"site": "%s %s: %s" % (short_loc(c[4]), f.name, show(c)[:60]), "verdict": "the checker's verdict is tested"}, limit=10)
                continue
            # uses of the pointer behind the call without a NULL test of the caller's own
            guarded_blocks = set()
            for d in f.live:
                cd = f.blocks[d].get("c")
                if cd is None:
                    continue
                ss = prog.live_succs(f, f.blocks[d])
                if len(ss) != 2:
                    continue
                for idx, s_ in enumerate(ss):
                    if s_ is None or preds[s_] != {d}:
                        continue
                    for l, op, r in atoms(cd, idx == 0):
                        for a, b_, o in ((l, r, op), (r, l, SWAP[op])):
                            if is_var(a, name=name) and const_of(b_) == 0 and o == "!=":
                                guarded_blocks.add(s_)
            bad = None
            for b2, i2, e2 in f.elements():
                if not ((bid in dom.get(b2["id"], ()) and b2["id"] != bid) or (b2["id"] == bid and i2 > i)):
                    continue
                if any(gb == b2["id"] or gb in dom.get(b2["id"], ()) for gb in guarded_blocks):
                    continue
                trees = [x[1] for x in e2[1] if x[1] is not None] if e2[0] == "D" else ([e2[1]] if e2[1] is not None else [])
                for t in trees:
                    for nd in walk(t):
                        if not isinstance(nd, list) or not nd:
                            continue
                        if nd[0] == "m" and len(nd) > 3 and nd[3] == 1 and is_var(nd[1], name=name):
                            bad = (e2[2] if len(e2) > 2 else c[4], "dereferenced (%s)" % show(nd)[:40])
                        if nd[0] == "u" and nd[1] == "*" and is_var(nd[2], name=name):
                            bad = (e2[2], "dereferenced")
                        if nd[0] == "c" and nd[4] != c[4]:
                            h = prog.resolve(f, nd[1]) if nd[1] else None
                            for k2, a in enumerate(nd[3]):
                                a0 = strip(a)
                                if isinstance(a0, list) and a0 and a0[0] == "k":
                                    a0 = strip(a0[2]) if len(a0) > 2 else a0
                                if is_var(a0, name=name) and h is not None and h.key not in CK:
                                    bad = (nd[4], "handed to %s" % h.name)
                    if bad:
                        break
                if bad:
                    break
            if bad:
                res.violations.append(Violation(rule, "%s|%s reported missing by %s and used" % (f.name.replace("mpq_", ""), name, g.name), f.name, short_loc(bad[0]),
                                                "%s reports %s when it is NULL, the call's verdict is not looked at, and %s is then %s without a NULL test of the caller's own" % (
                                                    g.name, name, name, bad[1])))
            else:
                res.sample({"site": "%s %s: %s" % (short_loc(c[4]), f.name, show(c)[:60]), "verdict": "not used unguarded behind the call"}, limit=10)
    res.counts["checker_calls"] = n
    res.floor("calls of reporting checkers", n, floor)
    return res
