"""R-SHALLOW / R-PARAMS (C16): copies are independent and carry the parameters.

R-SHALLOW  every whole-struct assignment (*a = *b) of a record that owns heap storage (some function releases a pointer
           field of it through a parameter of that record type) re-initialises every owning field of the destination on all
           paths before the function returns - otherwise original and copy share storage and freeing either one corrupts
           the other.
R-PARAMS   every field the parameter setters (QSset_param, QSset_param_EGlpNum) can write is written for the new object in
           QScopy_prob; every parameter constant the setters accept is transferred by both reduced-precision copy functions."""
import collections

from ..core import (strip, is_var, callee, const_of, apath, fields_of, show, short_loc, Flow, walk, AnalysisBroken)
from ..effects import Effects
from ..result import RuleResult, Violation

RELEASE = {"free", "ILLutil_freerus", "EGfree"}
SWAPS = {("transpose", "editor_mpq.c"): "three-way swap of the row and column symbol tables through a temporary in the interactive editor: "
                                        "ownership is exchanged, nothing ends up shared"}


def strip_prefix(rec):
    for pre in ("mpq_", "dbl_", "mpf_"):
        if rec.startswith(pre):
            return rec[len(pre):]
    return rec


def owning_fields(prog, E, prefix="mpq_", by_func=None):
    """record name -> set of field paths (tuples of 'Rec::field') that some function releases through a parameter whose
    type is a pointer to that record"""
    own = collections.defaultdict(set)
    # defined wrappers that release their k-th argument (ILLutil_freerus, EGfree ...)
    releasers = {}
    for f in prog.funcs.values():
        for (p, loc, how, bid, idx) in E.direct[f.key]:
            if how.startswith("ext:") and how[4:] in RELEASE:
                for (k, steps) in E.roots(f, p):
                    if not fields_of(steps):
                        releasers[f.key] = k
    for f in prog.funcs.values():
        if "_dbl." in f.unit or "_mpf." in f.unit:
            continue
        rel_paths = [p for (p, loc, how, bid, idx) in E.direct[f.key] if how.startswith("ext:") and how[4:] in RELEASE]
        for (g, name, loc, args, bid, idx, c) in E.callinfo[f.key]:
            if g is not None and g.key in releasers and releasers[g.key] < len(args):
                a = args[releasers[g.key]]
                rel_paths.append((a[0], a[1], a[2] + ("*",)))
        for p in rel_paths:
            # a local object of the record type released field by field (EGLPNUM_TYPENAME_ILLread_mps_state state; ... free(state.obj))
            if p[0] == "l" and "*" not in (f.ltypes.get(p[1]) or "*"):
                fl0 = fields_of(p[2])
                if fl0:
                    own[fl0[0].split("::")[0]].add(fl0)
            for (k, steps) in E.roots(f, p):
                fl = fields_of(steps)
                if not fl or k >= len(f.params):
                    continue
                rec = fl[0].split("::")[0]
                ptype = f.params[k][2]
                if rec in ptype:
                    own[rec].add(fl)
                    if by_func is not None:
                        by_func.setdefault(rec, {}).setdefault(f.key, set()).add(fl)
    # a record that embeds an owning record by value owns through it
    changed = True
    while changed:
        changed = False
        for rec, r in prog.records.items():
            for fld in r["fields"]:
                fname, ftype, ctype = fld
                if "*" in ctype or "[" in ctype:
                    continue
                inner = ctype.replace("struct ", "").strip()
                if inner in own and inner != rec:
                    for fp in list(own[inner]):
                        nfp = (rec + "::" + fname,) + fp
                        if nfp not in own[rec]:
                            own[rec].add(nfp)
                            changed = True
    return own


def run_shallow(prog, E=None, rule="R-SHALLOW"):
    E = E or Effects(prog)
    res = RuleResult(rule, "after a whole-struct assignment of a record that owns heap storage every owning field of the destination "
                           "is re-initialised on all paths")
    own = owning_fields(prog, E)
    res.counts["records_owning_storage"] = len(own)
    n_sites = 0
    for f in sorted(prog.funcs.values(), key=lambda x: x.key):
        if f.unit.startswith("esolver/") or "_dbl." in f.unit or "_mpf." in f.unit:
            continue
        if (f.name, f.unit.split("/")[-1]) in SWAPS:
            res.excepted.append((f.name, SWAPS[(f.name, f.unit.split("/")[-1])]))
            continue
        for b, i, e in f.elements():
            if e[0] != "A" or len(e) < 5 or not e[4] or e[1][1] != "=":
                continue
            rec = e[4]
            n_sites += 1
            res.obligations += 1
            fields = own.get(rec)
            if not fields:
                res.sample({"site": "%s %s: %s" % (short_loc(e[2]), f.name, show(e[1])), "verdict": "record %s owns no heap storage" % rec}, limit=4)
                continue
            res.nontrivial += 1
            dst = apath(e[1][2])
            # destination prefix (fields up to the copied object); a trailing '*' is the dereference of the pointer to it
            dsteps = tuple(s for s in dst[2] if s != "*")
            need = {fp for fp in fields}
            site = (b["id"], i)
            # must-follow: each owning field written through the same destination object
            missing = _reinit_missing(prog, E, f, site, dst, need)
            if missing:
                # move idiom: the *source* (a local record) is re-initialised on every path instead - ownership was handed over, not shared
                src = apath(e[1][3])
                if src[0] == "l" and not _reinit_missing(prog, E, f, site, src, need):
                    # ... into a destination that holds nothing: its owning fields were released / initialised on every path to the copy
                    pending = _reinit_missing(prog, E, f, site, dst, need, before=True)
                    if not pending:
                        res.sample({"site": "%s %s: %s" % (short_loc(e[2]), f.name, show(e[1])),
                                    "verdict": "move: the destination was emptied before, the local source is re-initialised after, on every path"})
                        missing = set()
                    else:
                        missing = pending
            if missing:
                names = sorted(".".join(x.split("::")[1] for x in fp) for fp in missing)
                res.violations.append(Violation(rule, "%s|%s copied shallow: %s" % (f.name.replace("mpq_", ""), strip_prefix(rec), ",".join(names)),
                                                f.name, short_loc(e[2]),
                                                "%s copies a %s by assignment; the owning field(s) %s of the destination are not re-initialised on every path: "
                                                "original and copy share that storage" % (show(e[1]), rec, ", ".join(names))))
            else:
                res.sample({"site": "%s %s: %s" % (short_loc(e[2]), f.name, show(e[1])), "verdict": "all %d owning fields re-initialised" % len(need)})
    res.counts["struct_assignments"] = n_sites
    res.floor("whole-struct assignments examined", n_sites, 1)
    return res


def _reinit_missing(prog, E, f, site, dst, need, before=False):
    """owning field paths not written (through the destination object) on some path from the copy site to a return;
    before=True: not written on some path from the function entry to the copy site"""
    dfields = fields_of(dst[2])

    def written_by(b, i, e):
        out = set()
        if e[0] == "A":
            p = apath(e[1][2])
            if p[0] == dst[0] and p[1] == dst[1]:
                fl = fields_of(p[2])
                if fl[:len(dfields)] == dfields:
                    out.add(fl[len(dfields):])
        elif e[0] == "C":
            for ci in E.callinfo[f.key]:
                if ci[4] == b["id"] and ci[5] == i:
                    (g, name, loc, args, bid, idx, c) = ci
                    targets = [g] if g is not None else []
                    for g2 in targets:
                        for (k, fp) in E.W.get(g2.key, ()):
                            if k < len(args):
                                a = args[k]
                                st = a[2][:-1] if (a[2] and a[2][-1] == "&") else a[2]
                                if a[0] == dst[0] and a[1] == dst[1]:
                                    fl = fields_of(st) + fp
                                    if fl[:len(dfields)] == dfields:
                                        out.add(fl[len(dfields):])
                    # external initialisers (mpq_init on a GMP field)
                    if g is None and name in ("mpq_init", "mpz_init", "mpf_init"):
                        a = args[0] if args else None
                        if a and a[0] == dst[0] and a[1] == dst[1]:
                            fl = fields_of(a[2])
                            if fl[:len(dfields)] == dfields:
                                out.add(fl[len(dfields):])
        return out
    missing_at_exit = set()
    started = {}

    def xfer(b, i, e, st):
        active, done = st
        if (b["id"], i) == site:
            if before:
                missing_at_exit.update(need - set(done))
                return [(0, frozenset())]
            return [(1, frozenset())]
        if not active:
            return None
        w = written_by(b, i, e)
        if w:
            nd = set(done)
            for fp in need:
                for wfp in w:
                    # writing the field itself or a prefix of it (a nested record re-initialised as a whole)
                    if fp[:len(wfp)] == wfp and len(wfp) >= 1:
                        nd.add(fp)
            done = frozenset(nd)
        return [(active, done)]
    fl = Flow(prog, f, [(1 if before else 0, frozenset())], xfer, None).run()
    if not before:
        for (active, done) in fl.exit_states:
            if active:
                missing_at_exit |= (need - set(done))
    return missing_at_exit


def run_params(prog, E=None, prefix="mpq_", rule="R-PARAMS"):
    E = E or Effects(prog)
    res = RuleResult(rule, "every settable parameter is copied by QScopy_prob and transferred by QScopy_prob_mpq_dbl / _mpf")
    setters = [prog.require_fn(prefix + "QSset_param"), prog.require_fn(prefix + "QSset_param_EGlpNum")]
    # the progress reporter and its period are host settings of the problem as well
    rep = prog.funcs.get(prefix + "QSset_reporter")
    if rep is not None and rep.live is not None:
        setters.append(rep)
    # fields written by the setters in the object of their first parameter
    S = set()
    consts = {}
    for sfn in setters:
        for (k, fp, loc, how, bid, idx) in E.direct_writes(sfn):
            if k == 0 and fp:
                S.add(fp)
        for ci in E.callinfo[sfn.key]:
            for (k, fp) in E.call_writes(sfn, ci):
                if k == 0 and fp and ci[1] not in (None,) and not (ci[1] or "").startswith("QSlog"):
                    S.add(fp)
        for bl in sfn.blocks.values():
            l = bl.get("l")
            if l and l[0] == "case" and l[2].startswith("QS_PARAM_"):
                consts[l[2]] = l[1]
    S = {fp for fp in S if fp[-1].split("::")[1] not in ("qstatus",)}
    res.counts["parameter_fields"] = sorted("/".join(x.split("::")[1] for x in fp) for fp in S)
    res.counts["parameter_constants"] = sorted(consts)
    res.floor("parameter fields written by the setters", len(S), 8)
    res.floor("parameter constants accepted by the setters", len(consts), 8)
    # QScopy_prob: the new object is the local assigned from QScreate_prob
    cp = prog.require_fn(prefix + "QScopy_prob")
    newobj = None
    for b, i, e in cp.elements():
        if e[0] == "A" and is_var(e[1][2], kind="l"):
            r = strip(e[1][3])
            if isinstance(r, list) and r and r[0] == "c" and (callee(r) or "").endswith("QScreate_prob"):
                newobj = strip(e[1][2])[2]
    if newobj is None:
        raise AnalysisBroken("QScopy_prob: the created copy (result of QScreate_prob) not found")
    written = set()
    for b, i, e in cp.elements():
        if e[0] == "A":
            p = apath(e[1][2])
            if p[0] == "l" and p[1] == newobj:
                fl = fields_of(p[2])
                written.add(fl)
                if len(e) >= 5 and e[4]:
                    # whole-struct assignment: every field of that record
                    for fp in S:
                        if fp[:len(fl)] == fl:
                            written.add(fp)
        elif e[0] == "C":
            for a in e[1][3]:
                p = apath(a)
                if p[0] == "l" and p[1] == newobj and callee(e[1]) in ("mpq_set", "mpq_EGlpNumCopy"):
                    written.add(fields_of(p[2]))
            if callee(e[1]) in ("mpq_set",) and e[1][3]:
                p = apath(e[1][3][0])
                if p[0] == "l" and p[1] == newobj:
                    written.add(fields_of(p[2]))
            # a library routine that writes through a record of the new object handed to it (ILLstring_reporter_copy (&p2->qslp->reporter, ..))
            g_ = prog.resolve(cp, e[1][1]) if e[1][1] else None
            if g_ is not None:
                for (k_, fp_) in E.W.get(g_.key, ()):
                    if k_ < len(e[1][3]):
                        p = apath(e[1][3][k_])
                        if p[0] == "l" and p[1] == newobj:
                            steps = p[2][:-1] if (p[2] and p[2][-1] == "&") else p[2]
                            written.add(tuple(fields_of(steps)) + tuple(fp_))
    for fp in sorted(S):
        res.obligations += 1
        name = "/".join(x.split("::")[1] for x in fp)
        if fp in written:
            res.sample({"parameter_field": name, "verdict": "written for the copy in QScopy_prob"}, limit=4)
        else:
            res.violations.append(Violation(rule, "QScopy_prob|parameter field %s not copied" % name, cp.name, short_loc(cp.loc),
                                            "the parameter stored in %s (settable through QSset_param*) is not copied to the new problem" % name))
    # reduced-precision copies: sibling agreement on the parameter constants
    for fn in ("QScopy_prob_mpq_dbl", "QScopy_prob_mpq_mpf"):
        g = prog.require_fn(fn)
        got, put = set(), set()
        for b, i, c in g.calls():
            n = callee(c) or ""
            if "QSget_param" in n or "QSset_param" in n:
                for a in c[3]:
                    a = strip(a)
                    if isinstance(a, list) and a and a[0] == "n" and a[2].startswith("QS_PARAM_"):
                        (got if "get_param" in n else put).add(a[2])
        for cname in sorted(consts):
            res.obligations += 1
            res.nontrivial += 1
            if cname in got and cname in put:
                res.sample({"function": fn, "parameter": cname, "verdict": "fetched from the rational problem and set on the copy"}, limit=6)
            else:
                res.violations.append(Violation(rule, "%s|parameter %s not transferred" % (fn, cname), fn, short_loc(g.loc),
                                                "%s does not transfer %s (get on the rational problem: %s, set on the copy: %s)" % (
                                                    fn, cname, cname in got, cname in put)))
    return res


def run_clobber(prog, E=None, prefix="mpq_", rule="R-CLOBBER"):
    """In QScopy_prob every direct copy of an LP field into the new problem is the last writer of that field: no call that
    may write the same field of the new object is reachable after it (a later ILLlib_addcol would reset what was copied)."""
    E = E or Effects(prog)
    res = RuleResult(rule, "data copied into the new problem in QScopy_prob is not overwritten by a later call on the same object")
    cp = prog.require_fn(prefix + "QScopy_prob")
    newobj = None
    for b, i, e in cp.elements():
        if e[0] == "A" and is_var(e[1][2], kind="l"):
            r = strip(e[1][3])
            if isinstance(r, list) and r and r[0] == "c" and (callee(r) or "").endswith("QScreate_prob"):
                newobj = strip(e[1][2])[2]
    if newobj is None:
        raise AnalysisBroken("QScopy_prob: the created copy not found")
    succ = {bid: [x for x in prog.live_succs(cp, bl) if x is not None] for bid, bl in cp.blocks.items()}

    def reach_from(bid):
        seen = set()
        st = list(succ.get(bid, ()))
        while st:
            x = st.pop()
            if x in seen:
                continue
            seen.add(x)
            st.extend(succ.get(x, ()))
        return seen
    copies = []
    for b, i, e in cp.elements():
        if e[0] != "A":
            continue
        p = apath(e[1][2])
        if p[0] == "l" and p[1] == newobj:
            fl = fields_of(p[2])
            lp = [x for x in fl if "ILLlpdata::" in x]
            if lp and "[]" in p[2]:
                copies.append((b["id"], i, lp[0], e[2], show(e[1])))
    # the same copy written as a block copy: memcpy / memmove (newobj->...->field, ...)
    for b, i, c in cp.calls():
        if (callee(c) or "") in ("memcpy", "memmove") and c[3]:
            p = apath(c[3][0])
            if p[0] == "l" and p[1] == newobj:
                lp = [x for x in fields_of(p[2]) if "ILLlpdata::" in x]
                if lp:
                    copies.append((b["id"], i, lp[0], c[4], show(c)))
    n = 0
    for (bid, idx, fld, loc, txt) in copies:
        res.obligations += 1
        res.nontrivial += 1
        n += 1
        after = reach_from(bid)
        bad = None
        for ci in E.callinfo[cp.key]:
            (g, name, cloc, args, cb, cidx, c) = ci
            if not (cb in after or (cb == bid and cidx > idx)):
                continue
            if cb == bid and cidx <= idx:
                continue
            if name and name.endswith("QSfree_prob"):
                continue      # the failure path discards the half-built copy
            # is the loop of the copy itself the only way back? (cb in the same loop body as the copy and also before it)
            for k, a in enumerate(args):
                if a[0] == "l" and a[1] == newobj and g is not None:
                    for (pk, fp) in E.W.get(g.key, ()):
                        if pk == k and any(x == fld or x.endswith(fld.split("::", 1)[1]) and "ILLlpdata" in x for x in (fields_of(a[2]) + fp)):
                            bad = (name, cloc)
            if bad:
                break
        if bad:
            res.violations.append(Violation(rule, "QScopy_prob|%s copied then overwritten by %s" % (fld.split("::")[1], bad[0].replace(prefix, "")),
                                            cp.name, short_loc(loc),
                                            "%s is copied into the new problem, but the later call %s (%s) may write the same field of the same object: the copied values are lost"
                                            % (txt, bad[0], short_loc(bad[1]))))
        else:
            res.sample({"copy": txt, "at": short_loc(loc), "verdict": "no later writer of %s on the new object" % fld.split("::")[1]})
    res.floor("direct LP-field copies in QScopy_prob", n, 1)
    return res


FLAG_ARRAYS = {"ILLlpdata::intmarker": "0 / 1 integrality flags", "rawlpdata::intmarker": "0 / 1 integrality flags", "rawlpdata::lbind": "0 / 1 flags",
               "rawlpdata::ubind": "0 / 1 flags", "ILLlpdata::is_sos_mem": "-1 / set index", "rawlpdata::is_sos_member": "-1 / set index"}
STRFUNCS = {"strcpy", "strncpy", "strcat", "strncat", "strlen", "strdup", "strcmp", "strncmp", "ILLutil_str"}


def run_strflags(prog, rule="R-STRFLAGS"):
    """arrays of flags are not strings: a byte 0 is a regular value in them.  A string function applied to such an array (strncpy of
    intmarker in a copy routine) stops at the first 0 flag and pads the rest with zeros - every integer mark after the first continuous
    column is lost in the copy, silently."""
    res = RuleResult(rule, "no string function (strcpy / strncpy / strlen / strdup ...) is applied to a flag array of the problem (intmarker, lbind, ubind, SOS membership)")
    n_uses = 0
    for f in sorted(prog.funcs.values(), key=lambda x: x.key):
        if "_dbl." in f.unit or "_mpf." in f.unit or f.live is None:
            continue
        for b, i, c in f.calls():
            if callee(c) not in STRFUNCS:
                continue
            for a in c[3]:
                fl = fields_of(apath(a)[2])
                for fa, what in FLAG_ARRAYS.items():
                    if fl and fl[-1].endswith(fa):
                        res.obligations += 1
                        res.violations.append(Violation(rule, "%s|%s applied to %s" % (f.name.replace("mpq_", ""), callee(c), fa.split("::")[1]), f.name, short_loc(c[4]),
                                                        "%s treats %s (%s) as a NUL-terminated string: the operation stops at the first zero entry" % (show(c)[:90], fa, what)))
        for b, i, e in f.elements():
            if e[0] == "S":
                fl = fields_of(apath(e[1])[2])
                if fl and any(fl[-1].endswith(fa) for fa in FLAG_ARRAYS):
                    n_uses += 1
    res.obligations += n_uses
    res.counts["element_accesses_to_flag_arrays"] = n_uses
    res.floor("element accesses to the flag arrays", n_uses, 20)
    return res


# ------------------------------------------------------------------ R-COPYFIELDS
RELEASERS = ("free", "clear", "Free", "Clear")


def _fill_summary(prog, E):
    """FILL[g] = set of (parameter k, field path) into which g may store something other than a constant, bottom-up over the call graph.
    Stores of constants (the NULL / 0 / -1 of initialisers and of ILL_IFFREE) and the effects of external releasing routines are left
    out, so an init / free routine fills nothing."""
    from ..effects import K
    FILL = collections.defaultdict(set)
    own = {}
    for f in prog.funcs.values():
        if f.live is None:
            continue
        lst = []
        for (p, loc, how, b, i) in E.direct[f.key]:
            e = f.blocks[b]["e"][i]
            if how == "assign" and e[0] == "A" and e[1][1] == "=" and const_of(e[1][3]) is not None:
                continue
            if how.startswith("ext:") and any(w in how for w in RELEASERS):
                continue
            lst.append((p, loc, how, b, i))
            if p[2]:
                for (k, st) in E.roots(f, p):
                    if st:
                        FILL[f.key].add((k, fields_of(st)[:K]))
        own[f.key] = lst
    changed, rounds = True, 0
    while changed and rounds < 40:
        changed = False
        rounds += 1
        for f in prog.funcs.values():
            if f.live is None:
                continue
            wf = FILL[f.key]
            for (g, name, loc, args, bid, idx, c) in E.callinfo[f.key]:
                if g is None:
                    continue
                for (k, fp) in list(FILL.get(g.key, ())):
                    if k < len(args):
                        a = args[k]
                        if a[2] and a[2][-1] == "&":
                            a = (a[0], a[1], a[2][:-1])
                        for (j, steps) in E.roots(f, a):
                            ent = (j, (fields_of(steps) + fp)[:K])
                            if ent not in wf:
                                wf.add(ent)
                                changed = True
    return FILL, own


def run_fields(prog, E=None, prefix="mpq_", rule="R-COPYFIELDS", floor=15):
    """sibling agreement of the two routines that build a complete problem: the conversion of a parsed file (ILLrawlpdata_to_lpdata and
    its callees) and QScopy_prob.  Every field of the problem record that the file route fills with something other than a constant
    and that the writers read (call-graph closure of QSwrite_prob_file: the observers every problem has) is also filled, for the new
    problem, by QScopy_prob or one of its callees."""
    E = E or Effects(prog)
    res = RuleResult(rule, "every field of the problem record that the file reader's conversion fills and the writers read is also filled for the "
                           "new problem by QScopy_prob")
    FILL, own = _fill_summary(prog, E)

    def lpf(fp):
        return {x.split("::")[1] for x in fp if "ILLlpdata::" in x}

    def expand(f, p, depth=0):
        kind, root, steps = p
        yield tuple(steps)
        if kind == "l" and depth < 5:
            for o in E.origins[f.key].get(root, []):
                if len(o) == 3 and (o[0] == "l" or (isinstance(o[0], str) and o[0].startswith("p"))) and not (o[0] == "l" and o[1] == root):
                    for pre in expand(f, o, depth + 1):
                        yield tuple(pre) + tuple(steps)

    def closure(root):
        return [prog.funcs[k] for k in prog.reachable([root.key]) if k in prog.funcs and prog.funcs[k].live is not None]
    conv = prog.require_fn(prefix + "ILLrawlpdata_to_lpdata")
    cp = prog.require_fn(prefix + "QScopy_prob")
    wr = prog.require_fn(prefix + "QSwrite_prob_file")
    built = collections.defaultdict(set)
    for f in closure(conv):
        for (p, loc, how, b, i) in own.get(f.key, ()):
            for st in expand(f, p):
                for X in lpf(fields_of(st)):
                    built[X].add(f.name)
    def filled_in(f, skip_original):
        out = set()
        for (p, loc, how, b, i) in own.get(f.key, ()):
            for st in expand(f, p):
                out |= lpf(fields_of(st))
        for (g, name, loc, args, bid, idx, c) in E.callinfo[f.key]:
            if g is None:
                continue
            for (k, fp) in FILL.get(g.key, ()):
                if k < len(args):
                    a = args[k]
                    if skip_original and isinstance(a[0], str) and a[0] == "p0":
                        continue                      # the original, not the copy
                    for st in expand(f, a):
                        out |= lpf(tuple(fields_of(st)) + tuple(fp))
        return out
    copied = filled_in(cp, True)
    # the routine that creates the new problem (the local the copy is built in originates from its result) fills fields too (the name)
    roots_written = {p[1] for (p, loc, how, b, i) in own.get(cp.key, ()) if p[0] == "l"}
    for L in sorted(roots_written):
        for o in E.origins[cp.key].get(L, []):
            if o[0] == "call":
                g = prog.resolve(cp, o[1])
                if g is not None:
                    copied |= filled_in(g, False)
    observed = collections.defaultdict(set)
    for f in closure(wr):
        trees = []
        for b, i, e in f.elements():
            trees += [x[1] for x in e[1] if x[1] is not None] if e[0] == "D" else ([e[1]] if e[1] is not None else [])
        for bid in f.live:
            if f.blocks[bid].get("c") is not None:
                trees.append(f.blocks[bid]["c"])
        for t in trees:
            for nd in walk(t):
                if isinstance(nd, list) and nd and nd[0] == "m" and "ILLlpdata::" in nd[2]:
                    observed[nd[2].split("::")[1]].add(f.name)
    res.counts["fields_filled_by_the_file_route"] = sorted(built)
    res.counts["fields_read_by_the_writers"] = sorted(observed)
    res.counts["fields_filled_by_QScopy_prob"] = sorted(copied)
    both = sorted(set(built) & set(observed))
    for X in both:
        res.obligations += 1
        res.nontrivial += 1
        if X in copied:
            res.sample({"field": X, "verdict": "filled by QScopy_prob or a callee"}, limit=40)
        else:
            res.violations.append(Violation(rule, "QScopy_prob|%s not copied" % X, cp.name, short_loc(cp.loc),
                                            "ILLlpdata::%s is filled by the file route (%s) and read by the writers (%s), but neither QScopy_prob nor any of its "
                                            "callees stores anything but a constant into it for the new problem: the copy of a problem that came from a file is "
                                            "written differently from its original" % (X, sorted(built[X])[0], sorted(observed[X])[0])))
    res.floor("fields filled by the file route and read by the writers", len(both), floor)
    return res
