"""R-FINITE (C17): GMP is never handed a non-finite double.

mpq_set_d / mpz_set_d / mpf_set_d raise SIGFPE (__gmp_invalid_operation) for an infinity or a NaN.  Doubles reach them from the
floating-point solves of the exact driver (an LP with a number beyond the double range is "solved" with infinite entries).  Every such
call whose argument is not a constant must sit behind an upper-bound establishment for that argument: the false edge of a dominating
`X > c` / `X >= c` test, the true edge of `X < c` / `X <= c`, a dominating clamp (`if (X > c) X = ..;`), or an `isfinite (X)` /
`isinf` / `isnan` test.  A lower-bound test alone (`X > 1e151`) does not exclude the infinity."""
from ..core import walk, strip, is_var, callee, const_of, show, short_loc, dominators, norm_callee
from ..cond import atoms, SWAP
from ..result import RuleResult, Violation

SINKS = {"mpq_set_d": 1, "mpz_set_d": 1, "mpf_set_d": 1, "mpf_init_set_d": 1, "mpz_init_set_d": 1}


def run(prog, rule="R-FINITE", floor=1):
    res = RuleResult(rule, "every non-constant double handed to a GMP set_d routine is behind an upper-bound / finiteness test of that value")
    n = 0
    for f in sorted(prog.funcs.values(), key=lambda x: x.key):
        if f.live is None or "_dbl." in f.unit or "_mpf." in f.unit or not (f.unit.startswith("qsopt_ex/") or f.unit.startswith("esolver/")):
            continue
        sites = []
        for b, i, c in f.calls():
            nm = norm_callee(callee(c) or "")
            if nm in SINKS and len(c[3]) > SINKS[nm] and const_of(c[3][SINKS[nm]]) is None:
                a = strip(c[3][SINKS[nm]])
                if isinstance(a, list) and a and a[0] == "fl":
                    continue
                sites.append((b["id"], i, c, a))
        if not sites:
            continue
        dom, succ = dominators(prog, f)
        preds = {}
        for a_, ss in succ.items():
            for s_ in ss:
                preds.setdefault(s_, set()).add(a_)
        for (bid, i, c, arg) in sites:
            n += 1
            res.obligations += 1
            res.nontrivial += 1
            xt = show(arg)
            ok = None
            for d in f.live:
                if d == bid or d not in dom.get(bid, ()):
                    continue
                cnd = f.blocks[d].get("c")
                if cnd is None:
                    continue
                if any(isinstance(nd, list) and nd and nd[0] == "c" and (callee(nd) or "").lstrip("_") in ("isfinite", "isinf", "isnan", "finite", "builtin_isfinite", "builtin_isinf_sign", "builtin_isnan")
                       and any(show(strip(a)) == xt for a in nd[3]) for nd in walk(cnd)):
                    ok = "finiteness test"
                ss = prog.live_succs(f, f.blocks[d])
                if len(ss) != 2:
                    continue
                for idx, s_ in enumerate(ss):
                    if s_ is None:
                        continue
                    for l, op, r in atoms(cnd, idx == 0):
                        for a, b_, o in ((l, r, op), (r, l, SWAP[op])):
                            if show(strip(a)) != xt:
                                continue
                            if not (const_of(b_) is not None or (isinstance(strip(b_), list) and strip(b_) and strip(b_)[0] == "fl")):
                                continue
                            if o in ("<", "<="):
                                # the edge on which X is bounded above: the site must lie behind it
                                if preds.get(s_) == {d} and (s_ == bid or s_ in dom.get(bid, ())):
                                    ok = "behind the edge %s %s %s" % (xt, o, show(b_))
                            if o in (">", ">="):
                                # a clamp: the taken block assigns X and rejoins
                                blk = f.blocks[s_]
                                if preds.get(s_) == {d} and any(e[0] == "A" and e[1][1] == "=" and show(strip(e[1][2])) == xt for e in blk["e"]):
                                    ok = "clamped behind %s %s %s" % (xt, o, show(b_))
            if ok:
                res.sample({"site": "%s %s: %s" % (short_loc(c[4]), f.name, show(c)[:50]), "verdict": ok}, limit=6)
            else:
                res.violations.append(Violation(rule, "%s|%s handed to %s unbounded above" % (f.name, xt[:30], norm_callee(callee(c))), f.name, short_loc(c[4]),
                                                "%s: no test dominating the call bounds %s from above (or tests it for finiteness): an infinity - the double solve of an "
                                                "LP with a number beyond the double range produces them - makes GMP raise SIGFPE" % (show(c)[:60], xt)))
    res.counts["set_d_sites_with_a_variable_argument"] = n
    res.floor("GMP set_d calls with a non-constant double", n, floor)
    return res
