"""R-ALPHABET (C07): a selector letter supplied by the caller is stored only after it has been found in the field's alphabet.

Row senses (ILLlpdata::sense) and basis status bytes (ILLlp_basis::cstat / rstat) are small enumerations kept in char arrays; the
rest of the library switches on them and treats the `default` as "cannot happen" (an unknown sense becomes an 'L' row for the
solver while the writers print the letter as it is; an unknown status byte makes the next solve fail, or is taken as "non-basic").
The alphabet of each field is discovered: the character constants the program itself stores into it.  Every store of a value that
comes from outside (a char parameter, an element of a char-array parameter, or of a record handed in by pointer) into such a field
must be dominated by a validator: a rejecting test - in the function itself or in a callee that is called on a dominating path and
receives the source - that compares a value of the same source against all letters of the alphabet but at most one (equality
chain or switch labels).  ILLlib_chgsense is the model (`!= 'R' && != 'E' && != 'G' && != 'L'` in its validation pass)."""
import collections

from ..core import walk, strip, is_var, callee, const_of, apath, fields_of, show, short_loc, dominators
from ..result import RuleResult, Violation
from ..effects import Effects
from .inval import api_functions
from .atomic import input_names

FIELDS = ("ILLlpdata::sense", "ILLlp_basis::cstat", "ILLlp_basis::rstat")


def _fld(t):
    p = apath(t)
    fl = fields_of(p[2])
    if fl and "[]" in p[2]:
        for F in FIELDS:
            if fl[-1].endswith(F):
                return F
    return None


_DOM = {}
_PROG = [None]


def _source(f, t, depth=0, at=None):
    """external source of a value: ('param', name) for a char parameter / an element of a char* parameter / of a record parameter's
    char array; None for constants, locals computed here, other fields"""
    t = strip(t)
    if is_var(t) and isinstance(t[1], str) and t[1].startswith("p"):
        return t[2]
    p = apath(t)
    if p[0].startswith("p") and "[]" in p[2]:
        return p[1]
    if is_var(t, kind="l") and depth < 2:
        # a local copy of one element (`st = cstat[i]; if (st != ..)`): the assignment that reaches the use - all assignments when they
        # agree, otherwise the closest one that dominates the block of the use
        defs = []
        for b, i, e in f.elements(live_only=False):
            rs = []
            if e[0] == "A" and e[1][1] == "=" and is_var(e[1][2], name=t[2], kind="l"):
                rs.append(e[1][3])
            elif e[0] == "D":
                rs += [init for n, init in e[1] if n == t[2] and init is not None]
            for r in rs:
                defs.append((b["id"], _source(f, r, depth + 1)))
        srcs = {x[1] for x in defs}
        if len(srcs) == 1 and None not in srcs:
            return list(srcs)[0]
        if at is not None and defs:
            dom = _DOM.get(id(f))
            if dom is None:
                dom = _DOM.setdefault(id(f), dominators(_PROG[0], f)[0])
            cands = [(db, sx) for (db, sx) in defs if db == at or db in dom.get(at, ())]
            if cands:
                # the closest dominating definition: the one dominated by all the others
                best = [c_ for c_ in cands if all(o[0] == c_[0] or o[0] in dom.get(c_[0], ()) for o in cands)]
                if best:
                    return best[-1][1]
    if p[0] == "l" and "[]" in p[2]:
        # local alias of a parameter
        for b, i, e in f.elements(live_only=False):
            srcs = []
            if e[0] == "A" and e[1][1] == "=" and is_var(e[1][2], name=p[1], kind="l"):
                srcs.append(e[1][3])
            elif e[0] == "D":
                srcs += [init for n, init in e[1] if n == p[1] and init is not None]
            for s_ in srcs:
                q = apath(s_)
                if q[0].startswith("p"):
                    return q[1]
    return None


def _compared_constants(cond, pred):
    """constants that a value satisfying pred is compared with (==, !=) inside cond"""
    out = set()
    for nd in walk(cond):
        if isinstance(nd, list) and nd and nd[0] == "b" and nd[1] in ("==", "!="):
            for a, b in ((nd[2], nd[3]), (nd[3], nd[2])):
                c = const_of(b)
                if c is not None and pred(a):
                    out.add(c)
    return out


def _validators(prog, f, src_pred, alphabet, depth=0):
    """blocks of f whose condition (or switch) tests a value of the source against >= |alphabet| - 1 letters"""
    out = set()
    need = max(1, len(alphabet) - 1)
    for bid in f.live:
        b = f.blocks[bid]
        c = b.get("c")
        if c is None:
            continue
        if b.get("t") == "SwitchStmt":
            if src_pred(c):
                labs = {f.blocks[s]["l"][1] for s in prog.live_succs(f, b) if s is not None and f.blocks[s].get("l", [""])[0] == "case"}
                if len(labs & alphabet) >= need:
                    out.add(bid)
            continue
    # equality chains are usually split over several condition blocks (&& / ||): accumulate per dominating chain
    return out


def run(prog, E=None, rule="R-ALPHABET", floor=3):
    res = RuleResult(rule, "every store of a caller-supplied character into a row-sense or basis-status array is dominated by a rejecting test of "
                           "that value against the field's alphabet (all letters but at most one)")
    funcs = [f for f in prog.funcs.values() if f.live is not None and "_dbl." not in f.unit and "_mpf." not in f.unit and f.unit.startswith("qsopt_ex/")]
    _PROG[0] = prog
    _DOM.clear()
    # 1. alphabets
    alpha = collections.defaultdict(set)
    for f in funcs:
        for b, i, e in f.elements():
            if e[0] == "A" and e[1][1] == "=":
                F = _fld(e[1][2])
                c = const_of(e[1][3])
                if F and c is not None:
                    alpha[F].add(c)
    res.counts["alphabets"] = {F.split("::")[1]: sorted(v) for F, v in alpha.items()}
    # 2. which functions validate which of their parameters (by name) against which alphabet: the union of the constants a value of
    #    the parameter is compared with in conditions of the function
    def param_tests(f):
        out = collections.defaultdict(set)
        for bid in f.live:
            b = f.blocks[bid]
            c = b.get("c")
            if c is None:
                continue
            if b.get("t") == "SwitchStmt":
                s_ = _source(f, c)
                if s_:
                    for s in prog.live_succs(f, b):
                        if s is not None and f.blocks[s].get("l", [""])[0] == "case":
                            out[s_].add(f.blocks[s]["l"][1])
                continue
            for nd in walk(c):
                if isinstance(nd, list) and nd and nd[0] == "b" and nd[1] in ("==", "!="):
                    for a, b_ in ((nd[2], nd[3]), (nd[3], nd[2])):
                        cv = const_of(b_)
                        s_ = _source(f, a, at=bid)
                        if cv is not None and s_:
                            out[s_].add(cv)
        return out
    PT = {f.key: param_tests(f) for f in funcs}
    # a validator may delegate: tests made by a callee on an argument rooted at the parameter count for the parameter
    changed, rounds = True, 0
    while changed and rounds < 5:
        changed = False
        rounds += 1
        for f in funcs:
            for b, i, c in f.calls():
                g = prog.resolve(f, c[1]) if c[1] else None
                if g is None or g.key not in PT:
                    continue
                for k, a in enumerate(c[3]):
                    if k >= len(g.params):
                        continue
                    root = apath(strip(a))
                    if not (isinstance(root[0], str) and root[0].startswith("p")):
                        continue
                    add = PT[g.key].get(g.params[k][0], set()) - PT[f.key].get(root[1], set())
                    if add:
                        PT[f.key][root[1]] |= add
                        changed = True
    # only values that reach the function from the public API (taint from the API boundary: char / char* / QSbasis* arguments)
    apis = {f.key: (f, pidx) for f, pidx in api_functions(prog, "mpq_")}
    T, names = input_names(prog, apis, E or Effects(prog))
    nst = 0
    for f in sorted(funcs, key=lambda x: x.key):
        stores = []
        for b, i, e in f.elements():
            if e[0] == "A" and e[1][1] == "=":
                F = _fld(e[1][2])
                if F and const_of(e[1][3]) is None:
                    s_ = _source(f, e[1][3])
                    if s_ and s_ in names.get(f.key, ()):
                        stores.append((b["id"], i, e, F, s_))
        # the same copy written as a block copy: memcpy (X->cstat, src, n)
        for b, i, c in f.calls():
            if (callee(c) or "") in ("memcpy", "memmove") and len(c[3]) >= 2:
                pd = apath(c[3][0])
                fl = fields_of(pd[2])
                F = None
                for F_ in FIELDS:
                    if fl and fl[-1].endswith(F_):
                        F = F_
                ps = apath(c[3][1])
                src = ps[1] if (isinstance(ps[0], str) and ps[0].startswith("p")) else None
                if src is None and ps[0] == "l":
                    src = _source(f, ["i", strip(c[3][1]), ["n", 0, ""]])
                if F and src and src in names.get(f.key, ()):
                    stores.append((b["id"], i, ["C", ["a", "=", c[3][0], c[3][1]], c[4]], F, src))
        if not stores:
            continue
        dom, succ = dominators(prog, f)
        for (bid, i, e, F, src) in stores:
            A = alpha.get(F, set())
            if len(A) < 2:
                continue
            nst += 1
            res.obligations += 1
            res.nontrivial += 1
            need = len(A) - 1
            # (a) tests in this function: a short-circuit chain (v != 'L' && v != 'E' && ...) is split over several condition blocks of
            #     which only the first dominates the store; the chain is the set of condition blocks on the same source that can reach the
            #     store, and it counts when its head dominates the store
            seen = set()
            reach = _reaching(succ, bid)
            head_dominates = False
            for d in f.live:
                if d == bid or d not in reach:
                    continue
                c = f.blocks[d].get("c")
                if c is None:
                    continue
                got = set()
                if f.blocks[d].get("t") == "SwitchStmt":
                    if _source(f, c) == src:
                        got = {f.blocks[s]["l"][1] for s in prog.live_succs(f, f.blocks[d]) if s is not None and f.blocks[s].get("l", [""])[0] == "case"}
                else:
                    for nd in walk(c):
                        if isinstance(nd, list) and nd and nd[0] == "b" and nd[1] in ("==", "!="):
                            for a, b_ in ((nd[2], nd[3]), (nd[3], nd[2])):
                                cv = const_of(b_)
                                if cv is not None and _source(f, a, at=d) == src:
                                    got.add(cv)
                if got:
                    seen |= got
                    if d in dom.get(bid, ()):
                        head_dominates = True
            if not head_dominates:
                seen = set()
            how = None
            if len(seen & A) >= need:
                how = "tested here against %d of %d letters" % (len(seen & A), len(A))
            # (b) a callee on a dominating path that receives the source and tests it
            if how is None:
                for b2, i2, c in f.calls():
                    if not (b2["id"] in dom.get(bid, ()) and (b2["id"] != bid or i2 < i)):
                        continue
                    g = prog.resolve(f, c[1]) if c[1] else None
                    if g is None or g.key not in PT:
                        continue
                    for k, a in enumerate(c[3]):
                        a0 = strip(a)
                        root = apath(a0)
                        if root[1] != src or k >= len(g.params):
                            continue
                        got = PT[g.key].get(g.params[k][0], set())
                        if len(got & A) >= need:
                            how = "validated by %s" % g.name
            if how:
                res.sample({"site": "%s %s: %s" % (short_loc(e[2]), f.name, show(e[1])[:60]), "verdict": how}, limit=10)
                continue
            res.violations.append(Violation(rule, "%s|%s stored into %s without a test against its alphabet" % (f.name.replace("mpq_", ""), show(e[1][3])[:30], F.split("::")[1]),
                                            f.name, short_loc(e[2]),
                                            "%s stores a value supplied by the caller (%s) into %s; the program itself only ever stores {%s} there, and no test of the "
                                            "value against these letters (in the function or in a callee that receives %s before) dominates the store (letters found tested: %s)" % (
                                                show(e[1])[:70], src, F.split("::")[1], ", ".join(_chr(x) for x in sorted(A)), src,
                                                ", ".join(_chr(x) for x in sorted(seen & A)) or "none")))
    res.counts["stores_of_external_letters"] = nst
    res.floor("stores of caller-supplied letters into sense / status arrays", nst, floor)
    return res


def _reaching(succ, target):
    """blocks from which target is reachable"""
    preds = collections.defaultdict(set)
    for a, ss in succ.items():
        for x in ss:
            preds[x].add(a)
    seen, wl = set(), [target]
    while wl:
        x = wl.pop()
        for p_ in preds[x]:
            if p_ not in seen:
                seen.add(p_)
                wl.append(p_)
    return seen


def _chr(x):
    return ("'%s'" % chr(x)) if 32 < x < 127 else str(x)


def run_narrow(prog, rule="R-NARROW", floor=3):
    """an int selector is examined before it is narrowed.  The public functions take selector letters as `int`; the batch routines
    they delegate to take `char`.  A store of an int parameter into char storage (a char local, an element of a char array) keeps the
    low byte only, so every validator behind it sees a legal letter for 'E' + 256: the store must be dominated by a comparison of the
    int parameter itself with a constant (the rejecting test of the wide value)."""
    res = RuleResult(rule, "every store of an int parameter of a public function into char storage is dominated by a comparison of the int "
                           "parameter itself with a constant")
    n = 0
    for f, pidx in api_functions(prog, "mpq_"):
        if f.live is None:
            continue
        stores = []
        for b, i, e in f.elements():
            if e[0] != "A" or e[1][1] != "=":
                continue
            r = strip(e[1][3])
            if not (is_var(r) and isinstance(r[1], str) and r[1].startswith("p")):
                continue
            k = int(r[1][1:])
            if k >= len(f.params) or f.params[k][1].strip() != "int":
                continue
            l = strip(e[1][2])
            lt = None
            if is_var(l):
                lt = f.var_type(l)
            elif isinstance(l, list) and l and l[0] == "i" and is_var(l[1]):
                lt = f.var_type(l[1])
            if lt is None or not lt.replace("const ", "").strip().startswith("char") or "*" in lt and not is_var(l) and False:
                continue
            if lt.strip().startswith("char *") and is_var(l):
                continue
            stores.append((b["id"], i, e, r[2]))
        if not stores:
            continue
        dom, succ = dominators(prog, f)
        for (bid, i, e, pname) in stores:
            n += 1
            res.obligations += 1
            res.nontrivial += 1
            ok = False
            for d in f.live:
                if d == bid or d not in dom.get(bid, ()):
                    continue
                c = f.blocks[d].get("c")
                if c is None:
                    continue
                if f.blocks[d].get("t") == "SwitchStmt" and is_var(c, name=pname):
                    ok = True
                for nd in walk(c):
                    if isinstance(nd, list) and nd and nd[0] == "b" and nd[1] in ("==", "!=", "<", ">", "<=", ">="):
                        for a, b_ in ((nd[2], nd[3]), (nd[3], nd[2])):
                            if is_var(a, name=pname) and const_of(b_) is not None:
                                ok = True
            if ok:
                res.sample({"site": "%s %s: %s" % (short_loc(e[2]), f.name, show(e[1])[:50]), "verdict": "the int parameter is compared with constants first"}, limit=8)
            else:
                res.violations.append(Violation(rule, "%s|%s narrowed to char unexamined" % (f.name.replace("mpq_", ""), pname), f.name, short_loc(e[2]),
                                                "%s stores the int parameter %s into char storage and no comparison of %s itself with a constant dominates the store: "
                                                "the validators behind it see the low byte only ('E' + 256 passes for 'E')" % (show(e[1])[:60], pname, pname)))
    res.counts["narrowing_stores_of_int_parameters"] = n
    res.floor("narrowing stores of int parameters in public functions", n, floor)
    return res
