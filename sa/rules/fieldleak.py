"""R-FIELDLEAK (C18): an owning field is not overwritten with a new block while it may still hold the old one.

Owning fields are discovered (the field paths some function of the library releases through a pointer to the record: R-STRUCTFREE's
set).  A store of a fresh block (`X->F = <allocation>`, or a local that only ever holds allocations) into such a field must be
preceded, on every path from the function entry (path-sensitive dataflow), by one of: a release of X->F, a store of NULL into X->F,
a successful NULL test of X->F, the creation / initialisation of the record X in the same function, or the new value must be derived
from the old one (a realloc of X->F).  Otherwise the only pointer to the old block is lost each time the function runs on a record
that already holds one - a leak that grows with the length of the edit history (the string pool of the symbol table, compacted every
few dozen deletions, is the model case)."""
import collections

from ..core import walk, strip, is_var, callee, const_of, apath, fields_of, show, short_loc, Flow
from ..cond import atoms, SWAP
from ..effects import Effects
from ..result import RuleResult, Violation
from .copy import owning_fields
from .staleptr import _alloc_value, _assignments

FREE_WORDS = ("free", "Free")
INIT_WORDS = ("_init", "_create", "Init", "_alloc", "_new", "_clear")


def _field_expr(t):
    """(field name, base text) when t is X->F (a member access chain ending in a field)"""
    t = strip(t)
    if isinstance(t, list) and t and t[0] == "m":
        return t[2], show(t[1])
    return None, None


def run(prog, E=None, rule="R-FIELDLEAK", floor=40):
    E = E or Effects(prog)
    res = RuleResult(rule, "a fresh block is stored into an owning field only where the field has been released, is known NULL, belongs to a record created "
                           "in the same function, or the new block is a re-allocation of the old one")
    own = owning_fields(prog, E)
    owning = set()
    for rec, fps in own.items():
        for fp in fps:
            if len(fp) == 1:
                owning.add(fp[0])
    res.counts["owning_fields"] = len(owning)
    nstore = 0
    for f in sorted(prog.funcs.values(), key=lambda x: x.key):
        if f.live is None or "_dbl." in f.unit or "_mpf." in f.unit or not f.unit.startswith("qsopt_ex/"):
            continue
        asg = _assignments(f)
        stores = {}
        mixed_locals = {}
        for b, i, e in f.elements():
            if e[0] != "A" or e[1][1] != "=":
                continue
            fld, base = _field_expr(e[1][2])
            if fld is None or fld not in owning:
                continue
            rhs = e[1][3]
            if const_of(rhs) == 0 or not _alloc_value(f, asg, rhs):
                continue
            # the new block is derived from the old one (realloc (X->F, ...)): the allocator takes care of the old block
            if any(isinstance(nd, list) and nd and nd[0] == "m" and nd[2] == fld for nd in walk(rhs)):
                continue
            r0 = strip(rhs)
            viaLocal = None
            if is_var(r0, kind="l") and any(any(isinstance(nd, list) and nd and nd[0] == "m" and nd[2] == fld for nd in walk(r)) for r in asg.get(r0[2], [])):
                # the local holds, on some paths, a re-allocation of the old block: which of its values reaches the store is followed in the
                # dataflow below (fresh on one branch, realloc (X->F) on the other)
                viaLocal = r0[2]
                mixed_locals.setdefault(viaLocal, fld)
            stores[(b["id"], i)] = (fld, base, e, viaLocal)
        if not stores:
            continue
        nstore += len(stores)
        fields = {v[0] for v in stores.values()}
        stores_full = dict(stores)
        stores = {k_: v[:3] for k_, v in stores_full.items()}
        # records created here: locals assigned an allocation, or whose address is taken (stack records)
        fresh_bases = set()
        for n, rs in asg.items():
            if any(const_of(r) != 0 and _alloc_value(f, asg, r) for r in rs):
                fresh_bases.add(n)
        bad = {}

        def clears(e, st_clean):
            """fields (fld, base) made safe by the element"""
            out = set()
            if e[0] == "C":
                n = callee(e[1]) or ""
                if any(w in n for w in FREE_WORDS):
                    for a in e[1][3]:
                        for nd in walk(a):
                            fl, bs = _field_expr(nd) if isinstance(nd, list) and nd and nd[0] == "m" else (None, None)
                            if fl in fields:
                                out.add((fl, bs))
                elif any(w in n for w in INIT_WORDS) or True:
                    # a callee that (transitively) stores into the field through the record handed in: an init / free / reset routine
                    g = prog.resolve(f, e[1][1]) if e[1][1] else None
                    if g is not None:
                        for k, a in enumerate(e[1][3]):
                            for (kk, fp) in E.W.get(g.key, ()):
                                if kk == k and fp and fp[-1] in fields and len(fp) == 1:
                                    a0 = strip(a)
                                    bs = show(a0[2]) if isinstance(a0, list) and a0 and a0[0] == "u" and a0[1] == "&" else show(a0)
                                    out.add((fp[-1], bs))
            if e[0] == "A" and e[1][1] == "=":
                fl, bs = _field_expr(e[1][2])
                if fl in fields and const_of(e[1][3]) == 0:
                    out.add((fl, bs))
            return out

        def held_by(e):
            """fields whose block the element reads or writes through (X->F[i], *X->F, X->F + k handed to a copy routine): the field
            holds a block on this path"""
            out = set()
            trees = [x[1] for x in e[1] if x[1] is not None] if e[0] == "D" else ([e[1]] if e[1] is not None else [])
            for t in trees:
                for nd in walk(t):
                    if not isinstance(nd, list) or not nd:
                        continue
                    inner = None
                    if nd[0] == "i":
                        inner = nd[1]
                    elif nd[0] == "u" and nd[1] == "*":
                        inner = nd[2]
                    if inner is not None:
                        for m in walk(inner):
                            fl, bs = _field_expr(m) if isinstance(m, list) and m and m[0] == "m" else (None, None)
                            if fl in fields:
                                out.add((fl, bs))
                    # X->F (+ offset) handed to a routine that reads / writes the block (strlen, memcpy, a library helper)
                    if nd[0] == "c" and not any(w in (callee(nd) or "") for w in FREE_WORDS) and not (callee(nd) or "").startswith("QSlog"):
                        for a in nd[3]:
                            a0 = strip(a)
                            if isinstance(a0, list) and a0 and a0[0] == "b" and a0[1] in ("+", "-"):
                                a0 = strip(a0[2])
                            fl, bs = _field_expr(a0)
                            if fl in fields and "*" in (f.var_type(a0) or "*"):
                                out.add((fl, bs))
            return out

        def xfer(b, i, e, st):
            key = (b["id"], i)
            c = clears(e, st)
            ns = (set(st) - c) | (held_by(e) - c)
            if e[0] == "A" and e[1][1] == "=" and is_var(e[1][2], kind="l") and strip(e[1][2])[2] in mixed_locals:
                L = strip(e[1][2])[2]
                fresh = const_of(e[1][3]) != 0 and _alloc_value(f, {}, e[1][3]) and not any(
                    isinstance(nd, list) and nd and nd[0] == "m" and nd[2] == mixed_locals[L] for nd in walk(e[1][3]))
                ns.discard(("fresh", L))
                if fresh:
                    ns.add(("fresh", L))
            if key in stores:
                fld, base, el = stores[key]
                via = stores_full[key][3]
                if (fld, base) in st and (fld, base) not in c and (via is None or ("fresh", via) in st):
                    bad.setdefault(key, (b["id"], st))
                ns.discard((fld, base))          # the field holds the new block now: nothing is known to be pending
            if e[0] == "A" and is_var(e[1][2]):
                # the base variable is re-pointed: facts about its fields are void
                nm = strip(e[1][2])[2]
                ns = {x for x in ns if x[0] == "fresh" or not (x[1] == nm or x[1].startswith(nm + "->"))}
            return [frozenset(ns)] if ns != set(st) else None

        def refine(cond, truth, st):
            ns = set(st)
            for l, op, r in atoms(cond, truth):
                for a, b_, o in ((l, r, op), (r, l, SWAP[op])):
                    fl, bs = _field_expr(a)
                    if fl in fields and const_of(b_) == 0 and o == "==":
                        ns.discard((fl, bs))
            return [frozenset(ns)] if ns != set(st) else None
        flw = Flow(prog, f, [frozenset()], xfer, refine, max_visits=300000).run()
        for key, (fld, base, e) in sorted(stores.items()):
            res.obligations += 1
            res.nontrivial += 1
            if key in bad:
                bid, st = bad[key]
                res.violations.append(Violation(rule, "%s|%s overwritten while it may hold a block" % (f.name.replace("mpq_", ""), fld.split("::")[1]), f.name, short_loc(e[2]),
                                                "%s stores a fresh block into the owning field %s on a path on which the function has used the block the field holds (so it "
                                                "holds one) and has neither released it nor handed it on: the old block is lost" % (show(e[1])[:80], fld.split("::")[1]),
                                                path=flw.witness(bid, st)))
            else:
                res.sample({"site": "%s %s: %s" % (short_loc(e[2]), f.name, show(e[1])[:60]), "verdict": "old block released / field NULL / record fresh on every path"}, limit=8)
    res.counts["stores_of_fresh_blocks_into_owning_fields"] = nstore
    res.floor("stores of fresh blocks into owning fields", nstore, floor)
    return res

