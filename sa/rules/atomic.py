"""R-ATOMIC (C07): a call rejected because of its arguments has written nothing.

For every function reachable from the public API that receives externally supplied indices / selectors /
names: on no path does a write to LP-defining data, to the problem's basis or to its cached solution precede
(a) a failure statement (rval = <non-zero constant> / return <non-zero constant>) that is control dependent
on a condition over those inputs, or (b) a call to a function that itself can reject its arguments."""
import collections

from ..core import (strip, is_var, callee, const_of, apath, fields_of, show, short_loc, Flow, walk)
from ..cond import atoms
from ..intstate import Z, NZ, norm_local
from ..effects import Effects
from ..result import RuleResult, Violation
from .inval import api_functions, base, D_ALL

LAZY = {"ILLsymboltab::the_hash", "ILLsymboltab::the_index", "ILLsymboltab::the_prev_index", "ILLsymboltab::index_ok",
        "ILLsymbolent::index"}
LAZY_REASON = "lazy index maintenance of the symbol tables inside a lookup: derived indices, not observable through the query API"
LAZY_CALLS = {"ILLsymboltab_create": "lazy creation of an empty symbol table: a missing and an empty table are observably the same",
              "ILLlib_findName": "completes / generates the name in the caller's buffer; its only writes into the symbol tables are the lazy creation "
                                 "of an empty table and the bookkeeping of a lookup"}
EXCEPT_WRITES = {("ILLlib_chgrange", "rangeval"): "allocates the all-zero range array before checking the row's sense; a missing and an all-zero "
                                                 "array are observably the same (ILLlib_getrows reports range 0 for both)"}
EXEMPT_FUNCS = {"ILLlib_strongbranch": "strong branching edits bounds temporarily and restores them; QSopt_strongbranch resets the status itself",
                "QSexact_verify": "verdict function: installing the supplied basis in the problem is its contract (it evaluates that basis); "
                                  "the second evaluation re-loads the basis the first one already accepted",
                "QSexact_solver": "the only writes before its failure exits are the debug dump of the problem (DEBUG >= __QS_SB_VERB)"}
# callees that can fail after having applied part of their batch (the R-ATOMIC known findings): an invalidation behind their failure is
# a consequence of that finding, not a second violation
HALF_APPLIED = ("ILLlib_addrows", "ILLlib_addcols")
LOOKUPS = ("symboltab_lookup", "symboltab_getindex", "ILLlib_colindex", "ILLlib_rowindex", "symboltab_contains", "ILLutil_index",
           "symboltab_register")
# routines that copy / complete an external name into a buffer argument: the buffer carries the name
NAMECOPY = ("ILLlib_findName",)


def strip_prefix(rec):
    for pre in ("mpq_", "dbl_", "mpf_"):
        if rec.startswith(pre):
            return rec[len(pre):]
    return rec


def observable_write(fp):
    """is the composed field path a write to observable problem state? returns a short description or None"""
    if not fp:
        return None
    last = fp[-1]
    r, f = last.split("::")
    if strip_prefix(r) + "::" + f in LAZY:
        return None
    for s in fp:
        rec, fld = s.split("::")
        rec = strip_prefix(rec)
        if rec == "ILLlpdata":
            return ("LP data (%s)" % fld) if fld in D_ALL else None
        if rec == "ILLlp_basis" and fld in ("cstat", "rstat", "nstruct", "nrows"):
            return "basis (%s)" % fld
        if rec == "ILLlp_cache":
            return "cached solution (%s)" % fld
        if rec == "qsdata" and fld in ("basis", "cache", "qstatus"):
            # replacing / freeing the basis or cache object itself
            if s == fp[-1]:
                return "problem's %s pointer/status" % fld
    return None


def input_names(prog, apis, E=None):
    """flow-insensitive: per function the names (params and their local copies) that carry externally supplied
    indices, selectors, names (int / char scalars and arrays, const char* names) from the API boundary"""
    T = collections.defaultdict(set)
    names = collections.defaultdict(set)
    wl = []

    def is_input_type(t):
        t = t.replace("const ", "").replace("restrict", "").strip()
        return t in ("int", "char", "int *", "char *", "char **", "int *const", "char *const", "QSbasis *", "struct qsbasis *")
    def is_out_param(f, i):
        # a pointer parameter the function writes through is a result, not an input
        if E is None or "*" not in f.params[i][2]:
            return False
        return any(k2 == i and not fp for (k2, fp) in E.W.get(f.key, ()))
    for k, (f, pidx) in apis.items():
        for i, p in enumerate(f.params):
            if is_input_type(p[2]) and not is_out_param(f, i):
                T[k].add(i)
        wl.append(k)
    seen_iter = 0
    while wl and seen_iter < 20000:
        seen_iter += 1
        k = wl.pop()
        f = prog.funcs[k]
        nm = {f.params[i][0] for i in T[k] if i < len(f.params)}
        changed = True
        while changed:
            changed = False
            for b, i, e in f.elements():
                pairs = []
                if e[0] == "A" and e[1][1] == "=":
                    pairs.append((e[1][2], e[1][3]))
                elif e[0] == "D":
                    pairs += [(["v", "l", n], init) for n, init in e[1] if init is not None]
                for lhs, rhs in pairs:
                    l = strip(lhs)
                    if not is_var(l) or l[2] in nm:
                        continue
                    r = strip(rhs)
                    src = None
                    if is_var(r):
                        src = r[2]
                    elif isinstance(r, list) and r and r[0] == "i" and is_var(r[1]):
                        src = strip(r[1])[2]
                    elif isinstance(r, list) and r and r[0] == "c" and any(x in (callee(r) or "") for x in LOOKUPS):
                        src = next((strip(a)[2] for a in r[3] if is_var(a) and strip(a)[2] in nm), None)
                    if src in nm:
                        nm.add(l[2])
                        changed = True
                if e[0] == "C" and any(x in (callee(e[1]) or "") for x in NAMECOPY):
                    if any(is_var(a) and strip(a)[2] in nm for a in e[1][3]):
                        for a in e[1][3]:
                            a = strip(a)
                            if is_var(a, kind="l") and a[2] not in nm and "char" in (f.ltypes.get(a[2]) or ""):
                                nm.add(a[2])
                                changed = True
                if e[0] == "C" and any(x in (callee(e[1]) or "") for x in LOOKUPS):
                    # out-parameters of lookups of an external name carry the (in)validity of that name
                    if any(is_var(a) and strip(a)[2] in nm for a in e[1][3]):
                        for a in e[1][3]:
                            a = strip(a)
                            if isinstance(a, list) and a and a[0] == "u" and a[1] == "&" and is_var(a[2]):
                                if strip(a[2])[2] not in nm:
                                    nm.add(strip(a[2])[2])
                                    changed = True
        names[k] = nm
        for b, i, c in f.calls():
            g = prog.resolve(f, c[1]) if c[1] else None
            if g is None:
                continue
            for pk, a in enumerate(c[3]):
                a = strip(a)
                v = None
                if is_var(a):
                    v = a[2]
                elif isinstance(a, list) and a and a[0] == "i" and is_var(a[1]):
                    v = strip(a[1])[2]
                elif isinstance(a, list) and a and a[0] == "b" and a[1] in ("+", "-") and is_var(a[2]):
                    v = strip(a[2])[2]
                if v in nm and pk < len(g.params) and is_input_type(g.params[pk][2]) and pk not in T[g.key] and not is_out_param(g, pk):
                    T[g.key].add(pk)
                    wl.append(g.key)
    return T, names


def mentions_input(t, nm):
    for n in walk(t):
        if n[0] == "v" and n[2] in nm and (n[1] == "l" or n[1].startswith("p")):
            return True
    return False


def input_mentions(t, nm):
    return frozenset(n[2] for n in walk(t) if n[0] == "v" and n[2] in nm and (n[1] == "l" or n[1].startswith("p")))


class AtomicAnalysis:
    """state (rv, tmp, first_write_or_None, names mentioned by the governing input-dependent condition)

    V = input names that are checked (with a failing branch) before the first observable write on every ... path where
    they are checked at all: a later, redundant rejection that concerns only names in V is discharged
    ("validated before the first write"; the validation pass precedes the apply pass)."""

    def __init__(self, prog, f, nm, mut, canfail_calls):
        self.prog, self.f, self.nm, self.mut, self.cf = prog, f, nm, mut, canfail_calls
        self.fail_sites = set()      # input dependent failure statements (for canfail)
        self.cand = {}               # candidate violations: ident -> (loc, msg, bid, st, names)
        self.V = set()

    def count_guarded(self):
        """blocks that run only behind a condition that mentions a count of the problem (nrows / ncols / nstruct)"""
        if getattr(self, "_cg", None) is None:
            from ..core import dominators
            f = self.f
            dom, succ = dominators(self.prog, f)
            heads = set()
            for bid in f.live:
                c = f.blocks[bid].get("c")
                if c is None:
                    continue
                if any(isinstance(nd, list) and nd and nd[0] == "m" and nd[2].split("::")[1] in ("nrows", "ncols", "nstruct") for nd in walk(c)):
                    for s_ in self.prog.live_succs(f, f.blocks[bid]):
                        if s_ is not None:
                            heads.add(s_)
            # a successor counts when the condition block is its only way in
            preds = {}
            for a_, ss in succ.items():
                for x in ss:
                    preds.setdefault(x, set()).add(a_)
            heads = {h for h in heads if len(preds.get(h, ())) == 1}
            self._cg = {bid for bid in f.live if bid in heads or any(h in dom.get(bid, ()) for h in heads)}
        return self._cg

    def xfer(self, b, i, e, st):
        rv, tmp, wr, inbr = st[:4]
        rej = st[4]
        key = (b["id"], i)
        k = e[0]
        if key in self.mut and rej and any(n in rej for n in HALF_APPLIED) and ("free_cache" in self.mut[key][1] or "cached solution" in self.mut[key][1]
                                                                                or "status" in self.mut[key][1]) and b["id"] in self.count_guarded():
            # the batch routine has changed the problem (known findings) - the invalidation sits behind a test of a count of the problem, so it
            # runs only when part of the batch went in: dropping the cache there is required (R-INVALPART), behind a batch rejected as a
            # whole it would be a state change of a rejected call
            pass
        elif key in self.mut and rej:
            self.cand.setdefault(("late", key), (e[2], "%s is written after the arguments were already rejected (%s), before the function returns the error" % (
                self.mut[key][1], rej), b["id"], st, frozenset()))
        res = self._xfer(b, i, e, (rv, tmp, wr, inbr))
        out = []
        for s in res:
            r2 = rej
            nrv, ntmp = s[0], s[1]
            # return-code correlation
            if k == "A":
                lhs = strip(e[1][2])
                if is_var(lhs) and e[1][1] == "=":
                    nm_ = norm_local(lhs[2])
                    rhs = strip(e[1][3])
                    vals = None
                    if nm_ in ("rval", "__EGrval__", "__RVAL__"):
                        c = const_of(rhs)
                        if c is not None:
                            vals = [NZ if c else Z]
                        elif is_var(rhs) and norm_local(rhs[2]) == "rval":
                            vals = [rv]
                        elif is_var(rhs) and norm_local(rhs[2]) in ("__EGrval__", "__RVAL__"):
                            vals = [tmp]
                        else:
                            vals = [Z, NZ]
                        for v in vals:
                            r3 = r2
                            if v == NZ and isinstance(rhs, list) and rhs and rhs[0] == "c":
                                ck = self.call_keys.get((rhs[4], callee(rhs), show(rhs)))
                                if ck in self.cf:
                                    r3 = "%s returned an error" % callee(rhs)
                            if v == Z and not (is_var(rhs)):
                                pass
                            if nm_ == "rval":
                                out.append((v, ntmp, s[2], s[3], r3))
                            else:
                                out.append((nrv, v, s[2], s[3], r3))
                        continue
            if k == "D":
                for name, init in e[1]:
                    nm_ = norm_local(name)
                    if nm_ in ("__EGrval__", "__RVAL__") and init is not None:
                        rhs = strip(init)
                        if is_var(rhs) and norm_local(rhs[2]) == "rval":
                            ntmp = rv
                        elif const_of(rhs) is not None:
                            ntmp = NZ if const_of(rhs) else Z
                        elif isinstance(rhs, list) and rhs and rhs[0] == "c":
                            ck = self.call_keys.get((rhs[4], callee(rhs), show(rhs)))
                            out.append((nrv, Z, s[2], s[3], r2))
                            out.append((nrv, NZ, s[2], s[3], ("%s returned an error" % callee(rhs)) if ck in self.cf else r2))
                            ntmp = None
                            break
                if ntmp is None:
                    continue
            out.append((nrv, ntmp, s[2], s[3], r2))
        return out

    def _xfer(self, b, i, e, st):
        rv, tmp, wr, inbr = st
        key = (b["id"], i)
        k = e[0]
        out = [st]
        if k == "C" and key in self.cf and wr:
            names = frozenset().union(*[input_mentions(a, self.nm) for a in e[1][3]]) if e[1][3] else frozenset()
            self.cand.setdefault(("call", key), (e[2], "%s may reject its arguments after %s has already been written (%s)" % (
                callee(e[1]), wr[1], wr[0]), b["id"], st, names))
        if key in self.mut and not wr:
            out = [(rv, tmp, (short_loc(self.mut[key][0]), self.mut[key][1]), inbr)]
            st = out[0]
            wr = st[2]
        fail = None
        if k == "A":
            lhs = strip(e[1][2])
            if is_var(lhs) and norm_local(lhs[2]) == "rval" and e[1][1] == "=":
                c = const_of(e[1][3])
                if c is not None and c != 0 and inbr:
                    fail = show(e[1])
        elif k == "R" and e[1] is not None:
            c = const_of(e[1])
            if c is not None and c != 0 and inbr:
                fail = "return " + show(e[1])
        if fail:
            self.last_fail = fail
            self.fail_sites.add(e[2])
            if wr:
                self.cand.setdefault(("stmt", e[2]), (e[2], "argument check fails (%s) after %s has already been written (%s)" % (
                    fail, wr[1], wr[0]), b["id"], st, inbr))
            elif not self._in_writing_loop(b["id"]):
                # a validation that sits in the same loop as the writes is not a validation pass: its first iteration fails before any
                # write, a later one after the earlier elements were applied
                self.V |= set(inbr)
        return out

    def _in_writing_loop(self, bid):
        """the failing statement is reached from inside a loop that also contains a write (the failing block itself has left the loop:
        it is found through its predecessors)"""
        if getattr(self, "_wloops", None) is None:
            from .certdep import natural_loops
            loops, dom, succ = natural_loops(self.prog, self.f)
            mut_blocks = {k[0] for k in self.mut}
            self._wloops = [body for h, body in loops.items() if body & mut_blocks]
            self._preds = {}
            for a, ss in succ.items():
                for s_ in ss:
                    self._preds.setdefault(s_, set()).add(a)
            self._allloops = set().union(*loops.values()) if loops else set()
        seen, wl = {bid}, [bid]
        while wl:
            x = wl.pop()
            if any(x in body for body in self._wloops):
                return True
            if x in self._allloops:
                continue              # inside some other loop: that loop is the context
            for p_ in self._preds.get(x, ()):
                if p_ not in seen:
                    seen.add(p_)
                    wl.append(p_)
        return False

    def refine(self, cond, truth, st):
        from ..cond import atoms as _atoms, SWAP as _SWAP
        for l, op, r in _atoms(cond, truth):
            for a, b_, o in ((l, r, op), (r, l, _SWAP[op])):
                if is_var(a) and const_of(b_) == 0 and o in ("==", "!="):
                    nm_ = norm_local(strip(a)[2])
                    cur = st[0] if nm_ == "rval" else (st[1] if nm_ in ("__EGrval__", "__RVAL__") else None)
                    if cur is not None and ((o == "==" and cur == NZ) or (o == "!=" and cur == Z)):
                        return []
        if self._null_test(cond):
            # a defensive NULL test of a pointer argument is not one of the argument validations C07 speaks about
            # (index, name, selector, basis shape): failing it is no evidence that "the arguments were rejected"
            return [(st[0], st[1], st[2], frozenset(), st[4])]
        return [(st[0], st[1], st[2], input_mentions(cond, self.nm), st[4])]

    def _null_test(self, cond):
        c = strip(cond)
        while isinstance(c, list) and c and c[0] == "u" and c[1] == "!":
            c = strip(c[2])
        if isinstance(c, list) and c and c[0] == "b" and c[1] in ("==", "!=") and const_of(c[3]) == 0:
            c = strip(c[2])
        if is_var(c):
            ty = self.f.var_type(c) or ""
            return "*" in ty
        if isinstance(c, list) and c and c[0] == "m":
            rec, fld = c[2].split("::")
            r = self.prog.records.get(rec)
            if r:
                for fn_, ft, ct in r["fields"]:
                    if fn_ == fld:
                        return "*" in ct
        return False

    def refine_switch(self, cond, value, allv, st):
        return [(st[0], st[1], st[2], input_mentions(cond, self.nm), st[4])]

    def run(self):
        self.call_keys = {}
        for b, i, e in self.f.elements():
            if e[0] == "C":
                self.call_keys[(e[1][4], callee(e[1]), show(e[1]))] = (b["id"], i)
        self.flow = Flow(self.prog, self.f, [(Z, Z, None, frozenset(), None)], self.xfer, self.refine, self.refine_switch, max_visits=300000).run()
        self.viol = {}
        self.discharged = 0
        for ident, (loc, msg, bid, st, names) in self.cand.items():
            if names and names <= self.V:
                self.discharged += 1
                continue
            self.viol[ident] = (loc, msg, bid, st)
        return self


def _dim_locals(f):
    """locals every assignment of which is a dimension count (nrows = qslp->nrows ...)"""
    from .idx import dim_class
    cand = collections.defaultdict(list)
    for b, i, e in f.elements():
        pairs = []
        if e[0] == "A" and is_var(e[1][2], kind="l"):
            pairs.append((strip(e[1][2])[2], e[1][3] if e[1][1] == "=" else None))
        elif e[0] == "D":
            pairs += [(n, init) for n, init in e[1] if init is not None]
        elif e[0] == "U" and is_var(e[1][2], kind="l"):
            pairs.append((strip(e[1][2])[2], None))
        for n, rhs in pairs:
            cand[n].append(rhs is not None and dim_class(rhs) is not None)
    return {n for n, v in cand.items() if v and all(v)}


def _used_results(f):
    """call elements whose return value is assigned, returned or tested (a discarded result cannot fail the caller)"""
    used = set()
    calls = {}
    for b, i, e in f.elements():
        if e[0] == "C":
            calls[(e[1][4], callee(e[1]), show(e[1]))] = (b["id"], i)
    def mark(t):
        for n in walk(t):
            if n[0] == "c":
                k = (n[4], callee(n), show(n))
                if k in calls:
                    used.add(calls[k])
    for b, i, e in f.elements():
        if e[0] == "A":
            mark(e[1][3])
        elif e[0] == "D":
            for n, init in e[1]:
                if init is not None:
                    mark(init)
        elif e[0] == "R" and e[1] is not None:
            mark(e[1])
    for bid in f.live:
        b = f.blocks[bid]
        if "c" in b:
            mark(b["c"])
    return used


def _append_slot(f, bid, idx, dimvars):
    e = f.blocks[bid]["e"][idx]
    # growth of a number array (EGlpNumReallocArray: new storage, the old elements moved, the new ones initialised): storage, not content
    macs = (e[3] if e[0] == "A" and len(e) > 3 else (e[1][5] if e[0] == "C" and len(e[1]) > 5 else [])) or []
    if any(str(m).lstrip("@").endswith("ReallocArray") for m in macs):
        return True
    if e[0] == "A":
        # growth: p->arr = realloc(p->arr, ...) and the self-assignment wrapping it (EGrealloc) move storage, not content
        lp_ = apath(e[1][2])
        rhs = strip(e[1][3])
        if apath(rhs) == lp_ and lp_[2]:
            return True
        if isinstance(rhs, list) and rhs and rhs[0] == "c" and callee(rhs) in ("realloc",) and rhs[3] and apath(rhs[3][0]) == lp_:
            return True
    dst = None
    if e[0] == "A":
        dst = e[1][2]
    elif e[0] == "C" and e[1][3]:
        if callee(e[1]) == "realloc":
            return True
        dst = e[1][3][0]
    if dst is None:
        return False
    from .idx import dim_class
    for n in walk(dst):
        if n[0] == "i":
            ix = strip(n[2])
            if (is_var(ix, kind="l") and ix[2] in dimvars) or dim_class(ix) is not None:
                return True
    return False


def _slot_expr(t, dimvars):
    """t denotes  X->arr[count]: a subscript whose index is the current count of its dimension"""
    from .idx import dim_class
    for n in walk(t):
        if n[0] == "i":
            ix = strip(n[2])
            if (is_var(ix, kind="l") and ix[2] in dimvars) or dim_class(ix) is not None:
                return True
    return False


def run(prog, E=None, prefix="mpq_", rule="R-ATOMIC"):
    E = E or Effects(prog)
    res = RuleResult(rule, "no write to LP data, basis or cached solution precedes an argument-validation failure "
                           "(own failing check or rejecting callee) on any path")
    apis = {f.key: (f, pidx) for f, pidx in api_functions(prog, prefix)}
    T, names = input_names(prog, apis, E)
    reach = prog.reachable(sorted(apis))
    cand = [k for k in T if k in reach and k in prog.funcs and not prog.funcs[k].unit.startswith("esolver/")
            and "_dbl." not in prog.funcs[k].unit and "_mpf." not in prog.funcs[k].unit]
    # order callees first
    order, seen = [], set()

    def dfs(k):
        if k in seen:
            return
        seen.add(k)
        for c in sorted(prog.callees.get(k, ())):
            if c in T:
                dfs(c)
        order.append(k)
    import sys
    sys.setrecursionlimit(10000)
    for k in sorted(cand):
        dfs(k)
    canfail = {}
    results = {}
    for k in order:
        if k not in prog.funcs:
            continue
        f = prog.funcs[k]
        if len(f.blocks) > 1500:
            continue
        mut = {}
        dimvars = _dim_locals(f)
        for ci in E.callinfo[f.key]:
            (g, name, loc, args, bid, idx, c) = ci
            if name and strip_prefix(name) in LAZY_CALLS:
                continue
            if name in ("ILLutil_freerus", "free", "EGfree") and c[3] and _slot_expr(c[3][0], dimvars):
                continue          # releasing the slot just past the current count (a parked block of a rejected append): unobservable
            if name == "ILLsymboltab_register" and len(c[3]) >= 5:
                # the registration writes only when the name is new and says so through its `existed` flag; a caller that tests the flag
                # (R-HITUSED) rejects exactly on the branch on which nothing was written
                a4 = strip(c[3][4])
                if isinstance(a4, list) and a4 and a4[0] == "u" and a4[1] == "&" and is_var(a4[2], kind="l"):
                    hv = strip(a4[2])[2]
                    if any(f.blocks[bx].get("c") is not None and any(is_var(nd, name=hv) for nd in walk(f.blocks[bx]["c"]) if isinstance(nd, list))
                           for bx in f.live):
                        continue
            for (j, fp) in E.call_writes(f, ci):
                d = observable_write(fp)
                if d:
                    mut.setdefault((bid, idx), (loc, "%s via %s" % (d, name or "(*fp)")))
                    break
        for (j, fp, loc, how, bid, idx) in E.direct_writes(f):
            d = observable_write(fp)
            if d:
                if _append_slot(f, bid, idx, dimvars):
                    continue      # write into the slot just past the current count: unobservable until the count is incremented
                fld = fp[-1].split("::")[1] if fp else ""
                if (strip_prefix(f.name), fld) in EXCEPT_WRITES:
                    continue
                mut.setdefault((bid, idx), (loc, d))
        cf = set()
        used = _used_results(f)
        for (g, name, loc, args, bid, idx, c) in E.callinfo[f.key]:
            if g is not None and canfail.get(g.key) and (bid, idx) in used:
                # only when an external input is actually handed to it
                if any(mentions_input(a, names[k]) for a in c[3]):
                    cf.add((bid, idx))
        an = AtomicAnalysis(prog, f, names[k], mut, cf).run()
        results[k] = (an, mut, cf)
        canfail[k] = bool(an.fail_sites) or bool(cf)
    n_ob = 0
    n_dis = [0]
    for k, (an, mut, cf) in sorted(results.items()):
        f = prog.funcs[k]
        n_ob += len(an.fail_sites) + len(cf)
        if strip_prefix(f.name) in EXEMPT_FUNCS:
            if an.viol:
                res.excepted.append((strip_prefix(f.name), EXEMPT_FUNCS[strip_prefix(f.name)]))
            continue
        groups = collections.OrderedDict()
        for (kind, ident), (loc, msg, bid, st) in sorted(an.viol.items(), key=lambda x: str(x[0])):
            tag = msg.split(" after ")[0]
            if kind == "late":
                tag = "observable write after the arguments were rejected"
            groups.setdefault(tag, []).append((loc, msg, bid, st))
        for tag, items in groups.items():
            loc, msg, bid, st = items[0]
            res.violations.append(Violation(rule, "%s|%s" % (base(f.name), tag.replace(prefix, "")), f.name, short_loc(loc),
                                            msg + (" [%d sites]" % len(items) if len(items) > 1 else ""), path=an.flow.witness(bid, st)))
        n_dis[0] += an.discharged
        if not an.viol and (an.fail_sites or cf):
            res.sample({"function": f.name, "input_dependent_failure_sites": len(an.fail_sites), "rejecting_callees": len(cf),
                        "verdict": "no observable write precedes a rejection"}, limit=8)
    res.obligations = n_ob
    res.nontrivial = n_ob
    res.counts["functions_analysed"] = len(results)
    res.counts["late_rejections_discharged_by_prevalidation"] = n_dis[0]
    res.counts["functions_that_can_reject_arguments"] = len([k for k in canfail if canfail[k]])
    res.excepted.append(("symbol-table lookups", LAZY_REASON))
    for kx, vx in LAZY_CALLS.items():
        res.excepted.append((kx, vx))
    for kx, vx in EXCEPT_WRITES.items():
        res.excepted.append(("%s: %s" % kx, vx))
    res.floor("functions that can reject their arguments", res.counts["functions_that_can_reject_arguments"], 40)
    return res
