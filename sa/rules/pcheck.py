"""R-PCHECK (C07): a public function looks into its problem handle only after the handle check.

Every function of the public API that takes the problem (`QSdata *`) starts with `rval = check_qsdata_pointer (p)` and leaves when it
fails; the handle check is the library's answer to a NULL or foreign pointer.  For every public function of qsopt.c, every dereference
of the problem parameter (`p->f`) is dominated by a call of the checker on that parameter whose result is tested (or by a NULL test of
the parameter itself).  The sibling majority defines the rule; the minority (QSget_basis was one) crashes on a NULL handle where its
neighbours return an error."""
from ..core import walk, strip, is_var, callee, const_of, show, short_loc, dominators
from ..cond import atoms, SWAP
from ..result import RuleResult, Violation
from .inval import api_functions, base


def run(prog, prefix="mpq_", rule="R-PCHECK", floor=60):
    res = RuleResult(rule, "in every public function the problem parameter is dereferenced only behind check_qsdata_pointer (p) or a NULL test of it")
    n = 0
    for f, pidx in api_functions(prog, prefix):
        if f.live is None or not f.unit.endswith("qsopt_mpq.c"):
            continue
        pname = f.params[pidx][0]
        derefs = []
        for b, i, e in f.elements():
            trees = [x[1] for x in e[1] if x[1] is not None] if e[0] == "D" else ([e[1]] if e[1] is not None else [])
            for t in trees:
                for nd in walk(t):
                    if isinstance(nd, list) and nd and nd[0] == "m" and len(nd) > 3 and nd[3] == 1 and is_var(nd[1], name=pname) and strip(nd[1])[1] == "p%d" % pidx:
                        derefs.append((b["id"], i, e[2] if len(e) > 2 else f.loc, nd))
        for bid in f.live:
            c = f.blocks[bid].get("c")
            if c is not None:
                for nd in walk(c):
                    if isinstance(nd, list) and nd and nd[0] == "m" and len(nd) > 3 and nd[3] == 1 and is_var(nd[1], name=pname) and strip(nd[1])[1] == "p%d" % pidx:
                        derefs.append((bid, 1 << 20, f.blocks[bid].get("tloc", f.loc), nd))
        if not derefs:
            continue
        n += 1
        res.obligations += 1
        res.nontrivial += 1
        dom, succ = dominators(prog, f)
        guards = []
        for b, i, c in f.calls():
            if (callee(c) or "").endswith("check_qsdata_pointer") and c[3] and is_var(c[3][0], name=pname):
                guards.append((b["id"], i))
        for bid in f.live:
            c = f.blocks[bid].get("c")
            if c is None:
                continue
            ss = prog.live_succs(f, f.blocks[bid])
            if len(ss) != 2:
                continue
            for idx, s_ in enumerate(ss):
                if s_ is None:
                    continue
                for l, op, r in atoms(c, idx == 0):
                    for a, b_, o in ((l, r, op), (r, l, SWAP[op])):
                        if is_var(a, name=pname) and const_of(b_) == 0 and o == "!=":
                            guards.append((s_, -1))
        bad = [d for d in derefs if not any((gb in dom.get(d[0], ()) and gb != d[0]) or (gb == d[0] and gi < d[1]) for (gb, gi) in guards)]
        if bad:
            d = sorted(bad, key=lambda x: str(x[2]))[0]
            res.violations.append(Violation(rule, "%s|%s dereferenced before the handle check" % (base(f.name), pname), f.name, short_loc(d[2]),
                                            "%s is evaluated and no check_qsdata_pointer (%s) / NULL test of %s dominates it: a NULL handle is dereferenced where the "
                                            "neighbouring entry points answer with an error" % (show(d[3])[:40], pname, pname)))
        else:
            res.sample({"function": f.name, "verdict": "handle checked first"}, limit=6)
    res.counts["public_functions_that_dereference_the_problem"] = n
    res.floor("public functions that dereference the problem parameter", n, floor)
    return res
