"""R-DZFRESH (C01): the routine that refreshes the reduced cost of one non-basic column does so for every column it is asked about.

Under partial pricing the reduced costs lp->dz[] are not updated after a pivot; they are recomputed column by column by the pricing
routine (found from the code: a function with an int parameter ix that stores into lpinfo::dz[ix] / pIdz[ix]).  ILLsimplex_solution
hands lp->dz out verbatim as the reduced costs of an OPTIMAL answer.  Must-pass-through: on every path from the entry of such a
routine to a return, a store into dz[ix] or pIdz[ix] is executed - an early return for some variable types leaves the reduced cost
of the starting basis in place (the sibling ILLfct_compute_dz, which recomputes all columns, has no such filter)."""
from ..core import walk, strip, is_var, callee, const_of, apath, fields_of, show, short_loc, Flow
from ..result import RuleResult, Violation

FIELDS = ("lpinfo::dz", "lpinfo::pIdz")


def _dz_store(f, e):
    """the element stores into dz[param] / pIdz[param] (assignment or a number routine writing through its first argument)"""
    tgt = None
    if e[0] == "A":
        tgt = e[1][2]
    elif e[0] == "C" and e[1][3] and (callee(e[1]) or "").startswith(("mpq_set", "mpq_sub", "mpq_neg", "mpq_add", "__gmpq_")):
        tgt = e[1][3][0]
    if tgt is None:
        return None
    t = strip(tgt)
    if isinstance(t, list) and t and t[0] == "i":
        fl = fields_of(apath(t[1])[2])
        ix = strip(t[2])
        if fl and fl[-1].endswith(FIELDS) and is_var(ix) and isinstance(ix[1], str) and ix[1].startswith("p"):
            return ix[2]
    return None


def run(prog, rule="R-DZFRESH", floor=1):
    res = RuleResult(rule, "every path through a per-column reduced-cost routine stores into dz[ix] / pIdz[ix] before it returns")
    n = 0
    for f in sorted(prog.funcs.values(), key=lambda x: x.key):
        if f.live is None or "_dbl." in f.unit or "_mpf." in f.unit or not f.unit.startswith("qsopt_ex/"):
            continue
        stores = {}
        for b, i, e in f.elements():
            p_ = _dz_store(f, e)
            if p_:
                stores[(b["id"], i)] = p_
        if not stores:
            continue
        # a recomputation from scratch (not a pivot update): the same parameter selects the column, col = lp->nbaz[ix]
        pnames = set(stores.values())
        selects = False
        for b, i, e in f.elements():
            trees = [x[1] for x in e[1] if x[1] is not None] if e[0] == "D" else ([e[1]] if e[1] is not None else [])
            for t in trees:
                for nd in walk(t):
                    if isinstance(nd, list) and nd and nd[0] == "i" and is_var(nd[2]) and strip(nd[2])[2] in pnames:
                        fl = fields_of(apath(nd[1])[2])
                        if fl and fl[-1].endswith("lpinfo::nbaz"):
                            selects = True
        if not selects:
            continue
        n += 1
        res.obligations += 1
        res.nontrivial += 1
        bad = {}

        def xfer(b, i, e, st):
            if (b["id"], i) in stores and not st:
                return [True]
            if e[0] == "R" and not st:
                bad.setdefault(e[2] if len(e) > 2 else f.loc, (b["id"], st))
            return None
        flw = Flow(prog, f, [False], xfer, None).run()
        if bad:
            loc, (bid, st) = sorted(bad.items())[0]
            res.violations.append(Violation(rule, "%s|return without refreshing the reduced cost" % f.name.replace("mpq_", ""), f.name, short_loc(loc),
                                            "%s can return without having stored into dz[%s] / pIdz[%s]: the reduced cost of that column keeps the value of an earlier "
                                            "basis, and an OPTIMAL answer hands it out" % (f.name, sorted(set(stores.values()))[0], sorted(set(stores.values()))[0]),
                                            path=flw.witness(bid, st)))
        else:
            res.sample({"function": f.name, "verdict": "the reduced cost is stored on every path"})
    res.counts["per_column_reduced_cost_routines"] = n
    res.floor("per-column reduced-cost routines", n, floor)
    return res
