"""R-APPENDINIT (C09, C17, C06-adjacent): a new row / column slot is fully initialised.
ILLlib_addrow and ILLlib_addcol append one element to every per-row (per-column) array of the problem.  On every path to a
success return each such array that exists must have been written at the append slot (index = the current count, or inside
a callee that is handed the object), otherwise the new element inherits whatever a previously deleted row/column left there."""
from ..core import walk, strip, is_var, callee, const_of, apath, fields_of, show, short_loc, Flow, AnalysisBroken
from ..cond import atoms, SWAP
from ..intstate import Z, NZ, norm_local
from ..result import RuleResult, Violation
from .idx import dim_class

from .idx import ARRAYS, ROW, STRUCT, COL

# the per-row / per-column arrays of the problem record are taken from the index-space table of R-IDX (one table for all rules):
# addrow appends to every row array, addcol to every structural and internal-column array
TARGETS = {
    "ILLlib_addrow": sorted(k for k, c in ARRAYS.items() if k.startswith("ILLlpdata::") and c == ROW),
    "ILLlib_addcol": sorted(k for k, c in ARRAYS.items() if k.startswith("ILLlpdata::") and c in (STRUCT, COL)),
}
REPACK = {
    "ILLlib_delrows": sorted(k for k, c in ARRAYS.items() if k.startswith("ILLlpdata::") and c == ROW),
    "ILLlib_delcols": sorted(k for k, c in ARRAYS.items() if k.startswith("ILLlpdata::") and c == STRUCT),
}


def run(prog, prefix="mpq_", rule="R-APPENDINIT"):
    res = RuleResult(rule, "ILLlib_addrow / ILLlib_addcol write every existing per-row / per-column array at the append slot on every success path")
    for fn, fields in TARGETS.items():
        f = prog.require_fn(prefix + fn)
        dimvars = set()
        for b, i, e in f.elements():
            if e[0] == "A" and is_var(e[1][2], kind="l") and dim_class(e[1][3]):
                dimvars.add(strip(e[1][2])[2])
            elif e[0] == "D":
                for n, init in e[1]:
                    if init is not None and dim_class(init):
                        dimvars.add(n)

        def slot_write(t):
            """field written at an append slot by lvalue tree t, or None"""
            t = strip(t)
            if not (isinstance(t, list) and t and t[0] == "i"):
                return None
            ix = strip(t[2])
            if not ((is_var(ix, kind="l") and ix[2] in dimvars) or dim_class(ix)):
                return None
            fl = fields_of(apath(t[1])[2])
            if not fl:
                return None
            key = fl[-1].replace(prefix, "")
            return key if key in fields else None
        seen_fields = set()
        missing = {}

        # state: (rv, tmp, written frozenset, known-null frozenset)
        def xfer(b, i, e, st):
            rv, tmp, wr, nul = st
            w = None
            if e[0] == "A":
                w = slot_write(e[1][2])
                lhs = strip(e[1][2])
                if is_var(lhs) and e[1][1] == "=":
                    nm = norm_local(lhs[2])
                    c = const_of(e[1][3])
                    if nm == "rval":
                        if c is not None:
                            return [(NZ if c else Z, tmp, wr, nul)]
                        r = strip(e[1][3])
                        if is_var(r) and norm_local(r[2]) in ("__EGrval__", "__RVAL__"):
                            return [(tmp, tmp, wr, nul)]
                        return [(Z, tmp, wr, nul), (NZ, tmp, wr, nul)]
                    if nm in ("__EGrval__", "__RVAL__"):
                        r = strip(e[1][3])
                        if is_var(r) and norm_local(r[2]) == "rval":
                            return [(rv, rv, wr, nul)]
            elif e[0] == "D":
                for n, init in e[1]:
                    if norm_local(n) in ("__EGrval__", "__RVAL__") and init is not None:
                        r = strip(init)
                        if is_var(r) and norm_local(r[2]) == "rval":
                            tmp = rv
                        elif const_of(r) is not None:
                            tmp = NZ if const_of(r) else Z
                        else:
                            return [(rv, Z, wr, nul), (rv, NZ, wr, nul)]
                return [(rv, tmp, wr, nul)]
            elif e[0] == "C" and e[1][3]:
                if callee(e[1]) in ("mpq_set", "mpq_set_ui", "mpq_init", "mpq_neg", "mpq_abs"):
                    w = slot_write(e[1][3][0])
            elif e[0] == "R":
                vals = [Z, NZ]
                r = strip(e[1]) if e[1] is not None else None
                if r is not None and is_var(r):
                    nm = norm_local(r[2])
                    vals = [rv] if nm == "rval" else ([tmp] if nm in ("__EGrval__", "__RVAL__") else vals)
                elif r is not None and const_of(r) is not None:
                    vals = [NZ if const_of(r) else Z]
                if Z in vals:
                    for fld in fields:
                        if fld not in wr and fld not in nul:
                            missing.setdefault(fld, (b["id"], st, e[2]))
            if w:
                seen_fields.add(w)
                return [(rv, tmp, wr | {w}, nul)]
            return None

        def refine(cond, truth, st):
            rv, tmp, wr, nul = st
            for l, op, r in atoms(cond, truth):
                for a, b_, o in ((l, r, op), (r, l, SWAP[op])):
                    if is_var(a) and const_of(b_) == 0 and o in ("==", "!="):
                        nm = norm_local(strip(a)[2])
                        cur = rv if nm == "rval" else (tmp if nm in ("__EGrval__", "__RVAL__") else None)
                        if cur is not None and ((o == "==" and cur == NZ) or (o == "!=" and cur == Z)):
                            return []
                    fl = fields_of(apath(a)[2])
                    if fl and const_of(b_) == 0 and o == "==":
                        key = fl[-1].replace(prefix, "")
                        if key in fields and apath(a)[2][-1] == fl[-1]:
                            nul = nul | {key}
            return [(rv, tmp, wr, nul)]
        fl_ = Flow(prog, f, [(Z, Z, frozenset(), frozenset())], xfer, refine, max_visits=800000).run()
        for fld in fields:
            res.obligations += 1
            res.nontrivial += 1
            if fld in missing:
                bid, st, loc = missing[fld]
                res.violations.append(Violation(rule, "%s|%s not written at the append slot" % (fn, fld.split("::")[1]), f.name, short_loc(loc),
                                                "a success return of %s is reachable on which %s exists (no NULL test passed) but its new element was not written: "
                                                "the new %s inherits stale data" % (fn, fld.split("::")[1], "row" if "row" in fn else "column"),
                                                path=fl_.witness(bid, st)))
            else:
                res.sample({"function": fn, "array": fld.split("::")[1], "verdict": "written at the append slot on every success path (or known NULL)"}, limit=12)
        res.floor("%s: per-element arrays written at the append slot" % fn, len(seen_fields), len(fields) - 1)
    return res


def run_repack(prog, prefix="mpq_", rule="R-REPACK"):
    """ILLlib_delrows / ILLlib_delcols compact every per-row / per-structural-column array of the problem: for each array of the table
    the function contains a compaction store F[j] = F[i] (or the number copy mpq_set (F[j], F[i]); for the maps, a store into F[j] inside
    the compaction loop).  An array that is left as it was keeps one entry per *old* column: every later reader is off by the number of
    deleted columns."""
    res = RuleResult(rule, "ILLlib_delrows / ILLlib_delcols contain a compaction store for every per-row / per-structural-column array of the problem")
    for fn, fields in REPACK.items():
        f = prog.require_fn(prefix + fn)
        found = set()
        # the function and the static helpers it calls (delcols_work does the compaction for ILLlib_delcols)
        scope = [f]
        for b, i, c in f.calls():
            g = prog.resolve(f, c[1]) if c[1] else None
            if g is not None and g.static and g not in scope:
                scope.append(g)
        for b, i, e in [x for g in scope for x in g.elements()]:
            pairs = []
            if e[0] == "A" and e[1][1] == "=":
                pairs.append((e[1][2], e[1][3]))
            elif e[0] == "C" and (callee(e[1]) or "") in ("mpq_set",) and len(e[1][3]) > 1:
                pairs.append((e[1][3][0], e[1][3][1]))
            for l, r in pairs:
                pl = apath(l)
                fl = fields_of(pl[2])
                if not fl or "[]" not in pl[2]:
                    continue
                key = fl[-1].replace(prefix, "")
                if key not in fields:
                    continue
                fr = fields_of(apath(r)[2])
                if (fr and fr[-1].replace(prefix, "") == key) or key.endswith("map"):
                    found.add(key)
        for fld in fields:
            res.obligations += 1
            res.nontrivial += 1
            if fld in found:
                res.sample({"function": fn, "array": fld.split("::")[1], "verdict": "compacted"}, limit=12)
            else:
                res.violations.append(Violation(rule, "%s|%s is not compacted" % (fn, fld.split("::")[1]), f.name, short_loc(f.loc),
                                                "%s deletes %s but contains no compaction store for %s: the array keeps one entry per old %s" % (
                                                    fn, "rows" if "rows" in fn else "columns", fld.split("::")[1], "row" if "rows" in fn else "column")))
        res.floor("%s: arrays of the table" % fn, len(fields), 3)
    return res


# ------------------------------------------------------------------ R-REMAP
# persistent arrays of the problem whose *elements* are indices into a space (the value classes R-IDXCLASS types loads with):
# (field path suffix, space)
def _index_holders():
    from .idxclass import VALUE_CLASS
    out = []
    for fld, cls in sorted(VALUE_CLASS.items()):
        rec = fld.split("::")[0]
        if rec == "ILLlpdata":
            out.append(((fld,), cls))
        elif rec == "ILLmatrix":
            out.append((("ILLlpdata::A", fld), cls))
    out.append((("ILLlpdata::sos", "ILLmatrix::matind"), STRUCT))     # the SOS sets hold structural column numbers (see idxclass.arr_info)
    return out


def run_remap(prog, E=None, prefix="mpq_", rule="R-REMAP", floor=3):
    """a function that lowers a dimension of the problem (nrows / nstruct / ncols decremented relative to its old value) renumbers the
    members of that space; every persistent array of the problem that *holds* numbers of that space (column numbers in structmap and
    rowmap, row numbers in the matrix's matind, structural column numbers in the SOS sets) must be rewritten by the function or by one
    of its callees (effect summaries), otherwise its entries keep naming the old numbering."""
    from ..effects import Effects
    from .idx import DIMS, _suffix_lookup
    E = E or Effects(prog)
    res = RuleResult(rule, "a function that lowers nrows / nstruct / ncols of the problem rewrites (itself or through a callee) every array of the "
                           "problem that holds numbers of the shrunk space")
    holders = _index_holders()

    def norm(x):
        for pre in ("mpq_", "dbl_", "mpf_"):
            if x.startswith(pre):
                return x[len(pre):]
        return x

    def matches(fp, suffix):
        fpn = [norm(x) for x in fp]
        if not fpn or fpn[-1] != suffix[-1]:
            return False
        if len(suffix) == 2:
            return suffix[0] in fpn[:-1]
        return True
    ninst = 0
    funcs = [f for f in prog.funcs.values() if f.live is not None and f.name.startswith(prefix) and f.unit.endswith("lib_mpq.c")]
    for f in sorted(funcs, key=lambda x: x.key):
        shrunk = {}
        for b, i, e in f.elements():
            t = op = None
            if e[0] == "A" and e[1][1] == "-=":
                t = e[1][2]
            elif e[0] == "U" and e[1][1] in ("--", "p--", "--p", "post--", "pre--"):
                t = e[1][2]
            if t is None:
                continue
            t0 = strip(t)
            if isinstance(t0, list) and t0 and t0[0] == "m" and norm(t0[2]).startswith("ILLlpdata::"):
                c = _suffix_lookup(DIMS, t0[2])
                if c:
                    shrunk.setdefault(c, e[2] if e[0] == "A" else e[2])
        if not shrunk:
            continue
        written = set()
        for (j, fp, loc, how, bid, idx) in E.direct_writes(f):
            written.add(tuple(fp))
        for ci in E.callinfo.get(f.key, ()):
            if ci[0] is None:
                continue
            for (j, fp) in E.call_writes(f, ci):
                written.add(tuple(fp))
        for cls, loc in sorted(shrunk.items()):
            for suffix, vcls in holders:
                if vcls != cls:
                    continue
                ninst += 1
                res.obligations += 1
                res.nontrivial += 1
                name = ".".join(x.split("::")[1] for x in suffix)
                if any(matches(fp, suffix) for fp in written):
                    res.sample({"function": f.name, "space": cls, "array": name, "verdict": "rewritten"}, limit=12)
                else:
                    res.violations.append(Violation(rule, "%s|%s keeps the old %s numbers" % (f.name.replace(prefix, ""), name, cls), f.name, short_loc(loc),
                                                    "the function lowers the number of %s members of the problem, and the entries of %s are %s numbers, but neither "
                                                    "the function nor any of its callees stores into that array: its entries keep naming the old numbering" % (
                                                        cls, name, cls)))
    res.counts["(shrinking function, index-holding array) pairs"] = ninst
    res.floor("(shrinking function, index-holding array) pairs", ninst, floor)
    return res
