"""R-TWOPASS (C13, C17): what the counting pass counts, the filling pass fills.

Two-pass construction of packed segments: a first loop nest counts the entries of every segment by incrementing a counter field
(`ur_inf[r].nzcnt++`), space is laid out from the counts, and a second loop nest stores the entries at the position the counter field
holds and increments it (`urindx[ur_inf[r].nzcnt] = i; ... ur_inf[r].nzcnt++`).  If the filling increment is conditional inside its
innermost loop (an entry can be skipped: `if (!IsNeqZero (v)) continue;`) while the counting increment of the same field is
unconditional in its innermost loop, slots are laid out that nothing writes; whoever reads "the slot behind the last entry" later reads
heap garbage (the LU update did, after QSchange_coef had stored an explicit zero in a basic column).  Per function and counter field:
counting increments (no store subscripted by the field in their block) and filling increments (with such a store) are classified as
conditional / unconditional per iteration of their innermost loop; the combination (count unconditional, fill conditional) is reported."""
import collections

from ..core import walk, strip, is_var, show, short_loc, dominators
from ..result import RuleResult, Violation


def _counter_field(t):
    """record::field of  X[..].field  /  X->field"""
    t = strip(t)
    if isinstance(t, list) and t and t[0] == "m" and isinstance(t[2], str):
        return t[2]
    if isinstance(t, list) and t and t[0] == "i":
        a = strip(t[1])
        if is_var(a):
            return "%s[]" % a[2]               # an element of a local / parameter array used as counter: cnt[r]++
        if isinstance(a, list) and a and a[0] == "m" and isinstance(a[2], str):
            return a[2] + "[]"
    return None


def run(prog, rule="R-TWOPASS", floor=2):
    res = RuleResult(rule, "a counter field that a counting loop increments unconditionally per iteration is not incremented only conditionally by the loop that "
                           "fills the counted slots")
    n = 0
    for f in sorted(prog.funcs.values(), key=lambda x: x.key):
        if f.live is None or "_dbl." in f.unit or "_mpf." in f.unit or not f.unit.startswith("qsopt_ex/"):
            continue
        incs = collections.defaultdict(list)         # field -> [(bid, idx, loc, text)]
        for b, i, e in f.elements():
            if e[0] == "U" and "++" in e[1][1]:
                fld = _counter_field(e[1][2])
                if fld:
                    incs[fld].append((b["id"], i, e[2], show(e[1][2])))
        cands = {k: v for k, v in incs.items() if len(v) >= 2}
        if not cands:
            continue
        dom = dominators(prog, f)[0]
        succ = {bid: [s for s in prog.live_succs(f, f.blocks[bid]) if s is not None] for bid in f.live}
        # loops: condition block with a back edge (a successor chain returns to it); body entry = first successor
        loops = []
        for bid in f.live:
            blk = f.blocks[bid]
            if blk.get("c") is None or blk.get("t") not in ("ForStmt", "WhileStmt", "DoStmt"):
                continue
            ss = prog.live_succs(f, blk)
            if len(ss) == 2 and ss[0] is not None:
                loops.append((bid, ss[0]))

        def innermost(bid):
            best = None
            for (h, body) in loops:
                if body == bid or body in dom.get(bid, ()):
                    if best is None or len(dom.get(body, ())) > len(dom.get(best[1], ())):
                        best = (h, body)
            return best

        def unconditional(bid, loop):
            """bid lies on the straight-line chain from the body entry of its loop"""
            if loop is None:
                return None
            x = loop[1]
            for _ in range(64):
                if x == bid:
                    return True
                ss = succ.get(x, [])
                if len(ss) != 1 or ss[0] == loop[0]:
                    return False
                x = ss[0]
            return False

        for fld, lst in sorted(cands.items()):
            count, fill = [], []
            for (bid, idx, loc, txt) in lst:
                # a store in the same block whose subscript mentions the counter field: a filling increment
                stores = False
                for e in f.blocks[bid]["e"]:
                    if e[0] == "A":
                        l = strip(e[1][2])
                        if isinstance(l, list) and l and l[0] == "i" and any(_counter_field(nd) == fld for nd in walk(l[2])):
                            stores = True
                lp_ = innermost(bid)
                u = unconditional(bid, lp_)
                if u is None:
                    continue
                (fill if stores else count).append((bid, loc, txt, u))
            if not count or not fill:
                continue
            n += 1
            res.obligations += 1
            res.nontrivial += 1
            cu = [c for c in count if c[3]]
            fc = [x for x in fill if not x[3]]
            if cu and fc and not [x for x in fill if x[3]]:
                res.violations.append(Violation(rule, "%s|%s counted unconditionally, filled conditionally" % (f.name.replace("mpq_", ""), fld.split("::")[-1]), f.name,
                                                short_loc(fc[0][1]), "%s is incremented for every entry by the counting loop (%s) and the space is laid out from it, "
                                                "but the loop that stores the entries at %s can skip an entry (%s): the slots of skipped entries are never written" % (
                                                    cu[0][2], short_loc(cu[0][1]), fld, short_loc(fc[0][1]))))
            else:
                res.sample({"function": f.name, "counter": fld, "counting_increments": len(count), "filling_increments": len(fill),
                            "verdict": "same conditionality in both passes"}, limit=10)
    res.counts["count_fill_pairs"] = n
    res.floor("functions with a counting and a filling increment of one counter field", n, floor)
    return res
