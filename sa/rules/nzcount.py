"""R-NZCOUNT (C16): the stored non-zero total follows the column counts.

ILLlpdata::nzcount is the sum of the column counts ILLmatrix::matcnt[] of the problem's matrix A; it is handed out by QSget_nzcount
and sizes the arrays of the row-wise copy (ILLlp_rows_init).  It is derived data kept by hand: every library function that stores
into an element of A's matcnt - directly or through the static matrix_* / delcols_work helpers (effect summaries, composed field
paths through ILLlpdata::A) - must also store into nzcount, itself or through a callee.  A function that changes the counts and leaves
the total alone makes the problem disagree with a copy of itself (QScopy_prob rebuilds the copy entry by entry, so the copy has the
true total).  The innermost library function is blamed."""
from ..core import apath, short_loc
from ..effects import Effects
from ..result import RuleResult, Violation


def _is_cnt_write(fp):
    if not fp or not fp[-1].endswith("ILLmatrix::matcnt"):
        return False
    if not any(x.endswith("ILLlpdata::A") for x in fp):
        return False
    return not any(x.endswith(("ILLlpdata::rA", "ILLlpdata::sos", "ILLlpdata::sinfo")) for x in fp)


def _is_total_write(fp):
    return bool(fp) and fp[-1].endswith("ILLlpdata::nzcount")


def run(prog, E=None, rule="R-NZCOUNT", floor=4):
    E = E or Effects(prog)
    res = RuleResult(rule, "every library function that stores into an element of the column counts of the problem's matrix also stores into the "
                           "problem's non-zero total")
    funcs = [f for f in prog.funcs.values() if f.live is not None and "_dbl." not in f.unit and "_mpf." not in f.unit
             and f.unit.startswith("qsopt_ex/") and not f.name.endswith(("_free", "_init", "QSfree_prob"))]
    info = {}
    for f in funcs:
        cnt_sites, total = [], False
        for (j, fp, loc, how, bid, idx) in E.direct_writes(f):
            e = f.blocks[bid]["e"][idx]
            if _is_total_write(fp):
                total = True
            if _is_cnt_write(fp) and e[0] in ("A", "U", "C"):
                tgt = e[1][2] if e[0] in ("A", "U") else (e[1][3][0] if e[1][3] else None)
                if tgt is not None and "[]" in apath(tgt)[2]:
                    cnt_sites.append((loc, "store into matcnt[]", None))
        for ci in E.callinfo.get(f.key, ()):
            (g, name, loc, args, bid, idx, c) = ci
            if g is None:
                continue
            ws = E.call_writes(f, ci)
            if any(_is_total_write(fp) for (j, fp) in ws):
                total = True
            if any(_is_cnt_write(fp) for (j, fp) in ws):
                cnt_sites.append((loc, "%s changes the column counts" % name, g.key))
        if cnt_sites:
            info[f.key] = (f, cnt_sites, total)
    nmut = 0
    for fk in sorted(info):
        f, sites, total = info[fk]
        if f.static:
            continue                      # judged through the library functions that call them
        nmut += 1
        res.obligations += 1
        res.nontrivial += 1
        if total:
            res.sample({"function": f.name, "count_writing_sites": len(sites), "verdict": "also stores into nzcount"}, limit=12)
            continue
        # innermost: a wrapper all of whose count-writing callees are non-static functions reported themselves is not reported again
        inner = [s for s in sites if not (s[2] is not None and s[2] in info and not info[s[2]][0].static and not info[s[2]][2])]
        if not inner:
            res.sample({"function": f.name, "verdict": "passes the matrix on to a library function that is reported itself"}, limit=12)
            continue
        loc, what, _ = inner[0]
        res.violations.append(Violation(rule, "%s|column counts changed, non-zero total left alone" % f.name.replace("mpq_", ""), f.name, short_loc(loc),
                                        "%s (%d site(s)), but neither the function nor any of its callees stores into ILLlpdata::nzcount: QSget_nzcount and the "
                                        "sizes taken from the total no longer describe the matrix" % (what, len(sites))))
    res.counts["count_mutators"] = nmut
    res.floor("library functions that write the column counts", nmut, floor)
    return res
