"""R-OWN (C14): who may write or release the problem's basis.  A public function whose effect summary writes the status
arrays / dimensions of p->basis (which includes releasing them) must be one that replaces, extends or discards the basis
by contract.  Writing a basis FILE is not such a function: it must leave p->basis in place."""
from ..core import short_loc
from ..effects import Effects
from ..result import RuleResult, Violation
from .inval import api_functions, base

OWNERS = {
    "QSload_basis": "installs the caller's basis", "QSload_basis_array": "installs the caller's basis",
    "QSload_basis_and_row_norms_array": "installs the caller's basis", "QSread_and_load_basis": "installs the basis read from the file",
    "QSdelete_rows": "repacks or discards the basis of the shrunk problem", "QSdelete_row": "wrapper of QSdelete_rows",
    "QSdelete_setrows": "wrapper of QSdelete_rows", "QSdelete_named_row": "wrapper of QSdelete_rows",
    "QSdelete_named_rows_list": "wrapper of QSdelete_rows",
    "QSdelete_cols": "repacks or discards the basis of the shrunk problem", "QSdelete_col": "wrapper of QSdelete_cols",
    "QSdelete_setcols": "wrapper of QSdelete_cols", "QSdelete_named_column": "wrapper of QSdelete_cols",
    "QSdelete_named_columns_list": "wrapper of QSdelete_cols",
    "QSadd_rows": "extends the basis by the new rows", "QSadd_row": "wrapper", "QSadd_ranged_rows": "extends the basis", "QSadd_ranged_row": "wrapper",
    "QSnew_row": "extends the basis", "QSadd_cols": "extends the basis by the new columns", "QSadd_col": "wrapper", "QSnew_col": "extends the basis",
    "QSopt_primal": "stores the final basis of the solve (grab_basis)", "QSopt_dual": "stores the final basis of the solve (grab_basis)",
    "QSopt_pivotin_row": "stores the basis after the forced pivots", "QSopt_pivotin_col": "stores the basis after the forced pivots",
    "QSopt_strongbranch": "strong branching works on the basis", "QScompute_row_norms": "stores row norms with the basis",
    "QSfree_prob": "destructor", "QSexact_solver": "exact driver: loads candidate bases into the rational problem",
    "QSexact_basis_optimalstatus": "verdict function: loads the supplied basis", "QSexact_basis_dualstatus": "verdict function: loads the supplied basis",
    "QSexact_verify": "verdict function: loads the supplied basis", "QSexact_optimal_test": "loads the basis it was given to record the optimal solution",
}
FIELDS = ("cstat", "rstat", "nstruct", "nrows")


def run(prog, E=None, prefix="mpq_", rule="R-OWN"):
    E = E or Effects(prog)
    res = RuleResult(rule, "only functions whose contract is to replace, extend or discard the problem's basis may write or release "
                           "p->basis; in particular writing a basis file leaves it in place")
    n = 0
    writers = []
    for f, pidx in api_functions(prog, prefix):
        res.obligations += 1
        w = sorted({fp[1].split("::")[1] for (k, fp) in E.W[f.key] if k == pidx and len(fp) >= 2 and fp[0].endswith("qsdata::basis")
                    and fp[1].split("::")[0].endswith("ILLlp_basis") and fp[1].split("::")[1] in FIELDS})
        ptr = any(k == pidx and len(fp) == 1 and fp[0].endswith("qsdata::basis") for (k, fp) in E.W[f.key])
        if not w and not ptr:
            continue
        n += 1
        res.nontrivial += 1
        b = base(f.name)
        writers.append(b)
        if b in OWNERS:
            res.sample({"function": f.name, "writes": w or ["p->basis"], "verdict": "owner: " + OWNERS[b]}, limit=6)
            continue
        res.violations.append(Violation(rule, "%s|writes or releases p->basis" % b, f.name, short_loc(f.loc),
                                        "%s may write or release the problem's basis (%s) although replacing the basis is not its contract"
                                        % (f.name, ", ".join(w) if w else "the basis pointer")))
    res.counts["public_functions_writing_the_basis"] = sorted(writers)
    res.floor("public functions writing p->basis", n, 20)
    # the basis FILE writer must be among the functions examined and must not be a writer
    wb = prog.fn(prefix + "QSwrite_basis")
    if wb is None:
        from ..core import AnalysisBroken
        raise AnalysisBroken("anchor function %sQSwrite_basis not found" % prefix)
    return res
