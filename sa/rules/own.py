"""R-OWN (C14): who may write or release the problem's basis.  A public function whose effect summary writes the status
arrays / dimensions of p->basis (which includes releasing them) must be one that replaces, extends or discards the basis
by contract.  Writing a basis FILE is not such a function: it must leave p->basis in place."""
from ..core import short_loc
from ..effects import Effects
from ..result import RuleResult, Violation
from .inval import api_functions, base

OWNERS = {
    "QSload_basis": "installs the caller's basis", "QSload_basis_array": "installs the caller's basis",
    "QSload_basis_and_row_norms_array": "installs the caller's basis", "QSread_and_load_basis": "installs the basis read from the file",
    "QSdelete_rows": "repacks or discards the basis of the shrunk problem", "QSdelete_row": "wrapper of QSdelete_rows",
    "QSdelete_setrows": "wrapper of QSdelete_rows", "QSdelete_named_row": "wrapper of QSdelete_rows",
    "QSdelete_named_rows_list": "wrapper of QSdelete_rows",
    "QSdelete_cols": "repacks or discards the basis of the shrunk problem", "QSdelete_col": "wrapper of QSdelete_cols",
    "QSdelete_setcols": "wrapper of QSdelete_cols", "QSdelete_named_column": "wrapper of QSdelete_cols",
    "QSdelete_named_columns_list": "wrapper of QSdelete_cols",
    "QSadd_rows": "extends the basis by the new rows", "QSadd_row": "wrapper", "QSadd_ranged_rows": "extends the basis", "QSadd_ranged_row": "wrapper",
    "QSnew_row": "extends the basis", "QSadd_cols": "extends the basis by the new columns", "QSadd_col": "wrapper", "QSnew_col": "extends the basis",
    "QSopt_primal": "stores the final basis of the solve (grab_basis)", "QSopt_dual": "stores the final basis of the solve (grab_basis)",
    "QSopt_pivotin_row": "stores the basis after the forced pivots", "QSopt_pivotin_col": "stores the basis after the forced pivots",
    "QSopt_strongbranch": "strong branching works on the basis", "QScompute_row_norms": "stores row norms with the basis",
    "QSfree_prob": "destructor", "QSexact_solver": "exact driver: loads candidate bases into the rational problem",
    "QSexact_basis_optimalstatus": "verdict function: loads the supplied basis", "QSexact_basis_dualstatus": "verdict function: loads the supplied basis",
    "QSchange_senses": "normalises the row status of a row that is no longer ranged (UPPER is a status of ranged rows only)",
    "QSchange_sense": "wrapper of QSchange_senses",
    "QSexact_verify": "verdict function: loads the supplied basis", "QSexact_optimal_test": "loads the basis it was given to record the optimal solution",
}
FIELDS = ("cstat", "rstat", "nstruct", "nrows")


def run(prog, E=None, prefix="mpq_", rule="R-OWN"):
    E = E or Effects(prog)
    res = RuleResult(rule, "only functions whose contract is to replace, extend or discard the problem's basis may write or release "
                           "p->basis; in particular writing a basis file leaves it in place")
    n = 0
    writers = []
    for f, pidx in api_functions(prog, prefix):
        res.obligations += 1
        w = sorted({fp[1].split("::")[1] for (k, fp) in E.W[f.key] if k == pidx and len(fp) >= 2 and fp[0].endswith("qsdata::basis")
                    and fp[1].split("::")[0].endswith("ILLlp_basis") and fp[1].split("::")[1] in FIELDS})
        ptr = any(k == pidx and len(fp) == 1 and fp[0].endswith("qsdata::basis") for (k, fp) in E.W[f.key])
        if not w and not ptr:
            continue
        n += 1
        res.nontrivial += 1
        b = base(f.name)
        writers.append(b)
        if b in OWNERS:
            res.sample({"function": f.name, "writes": w or ["p->basis"], "verdict": "owner: " + OWNERS[b]}, limit=6)
            continue
        # a function that touches the basis only through public owners it calls with its own problem handle (a list variant built on
        # QSnew_col, a named variant built on the index variant) inherits their contract
        def _basis_fp(fp):
            return bool(fp) and fp[0].endswith("qsdata::basis") and (len(fp) == 1 or (fp[1].split("::")[0].endswith("ILLlp_basis") and fp[1].split("::")[1] in FIELDS))
        own_direct = [loc for (k, fp, loc, how, bid, idx) in E.direct_writes(f) if k == pidx and _basis_fp(fp)]
        via = set()
        foreign = []
        for ci in E.callinfo[f.key]:
            (g, name, loc, args, bid, idx, c) = ci
            if any(k == pidx and _basis_fp(fp) for (k, fp) in E.call_writes(f, ci)):
                if g is not None and base(g.name) in OWNERS and any(g.key == f2.key for f2, _ in api_functions(prog, prefix)):
                    via.add(base(g.name))
                else:
                    foreign.append(name or "(*fp)")
        if not own_direct and not foreign and via:
            res.sample({"function": f.name, "writes": w or ["p->basis"], "verdict": "only through the owner(s) %s" % ", ".join(sorted(via))}, limit=6)
            continue
        res.violations.append(Violation(rule, "%s|writes or releases p->basis" % b, f.name, short_loc(f.loc),
                                        "%s may write or release the problem's basis (%s) although replacing the basis is not its contract"
                                        % (f.name, ", ".join(w) if w else "the basis pointer")))
    res.counts["public_functions_writing_the_basis"] = sorted(writers)
    res.floor("public functions writing p->basis", n, 20)
    # the basis FILE writer must be among the functions examined and must not be a writer
    wb = prog.fn(prefix + "QSwrite_basis")
    if wb is None:
        from ..core import AnalysisBroken
        raise AnalysisBroken("anchor function %sQSwrite_basis not found" % prefix)
    return res


def run_loadkeep(prog, prefix="mpq_", rule="R-LOADKEEP", floor=2):
    """the problem's basis is emptied only when its replacement is already known to be good.  In every public function that empties or
    releases p->basis (a call of ILLlp_basis_free on it, a release of the record itself), no call of a routine that can fail for another
    reason than allocation (shell.may_fail: readers, validators) is reachable from the emptying event - the reading and checking come
    first, the swap last.  Otherwise a rejected file or array costs the problem the basis it had."""
    from ..core import walk, strip, callee, show, dominators
    from .shell import may_fail
    import collections
    res = RuleResult(rule, "in a public function that empties p->basis, every call that can fail for another reason than allocation precedes the "
                           "emptying: none is reachable from it")
    n = 0
    for f, pidx in api_functions(prog, prefix):
        if f.live is None:
            continue
        pname = f.params[pidx][0]
        empties = []
        for b, i, c in f.calls():
            nm = callee(c) or ""
            if (nm.endswith("ILLlp_basis_free") or nm in ("free", "EGfree", "ILLutil_freerus")) and c[3] and show(c[3][0]) == "%s->basis" % pname:
                empties.append((b["id"], i, c))
        if not empties:
            continue
        succ = {bid: [s for s in prog.live_succs(f, f.blocks[bid]) if s is not None] for bid in f.live}
        fails = []
        for b, i, c in f.calls():
            g = prog.resolve(f, c[1]) if c[1] else None
            if g is None or g.live is None or "int" not in (g.ret or ""):
                continue
            nm = g.name
            if nm.endswith(("ILLlp_basis_free", "ILLlp_basis_init", "ILLlp_basis_alloc", "check_qsdata_pointer")):
                continue
            if may_fail(prog, g):
                # the callee fails only through a validator on one of its parameters, and the same validator has already accepted the same
                # argument on a dominating path of this function (QSload_basis checks the record, then converts it - the conversion checks again)
                why = prog.__dict__.get("_shell_why", {}).get(g.key)
                if why and all(isinstance(w, tuple) and w and w[0] == "call" for w in why):
                    dom = dominators(prog, f)[0]
                    ok_all = True
                    for (_, hname, params) in why:
                        texts = [show(c[3][k]) for k in params if k < len(c[3])]
                        found = False
                        for b2, i2, c2 in f.calls():
                            if (callee(c2) or "") == hname and [show(a) for a in c2[3]] == texts and \
                                    ((b2["id"] in dom.get(b["id"], ()) and b2["id"] != b["id"]) or (b2["id"] == b["id"] and i2 < i)):
                                found = True
                        ok_all = ok_all and found
                    if ok_all:
                        continue
                fails.append((b["id"], i, c, g))
        for (eb, ei, ec) in empties:
            n += 1
            res.obligations += 1
            res.nontrivial += 1
            reach, wl = set(), list(succ.get(eb, ()))
            while wl:
                x = wl.pop()
                if x not in reach:
                    reach.add(x)
                    wl.extend(succ.get(x, ()))
            bad = [(fb, fi, fc, g) for (fb, fi, fc, g) in fails if fb in reach or (fb == eb and fi > ei)]
            if bad:
                fb, fi, fc, g = bad[0]
                res.violations.append(Violation(rule, "%s|p->basis emptied before %s" % (base(f.name), g.name.replace(prefix, "")), f.name, short_loc(ec[4]),
                                                "%s empties the problem's basis, and %s - which can fail for another reason than allocation - is called afterwards (%s): "
                                                "when it fails the call is rejected and the basis the problem had is gone" % (show(ec)[:60], g.name, short_loc(fc[4]))))
            else:
                res.sample({"site": "%s %s: %s" % (short_loc(ec[4]), f.name, show(ec)[:50]), "verdict": "no fallible call behind the emptying"}, limit=8)
    res.counts["emptying_events_of_the_basis_in_public_functions"] = n
    res.floor("emptying events of p->basis in public functions", n, floor)
    return res


def run_basiscard(prog, E=None, prefix="mpq_", rule="R-BASISCARD", floor=3):
    """sibling agreement of the basis loaders: every public function that installs status arrays coming from outside (a caller's record
    or arrays, a basis file) into p->basis runs the cardinality check first.  The checker is found structurally: a function that
    increments a local under tests of array elements against a constant and rejects (stores a non-zero constant into the error code)
    when that local differs from one of its parameters - basis_arrays_check counts the BASIC entries and compares with nrows.  The
    loaders are the public functions whose effects write the cstat / rstat of p->basis and that take the data from a parameter other
    than the problem (status arrays, a QSbasis record, a file name).  Each must reach a checker on every ... - here: have a call to a
    checker (directly or through one callee level) that dominates its success return."""
    from ..core import walk, strip, is_var, callee, const_of, show, dominators
    from ..cond import atoms
    E = E or Effects(prog)
    res = RuleResult(rule, "every public function that installs external status arrays into p->basis calls the cardinality checker on a "
                           "position that dominates its success return")
    funcs = [f for f in prog.funcs.values() if f.live is not None and f.unit.endswith("qsopt_mpq.c")]
    checkers = set()
    for f in funcs:
        counters = set()
        for b, i, e in f.elements():
            if e[0] == "U" and is_var(e[1][2], kind="l") and "++" in e[1][1]:
                counters.add(strip(e[1][2])[2])
        if not counters:
            continue
        pnames = {p_[0] for p_ in f.params}
        for bid in f.live:
            c = f.blocks[bid].get("c")
            if c is None:
                continue
            for nd in walk(c):
                if isinstance(nd, list) and nd and nd[0] == "b" and nd[1] in ("!=", "=="):
                    a, b_ = strip(nd[2]), strip(nd[3])
                    for x, y in ((a, b_), (b_, a)):
                        if is_var(x, kind="l") and x[2] in counters and is_var(y) and y[2] in pnames:
                            checkers.add(f.key)
    res.counts["cardinality_checkers"] = sorted(prog.funcs[k].name for k in checkers)
    n = 0
    for f, pidx in api_functions(prog, prefix):
        if f.live is None:
            continue
        w = {fp[1].split("::")[1] for (k, fp) in E.W[f.key] if k == pidx and len(fp) >= 2 and fp[0].endswith("qsdata::basis")
             and fp[1].split("::")[0].endswith("ILLlp_basis") and fp[1].split("::")[1] in ("cstat", "rstat")}
        if not w:
            continue
        # external data: a char * / QSbasis * / const char * parameter besides the problem
        ext = [p_[0] for k, p_ in enumerate(f.params) if k != pidx and p_[2].replace("const ", "").strip() in ("char *", "struct qsbasis *")]
        if not ext:
            continue
        # a loader replaces the basis: it empties the old record (the functions that extend or repack the basis do not)
        if not any((callee(c) or "").endswith("ILLlp_basis_free") and c[3] and show(c[3][0]) == "%s->basis" % f.params[pidx][0] for b, i, c in f.calls()):
            continue
        n += 1
        res.obligations += 1
        res.nontrivial += 1
        dom, succ = dominators(prog, f)
        # success returns: R elements; the checker call must dominate the exit block's predecessors that return 0 - approximated by
        # dominating the block that stores into p->factorok / the last block before CLEANUP on the success path: we require domination of
        # every direct write of the basis arrays or of the call that fills them
        fills = []
        for ci in E.callinfo.get(f.key, ()):
            (g, name, loc, args, bid, idx, c) = ci
            if g is None:
                continue
            if any(j == pidx and len(fp) >= 2 and fp[0].endswith("qsdata::basis") and fp[1].split("::")[1] in ("cstat", "rstat") for (j, fp) in E.call_writes(f, ci)):
                if not (name or "").endswith(("ILLlp_basis_free", "ILLlp_basis_init")):
                    fills.append((bid, idx, loc, name))
        for (j, fp, loc, how, bid, idx) in E.direct_writes(f):
            if j == pidx and fp and fp[0].endswith("qsdata::basis") and (len(fp) == 1 or fp[1].split("::")[1] in ("cstat", "rstat")):
                e = f.blocks[bid]["e"][idx]
                if e[0] == "A" and const_of(e[1][3]) is None:
                    fills.append((bid, idx, loc, "store"))
        chk = []
        for b, i, c in f.calls():
            g = prog.resolve(f, c[1]) if c[1] else None
            if g is None:
                continue
            if g.key in checkers or any((prog.resolve(g, c2[1]) if c2[1] else None) is not None and prog.resolve(g, c2[1]).key in checkers for b2, i2, c2 in g.calls()):
                chk.append((b["id"], i))
        bad = [x for x in fills if not any((cb in dom.get(x[0], ()) and cb != x[0]) or (cb == x[0] and ci_ < x[1]) for (cb, ci_) in chk)]
        # a wrapper that delegates the whole job to another loader is judged there
        delegates = [x for x in bad if any(base(x[3] or "") == base(g2.name) for g2, _ in api_functions(prog, prefix))]
        bad = [x for x in bad if x not in delegates]
        if bad:
            res.violations.append(Violation(rule, "%s|basis installed without the cardinality check" % base(f.name), f.name, short_loc(bad[0][2]),
                                            "%s fills p->basis from %s (%s) and no call of a cardinality checker (%s) dominates that: a record with another number "
                                            "of basic entries than rows becomes the problem's basis" % (f.name, ", ".join(ext), bad[0][3], ", ".join(res.counts["cardinality_checkers"]))))
        else:
            res.sample({"function": f.name, "external": ext, "verdict": "checker dominates every fill" if fills and not delegates else "delegates to a loader that is judged itself"}, limit=8)
    res.counts["basis_loaders"] = n
    res.floor("public functions that install external status arrays", n, floor)
    return res


def run_basissense(prog, E=None, prefix="mpq_", rule="R-RSTATLOAD", floor=3):
    """sibling agreement of the basis loaders, second part: the status 'at upper' of a row exists for ranged rows only (ILLbasis_load
    refuses it for an L, G or E row and every later solve fails).  A row-status validator is found structurally: a function with a
    rejecting condition that reads both an element of a char array parameter / record (the statuses) and an element of
    ILLlpdata::sense.  Every loader (as in R-BASISCARD: a public function that empties p->basis and refills it from a status array,
    a QSbasis record or a file) calls such a validator on a position that dominates every fill of p->basis."""
    from ..core import walk, strip, is_var, callee, const_of, show, dominators, apath, fields_of
    E = E or Effects(prog)
    res = RuleResult(rule, "every public function that installs external row statuses into p->basis calls a validator that looks at the row senses "
                           "before it fills the basis")
    funcs = [f for f in prog.funcs.values() if f.live is not None and f.unit.endswith("qsopt_mpq.c")]
    validators = set()
    for f in funcs:
        for bid in f.live:
            c = f.blocks[bid].get("c")
            if c is None:
                continue
        reads_sense = reads_stat = False
        for bid in f.live:
            c = f.blocks[bid].get("c")
            if c is None:
                continue
            for nd in walk(c):
                if isinstance(nd, list) and nd and nd[0] == "i":
                    fl = fields_of(apath(nd[1])[2])
                    if fl and fl[-1].endswith("ILLlpdata::sense"):
                        reads_sense = True
                    b0 = strip(nd[1])
                    if is_var(b0) and isinstance(b0[1], str) and b0[1].startswith("p") and "char" in (f.var_type(b0) or ""):
                        reads_stat = True
                    if fl and fl[-1].endswith(("::rstat",)):
                        reads_stat = True
        if reads_sense and reads_stat and any(e[0] == "A" and is_var(e[1][2], kind="l") and "rval" in strip(e[1][2])[2] and const_of(e[1][3]) not in (None, 0)
                                             for b, i, e in f.elements()):
            validators.add(f.key)
    res.counts["row_status_validators"] = sorted(prog.funcs[k].name for k in validators)
    n = 0
    for f, pidx in api_functions(prog, prefix):
        if f.live is None:
            continue
        w = {fp[1].split("::")[1] for (k, fp) in E.W[f.key] if k == pidx and len(fp) >= 2 and fp[0].endswith("qsdata::basis")
             and fp[1].split("::")[0].endswith("ILLlp_basis") and fp[1].split("::")[1] in ("rstat",)}
        ext = [p_[0] for k, p_ in enumerate(f.params) if k != pidx and p_[2].replace("const ", "").strip() in ("char *", "struct qsbasis *")]
        if not w or not ext:
            continue
        if not any((callee(c) or "").endswith("ILLlp_basis_free") and c[3] and show(c[3][0]) == "%s->basis" % f.params[pidx][0] for b, i, c in f.calls()):
            continue
        n += 1
        res.obligations += 1
        res.nontrivial += 1
        dom, succ = dominators(prog, f)
        fills = []
        for ci in E.callinfo.get(f.key, ()):
            (g, name, loc, args, bid, idx, c) = ci
            if g is None or (name or "").endswith(("ILLlp_basis_free", "ILLlp_basis_init")):
                continue
            if any(j == pidx and len(fp) >= 2 and fp[0].endswith("qsdata::basis") and fp[1].split("::")[1] == "rstat" for (j, fp) in E.call_writes(f, ci)):
                fills.append((bid, idx, loc, name))
        for (j, fp, loc, how, bid, idx) in E.direct_writes(f):
            if j == pidx and fp and fp[0].endswith("qsdata::basis") and (len(fp) == 1 or fp[1].split("::")[1] == "rstat"):
                e = f.blocks[bid]["e"][idx]
                if e[0] == "A" and const_of(e[1][3]) is None:
                    fills.append((bid, idx, loc, "store"))
        chk = [(b["id"], i) for b, i, c in f.calls() if (lambda g: g is not None and g.key in validators)(prog.resolve(f, c[1]) if c[1] else None)]
        bad = [x for x in fills if not any((cb in dom.get(x[0], ()) and cb != x[0]) or (cb == x[0] and ci_ < x[1]) for (cb, ci_) in chk)]
        if bad:
            res.violations.append(Violation(rule, "%s|row statuses installed without a look at the senses" % base(f.name), f.name, short_loc(bad[0][2]),
                                            "%s fills the row statuses of p->basis from %s (%s) and no validator that reads the row senses (%s) dominates that: "
                                            "'at upper' on a row that is not ranged is accepted, and ILLbasis_load refuses the basis at every later solve" % (
                                                f.name, ", ".join(ext), bad[0][3], ", ".join(res.counts["row_status_validators"]) or "none found")))
        else:
            res.sample({"function": f.name, "verdict": "a sense-aware validator dominates every fill"}, limit=6)
    res.counts["basis_loaders"] = n
    res.floor("public functions that install external row statuses", n, floor)
    return res
