"""R-PASTCOL (C17): the slot behind a column is looked at only when it exists.

The column-major matrix keeps free slots (index -1) behind some columns; "is there room behind column c" is asked by looking at
`matind[matbeg[c] + matcnt[c]]`.  For the last column of the array that position is `matsize`, one past the block.  Every subscript
of `ILLmatrix::matind` / `::matval` by a position of the form matbeg[c] + matcnt[c] (written out, or through a local whose only
definition is that sum) must be dominated by a condition that reads the capacity of the array (`ILLmatrix::matsize`) or its free
count (`ILLmatrix::matfree`: "since matfree is positive we are not sitting at the end of the array")."""
from ..core import walk, strip, is_var, const_of, show, short_loc, dominators
from ..result import RuleResult, Violation


def _trees(e):
    if e[0] == "D":
        return [x[1] for x in e[1] if x[1] is not None]
    return [e[1]] if len(e) > 1 and isinstance(e[1], list) else []


def _is_past(t, defs, depth=0):
    """t is (matbeg[x] + matcnt[x]) possibly through a local"""
    t = strip(t)
    if is_var(t, kind="l") and depth < 2:
        d = defs.get(t[2])
        return d is not None and _is_past(d, defs, depth + 1)
    if not (isinstance(t, list) and t and t[0] == "b" and t[1] == "+"):
        return False
    flds = set()
    for side in (t[2], t[3]):
        s = strip(side)
        if isinstance(s, list) and s and s[0] == "i":
            a = strip(s[1])
            if isinstance(a, list) and a and a[0] == "m" and isinstance(a[2], str):
                flds.add(a[2].split("::")[1])
    return flds == {"matbeg", "matcnt"}


def run(prog, rule="R-PASTCOL", floor=3):
    res = RuleResult(rule, "a subscript of the matrix arrays by matbeg[c] + matcnt[c] (the slot behind column c) is dominated by a condition on the "
                           "array's capacity or free count")
    n = 0
    for f in sorted(prog.funcs.values(), key=lambda x: x.key):
        if f.live is None or "_dbl." in f.unit or "_mpf." in f.unit or not f.unit.startswith("qsopt_ex/"):
            continue
        defs, multi = {}, set()
        for b, i, e in f.elements(live_only=False):
            if e[0] == "A" and is_var(strip(e[1][2]), kind="l"):
                nme = strip(e[1][2])[2]
                if nme in defs or e[1][1] != "=":
                    multi.add(nme)
                defs[nme] = e[1][3]
            elif e[0] == "D":
                for nme, init in e[1]:
                    if init is not None:
                        if nme in defs:
                            multi.add(nme)
                        defs[nme] = init
            elif e[0] == "U" and is_var(strip(e[1][2]), kind="l"):
                multi.add(strip(e[1][2])[2])
        for m_ in multi:
            defs.pop(m_, None)
        sites = []
        for bid in f.live:
            blk = f.blocks[bid]
            trees = [(t, e[2] if len(e) > 2 and isinstance(e[2], str) else f.loc) for e in blk["e"] for t in _trees(e)]
            if blk.get("c") is not None:
                trees.append((blk["c"], blk.get("tloc", f.loc)))
            for t, loc in trees:
                for nd in walk(t):
                    if isinstance(nd, list) and nd and nd[0] == "i":
                        a = strip(nd[1])
                        if isinstance(a, list) and a and a[0] == "m" and isinstance(a[2], str) and a[2].endswith(("ILLmatrix::matind", "ILLmatrix::matval")) \
                                and _is_past(nd[2], defs):
                            sites.append((bid, loc, nd))
        if not sites:
            continue
        dom = dominators(prog, f)[0]
        guards = set()
        for bid in f.live:
            c = f.blocks[bid].get("c")
            if c is not None and any(isinstance(nd, list) and nd and nd[0] == "m" and isinstance(nd[2], str) and nd[2].endswith(("ILLmatrix::matsize", "ILLmatrix::matfree"))
                                     for nd in walk(c)):
                guards.add(bid)
        # the branch of an empty column: the position is matbeg[c], the column's own first slot
        empty_branch = set()
        for bid in f.live:
            c = f.blocks[bid].get("c")
            ss = prog.live_succs(f, f.blocks[bid])
            if c is None or len(ss) != 2 or ss[0] is None:
                continue
            c0 = strip(c)
            if isinstance(c0, list) and c0 and c0[0] == "b" and c0[1] == "==" and const_of(c0[3]) == 0:
                l = strip(c0[2])
                if isinstance(l, list) and l and l[0] == "i" and isinstance(strip(l[1]), list) and strip(l[1])[0] == "m" and str(strip(l[1])[2]).endswith("ILLmatrix::matcnt"):
                    empty_branch.add(ss[0])
        seen = set()
        for bid, loc, nd in sites:
            line = ":".join(str(loc).split(":")[:2])
            if (bid, line, show(nd)) in seen:
                continue
            seen.add((bid, line, show(nd)))
            if any(eb == bid or eb in dom.get(bid, ()) for eb in empty_branch):
                continue
            n += 1
            res.obligations += 1
            res.nontrivial += 1
            ok = any(g != bid and g in dom.get(bid, ()) for g in guards)
            if not ok and bid in guards:
                # the guard and the probe in one condition tree: accept when the capacity is mentioned to the left of the subscript
                txt = show(f.blocks[bid]["c"])
                ok = 0 <= min((txt.find(k) for k in ("matsize", "matfree") if k in txt), default=-1) < txt.find(show(nd))
            if ok:
                res.sample({"site": "%s %s: %s" % (short_loc(loc), f.name, show(nd)[:60]), "verdict": "behind a capacity / free-count condition"}, limit=8)
            else:
                res.violations.append(Violation(rule, "%s|slot behind the column probed without a capacity test" % f.name.replace("mpq_", ""), f.name, short_loc(loc),
                                                "%s: for the last column of the array this position is matsize, one past the block; no dominating condition "
                                                "reads ILLmatrix::matsize or ::matfree" % show(nd)[:70]))
    res.counts["past_column_subscripts"] = n
    res.floor("subscripts of the matrix arrays by matbeg[c] + matcnt[c]", n, floor)
    return res
