"""R-PASTCOL (C17): the slot behind a column is looked at only when it exists.

The column-major matrix keeps free slots (index -1) behind some columns; "is there room behind column c" is asked by looking at
`matind[matbeg[c] + matcnt[c]]`.  For the last column of the array that position is `matsize`, one past the block.  Every subscript
of `ILLmatrix::matind` / `::matval` by a position of the form matbeg[c] + matcnt[c] (written out, or through a local whose only
definition is that sum) must be dominated by a condition that reads the capacity of the array (`ILLmatrix::matsize`) or its free
count (`ILLmatrix::matfree`: "since matfree is positive we are not sitting at the end of the array")."""
from ..core import walk, strip, is_var, const_of, show, short_loc, dominators
from ..result import RuleResult, Violation


def _trees(e):
    if e[0] == "D":
        return [x[1] for x in e[1] if x[1] is not None]
    return [e[1]] if len(e) > 1 and isinstance(e[1], list) else []


def _is_past(t, defs, depth=0):
    """t is (matbeg[x] + matcnt[x]) possibly through a local"""
    t = strip(t)
    if is_var(t, kind="l") and depth < 2:
        d = defs.get(t[2])
        return d is not None and _is_past(d, defs, depth + 1)
    if not (isinstance(t, list) and t and t[0] == "b" and t[1] == "+"):
        return False
    flds = set()
    for side in (t[2], t[3]):
        s = strip(side)
        if isinstance(s, list) and s and s[0] == "i":
            a = strip(s[1])
            if isinstance(a, list) and a and a[0] == "m" and isinstance(a[2], str):
                flds.add(a[2].split("::")[1])
    return flds == {"matbeg", "matcnt"}


def run(prog, rule="R-PASTCOL", floor=3):
    res = RuleResult(rule, "a subscript of the matrix arrays by matbeg[c] + matcnt[c] (the slot behind column c) is dominated by a condition on the "
                           "array's capacity or free count")
    n = 0
    for f in sorted(prog.funcs.values(), key=lambda x: x.key):
        if f.live is None or "_dbl." in f.unit or "_mpf." in f.unit or not f.unit.startswith("qsopt_ex/"):
            continue
        defs, multi = {}, set()
        for b, i, e in f.elements(live_only=False):
            if e[0] == "A" and is_var(strip(e[1][2]), kind="l"):
                nme = strip(e[1][2])[2]
                if nme in defs or e[1][1] != "=":
                    multi.add(nme)
                defs[nme] = e[1][3]
            elif e[0] == "D":
                for nme, init in e[1]:
                    if init is not None:
                        if nme in defs:
                            multi.add(nme)
                        defs[nme] = init
            elif e[0] == "U" and is_var(strip(e[1][2]), kind="l"):
                multi.add(strip(e[1][2])[2])
        for m_ in multi:
            defs.pop(m_, None)
        sites = []
        for bid in f.live:
            blk = f.blocks[bid]
            trees = [(t, e[2] if len(e) > 2 and isinstance(e[2], str) else f.loc) for e in blk["e"] for t in _trees(e)]
            if blk.get("c") is not None:
                trees.append((blk["c"], blk.get("tloc", f.loc)))
            for t, loc in trees:
                for nd in walk(t):
                    if isinstance(nd, list) and nd and nd[0] == "i":
                        a = strip(nd[1])
                        if isinstance(a, list) and a and a[0] == "m" and isinstance(a[2], str) and a[2].endswith(("ILLmatrix::matind", "ILLmatrix::matval")) \
                                and _is_past(nd[2], defs):
                            sites.append((bid, loc, nd))
        if not sites:
            continue
        dom = dominators(prog, f)[0]
        guards = set()
        for bid in f.live:
            c = f.blocks[bid].get("c")
            if c is not None and any(isinstance(nd, list) and nd and nd[0] == "m" and isinstance(nd[2], str) and nd[2].endswith(("ILLmatrix::matsize", "ILLmatrix::matfree"))
                                     for nd in walk(c)):
                guards.add(bid)
        # the branch of an empty column: the position is matbeg[c], the column's own first slot
        empty_branch = set()
        for bid in f.live:
            c = f.blocks[bid].get("c")
            ss = prog.live_succs(f, f.blocks[bid])
            if c is None or len(ss) != 2 or ss[0] is None:
                continue
            c0 = strip(c)
            if isinstance(c0, list) and c0 and c0[0] == "b" and c0[1] == "==" and const_of(c0[3]) == 0:
                l = strip(c0[2])
                if isinstance(l, list) and l and l[0] == "i" and isinstance(strip(l[1]), list) and strip(l[1])[0] == "m" and str(strip(l[1])[2]).endswith("ILLmatrix::matcnt"):
                    empty_branch.add(ss[0])
        seen = set()
        for bid, loc, nd in sites:
            line = ":".join(str(loc).split(":")[:2])
            if (bid, line, show(nd)) in seen:
                continue
            seen.add((bid, line, show(nd)))
            if any(eb == bid or eb in dom.get(bid, ()) for eb in empty_branch):
                continue
            n += 1
            res.obligations += 1
            res.nontrivial += 1
            ok = any(g != bid and g in dom.get(bid, ()) for g in guards)
            if not ok and bid in guards:
                # the guard and the probe in one condition tree: accept when the capacity is mentioned to the left of the subscript
                txt = show(f.blocks[bid]["c"])
                ok = 0 <= min((txt.find(k) for k in ("matsize", "matfree") if k in txt), default=-1) < txt.find(show(nd))
            if ok:
                res.sample({"site": "%s %s: %s" % (short_loc(loc), f.name, show(nd)[:60]), "verdict": "behind a capacity / free-count condition"}, limit=8)
            else:
                res.violations.append(Violation(rule, "%s|slot behind the column probed without a capacity test" % f.name.replace("mpq_", ""), f.name, short_loc(loc),
                                                "%s: for the last column of the array this position is matsize, one past the block; no dominating condition "
                                                "reads ILLmatrix::matsize or ::matfree" % show(nd)[:70]))
    res.counts["past_column_subscripts"] = n
    res.floor("subscripts of the matrix arrays by matbeg[c] + matcnt[c]", n, floor)
    return res


def run_appendpos(prog, rule="R-APPENDPOS", floor=3):
    """where a column starts in a matrix that has a free tail.  The column-major matrix of an existing problem keeps its unused slots at the
    end: `matfree` of them, so the first free position is `matsize - matfree` (columns without entries own reserved slots in front of it:
    the number of non-zeros is *not* a position).  In every function that works with the free tail (reads `ILLmatrix::matfree`) or enlarges the existing arrays of the matrix, a value
    stored into an element of `ILLmatrix::matbeg` derives from `matfree`: the stored expression, or the definitions of the locals it is
    made of (copies, increments, sums - flow-insensitive closure), read that field.  Functions that build a fresh matrix from counts do
    not read matfree before they set it and are not concerned."""
    from ..core import apath, fields_of
    res = RuleResult(rule, "in functions that use the free tail of the column matrix, every column start stored into matbeg derives from matsize - matfree")
    n = 0
    for f in sorted(prog.funcs.values(), key=lambda x: x.key):
        if f.live is None or "_dbl." in f.unit or "_mpf." in f.unit or not f.unit.startswith("qsopt_ex/"):
            continue
        reads_free = False
        defs = {}
        stores = []
        for b, i, e in f.elements():
            trees = [x[1] for x in e[1] if x[1] is not None] if e[0] == "D" else ([e[1]] if len(e) > 1 and isinstance(e[1], list) else [])
            for t in trees:
                for nd in walk(t):
                    if isinstance(nd, list) and nd and nd[0] == "m" and isinstance(nd[2], str) and nd[2].endswith("ILLmatrix::matfree"):
                        reads_free = True
            if e[0] == "A":
                l = strip(e[1][2])
                if is_var(l, kind="l"):
                    defs.setdefault(l[2], []).append(e[1][3])
                if isinstance(l, list) and l and l[0] == "i":
                    a = strip(l[1])
                    if isinstance(a, list) and a and a[0] == "m" and isinstance(a[2], str) and a[2].endswith("ILLmatrix::matbeg") and e[1][1] == "=":
                        stores.append((e[1][3], e[2], show(e[1])[:60]))
            elif e[0] == "D":
                for nme, init in e[1]:
                    if init is not None:
                        defs.setdefault(nme, []).append(init)
        for bid in f.live:
            c = f.blocks[bid].get("c")
            if c is not None and any(isinstance(nd, list) and nd and nd[0] == "m" and isinstance(nd[2], str) and nd[2].endswith("ILLmatrix::matfree") for nd in walk(c)):
                reads_free = True
        # ... or that enlarge the existing arrays of the matrix (as opposed to building a matrix from nothing with fresh blocks)
        grows = False
        for b, i, e in f.elements():
            if e[0] == "A" and e[1][1] == "=":
                l = strip(e[1][2])
                if isinstance(l, list) and l and l[0] == "m" and isinstance(l[2], str) and l[2].endswith(("ILLmatrix::matind", "ILLmatrix::matval")):
                    if any(isinstance(nd, list) and nd and nd[0] == "c" and "realloc" in (nd[1] or "") for nd in walk(e[1][3])):
                        grows = True
            if e[0] == "D":
                for nme, init in e[1]:
                    if nme.startswith("__ptr__") and init is not None:
                        t = strip(init)
                        if isinstance(t, list) and t and t[0] == "u" and t[1] == "&":
                            inner = strip(t[2])
                            if isinstance(inner, list) and inner and inner[0] == "m" and str(inner[2]).endswith(("ILLmatrix::matind", "ILLmatrix::matval")):
                                grows = True
        # a plain store `A->matfree = k` is no use of the tail
        if reads_free:
            reads_free = False
            for b, i, e in f.elements():
                trees = [x[1] for x in e[1] if x[1] is not None] if e[0] == "D" else ([e[1][3]] if e[0] == "A" and e[1][1] == "=" else ([e[1]] if len(e) > 1 and isinstance(e[1], list) else []))
                for t in trees:
                    if any(isinstance(nd, list) and nd and nd[0] == "m" and isinstance(nd[2], str) and nd[2].endswith("ILLmatrix::matfree") for nd in walk(t)):
                        reads_free = True
            for bid in f.live:
                c = f.blocks[bid].get("c")
                if c is not None and any(isinstance(nd, list) and nd and nd[0] == "m" and isinstance(nd[2], str) and nd[2].endswith("ILLmatrix::matfree") for nd in walk(c)):
                    reads_free = True
        if not (reads_free or grows) or not stores:
            continue

        def from_free(t, seen):
            for nd in walk(t):
                if isinstance(nd, list) and nd and nd[0] == "m" and isinstance(nd[2], str) and nd[2].endswith("ILLmatrix::matfree"):
                    return True
                if is_var(nd, kind="l") and nd[2] not in seen:
                    seen.add(nd[2])
                    if any(from_free(d, seen) for d in defs.get(nd[2], [])):
                        return True
            return False

        for val, loc, txt in stores:
            if const_of(val) is not None:
                continue
            v0 = strip(val)
            if isinstance(v0, list) and v0 and v0[0] == "i":
                continue                                    # a copy of another column start (repacking)
            n += 1
            res.obligations += 1
            res.nontrivial += 1
            if from_free(val, set()):
                res.sample({"site": "%s %s: %s" % (short_loc(loc), f.name, txt), "verdict": "derived from matfree"}, limit=8)
            else:
                res.violations.append(Violation(rule, "%s|column start not derived from the free tail" % f.name.replace("mpq_", ""), f.name, short_loc(loc),
                                                "%s: the function works with the free tail of the matrix (it reads ILLmatrix::matfree), but this column start is computed "
                                                "from something else (%s): with reserved slots in front of the tail (columns without entries) it points into used space" % (
                                                    txt, show(val)[:40])))
    res.counts["column_starts_stored"] = n
    res.floor("stores of a computed column start into matbeg in functions that read matfree", n, floor)
    return res
