"""R-GROWGUARD (C11, C17): an array is grown under the test of its own capacity.

Growable arrays of the reader's records come in pairs (array field, capacity field): `rowsense / sensesize`, `rhs / rhssize`,
`cols / colsize` ...  The appending routines test `count >= capacity`, enlarge the capacity and re-allocate the array with it.  Every
re-allocation of a record's array field whose new length is a capacity field of the same record that sits in the branch of a condition on another capacity field of the record must also be controlled by a condition
that reads its own capacity field: two arrays with different growth sequences (1000, 2300, 3990 / 1000, 2000, 3000) that are grown under the
test of only one of them leave the other too short (rows 2000 .. 2299 of the right-hand sides written past the block)."""
import collections

from ..core import walk, strip, is_var, callee, show, short_loc, dominators
from ..result import RuleResult, Violation

REALLOC = ("EGrealloc", "realloc", "ILLutil_reallocrus", "ILLutil_reallocrus_count", "ILLutil_reallocrus_scale")


def _fld(t):
    t = strip(t)
    if isinstance(t, list) and t and t[0] == "m" and isinstance(t[2], str):
        return t[2]
    return None


def run(prog, rule="R-GROWGUARD", floor=5):
    res = RuleResult(rule, "a re-allocation of a record's array field with a capacity field of that record as length is dominated by a condition that reads "
                           "that capacity field")
    n = 0
    for f in sorted(prog.funcs.values(), key=lambda x: x.key):
        if f.live is None or "_dbl." in f.unit or "_mpf." in f.unit or not f.unit.startswith("qsopt_ex/"):
            continue
        sites = []          # (bid, loc, array field, capacity field)
        ptrs, szs = {}, {}
        for b, i, e in f.elements():
            if e[0] == "A" and e[1][1] == "=":
                af = _fld(e[1][2])
                if af:
                    for nd in walk(e[1][3]):
                        if isinstance(nd, list) and nd and nd[0] == "c" and (callee(nd) or "") in REALLOC and nd[3]:
                            if not any(_fld(x) == af for a in nd[3] for x in walk(a)):
                                continue                       # not a re-allocation of the field itself
                            caps = {_fld(x) for a in nd[3] for x in walk(a) if _fld(x) and _fld(x) != af and _fld(x).split("::")[0] == af.split("::")[0]
                                    and _fld(x).split("::")[1].endswith("size")}
                            for c_ in caps:
                                sites.append((b["id"], e[2], af, c_))
            elif e[0] == "D":
                for nme, init in e[1]:
                    if init is None:
                        continue
                    suffix = nme.split("@")[1] if "@" in nme else ""
                    if nme.startswith("__ptr__"):
                        t = strip(init)
                        if isinstance(t, list) and t and t[0] == "u" and t[1] == "&" and _fld(t[2]):
                            ptrs[(e[2], suffix)] = (b["id"], _fld(t[2]))
                    elif nme.startswith("__sz__"):
                        szs[(e[2], suffix)] = init
        for key, (bid, af) in ptrs.items():
            if key in szs:
                caps = {_fld(x) for x in walk(szs[key]) if _fld(x) and _fld(x).split("::")[0] == af.split("::")[0] and _fld(x).split("::")[1].endswith("size")}
                for c_ in caps:
                    sites.append((bid, key[0], af, c_))
        if not sites:
            continue
        dom = dominators(prog, f)[0]
        # controlling conditions of a block: condition blocks whose taken branch (first successor) dominates it.  `&&` / `||` chains: the
        # members of one chain control the same branch
        condflds = {}
        branch = {}
        for bid in f.live:
            c = f.blocks[bid].get("c")
            ss = prog.live_succs(f, f.blocks[bid])
            if c is not None and len(ss) == 2 and ss[0] is not None:
                condflds[bid] = {_fld(x) for x in walk(c) if _fld(x)}
                branch[bid] = ss[0]

        def controls(d, bid):
            x = branch.get(d)
            for _ in range(6):                      # follow a chain of condition-only blocks (a && b && c)
                if x is None:
                    return False
                if x == bid or x in dom.get(bid, ()):
                    return True
                if f.blocks[x]["e"] or x not in branch:
                    return False
                x = branch[x]
            return False
        seen = set()
        for bid, loc, af, cap in sites:
            if (af, cap, bid) in seen:
                continue
            seen.add((af, cap, bid))
            n += 1
            res.obligations += 1
            res.nontrivial += 1
            ctrl = [d for d in condflds if d != bid and controls(d, bid)]
            own = any(cap in condflds[d] for d in ctrl)
            other = sorted({x.split("::")[1] for d in ctrl for x in condflds[d] if x != cap and x.split("::")[0] == cap.split("::")[0] and x.split("::")[1].endswith("size")})
            ok = own or not other         # grown unconditionally, or under a test that reads no capacity at all (a free count): nothing to compare
            if ok:
                res.sample({"site": "%s %s: %s grown to %s" % (short_loc(loc), f.name, af.split("::")[1], cap.split("::")[1]), "verdict": "under a test of that capacity" if own else "not under the test of another capacity"}, limit=10)
            else:
                others = other
                res.violations.append(Violation(rule, "%s|%s re-allocated without a test of %s" % (f.name.replace("mpq_", ""), af.split("::")[1], cap.split("::")[1]), f.name,
                                                short_loc(loc), "%s is re-allocated with the length %s, but no dominating condition reads %s (the block is entered under a test "
                                                "of %s): when the two capacities grow differently the array is not enlarged when its own capacity is exhausted" % (
                                                    af, cap, cap, ", ".join(others) or "something else")))
    res.counts["reallocations_with_a_capacity_field"] = n
    res.floor("re-allocations of an array field with a capacity field as length", n, floor)
    return res


def run_capsync(prog, rule="R-CAPSYNC", floor=3):
    """the recorded capacity is the allocated length.  A pointer field X of a record is paired with a capacity field C of the same record
    when some function allocates X with the length C, or with a local that it also stores into C (`h->namelist = realloc (h->namelist,
    newstrspace); h->strspace = newstrspace;`).  Every other function that gives X a new block must do the same: the length is C itself,
    or a value the function also stores into C.  A block allocated with another length (the used size instead of the capacity) while C
    keeps its value makes every later `used + n > C` test lie (the compaction branch of the name pool: heap write behind the block when
    the pool is refilled)."""
    import re
    res = RuleResult(rule, "a new block for a pointer field that has a capacity field is allocated with that capacity, or the capacity is set to the length used")
    funcs = [f for f in prog.funcs.values() if f.live is not None and "_dbl." not in f.unit and "_mpf." not in f.unit and f.unit.startswith("qsopt_ex/")]
    ALLOCF = ("ILLutil_allocrus", "malloc", "calloc", "EGmalloc") + REALLOC

    def norm(t, base):
        s = re.sub(r"\s+", "", show(strip(t)))
        s = re.sub(r"\(size_t\)", "", s)
        return re.sub(r"\b%s\b" % re.escape(base), "$", s) if base else s

    def length_of(call):
        a = strip(call[3][-1] if (call[1] or "") != "calloc" else call[3][0])
        while isinstance(a, list) and a and a[0] == "k":
            a = strip(a[2])
        if isinstance(a, list) and a and a[0] == "b" and a[1] == "*":
            for x, y in ((a[2], a[3]), (a[3], a[2])):
                from ..core import const_of
                if const_of(y) is not None and const_of(x) is None:
                    return x
        return a

    sites = []          # (f, array field, base var, normalised length, loc, {capacity fields the function sets to that length})
    for f in funcs:
        local_len = {}
        dinit = {}
        for b, i, e in f.elements():
            if e[0] == "D":
                for nme, init in e[1]:
                    if nme.startswith("__") and init is not None:
                        dinit[nme] = init

        def resolve(t, depth=0):
            """the size temporaries of the allocation macros: ____sz = (size_t) (1 * n)"""
            t = strip(t)
            while isinstance(t, list) and t and t[0] == "k":
                t = strip(t[2])
            if is_var(t, kind="l") and t[2] in dinit and depth < 3:
                return resolve(dinit[t[2]], depth + 1)
            if isinstance(t, list) and t and t[0] == "b" and t[1] == "*":
                from ..core import const_of
                for x, y in ((t[2], t[3]), (t[3], t[2])):
                    if const_of(y) is not None and const_of(x) is None:
                        return resolve(x, depth + 1)
            return t
        for b, i, e in f.elements():
            if e[0] == "A" and e[1][1] == "=" and is_var(strip(e[1][2]), kind="l"):
                for nd in walk(e[1][3]):
                    if isinstance(nd, list) and nd and nd[0] == "c" and (callee(nd) or "") in ALLOCF and nd[3]:
                        local_len[strip(e[1][2])[2]] = resolve(length_of(nd))
        capsets = collections.defaultdict(set)      # normalised value text -> capacity fields assigned that value
        for b, i, e in f.elements():
            if e[0] == "A" and e[1][1] == "=":
                cf = _fld(e[1][2])
                l = strip(e[1][2])
                if cf and isinstance(l, list) and is_var(strip(l[1])):
                    capsets[norm(e[1][3], strip(l[1])[2])].add(cf)
        for b, i, e in f.elements():
            if e[0] != "A" or e[1][1] != "=":
                continue
            af = _fld(e[1][2])
            l = strip(e[1][2])
            if not af or not (isinstance(l, list) and is_var(strip(l[1]))):
                continue
            base_ = strip(l[1])[2]
            ln = None
            r = strip(e[1][3])
            if is_var(r, kind="l") and r[2] in local_len:
                ln = local_len[r[2]]
            else:
                for nd in walk(e[1][3]):
                    if isinstance(nd, list) and nd and nd[0] == "c" and (callee(nd) or "") in ALLOCF and nd[3]:
                        ln = resolve(length_of(nd))
            if ln is None:
                continue
            ntxt = norm(ln, base_)
            direct = {_fld(ln)} if _fld(ln) and _fld(ln).split("::")[0] == af.split("::")[0] else set()
            strong = {c for c in capsets.get(ntxt, ()) if c != af and c.split("::")[0] == af.split("::")[0] and not _fld(ln)
                      and c.split("::")[1].endswith(("space", "size"))}
            sites.append((f, af, base_, ntxt, e[2], direct, strong))
    # a pair needs strong evidence: a site that allocates with a computed length and stores that very length into the capacity field
    pairs = collections.defaultdict(collections.Counter)
    for f, af, base_, ntxt, loc, direct, strong in sites:
        for c in strong:
            pairs[af][c] += 1
    res.counts["array_capacity_pairs"] = {a: dict(c) for a, c in sorted(pairs.items())}
    n = 0
    for f, af, base_, ntxt, loc, direct, strong in sites:
        if af not in pairs or not (direct or strong):
            continue                                   # lengths hidden in macro temporaries / parameters: not decided
        caps = direct | strong
        n += 1
        res.obligations += 1
        res.nontrivial += 1
        if caps & set(pairs[af]):
            res.sample({"site": "%s %s: %s allocated with %s" % (short_loc(loc), f.name, af.split("::")[1], ntxt), "verdict": "capacity %s" % ", ".join(sorted(x.split("::")[1] for x in caps))}, limit=10)
        else:
            res.violations.append(Violation(rule, "%s|%s allocated with another length than its capacity" % (f.name.replace("mpq_", ""), af.split("::")[1]), f.name,
                                            short_loc(loc), "%s gets a block of %s entries, but its capacity field (%s - paired with it at %d other allocation site(s)) is "
                                            "neither that expression nor set to it here: the recorded capacity no longer says how long the block is" % (
                                                af, ntxt, ", ".join(sorted(x.split("::")[1] for x in pairs[af])), sum(pairs[af].values()))))
    res.counts["allocation_sites_of_paired_arrays"] = n
    res.floor("allocation sites of pointer fields that have a capacity field", n, floor)
    return res
