"""R-GROWGUARD (C11, C17): an array is grown under the test of its own capacity.

Growable arrays of the reader's records come in pairs (array field, capacity field): `rowsense / sensesize`, `rhs / rhssize`,
`cols / colsize` ...  The appending routines test `count >= capacity`, enlarge the capacity and re-allocate the array with it.  Every
re-allocation of a record's array field whose new length is a capacity field of the same record that sits in the branch of a condition on another capacity field of the record must also be controlled by a condition
that reads its own capacity field: two arrays with different growth sequences (1000, 2300, 3990 / 1000, 2000, 3000) that are grown under the
test of only one of them leave the other too short (rows 2000 .. 2299 of the right-hand sides written past the block)."""
import collections

from ..core import walk, strip, is_var, callee, show, short_loc, dominators
from ..result import RuleResult, Violation

REALLOC = ("EGrealloc", "realloc", "ILLutil_reallocrus", "ILLutil_reallocrus_count", "ILLutil_reallocrus_scale")


def _fld(t):
    t = strip(t)
    if isinstance(t, list) and t and t[0] == "m" and isinstance(t[2], str):
        return t[2]
    return None


def run(prog, rule="R-GROWGUARD", floor=5):
    res = RuleResult(rule, "a re-allocation of a record's array field with a capacity field of that record as length is dominated by a condition that reads "
                           "that capacity field")
    n = 0
    for f in sorted(prog.funcs.values(), key=lambda x: x.key):
        if f.live is None or "_dbl." in f.unit or "_mpf." in f.unit or not f.unit.startswith("qsopt_ex/"):
            continue
        sites = []          # (bid, loc, array field, capacity field)
        ptrs, szs = {}, {}
        for b, i, e in f.elements():
            if e[0] == "A" and e[1][1] == "=":
                af = _fld(e[1][2])
                if af:
                    for nd in walk(e[1][3]):
                        if isinstance(nd, list) and nd and nd[0] == "c" and (callee(nd) or "") in REALLOC and nd[3]:
                            if not any(_fld(x) == af for a in nd[3] for x in walk(a)):
                                continue                       # not a re-allocation of the field itself
                            caps = {_fld(x) for a in nd[3] for x in walk(a) if _fld(x) and _fld(x) != af and _fld(x).split("::")[0] == af.split("::")[0]
                                    and _fld(x).split("::")[1].endswith("size")}
                            for c_ in caps:
                                sites.append((b["id"], e[2], af, c_))
            elif e[0] == "D":
                for nme, init in e[1]:
                    if init is None:
                        continue
                    suffix = nme.split("@")[1] if "@" in nme else ""
                    if nme.startswith("__ptr__"):
                        t = strip(init)
                        if isinstance(t, list) and t and t[0] == "u" and t[1] == "&" and _fld(t[2]):
                            ptrs[(e[2], suffix)] = (b["id"], _fld(t[2]))
                    elif nme.startswith("__sz__"):
                        szs[(e[2], suffix)] = init
        for key, (bid, af) in ptrs.items():
            if key in szs:
                caps = {_fld(x) for x in walk(szs[key]) if _fld(x) and _fld(x).split("::")[0] == af.split("::")[0] and _fld(x).split("::")[1].endswith("size")}
                for c_ in caps:
                    sites.append((bid, key[0], af, c_))
        if not sites:
            continue
        dom = dominators(prog, f)[0]
        # controlling conditions of a block: condition blocks whose taken branch (first successor) dominates it.  `&&` / `||` chains: the
        # members of one chain control the same branch
        condflds = {}
        branch = {}
        for bid in f.live:
            c = f.blocks[bid].get("c")
            ss = prog.live_succs(f, f.blocks[bid])
            if c is not None and len(ss) == 2 and ss[0] is not None:
                condflds[bid] = {_fld(x) for x in walk(c) if _fld(x)}
                branch[bid] = ss[0]

        def controls(d, bid):
            x = branch.get(d)
            for _ in range(6):                      # follow a chain of condition-only blocks (a && b && c)
                if x is None:
                    return False
                if x == bid or x in dom.get(bid, ()):
                    return True
                if f.blocks[x]["e"] or x not in branch:
                    return False
                x = branch[x]
            return False
        seen = set()
        for bid, loc, af, cap in sites:
            if (af, cap, bid) in seen:
                continue
            seen.add((af, cap, bid))
            n += 1
            res.obligations += 1
            res.nontrivial += 1
            ctrl = [d for d in condflds if d != bid and controls(d, bid)]
            own = any(cap in condflds[d] for d in ctrl)
            other = sorted({x.split("::")[1] for d in ctrl for x in condflds[d] if x != cap and x.split("::")[0] == cap.split("::")[0] and x.split("::")[1].endswith("size")})
            ok = own or not other         # grown unconditionally, or under a test that reads no capacity at all (a free count): nothing to compare
            if ok:
                res.sample({"site": "%s %s: %s grown to %s" % (short_loc(loc), f.name, af.split("::")[1], cap.split("::")[1]), "verdict": "under a test of that capacity" if own else "not under the test of another capacity"}, limit=10)
            else:
                others = other
                res.violations.append(Violation(rule, "%s|%s re-allocated without a test of %s" % (f.name.replace("mpq_", ""), af.split("::")[1], cap.split("::")[1]), f.name,
                                                short_loc(loc), "%s is re-allocated with the length %s, but no dominating condition reads %s (the block is entered under a test "
                                                "of %s): when the two capacities grow differently the array is not enlarged when its own capacity is exhausted" % (
                                                    af, cap, cap, ", ".join(others) or "something else")))
    res.counts["reallocations_with_a_capacity_field"] = n
    res.floor("re-allocations of an array field with a capacity field as length", n, floor)
    return res
