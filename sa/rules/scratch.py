"""R-SCRATCH (C13): the simplex's scratch marker array is handed back clean.

lpinfo::iwork is a work array of marks (set to 1 while a routine collects the distinct indices of a sparse product, e.g. the
tableau row z A in compute_zA3, or the rows touched by a price update) that every user must leave all-zero: the next user
tests `iwork[ix] == 0` to decide whether an index is new.  The marks are cleared by a loop over the collected index list; the
rule requires that no iteration of a loop that contains such a reset skips the reset (or a test of the mark itself), and that
the loop is not left, because of a branch on the value of an exact number (skips decided by index / category tests alone mirror
the marking loop and are accepted) - a value-dependent `continue` or `break` in front of the reset leaves stale marks behind, after which later
tableau rows silently lose entries (the property's 'every tableau row ... multiplies back exactly')."""
from ..core import strip, is_var, callee, const_of, apath, fields_of, show, short_loc, walk
from ..result import RuleResult, Violation
from .certdep import natural_loops, iteration_avoids

FIELD = "lpinfo::iwork"


def _is_mark(t):
    t = strip(t)
    if isinstance(t, list) and t and t[0] == "i":
        fl = fields_of(apath(t[1])[2])
        return bool(fl) and fl[-1].endswith(FIELD)
    return False


def _number_cond(b):
    """the block branches on the value of an exact number (a GMP comparison / sign test)"""
    c = b.get("c")
    if c is None:
        return False
    for nd in walk(c):
        if nd[0] == "m" and nd[2].endswith("::_mp_size"):
            return True
        if nd[0] == "c" and (callee(nd) or "").startswith(("mpq_cmp", "mpq_equal", "mpq_sgn", "mpz_cmp", "mpz_sgn")):
            return True
    return False


def _error_return(b):
    """the block returns a non-zero constant (an error code): leaving the loop this way abandons the computation"""
    for e in b["e"]:
        if e[0] == "R" and e[1] is not None:
            c = const_of(e[1])
            if c is not None and c != 0:
                return True
    return False


def _skips_on_number(f, succ, loops, h, S):
    """is there a branch on a number's value, inside loop h, one side of which can complete the iteration (or leave the loop normally)
    without passing a block of S while the other side cannot?  Skips decided by index / category tests alone mirror the marking loop
    and are accepted; exits through an error return are not completions."""
    body = loops[h]
    memo = {}

    def avoid(src):
        """can src reach the back edge / a normal loop exit without passing S?"""
        if src in memo:
            return memo[src]
        if src in S or src not in body:
            return False
        seen, wl, ok = {src}, [src], False
        while wl and not ok:
            x = wl.pop()
            if _error_return(f.blocks[x]):
                continue
            for s_ in succ[x]:
                if s_ == h:
                    ok = True
                    break
                if s_ not in body:
                    if not _error_return(f.blocks[s_]):
                        ok = True
                        break
                    continue
                if s_ in S or s_ in seen:
                    continue
                seen.add(s_)
                wl.append(s_)
        memo[src] = ok
        return ok
    # number-condition blocks reachable from the body entry without passing S
    start = [s_ for s_ in succ[h] if s_ in body and s_ != h and s_ not in S]
    seen, wl = set(start), list(start)
    while wl:
        x = wl.pop()
        ss = [s_ for s_ in succ[x]]
        if _number_cond(f.blocks[x]) and len(ss) == 2:
            a = [(s_ == h) or (s_ not in body and not _error_return(f.blocks[s_])) or avoid(s_) for s_ in ss]
            if a[0] != a[1]:
                return ("back", x)
        for s_ in ss:
            if s_ in body and s_ != h and s_ not in S and s_ not in seen:
                seen.add(s_)
                wl.append(s_)
    return None


def run(prog, rule="R-SCRATCH"):
    res = RuleResult(rule, "every iteration of a loop that clears marks of the scratch array lpinfo::iwork passes the clearing store (or a test "
                           "of the mark) and the loop is not left early")
    nloops = 0
    for f in sorted(prog.funcs.values(), key=lambda x: x.key):
        if "_dbl." in f.unit or "_mpf." in f.unit or f.live is None or not f.unit.startswith("qsopt_ex/"):
            continue
        resets, tests = set(), set()
        for b, i, e in f.elements():
            if e[0] == "A" and e[1][1] == "=" and _is_mark(e[1][2]) and const_of(e[1][3]) == 0:
                resets.add(b["id"])
        if not resets:
            continue
        for bid in f.live:
            c = f.blocks[bid].get("c")
            if c is not None and any(_is_mark(nd) for nd in walk(c)):
                tests.add(bid)
        loops, dom, succ = natural_loops(prog, f)
        done = set()
        for rb in sorted(resets):
            inner = sorted((h for h in loops if rb in loops[h]), key=lambda h: len(loops[h]))
            if not inner:
                continue
            h = inner[0]
            if h in done:
                continue
            done.add(h)
            nloops += 1
            res.obligations += 1
            res.nontrivial += 1
            S = {x for x in (resets | tests) if x in loops[h]}
            r = _skips_on_number(f, succ, loops, h, S)
            loc = f.blocks[h].get("tloc") or f.loc
            if r is not None:
                res.violations.append(Violation(rule, "%s|an iteration of the mark-clearing loop can skip the reset" % f.name.replace("mpq_", ""), f.name, short_loc(loc),
                                                "the loop that clears the marks in lpinfo::iwork can %s without passing the clearing store (through the block at %s): "
                                                "stale marks stay behind and the next sparse product treats those indices as already collected" % (
                                                    "complete an iteration" if r[0] == "back" else "be left early",
                                                    short_loc(f.blocks[r[1]].get("tloc") or (f.blocks[r[1]]["e"][0][2] if f.blocks[r[1]]["e"] else loc)))))
            else:
                res.sample({"function": f.name, "loop": short_loc(loc), "verdict": "every iteration clears (or tests) its mark"}, limit=8)
    res.counts["mark_clearing_loops"] = nloops
    res.floor("mark-clearing loops", nloops, 5)
    return res


def run_delay(prog, rule="R-SCRATCH"):
    """The sparse triangular solves and the sparse row elimination of the LU update visit rows / columns in a topological order kept
    by per-row 'delay' counters (incremented once per dependency in a symbolic pass, decremented once per dependency in the numeric
    pass).  The counters describe the *structure* of the factors: no decrement / increment may be skipped because a number happens to be
    zero, otherwise a row is never released (or released early) and the solve silently returns a wrong vector after an exact
    cancellation."""
    res = RuleResult(rule + "(delay)", "no iteration of a loop that updates a dependency counter (ur_info / uc_info / lr_info / lc_info ::delay) "
                                      "skips the update because of a branch on the value of an exact number")
    nloops = 0
    for f in sorted(prog.funcs.values(), key=lambda x: x.key):
        if "factor_mpq" not in f.unit or f.live is None:
            continue
        upd = set()
        for b, i, e in f.elements():
            t = None
            if e[0] == "U" and e[1][1][:2] in ("++", "--"):
                t = strip(e[1][2])
            if isinstance(t, list) and t and t[0] == "m" and t[2].endswith("::delay"):
                upd.add(b["id"])
        # conditions such as  if (--inf[r].delay == 0)  carry the update inside the condition
        for bid in f.live:
            c = f.blocks[bid].get("c")
            if c is not None:
                for nd in walk(c):
                    if nd[0] == "u" and nd[1][:2] in ("++", "--"):
                        t = strip(nd[2])
                        if isinstance(t, list) and t and t[0] == "m" and t[2].endswith("::delay"):
                            upd.add(bid)
        if not upd:
            continue
        loops, dom, succ = natural_loops(prog, f)
        withupd = [h for h in loops if any(u in loops[h] for u in upd)]
        for h in sorted(withupd, key=lambda x: len(loops[x])):
            nloops += 1
            res.obligations += 1
            res.nontrivial += 1
            # passing = an update block of this loop, or entering a nested loop that contains updates (it may run zero times)
            nested = [g for g in withupd if g != h and loops[g] < loops[h]]
            S = {x for x in upd if x in loops[h] and not any(x in loops[g] for g in nested)} | set(nested)
            r = _skips_on_number(f, succ, loops, h, S)
            loc = f.blocks[h].get("tloc") or f.loc
            if r is not None:
                res.violations.append(Violation(rule, "%s|a dependency counter update can be skipped on a number's value" % f.name.replace("mpq_", ""), f.name, short_loc(loc),
                                                "an iteration of the loop at %s can %s without updating the delay counter because of a branch on the value of an exact "
                                                "number (block at %s): after an exact cancellation the topological order of the sparse solve / row elimination is "
                                                "wrong" % (short_loc(loc), "complete" if r[0] == "back" else "leave the loop",
                                                           short_loc(f.blocks[r[1]].get("tloc") or (f.blocks[r[1]]["e"][0][2] if f.blocks[r[1]]["e"] else loc)))))
            else:
                res.sample({"function": f.name, "loop": short_loc(loc), "verdict": "counter updated independently of number values"}, limit=6)
    res.counts["counter_loops"] = nloops
    res.floor("loops updating a dependency counter", nloops, 10)
    return res


def run_pair(prog, rule="R-MARKPAIR"):
    """every function that sets scratch marks (a non-zero store into lpinfo::iwork[..]) passes, on every path from the store to a return,
    a loop that clears marks (a loop whose body stores 0 into iwork[..]) or a direct clearing store.  The marks are shared by several
    kernels (tableau row expansion, ratio tests, partial pricing): one left set on an early exit makes a later, unrelated computation skip
    that entry."""
    from ..core import Flow, const_of
    from .certdep import natural_loops
    res = RuleResult(rule, "on every path from a store that sets a scratch mark to a return the function passes a loop (or store) that clears marks")
    nset = 0
    for f in sorted(prog.funcs.values(), key=lambda x: x.key):
        if f.live is None or "_dbl." in f.unit or "_mpf." in f.unit or not f.unit.startswith("qsopt_ex/"):
            continue
        sets, clears = set(), set()
        for b, i, e in f.elements():
            if e[0] == "A" and e[1][1] == "=":
                l = strip(e[1][2])
                if isinstance(l, list) and l and l[0] == "i" and any(isinstance(nd, list) and nd and nd[0] == "m" and nd[2].endswith("lpinfo::iwork") for nd in walk(l[1])):
                    c = const_of(e[1][3])
                    if c == 0:
                        clears.add((b["id"], i))
                    else:
                        sets.add((b["id"], i))
        if not sets:
            continue
        nset += len(sets)
        loops, dom, succ = natural_loops(prog, f)
        clear_blocks = {bid for (bid, _) in clears}
        clear_headers = {h for h, body in loops.items() if body & clear_blocks}
        bad = {}

        def xfer(b, i, e, st):
            if (b["id"], i) in sets:
                return [("dirty", e[2])]
            if (b["id"], i) in clears:
                return [("clean", "")]
            if e[0] == "R" and st[0] == "dirty":
                bad.setdefault(st[1], (e[2], b["id"], st))
            return None

        def refine(cond, truth, st):
            return None
        # reaching the header of a clearing loop cleans (the loop runs over the same list that was marked)
        hdr_cond = {id(f.blocks[h].get("c")): h for h in clear_headers if f.blocks[h].get("c") is not None}

        def refine2(cond, truth, st):
            if id(cond) in hdr_cond and st[0] == "dirty":
                return [("clean", "")]
            return None
        flw = Flow(prog, f, [("clean", "")], xfer, refine2).run()
        res.obligations += len(sets)
        res.nontrivial += len(sets)
        for setloc, (retloc, bid, st) in sorted(bad.items()):
            res.violations.append(Violation(rule, "%s|marks set at %s not cleared on a path to the return" % (f.name.replace("mpq_", ""), short_loc(setloc).split(":")[-1]),
                                            f.name, short_loc(retloc),
                                            "a path from the store that sets lp->iwork[..] (%s) reaches this return without passing a loop or store that clears marks: "
                                            "the next user of the shared scratch array skips the marked entries" % short_loc(setloc), path=flw.witness(bid, st)))
        if f.key and not bad:
            res.sample({"function": f.name, "setting_stores": len(sets), "clearing_loops": len(clear_headers), "verdict": "cleared on every path"}, limit=8)
    res.counts["mark_setting_stores"] = nset
    res.floor("stores that set a scratch mark", nset, 5)
    return res
