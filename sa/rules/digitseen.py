"""R-DIGITSEEN (C10, C11): a literal scanner reports a number only when it has consumed a digit.

The exact literal scanners return the number of characters they consumed; callers take any non-zero count for "a value was read".
A scanner is recognised by its shape: a loop over the characters with a switch whose case labels cover '0' .. '9', in a function
that returns an int local.  Path-sensitive dataflow (set-of-tuples): the state carries "a digit case was executed" together with the
zero / non-zero class of the count and of the function's flag locals (locals that only ever receive constants or are incremented);
at every return the count must not be possibly non-zero on a path that never went through a digit case - a lone sign or '.' is not a
number (`x + + y` would give y the coefficient 0)."""
import collections

from ..core import walk, strip, is_var, callee, const_of, show, short_loc, Flow
from ..intstate import IntCells, Z, NZ, norm_local
from ..result import RuleResult, Violation

DIGITS = set(range(48, 58))


def run(prog, rule="R-DIGITSEEN", floor=2):
    res = RuleResult(rule, "no return of a literal scanner hands back a count that may be non-zero on a path that executed no digit case")
    n = 0
    for f in sorted(prog.funcs.values(), key=lambda x: x.key):
        if f.live is None or "_dbl." in f.unit or "_mpf." in f.unit or not f.unit.startswith("qsopt_ex/") or "int" not in (f.ret or ""):
            continue
        dblocks = {bid for bid in f.live if f.blocks[bid].get("l", [""])[0] == "case" and f.blocks[bid]["l"][1] in DIGITS}
        labels = {f.blocks[bid]["l"][1] for bid in dblocks}
        # fall-through: case '0': case '1': ... share one body; the label blocks chain into it
        if not DIGITS <= labels:
            continue
        rets = [e for b, i, e in f.elements() if e[0] == "R" and e[1] is not None and is_var(e[1], kind="l")]
        if not rets:
            continue
        cnt = strip(rets[0][1])[2]
        # flag locals: only constants assigned / incremented
        assigned = collections.defaultdict(list)
        for b, i, e in f.elements(live_only=False):
            if e[0] == "A" and is_var(e[1][2], kind="l"):
                assigned[strip(e[1][2])[2]].append(e[1][3] if e[1][1] == "=" else None)
            elif e[0] == "D":
                for n2, init in e[1]:
                    if init is not None:
                        assigned[n2].append(init)
            elif e[0] == "U" and is_var(e[1][2], kind="l"):
                assigned[strip(e[1][2])[2]].append("inc")
        flags = sorted(v for v, rs in assigned.items() if v != cnt and rs and all(r == "inc" or (r is not None and const_of(r) is not None) for r in rs))[:10]
        names = [cnt] + flags
        cells = IntCells(names, lambda st, c: st[1][names.index(c)], lambda st, c, v: (st[0], st[1][:names.index(c)] + (v,) + st[1][names.index(c) + 1:]))
        bad = {}
        n += 1
        res.obligations += 1
        res.nontrivial += 1

        def xfer(b, i, e, st, dblocks=dblocks, cells=cells, bad=bad, cnt=cnt, names=names):
            if b["id"] in dblocks and i == 0 and not st[0]:
                st = (True, st[1])
                r = xfer(b, i, e, st)
                return r if r is not None else [st]
            if e[0] == "D":
                out = [st]
                for name, init in e[1]:
                    nxt = []
                    for s_ in out:
                        r = cells.declare(s_, name, init)
                        nxt.extend(r if r is not None else [s_])
                    out = nxt
                return out
            if e[0] == "A":
                r = cells.assign(st, e[1][2], e[1][3], e[1][1])
                if r is not None:
                    return r
            if e[0] == "U" and is_var(e[1][2], kind="l") and norm_local(strip(e[1][2])[2]) in names:
                nm = norm_local(strip(e[1][2])[2])
                if "++" in e[1][1]:
                    return [cells.put(st, nm, NZ)]
                return [cells.put(st, nm, Z), cells.put(st, nm, NZ)]
            if e[0] == "R" and e[1] is not None:
                if NZ in cells.values(st, e[1]) and not st[0]:
                    bad.setdefault(e[2], (b["id"], st))
            return None
        # the digit label blocks may be empty (fall-through chain): mark on entry of any of them through the first element of the body they
        # lead to - handled by also treating their common successor
        body = set()
        for bid in dblocks:
            x = bid
            for _ in range(12):
                if f.blocks[x]["e"]:
                    body.add(x)
                    break
                ss = [s for s in prog.live_succs(f, f.blocks[x]) if s is not None]
                if len(ss) != 1:
                    break
                x = ss[0]
        dblocks |= body
        flw = Flow(prog, f, [(False, tuple(Z for _ in names))], xfer, lambda c, t, st: cells.refine(c, t, st), max_visits=400000).run()
        if bad:
            loc, (bid, st) = sorted(bad.items())[0]
            res.violations.append(Violation(rule, "%s|count returned without a digit" % f.name, f.name, short_loc(loc),
                                            "%s can return a non-zero count %s on a path on which no digit case was executed (a sign, a '.' alone): the caller takes "
                                            "the count for 'a value was read' and uses the value 0" % (f.name, cnt), path=flw.witness(bid, st)))
        else:
            res.sample({"function": f.name, "count": cnt, "flags_tracked": flags, "verdict": "every non-zero count has seen a digit"}, limit=6)
    res.counts["literal_scanners"] = n
    res.floor("literal scanners (switch over '0'..'9' in a function returning a count)", n, floor)
    return res


def run_expmark(prog, rule="R-EXPMARK", floor=1):
    """an exponent marker is part of the number only when an exponent follows.  In a literal scanner that has cases for 'e' / 'E', no return
    hands back a count that still includes a marker after which no digit case was executed: on every path from the marker case to a
    return that passes no digit case, the count is re-assigned (cut back to the end of the mantissa) - same path-sensitive dataflow and
    flag tracking as R-DIGITSEEN.  Names may begin with e / E in the LP dialect: `3ex` is 3 times `ex`; a scanner that swallows the `e`
    hands the coefficient to the column `x`."""
    res = RuleResult(rule, "no return of a literal scanner hands back a count that includes an exponent marker after which no digit was consumed")
    n = 0
    for f in sorted(prog.funcs.values(), key=lambda x: x.key):
        if f.live is None or "_dbl." in f.unit or "_mpf." in f.unit or not f.unit.startswith("qsopt_ex/") or "int" not in (f.ret or ""):
            continue
        lab = {bid: f.blocks[bid]["l"][1] for bid in f.live if f.blocks[bid].get("l", [""])[0] == "case"}
        if not DIGITS <= set(lab.values()) or not ({101, 69} & set(lab.values())):
            continue
        rets = [e for b, i, e in f.elements() if e[0] == "R" and e[1] is not None and is_var(e[1], kind="l")]
        if not rets:
            continue
        cnt = strip(rets[0][1])[2]

        def body_of(bids):
            out = set()
            for bid in bids:
                x = bid
                for _ in range(12):
                    if f.blocks[x]["e"]:
                        out.add(x)
                        break
                    ss = [s for s in prog.live_succs(f, f.blocks[x]) if s is not None]
                    if len(ss) != 1:
                        break
                    x = ss[0]
            return out
        dblocks = body_of([b for b, v in lab.items() if v in DIGITS])
        eblocks = body_of([b for b, v in lab.items() if v in (101, 69)])
        assigned = collections.defaultdict(list)
        for b, i, e in f.elements(live_only=False):
            if e[0] == "A" and is_var(e[1][2], kind="l"):
                assigned[strip(e[1][2])[2]].append(e[1][3] if e[1][1] == "=" else None)
            elif e[0] == "D":
                for n2, init in e[1]:
                    if init is not None:
                        assigned[n2].append(init)
            elif e[0] == "U" and is_var(e[1][2], kind="l"):
                assigned[strip(e[1][2])[2]].append("inc")
        flags = sorted(v for v, rs in assigned.items() if v != cnt and rs and all(r == "inc" or (r is not None and const_of(r) is not None) for r in rs))[:12]
        names = [cnt] + flags
        cells = IntCells(names, lambda st, c: st[1][names.index(c)], lambda st, c, v: (st[0], st[1][:names.index(c)] + (v,) + st[1][names.index(c) + 1:]))
        bad = {}
        n += 1
        res.obligations += 1
        res.nontrivial += 1

        # st[0] = (marker open, count cut back since)
        def xfer(b, i, e, st):
            ae, re_ = st[0]
            if i == 0 and b["id"] in eblocks:
                ae, re_ = True, False
            if i == 0 and b["id"] in dblocks and b["id"] not in eblocks:
                ae = False
            if e[0] == "A" and e[1][1] == "=" and is_var(e[1][2], kind="l", name=cnt) and ae:
                re_ = True
            st = ((ae, re_), st[1])
            if e[0] == "D":
                out = [st]
                for name, init in e[1]:
                    nxt = []
                    for s_ in out:
                        r = cells.declare(s_, name, init)
                        nxt.extend(r if r is not None else [s_])
                    out = nxt
                return out
            if e[0] == "A":
                r = cells.assign(st, e[1][2], e[1][3], e[1][1])
                if r is not None:
                    return r
            if e[0] == "U" and is_var(e[1][2], kind="l") and norm_local(strip(e[1][2])[2]) in names:
                nm = norm_local(strip(e[1][2])[2])
                if "++" in e[1][1]:
                    return [cells.put(st, nm, NZ)]
                return [cells.put(st, nm, Z), cells.put(st, nm, NZ)]
            if e[0] == "R" and e[1] is not None:
                if NZ in cells.values(st, e[1]) and ae and not re_:
                    bad.setdefault(e[2], (b["id"], st))
            return [st]

        flw = Flow(prog, f, [((False, False), tuple(Z for _ in names))], xfer, lambda c, t, st: cells.refine(c, t, st), max_visits=800000).run()
        if bad:
            loc, (bid, st) = sorted(bad.items())[0]
            res.violations.append(Violation(rule, "%s|count includes a bare exponent marker" % f.name, f.name, short_loc(loc),
                                            "%s can return a count %s that includes an 'e' / 'E' after which no digit was consumed ('3ex': the scanner takes "
                                            "'3e' and the caller continues behind it)" % (f.name, cnt), path=flw.witness(bid, st)))
        else:
            res.sample({"function": f.name, "count": cnt, "flags_tracked": flags, "verdict": "a bare marker is never part of the count"}, limit=6)
    res.counts["literal_scanners_with_an_exponent_case"] = n
    res.floor("literal scanners with an exponent marker case", n, floor)
    return res


def run_parts(prog, rule="R-PARTDIGIT", floor=1):
    """every part of a fraction literal has a digit.  A scanner with a case for '/' starts a new part (the denominator) there; the count it
    returns must be zero on every path on which the '/' case is entered before any digit case was executed - "/5" is not a number (it was
    read as 0, the bound `y <= /5` became `y <= 0`).  Same dataflow as R-DIGITSEEN: the state carries 'digit seen' and a ghost 'a part was
    closed without a digit'; flag locals are tracked so that the rejection `if (bad) count = 0` is followed."""
    res = RuleResult(rule, "no return of a fraction scanner hands back a non-zero count on a path on which the '/' case was entered before any digit")
    n = 0
    for f in sorted(prog.funcs.values(), key=lambda x: x.key):
        if f.live is None or "_dbl." in f.unit or "_mpf." in f.unit or not f.unit.startswith("qsopt_ex/") or "int" not in (f.ret or ""):
            continue
        lab = {bid: f.blocks[bid]["l"][1] for bid in f.live if f.blocks[bid].get("l", [""])[0] == "case"}
        if not DIGITS <= set(lab.values()) or 47 not in set(lab.values()):
            continue
        rets = [e for b, i, e in f.elements() if e[0] == "R" and e[1] is not None and is_var(e[1], kind="l")]
        if not rets:
            continue
        cnt = strip(rets[0][1])[2]

        def body_of(bids):
            out = set()
            work = [(b_, 0) for b_ in bids]
            while work:
                x, d = work.pop()
                if d > 12:
                    continue
                if f.blocks[x]["e"]:
                    out.add(x)
                    continue
                for s_ in prog.live_succs(f, f.blocks[x]):          # a case that opens with a test: both arms belong to it
                    if s_ is not None:
                        work.append((s_, d + 1))
            return out
        dblocks = body_of([b for b, v in lab.items() if v in DIGITS])
        sblocks = body_of([b for b, v in lab.items() if v == 47])
        assigned = collections.defaultdict(list)
        for b, i, e in f.elements(live_only=False):
            if e[0] == "A" and is_var(e[1][2], kind="l"):
                assigned[strip(e[1][2])[2]].append(e[1][3] if e[1][1] == "=" else None)
            elif e[0] == "D":
                for n2, init in e[1]:
                    if init is not None:
                        assigned[n2].append(init)
            elif e[0] == "U" and is_var(e[1][2], kind="l"):
                assigned[strip(e[1][2])[2]].append("inc")
        flags = sorted(v for v, rs in assigned.items() if v != cnt and rs and all(r == "inc" or (r is not None and const_of(r) is not None) for r in rs))[:12]
        names = [cnt] + flags
        cells = IntCells(names, lambda st, c: st[1][names.index(c)], lambda st, c, v: (st[0], st[1][:names.index(c)] + (v,) + st[1][names.index(c) + 1:]))
        bad = {}
        n += 1
        res.obligations += 1
        res.nontrivial += 1

        def xfer(b, i, e, st):
            dig, ghost = st[0]
            if i == 0 and b["id"] in sblocks and not dig:
                ghost = True
            if i == 0 and b["id"] in dblocks:
                dig = True
            st = ((dig, ghost), st[1])
            if e[0] == "D":
                out = [st]
                for name, init in e[1]:
                    nxt = []
                    for s_ in out:
                        r = cells.declare(s_, name, init)
                        nxt.extend(r if r is not None else [s_])
                    out = nxt
                return out
            if e[0] == "A":
                r = cells.assign(st, e[1][2], e[1][3], e[1][1])
                if r is not None:
                    return r
            if e[0] == "U" and is_var(e[1][2], kind="l") and norm_local(strip(e[1][2])[2]) in names:
                nm = norm_local(strip(e[1][2])[2])
                if "++" in e[1][1]:
                    return [cells.put(st, nm, NZ)]
                return [cells.put(st, nm, Z), cells.put(st, nm, NZ)]
            if e[0] == "R" and e[1] is not None:
                if NZ in cells.values(st, e[1]) and ghost:
                    bad.setdefault(e[2], (b["id"], st))
            return [st]

        flw = Flow(prog, f, [((False, False), tuple(Z for _ in names))], xfer, lambda c, t, st: cells.refine(c, t, st), max_visits=800000).run()
        if bad:
            loc, (bid, st) = sorted(bad.items())[0]
            res.violations.append(Violation(rule, "%s|a part of the fraction without a digit is accepted" % f.name, f.name, short_loc(loc),
                                            "%s can return a non-zero count %s on a path on which the '/' case was entered before any digit: '/5' is taken for the "
                                            "number 0" % (f.name, cnt), path=flw.witness(bid, st)))
        else:
            res.sample({"function": f.name, "count": cnt, "verdict": "a numerator without a digit is rejected"}, limit=6)
    res.counts["fraction_scanners"] = n
    res.floor("literal scanners with a '/' case", n, floor)
    return res
